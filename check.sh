#!/bin/bash
# usage: check.sh <property id> [quick|thorough]
# Runs the static checker on /repo's current working tree. Exit 0 = held, 1 = VIOLATION printed.
set -u
cd "$(dirname "$0")"
PROP="$1"; TIER="${2:-${VERIF_TIER:-quick}}"
export GOFLAGS=-mod=mod GOPROXY=off GOSUMDB=off GOTOOLCHAIN=local GOWORK=off
if [ ! -x checker/bin/jklcheck ] || [ -n "$(find checker -name '*.go' -newer checker/bin/jklcheck 2>/dev/null | head -1)" ]; then
  (cd checker && go build -o bin/jklcheck ./cmd/jklcheck) || { echo "error: cannot build checker"; exit 2; }
fi
exec checker/bin/jklcheck -prop "$PROP" -tier "$TIER" -repo "${VERIF_REPO:-/repo}" -verif "$(pwd)"
