package main

import (
	"fmt"
	"sort"

	"golang.org/x/tools/go/callgraph/cha"
	"golang.org/x/tools/go/callgraph/vta"
	"golang.org/x/tools/go/ssa"
	"golang.org/x/tools/go/ssa/ssautil"

	"jklcheck/core"
)

// crossCheckCallGraph (thorough tier): builds an independent call graph of the same program with VTA
// (seeded by CHA) and fails the run if VTA resolves an edge between two custom functions that the
// checker's own resolution (static callees + CHA over custom types + function values) does not have:
// every who-may-call / reachability rule relies on the checker's graph being an over-approximation.
func crossCheckCallGraph(r *core.Run) {
	p := r.Prog
	own := p.CG()
	has := map[[2]*ssa.Function]bool{}
	for from, tos := range own.Out {
		for _, to := range tos {
			has[[2]*ssa.Function{from, to}] = true
		}
	}
	g := vta.CallGraph(ssautil.AllFunctions(p.SSA), cha.CallGraph(p.SSA))
	nEdges, nCustom := 0, 0
	var missing []string
	for fn, node := range g.Nodes {
		if fn == nil || !core.IsCustomFn(fn) || fn.Blocks == nil || fn.Synthetic != "" || core.IsTestSupportPkg(core.FnPkgPath(fn)) {
			continue
		}
		for _, e := range node.Out {
			nEdges++
			to := e.Callee.Func
			if to == nil || !core.IsCustomFn(to) || to.Blocks == nil || core.IsTestSupportPkg(core.FnPkgPath(to)) {
				continue
			}
			// unwrap synthetic wrappers/thunks on the callee side to the declared function
			target := to
			if to.Synthetic != "" {
				continue
			}
			nCustom++
			if !has[[2]*ssa.Function{fn, target}] && fn != target {
				// own graph attributes closure calls to the creating function; accept when the callee is an
				// anonymous function created in the caller's chain of parents, or the call is through a parameter
				if target.Parent() != nil {
					continue
				}
				if e.Site != nil && e.Site.Common().StaticCallee() == nil && !e.Site.Common().IsInvoke() {
					continue // dynamic call through a function value: attributed to the function that mentions the value
				}
				missing = append(missing, fmt.Sprintf("%s -> %s", core.FnName(fn), core.FnName(target)))
			}
		}
	}
	sort.Strings(missing)
	r.Extra["vta_edges_examined"] = nEdges
	r.Extra["vta_custom_edges"] = nCustom
	r.Extra["vta_edges_missing_in_own_graph"] = len(missing)
	if len(missing) > 0 {
		if len(missing) > 10 {
			missing = missing[:10]
		}
		r.Undecided("callgraph-crosscheck", "vta-edge-missing", "", fmt.Sprintf("VTA resolves %d custom-to-custom call edges the checker's graph lacks, e.g. %v", len(missing), missing))
	}
}
