// Command jklcheck decides the static rules of DESIGN.md on /repo's current source.
package main

import (
	"flag"
	"fmt"
	"go/token"
	"go/types"
	"golang.org/x/tools/go/ssa"
	"os"
	"sort"
	"strconv"
	"strings"
	"time"

	"jklcheck/core"
	"jklcheck/rules"
)

func main() {
	prop := flag.String("prop", "", "property id (C01..C20)")
	tier := flag.String("tier", "quick", "quick|thorough")
	repo := flag.String("repo", "/repo", "repository root")
	verif := flag.String("verif", "/verif", "verif root")
	infer := flag.String("infer", "", "print must-pass atoms for handlers of a module (or 'all')")
	dump := flag.String("dump", "", "dump: handlers|store|bank")
	mutant := flag.String("mutant", "", "apply a self-test mutant (json) through an overlay and print the rule instances that fire")
	flag.Parse()
	seed := 0
	if s := os.Getenv("VERIF_SEED"); s != "" {
		seed, _ = strconv.Atoi(s)
	}
	if t := os.Getenv("VERIF_TIER"); t != "" && *tier == "" {
		*tier = t
	}
	t0 := time.Now()
	var overlay map[string][]byte
	if *mutant != "" {
		var err error
		overlay, err = mutantOverlay(*repo, *mutant)
		if err != nil {
			fmt.Println("MUTANT-SKIP\t" + err.Error())
			os.Exit(0)
		}
	}
	rules.SelfTestHook = func(r *core.Run) { crossCheckCallGraph(r); selfTest(r, *repo, *verif) }
	prog, err := core.Load(core.LoadConfig{Repo: *repo, Whole: false, Overlay: overlay})
	if err != nil && *mutant != "" {
		fmt.Println("MUTANT-NOCOMPILE\t" + strings.SplitN(err.Error(), "\n", 3)[1])
		os.Exit(0)
	}
	if err != nil {
		fmt.Println("error:", err)
		if *prop != "" {
			fmt.Printf("VIOLATION property=%s replay=%s\n", *prop, "load-failure")
			os.Exit(1)
		}
		os.Exit(2)
	}
	fmt.Fprintf(os.Stderr, "loaded %d packages, %d functions in %.1fs\n", len(prog.Pkgs), len(prog.Funcs), time.Since(t0).Seconds())
	switch {
	case *dump != "":
		doDump(prog, *dump)
	case *infer != "":
		doInfer(prog, *infer)
	case *prop != "":
		os.Exit(rules.RunProperty(prog, *prop, *tier, seed, *verif, *mutant != ""))
	default:
		flag.Usage()
		os.Exit(2)
	}
}

func doDump(p *core.Program, what string) {
	if strings.HasPrefix(what, "absexec:") {
		// absexec:<substring of function name>: the abstract executions of the matching functions
		for _, fn := range p.Funcs {
			if !strings.Contains(core.FnName(fn), what[8:]) {
				continue
			}
			execs, complete := p.AbstractExecutions(fn)
			fmt.Printf("== %s: %d executions complete=%v\n", core.FnName(fn), len(execs), complete)
			for i := range execs {
				fmt.Printf("-- exec %d: %s\n", i, p.DescribeExec(&execs[i]))
			}
		}
		return
	}
	if what == "keybuilders" {
		for _, fn := range p.Funcs {
			if !strings.Contains(core.FnPkgPath(fn), "/types") || !strings.HasSuffix(fn.Name(), "Key") || fn.Signature.Results().Len() != 1 || fn.Signature.Results().At(0).Type().String() != "[]byte" {
				continue
			}
			tb := core.NewTermBuilder(p)
			for _, b := range fn.Blocks {
				if ret, ok := b.Instrs[len(b.Instrs)-1].(*ssa.Return); ok {
					fmt.Printf("%-60s %s\n", core.FnName(fn), tb.Term(ret.Results[0]))
				}
			}
		}
		return
	}
	switch what {
	case "handlers":
		hs, err := p.Handlers()
		if err != nil {
			fmt.Println("error:", err)
			os.Exit(2)
		}
		for _, h := range hs {
			fmt.Printf("%-40s %s %s\n", h.Key(), core.FnName(h.Fn), p.Pos(h.Fn.Pos()))
		}
		fmt.Println(len(hs), "handlers")
	case "store":
		ops := p.AllStoreOps()
		for _, o := range ops {
			fmt.Printf("%-8s %-14s %-28q complete=%v raw=%v types=%v %s %s\n", o.Kind, o.Module, o.Prefix, o.Complete, o.Raw, o.Types, core.FnName(o.Fn), p.InstrPos(o.Instr))
		}
		fmt.Println(len(ops), "store ops")
		for _, e := range p.StoreEscapes() {
			fmt.Println("ESCAPE", e)
		}
	case "arith":
		hs, _ := p.Handlers()
		seen := map[string]bool{}
		for _, h := range hs {
			for _, fn := range p.Summary(h.Fn).Funcs {
				for _, b := range fn.Blocks {
					for _, in := range b.Instrs {
						bo, ok := in.(*ssa.BinOp)
						if !ok || (bo.Op != token.MUL && bo.Op != token.ADD) {
							continue
						}
						bt, ok := bo.Type().Underlying().(*types.Basic)
						if !ok || bt.Info()&types.IsInteger == 0 {
							continue
						}
						px := p.ResolveToEntry(p.ProvAt(bo.X, "", bo), h.Fn)
						py := p.ResolveToEntry(p.ProvAt(bo.Y, "", bo), h.Fn)
						fx, fy := p.MsgFields(px, h), p.MsgFields(py, h)
						if len(fx)+len(fy) == 0 {
							continue
						}
						k := p.InstrPos(bo)
						if seen[k+h.Key()] {
							continue
						}
						seen[k+h.Key()] = true
						fmt.Printf("%s %s %s %s  X=%v Y=%v\n", h.Key(), core.FnName(fn), k, bo.Op, px.Strings(), py.Strings())
					}
				}
			}
		}
	case "bank":
		n := 0
		for _, fn := range p.Funcs {
			if core.IsTestSupportPkg(core.FnPkgPath(fn)) || strings.HasSuffix(p.Pos(fn.Pos()), "test_helpers.go") {
				continue
			}
			for _, b := range p.BankOps(fn) {
				n++
				var ps []string
				for _, a := range b.Args {
					ps = append(ps, p.ProvOf(a, "").String())
				}
				fmt.Printf("%s %s %s\n   %s\n", b.Method, core.FnName(fn), p.InstrPos(b.Instr), strings.Join(ps, "\n   "))
			}
		}
		fmt.Println(n, "bank ops")
	}
}

func doInfer(p *core.Program, mod string) {
	hs, err := p.Handlers()
	if err != nil {
		fmt.Println("error:", err)
		os.Exit(2)
	}
	units := map[string]bool{}
	for _, h := range hs {
		if mod != "all" && h.Module != mod {
			continue
		}
		fmt.Printf("== %s\n", h.Key())
		reach := p.Reachable(h.Fn)
		for _, fn := range core.SortedFuncs(reach) {
			effs := p.Effects(fn)
			if len(effs) == 0 || units[fn.String()+h.Key()] {
				continue
			}
			rets := p.Returns(fn)
			nc := 0
			for _, r := range rets {
				if r.Class == core.RetCommit {
					nc++
				}
			}
			fmt.Printf("  unit %s (%d/%d returns commit)\n", core.FnName(fn), nc, len(rets))
			for _, e := range effs {
				fmt.Printf("    effect %s\n", p.DescribeEffect(e))
				atoms := p.MustPassAtoms(fn, e, false)
				sort.Strings(atoms)
				for _, a := range atoms {
					fmt.Printf("       must-pass %s\n", a)
				}
			}
		}
	}
}
