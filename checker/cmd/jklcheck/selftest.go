package main

import (
	"encoding/json"
	"fmt"
	"os"
	"os/exec"
	"path/filepath"
	"sort"
	"strings"
	"sync"

	"jklcheck/core"
)

// Mutant is one self-test variant: a one-edit rewrite of a repository file, applied through the
// loader's overlay (no scratch copy), that must make the expected rule instance fire.
type Mutant struct {
	Name            string       `json:"name"`
	Property        string       `json:"property"`
	File            string       `json:"file"`
	Find            string       `json:"find"`
	Replace         string       `json:"replace"`
	Edits           []MutantEdit `json:"edits,omitempty"`       // additional (or alternative) edits, e.g. the hunks of a seeded patch
	ExpectNone      bool         `json:"expect_none,omitempty"` // behaviour-preserving refactor: no rule may fire
	ExpectRule      string       `json:"expect_rule"`
	ExpectConstruct string       `json:"expect_construct"` // substring
	Note            string       `json:"note,omitempty"`
}

// MutantEdit is one textual replacement in one file.
type MutantEdit struct {
	File    string `json:"file"`
	Find    string `json:"find"`
	Replace string `json:"replace"`
	Line    int    `json:"line,omitempty"` // hint: line of the hunk in the original patch (disambiguates repeated anchors)
}

func mutantOverlay(repo, path string) (map[string][]byte, error) {
	b, err := os.ReadFile(path)
	if err != nil {
		return nil, err
	}
	var m Mutant
	if err := json.Unmarshal(b, &m); err != nil {
		return nil, err
	}
	edits := m.Edits
	if m.File != "" {
		edits = append([]MutantEdit{{File: m.File, Find: m.Find, Replace: m.Replace}}, edits...)
	}
	out := map[string][]byte{}
	for _, e := range edits {
		f := filepath.Join(repo, e.File)
		src, ok := out[f]
		if !ok {
			var err error
			src, err = os.ReadFile(f)
			if err != nil {
				if e.Find == "" && e.Replace != "" {
					out[f] = []byte(e.Replace) // a file created by the patch
					continue
				}
				return nil, fmt.Errorf("anchor file missing: %s", e.File)
			}
		}
		n := strings.Count(string(src), e.Find)
		if n == 0 || (n != 1 && e.Line == 0) {
			return nil, fmt.Errorf("anchor text occurs %d times in %s", n, e.File)
		}
		if n == 1 {
			out[f] = []byte(strings.Replace(string(src), e.Find, e.Replace, 1))
			continue
		}
		// repeated anchor: take the occurrence that starts nearest to the hinted line
		best, bestDist := -1, 1<<30
		for off := 0; ; {
			i := strings.Index(string(src)[off:], e.Find)
			if i < 0 {
				break
			}
			pos := off + i
			line := 1 + strings.Count(string(src)[:pos], "\n")
			d := line - e.Line
			if d < 0 {
				d = -d
			}
			if d < bestDist {
				best, bestDist = pos, d
			}
			off = pos + 1
		}
		out[f] = []byte(string(src)[:best] + e.Replace + string(src)[best+len(e.Find):])
	}
	if len(out) == 0 {
		return nil, fmt.Errorf("mutant has no edits")
	}
	return out, nil
}

// selfTest runs every stored mutant of the property in a sub-process (thorough tier).
// A mutant whose anchor no longer exists is skipped and reported, never a failure of the property;
// a mutant that applies but does not make its rule fire is a checker self-test failure (undecided).
func selfTest(r *core.Run, repo, verif string) {
	files, _ := filepath.Glob(filepath.Join(verif, "selftest", r.Prop, "*.json"))
	sort.Strings(files)
	if len(files) == 0 {
		return
	}
	self, err := os.Executable()
	if err != nil {
		r.SelfTest = append(r.SelfTest, "cannot locate checker binary: "+err.Error())
		return
	}
	type res struct {
		file, line string
		ok, skip   bool
	}
	results := make([]res, len(files))
	sem := make(chan struct{}, 6)
	var wg sync.WaitGroup
	for i, f := range files {
		wg.Add(1)
		go func(i int, f string) {
			defer wg.Done()
			sem <- struct{}{}
			defer func() { <-sem }()
			var m Mutant
			b, _ := os.ReadFile(f)
			if err := json.Unmarshal(b, &m); err != nil {
				results[i] = res{f, "bad mutant file: " + err.Error(), false, false}
				return
			}
			cmd := exec.Command(self, "-prop", r.Prop, "-tier", "quick", "-repo", repo, "-verif", verif, "-mutant", f)
			cmd.Env = append(os.Environ(), "GOFLAGS=-mod=mod", "GOPROXY=off", "GOWORK=off")
			out, _ := cmd.Output()
			fired := []string{}
			status := ""
			for _, ln := range strings.Split(string(out), "\n") {
				parts := strings.Split(ln, "\t")
				switch parts[0] {
				case "MUTANT-SKIP", "MUTANT-NOCOMPILE":
					status = ln
				case "MUTANT-FIRES":
					if len(parts) >= 3 {
						fired = append(fired, parts[1]+" "+parts[2])
						if parts[1] == m.ExpectRule && strings.Contains(parts[2], m.ExpectConstruct) {
							status = "fires"
						}
					}
				}
			}
			name := filepath.Base(f)
			if m.ExpectNone {
				switch {
				case strings.HasPrefix(status, "MUTANT-SKIP"), strings.HasPrefix(status, "MUTANT-NOCOMPILE"):
					results[i] = res{name, name + ": skipped (" + strings.ReplaceAll(status, "\t", " ") + ")", true, true}
				case len(fired) == 0:
					results[i] = res{name, name + ": behaviour-preserving refactor, silent as required", true, false}
				default:
					results[i] = res{name, fmt.Sprintf("%s: FALSE ALARM on a behaviour-preserving refactor (fired: %s)", name, strings.Join(fired, "; ")), false, false}
				}
				return
			}
			switch {
			case status == "fires":
				results[i] = res{name, fmt.Sprintf("%s: fires %s %s (all: %s)", name, m.ExpectRule, m.ExpectConstruct, strings.Join(fired, "; ")), true, false}
			case strings.HasPrefix(status, "MUTANT-SKIP"), strings.HasPrefix(status, "MUTANT-NOCOMPILE"):
				results[i] = res{name, name + ": skipped (" + strings.ReplaceAll(status, "\t", " ") + ")", true, true}
			default:
				results[i] = res{name, fmt.Sprintf("%s: DID NOT FIRE %s %s (fired: %s)", name, m.ExpectRule, m.ExpectConstruct, strings.Join(fired, "; ")), false, false}
			}
		}(i, f)
	}
	wg.Wait()
	nOK, nSkip := 0, 0
	for _, x := range results {
		r.SelfTest = append(r.SelfTest, x.line)
		if x.skip {
			nSkip++
		} else if x.ok {
			nOK++
		} else {
			fmt.Println("CHECKER-SELFTEST-FAILED", x.line)
			r.Extra["selftest_failed"] = true
		}
	}
	r.Extra["selftest_mutants"] = len(files)
	r.Extra["selftest_fired"] = nOK
	r.Extra["selftest_skipped"] = nSkip
}
