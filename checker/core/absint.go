package core

import (
	"fmt"
	"go/constant"
	"go/token"
	"go/types"
	"os"
	"sort"
	"strings"

	"golang.org/x/tools/go/ssa"
)

// Small-domain abstract execution of one function (engine E12).
//
// The CFG-path guard check (PassEdges + PathExists) judges a guard by the branch that consumes the condition. Code
// that first computes truth values into variables and branches later (decision flags, `refusal := nil; switch {case
// …: refusal = err}; if refusal == nil {…}`, verdict enums, named results with one exit) passes the same facts
// through data instead of control, and a path search over edges cannot see them.
//
// Here every execution of the function is enumerated over a tiny abstract domain — booleans, nil / non-nil,
// small integer constants — forking only where a branch condition is not determined by what the path has already
// fixed. Along each execution the value of every boolean condition that was evaluated is recorded. A guard then is a
// statement about executions: "in every execution that performs the effect (and commits), some condition matching
// the guard was evaluated before the effect with the required truth value". Small helpers are executed in line.

type absKind int8

const (
	akUnknown absKind = iota
	akBool
	akNil // B: is nil
	akInt
	akStruct
)

type absVal struct {
	K absKind
	B bool
	I int64
	F map[int]absField // akStruct: the fields assigned so far (the others hold their zero value)
}

// absField: the abstract value of a struct field and the SSA value that was stored into it.
type absField struct {
	V   absVal
	Src ssa.Value
}

// AbsExec is one abstract execution.
type AbsExec struct {
	Vals  map[ssa.Value]bool      // truth of boolean SSA values evaluated on this execution
	Seq   map[ssa.Value]int       // evaluation order of those values
	Calls map[ssa.Instruction]int // order in which call instructions were executed
	Alias map[ssa.Value]ssa.Value // phi -> the value it carried on this execution
	// Inlined: calls whose callee was executed in line (its instructions are in Calls)
	Inlined map[ssa.Instruction]bool
	Panic   bool
	Edges   map[Edge]bool // branch edges taken
	Tested  map[ssa.Value]bool
	Ret     *ssa.Return // return of the top function (nil: panic / cut)
	// RetVals: the returned values, phis replaced by the value they carried; RetKnown/RetBool: a boolean result
	// determined by the execution
	RetVals  []ssa.Value
	RetKnown []bool
	RetBool  []bool
	// ErrNil: abstract nil-ness of the top function's error result at Ret (0 unknown, 1 nil, 2 non-nil)
	ErrNil int8
}

type absState struct {
	env     map[ssa.Value]absVal
	vals    map[ssa.Value]bool
	seq     map[ssa.Value]int
	calls   map[ssa.Instruction]int
	tup     map[ssa.Value][]absVal
	alias   map[ssa.Value]ssa.Value
	mem     map[*ssa.Alloc]map[int]absField // local structs written field by field
	tupSrc  map[ssa.Value]map[int]ssa.Value
	inlined map[ssa.Instruction]bool
	edges   map[Edge]bool
	tested  map[ssa.Value]bool      // values a branch of the analysed function decided on (directly or through ! / == nil / a carried value)
	cell    map[*ssa.Alloc]absField // scalar local variables that live in memory (captured by a closure that only reads them)
	clock   int
	visit   map[*ssa.BasicBlock]int
	snaps   map[*ssa.BasicBlock][]string
}

func newAbsState() *absState {
	return &absState{env: map[ssa.Value]absVal{}, vals: map[ssa.Value]bool{}, seq: map[ssa.Value]int{}, calls: map[ssa.Instruction]int{}, tup: map[ssa.Value][]absVal{}, alias: map[ssa.Value]ssa.Value{}, mem: map[*ssa.Alloc]map[int]absField{}, tupSrc: map[ssa.Value]map[int]ssa.Value{}, inlined: map[ssa.Instruction]bool{}, edges: map[Edge]bool{}, tested: map[ssa.Value]bool{}, cell: map[*ssa.Alloc]absField{}, visit: map[*ssa.BasicBlock]int{}, snaps: map[*ssa.BasicBlock][]string{}}
}

func (s *absState) clone() *absState {
	c := newAbsState()
	c.clock = s.clock
	for k, v := range s.alias {
		c.alias[k] = v
	}
	for k, v := range s.snaps {
		c.snaps[k] = append([]string(nil), v...)
	}
	for k, v := range s.tupSrc {
		c.tupSrc[k] = v
	}
	for k := range s.inlined {
		c.inlined[k] = true
	}
	for k := range s.edges {
		c.edges[k] = true
	}
	for k := range s.tested {
		c.tested[k] = true
	}
	for k, v := range s.cell {
		c.cell[k] = v
	}
	for k, v := range s.mem {
		m := map[int]absField{}
		for i, f := range v {
			m[i] = f
		}
		c.mem[k] = m
	}
	for k, v := range s.env {
		c.env[k] = v
	}
	for k, v := range s.vals {
		c.vals[k] = v
	}
	for k, v := range s.seq {
		c.seq[k] = v
	}
	for k, v := range s.calls {
		c.calls[k] = v
	}
	for k, v := range s.tup {
		c.tup[k] = v
	}
	for k, v := range s.visit {
		c.visit[k] = v
	}
	return c
}

func (s *absState) note(v ssa.Value, b bool) {
	if _, ok := s.seq[v]; !ok {
		s.clock++
		s.seq[v] = s.clock
	}
	s.vals[v] = b
}

type absRun struct {
	p        *Program
	limit    int
	count    int
	complete bool
	// region: when set, executions of the top function end on entering a block outside it (or its stop block)
	top    *ssa.Function
	region func(b *ssa.BasicBlock) bool
}

type absResult struct {
	panicked bool
	st       *absState
	ret      *ssa.Return
	rets     []absVal
}

// AbstractExecutions enumerates the abstract executions of fn. complete=false when the enumeration was cut (loops
// unrolled more than twice, too many executions): callers must then not draw conclusions from it.
func (p *Program) AbstractExecutions(fn *ssa.Function) ([]AbsExec, bool) {
	if fn == nil || fn.Blocks == nil {
		return nil, false
	}
	if r, ok := p.absCache[fn]; ok {
		return r.execs, r.complete
	}
	run := &absRun{p: p, limit: 20000, complete: true}
	st := newAbsState()
	results := run.exec(fn, st, 0)
	out := run.finish(fn, results)
	if p.absCache == nil {
		p.absCache = map[*ssa.Function]absCached{}
	}
	p.absCache[fn] = absCached{out, run.complete}
	return out, run.complete
}

type absCached struct {
	execs    []AbsExec
	complete bool
}

// exec runs fn from its entry in state st; returns one result per execution.
func (r *absRun) exec(fn *ssa.Function, st *absState, depth int) []absResult {
	return r.block(fn, fn.Blocks[0], nil, st, depth)
}

func (r *absRun) block(fn *ssa.Function, b *ssa.BasicBlock, prev *ssa.BasicBlock, st *absState, depth int) []absResult {
	if !r.complete {
		return nil
	}
	if r.region != nil && fn == r.top && depth == 0 && prev != nil && !r.region(b) {
		r.count++
		return []absResult{{st: st}}
	}
	st.visit[b]++
	predIdx := -1
	for i, pb := range b.Preds {
		if pb == prev {
			predIdx = i
		}
	}
	if st.visit[b] > 1 {
		// re-entering a loop: the values computed inside it are recomputed; the state at the header is the
		// abstract value of its phis. The same state seen before: the executions from here repeat those already
		// enumerated.
		var phiVals []absVal
		for _, in := range b.Instrs {
			if ph, ok := in.(*ssa.Phi); ok && predIdx >= 0 && predIdx < len(ph.Edges) {
				phiVals = append(phiVals, r.eval(st, ph.Edges[predIdx]))
			}
		}
		for v := range st.env {
			if in, ok := v.(ssa.Instruction); ok && in.Block() != nil && in.Parent() == fn && (in.Block() == b || SameLoop(in.Block(), b)) {
				delete(st.env, v)
				delete(st.vals, v)
				delete(st.seq, v)
				delete(st.alias, v)
			}
		}
		key := fmt.Sprint(phiVals)
		for _, k := range st.snaps[b] {
			if k == key {
				return nil
			}
		}
		st.snaps[b] = append(st.snaps[b], key)
		if len(st.snaps[b]) > 3 {
			r.complete = false
			return nil
		}
	}
	// states to continue with (helper calls may fork)
	states := []*absState{st}
	for _, in := range b.Instrs {
		switch in.(type) {
		case *ssa.Phi, ssa.CallInstruction:
		default:
			for _, s := range states {
				s.calls[in] = s.clock
			}
		}
		switch x := in.(type) {
		case *ssa.Alloc:
			if trackableAlloc(x) {
				for _, s := range states {
					s.mem[x] = map[int]absField{}
				}
			} else if trackableCell(x) {
				for _, s := range states {
					s.cell[x] = absField{V: zeroAbs(x.Type().Underlying().(*types.Pointer).Elem())}
				}
			}
		case *ssa.Store:
			for _, s := range states {
				r.store(s, x)
			}
		case *ssa.UnOp:
			if x.Op == token.MUL {
				for _, s := range states {
					r.load(s, x)
				}
			}
		case *ssa.Phi:
			for _, s := range states {
				if predIdx >= 0 && predIdx < len(x.Edges) {
					src := x.Edges[predIdx]
					if a, ok := s.alias[src]; ok {
						src = a
					}
					s.alias[x] = src
					if v := r.eval(s, x.Edges[predIdx]); v.K != akUnknown {
						s.env[x] = v
						if v.K == akBool {
							s.note(x, v.B)
						}
					} else {
						delete(s.env, x)
					}
				}
			}
		case ssa.CallInstruction:
			var next []*absState
			for _, s := range states {
				s.clock++
				s.calls[in] = s.clock
				callees := r.p.Callees(x)
				val, isVal := in.(ssa.Value)
				if len(callees) == 1 && depth < 2 && r.inlinable(fn, callees[0]) && isVal {
					cal := callees[0]
					sub := s.clone()
					// the callee gets its own visit counters
					sub.visit = map[*ssa.BasicBlock]int{}
					// a second execution of the same helper computes its values afresh
					for v := range sub.env {
						if vi, ok := v.(ssa.Instruction); ok && vi.Parent() == cal {
							delete(sub.env, v)
							delete(sub.vals, v)
							delete(sub.seq, v)
							delete(sub.alias, v)
						}
					}
					for _, prm := range cal.Params {
						delete(sub.env, prm)
						delete(sub.alias, prm)
					}
					for _, cb := range cal.Blocks {
						delete(sub.snaps, cb)
					}
					c := x.Common()
					var actuals []ssa.Value
					if c.IsInvoke() {
						actuals = append(actuals, c.Value)
					}
					actuals = append(actuals, c.Args...)
					for i, prm := range cal.Params {
						if i < len(actuals) {
							if v := r.eval(s, actuals[i]); v.K != akUnknown {
								sub.env[prm] = v
							}
						}
					}
					res := r.exec(cal, sub, depth+1)
					if !r.complete {
						return nil
					}
					for _, cr := range res {
						if cr.ret == nil {
							continue // the helper panicked: this execution ends here (not a commit)
						}
						cr.st.inlined[in] = true
						ns := cr.st
						ns.visit = map[*ssa.BasicBlock]int{}
						for k, v := range s.visit {
							ns.visit[k] = v
						}
						for i, rv := range cr.ret.Results {
							if a, ok := ns.alias[rv]; ok {
								rv = a
							}
							if len(cr.ret.Results) == 1 {
								ns.alias[val] = rv
							} else {
								if ns.tupSrc[val] == nil {
									ns.tupSrc[val] = map[int]ssa.Value{}
								}
								ns.tupSrc[val][i] = rv
							}
						}
						if len(cr.rets) == 1 {
							if cr.rets[0].K != akUnknown {
								ns.env[val] = cr.rets[0]
								if cr.rets[0].K == akBool {
									ns.note(val, cr.rets[0].B)
								}
							}
						} else {
							ns.tup[val] = cr.rets
						}
						next = append(next, ns)
					}
					continue
				}
				next = append(next, s)
			}
			states = next
			if len(states) == 0 {
				return nil
			}
		case *ssa.Extract:
			for _, s := range states {
				if src, ok := s.tupSrc[x.Tuple][x.Index]; ok {
					s.alias[x] = src
				}
				if t, ok := s.tup[x.Tuple]; ok && x.Index < len(t) && t[x.Index].K != akUnknown {
					s.env[x] = t[x.Index]
					if t[x.Index].K == akBool {
						s.note(x, t[x.Index].B)
					}
				}
			}
		case *ssa.If:
			var out []absResult
			for _, s := range states {
				out = append(out, r.branch(fn, b, x, s, depth)...)
				if !r.complete {
					return nil
				}
			}
			return out
		case *ssa.Jump:
			var out []absResult
			for _, s := range states {
				out = append(out, r.block(fn, b.Succs[0], b, s, depth)...)
				if !r.complete {
					return nil
				}
			}
			return out
		case *ssa.Return:
			var out []absResult
			for _, s := range states {
				r.count++
				if r.count > r.limit {
					r.complete = false
					return nil
				}
				var rets []absVal
				for _, rv := range x.Results {
					rets = append(rets, r.eval(s, rv))
				}
				out = append(out, absResult{st: s, ret: x, rets: rets})
			}
			return out
		case *ssa.Panic:
			var out []absResult
			for _, s := range states {
				out = append(out, absResult{st: s, panicked: true})
			}
			return out
		}
	}
	return nil
}

// inlinable: a small custom helper of the same module.
func (r *absRun) inlinable(caller, cal *ssa.Function) bool {
	if cal.Blocks == nil || len(cal.Blocks) > 60 || ModuleOf(cal) == "" || ModuleOf(cal) != ModuleOf(caller) {
		return false
	}
	return true
}

// markTested: the branch condition and the values it is computed from / carried by.
func (r *absRun) markTested(s *absState, v ssa.Value, depth int) {
	if v == nil || depth > 6 || s.tested[v] {
		return
	}
	s.tested[v] = true
	switch x := v.(type) {
	case *ssa.UnOp:
		if x.Op == token.NOT {
			r.markTested(s, x.X, depth+1)
		}
	case *ssa.BinOp:
		if x.Op == token.EQL || x.Op == token.NEQ {
			if isNilConst(x.Y) {
				r.markTested(s, x.X, depth+1)
			} else if isNilConst(x.X) {
				r.markTested(s, x.Y, depth+1)
			}
		}
	}
	if a, ok := s.alias[v]; ok && a != v {
		r.markTested(s, a, depth+1)
	}
}

func (r *absRun) branch(fn *ssa.Function, b *ssa.BasicBlock, ifi *ssa.If, st *absState, depth int) []absResult {
	if depth == 0 {
		r.markTested(st, ifi.Cond, 0)
	}
	v := r.eval(st, ifi.Cond)
	if v.K == akBool {
		st.note(ifi.Cond, v.B)
		succ := 0
		if !v.B {
			succ = 1
		}
		st.edges[Edge{b, succ}] = true
		return r.block(fn, b.Succs[succ], b, st, depth)
	}
	// undetermined: fork on the atomic value the condition hangs on
	var out []absResult
	for _, choice := range []bool{true, false} {
		s := st.clone()
		r.assume(s, ifi.Cond, choice)
		succ := 0
		if !choice {
			succ = 1
		}
		s.edges[Edge{b, succ}] = true
		out = append(out, r.block(fn, b.Succs[succ], b, s, depth)...)
		if !r.complete {
			return nil
		}
	}
	return out
}

// assume fixes v (a boolean) to b, pushing the assumption down to the atom it is computed from.
func (r *absRun) assume(s *absState, v ssa.Value, b bool) {
	s.env[v] = absVal{K: akBool, B: b}
	s.note(v, b)
	if a, ok := s.alias[v]; ok && a != v {
		if _, done := s.env[a]; !done {
			r.assume(s, a, b)
		}
	}
	switch x := v.(type) {
	case *ssa.UnOp:
		if x.Op == token.NOT {
			r.assume(s, x.X, !b)
		}
	case *ssa.BinOp:
		if x.Op == token.EQL || x.Op == token.NEQ {
			// comparison with nil: fix the nil-ness of the other operand
			var other ssa.Value
			if isNilConst(x.Y) {
				other = x.X
			} else if isNilConst(x.X) {
				other = x.Y
			}
			if other != nil {
				isNil := b
				if x.Op == token.NEQ {
					isNil = !b
				}
				s.env[other] = absVal{K: akNil, B: isNil}
				if a, ok := s.alias[other]; ok {
					s.env[a] = absVal{K: akNil, B: isNil}
				}
			}
		}
	}
}

func (r *absRun) eval(s *absState, v ssa.Value) absVal {
	if v == nil {
		return absVal{}
	}
	if av, ok := s.env[v]; ok {
		return av
	}
	if a, ok := s.alias[v]; ok && a != v {
		if av := r.eval(s, a); av.K != akUnknown {
			return av
		}
	}
	switch x := v.(type) {
	case *ssa.Alloc:
		return absVal{K: akNil, B: false}
	case *ssa.Field:
		if sv := r.eval(s, x.X); sv.K == akStruct {
			f, ok := sv.F[x.Field]
			if !ok {
				return zeroAbs(x.Type())
			}
			if f.Src != nil {
				if _, has := s.alias[x]; !has {
					src := f.Src
					if a, ok := s.alias[src]; ok {
						src = a
					}
					s.alias[x] = src
				}
			}
			if f.V.K == akBool {
				s.note(x, f.V.B)
			}
			return f.V
		}
	case *ssa.Const:
		if x.Value == nil {
			if z := zeroAbs(x.Type()); z.K != akUnknown {
				return z // the zero value of a struct, pointer, interface, ...
			}
			return absVal{}
		}
		switch x.Value.Kind() {
		case constant.Bool:
			return absVal{K: akBool, B: constant.BoolVal(x.Value)}
		case constant.Int:
			if i, ok := constant.Int64Val(x.Value); ok {
				return absVal{K: akInt, I: i}
			}
		}
	case *ssa.UnOp:
		if x.Op == token.NOT {
			if iv := r.eval(s, x.X); iv.K == akBool {
				res := absVal{K: akBool, B: !iv.B}
				s.env[v] = res
				s.note(v, res.B)
				return res
			}
		}
	case *ssa.BinOp:
		if x.Op == token.EQL || x.Op == token.NEQ {
			a, b := r.eval(s, x.X), r.eval(s, x.Y)
			res := absVal{}
			switch {
			case a.K == akNil && b.K == akNil && (isNilConst(x.X) || isNilConst(x.Y)):
				res = absVal{K: akBool, B: a.B == b.B}
			case a.K == akInt && b.K == akInt:
				res = absVal{K: akBool, B: a.I == b.I}
			case a.K == akBool && b.K == akBool:
				res = absVal{K: akBool, B: a.B == b.B}
			}
			if res.K == akBool {
				if x.Op == token.NEQ {
					res.B = !res.B
				}
				s.env[v] = res
				s.note(v, res.B)
				return res
			}
		}
	case *ssa.MakeInterface:
		// a concrete value boxed into an interface is never nil (errors built here)
		if isErrorType(x.Type()) {
			return absVal{K: akNil, B: false}
		}
	case *ssa.ChangeType:
		return r.eval(s, x.X)
	case *ssa.ChangeInterface:
		return r.eval(s, x.X)
	case *ssa.Convert:
		return r.eval(s, x.X)
	case *ssa.Call:
		// error constructors over a registered error
		if isErrorType(x.Type()) {
			if inst, ok := v.(ssa.Instruction); ok {
				if nn, _ := r.p.nonNilErr(v, inst.Block(), 0); nn {
					return absVal{K: akNil, B: false}
				}
			}
		}
	}
	if u, ok := v.(*ssa.UnOp); ok && u.Op == token.MUL {
		// a registered error variable
		if _, isG := u.X.(*ssa.Global); isG && isErrorType(v.Type()) {
			return absVal{K: akNil, B: false}
		}
	}
	return absVal{}
}

// AbsMode selects which executions a guard must hold on.
type AbsMode int

const (
	AbsBefore    AbsMode = iota // every execution performing the instruction; the condition is evaluated before it
	AbsCommit                   // executions performing it that end in a commit return; evaluated anywhere
	AbsAnyReturn                // executions performing it that return; evaluated anywhere
)

// AbsGuarded: on every abstract execution of fn that performs `at` (restricted by mode), a condition matched by g was
// evaluated with the matching truth value. ok=false: the enumeration was cut and nothing can be concluded.
func (p *Program) AbsGuarded(fn *ssa.Function, at ssa.Instruction, g GuardMatch, mode AbsMode) (guarded bool, ok bool) {
	execs, complete := p.AbstractExecutions(fn)
	if os.Getenv("JKL_DEBUG_ABS") != "" {
		fmt.Fprintf(os.Stderr, "absguarded: %s at %s mode=%d execs=%d complete=%v\n", FnName(fn), p.InstrPos(at), mode, len(execs), complete)
	}
	if !complete {
		return false, false
	}
	var retClass map[*ssa.Return]RetClass
	if mode == AbsCommit {
		retClass = map[*ssa.Return]RetClass{}
		for _, ri := range p.Returns(fn) {
			retClass[ri.Ret] = ri.Class
		}
	}
	anyPerformed := false
	for i := range execs {
		if _, performed := execs[i].Calls[at]; performed {
			anyPerformed = true
			break
		}
	}
	if !anyPerformed {
		return false, false // no enumerated execution reaches the instruction: nothing can be concluded
	}
	for i := range execs {
		e := &execs[i]
		when, performed := e.Calls[at]
		if !performed {
			continue
		}
		switch mode {
		case AbsCommit:
			if e.Ret == nil || e.ErrNil == 2 || (e.ErrNil == 0 && retClass[e.Ret] == RetFail) {
				continue
			}
		case AbsAnyReturn:
			if e.Ret == nil {
				continue
			}
		}
		if !p.execSatisfies(e, g, when, mode == AbsBefore, fn) {
			if os.Getenv("JKL_DEBUG_ABS") != "" {
				fmt.Fprintf(os.Stderr, "absfail: %s at %s mode=%d\n", FnName(fn), p.InstrPos(at), mode)
			}
			return false, true
		}
	}
	return true, true
}

// Conditions evaluated after the effect count only when they are the analysed function's own (they decide whether it
// commits); what a helper executed later happens to test about other data says nothing about the effect.
func (p *Program) execSatisfies(e *AbsExec, g GuardMatch, when int, before bool, top *ssa.Function) bool {
	try := func(v ssa.Value, tv bool) bool {
		ca := p.normVal(v, false)
		in, isIn := v.(ssa.Instruction)
		if !isIn {
			return false
		}
		ca.If = in
		truth := tv != ca.Neg
		if ca.Alt != nil {
			ca.Alt.If = in
			p.noteLift(ca.Alt)
			if g(ca.Alt, tv != ca.Alt.Neg) {
				return true
			}
		}
		if g(ca, truth) {
			if os.Getenv("JKL_DEBUG_ABS") != "" {
				fmt.Fprintf(os.Stderr, "absmatch: %s=%v @%s\n", p.Describe(ca, true), truth, p.InstrPos(in))
				if os.Getenv("JKL_DEBUG_ABS") == "2" {
					fmt.Fprintf(os.Stderr, "absmatch-exec: %s %s=%s seq=%d when=%d tested=%v ## %s\n", p.InstrPos(in), v.Name(), v.String(), e.Seq[v], when, e.Tested[v], p.DescribeExec(e))
				}
			}
			return true
		}
		// the same atom over the values its phi operands carried on this execution
		ax, okx := e.Alias[ca.X]
		ay, oky := e.Alias[ca.Y]
		if okx || oky {
			cb := *ca
			if okx {
				cb.X = ax
				if cb.Kind == "errnil" {
					cb.Call = errSourceCall(ax)
				}
			}
			if oky {
				cb.Y = ay
			}
			if g(&cb, truth) {
				return true
			}
		}
		return false
	}
	for v, tv := range e.Vals {
		if e.Seq[v] > when {
			if before {
				continue
			}
			if in, ok := v.(ssa.Instruction); ok && top != nil && in.Parent() != top {
				continue
			}
			if top != nil && !e.Tested[v] {
				continue // merely known, not decided on: it cannot have turned the execution away
			}
		}
		if try(v, tv) {
			return true
		}
		if a, ok := e.Alias[v]; ok && a != v && isBool(a.Type()) && try(a, tv) {
			return true
		}
	}
	return false
}

// ReachesUnguarded: can `at` be reached from the entry of fn without g having been established — neither by an edge
// on the way (path view) nor by a condition evaluated earlier on the execution (abstract-execution view)?
func (p *Program) ReachesUnguarded(fn *ssa.Function, at ssa.Instruction, g GuardMatch) bool {
	if !PathExists(fn, p.PassEdges(fn, g), at, nil) {
		return false
	}
	if guarded, ok := p.AbsGuarded(fn, at, g, AbsBefore); ok && guarded {
		return false
	}
	return true
}

// AbsEveryCommit: on every abstract execution of fn that ends in a commit return, a condition matched by g was
// evaluated with the matching truth value.
func (p *Program) AbsEveryCommit(fn *ssa.Function, g GuardMatch) (holds bool, ok bool) {
	execs, complete := p.AbstractExecutions(fn)
	if !complete {
		return false, false
	}
	retClass := map[*ssa.Return]RetClass{}
	for _, ri := range p.Returns(fn) {
		retClass[ri.Ret] = ri.Class
	}
	for i := range execs {
		e := &execs[i]
		if e.Ret == nil || e.ErrNil == 2 || (e.ErrNil == 0 && retClass[e.Ret] == RetFail) {
			continue
		}
		if !p.execSatisfies(e, g, 0, false, fn) {
			return false, true
		}
	}
	return true, true
}

// trackableAlloc: a local struct that is only written field by field (or as a whole) and read back: its address
// does not leave the function.
func trackableAlloc(al *ssa.Alloc) bool {
	if _, ok := al.Type().Underlying().(*types.Pointer).Elem().Underlying().(*types.Struct); !ok {
		return false
	}
	if al.Referrers() == nil {
		return false
	}
	for _, r := range *al.Referrers() {
		switch x := r.(type) {
		case *ssa.Store:
			if x.Addr != al {
				return false
			}
		case *ssa.UnOp:
			if x.Op != token.MUL {
				return false
			}
		case *ssa.FieldAddr:
			if !fieldAddrLocal(x) {
				return false
			}
		case *ssa.DebugRef:
		default:
			return false
		}
	}
	return true
}

// fieldAddrLocal: the field address is only loaded from, stored to, or refined to a nested field address.
func fieldAddrLocal(fa *ssa.FieldAddr) bool {
	if fa.Referrers() == nil {
		return true
	}
	for _, rr := range *fa.Referrers() {
		switch y := rr.(type) {
		case *ssa.Store:
			if y.Addr != fa {
				return false
			}
		case *ssa.UnOp:
			if y.Op != token.MUL {
				return false
			}
		case *ssa.FieldAddr:
			if !fieldAddrLocal(y) {
				return false
			}
		case *ssa.DebugRef:
		default:
			return false
		}
	}
	return true
}

func zeroAbs(t types.Type) absVal {
	switch u := t.Underlying().(type) {
	case *types.Basic:
		switch {
		case u.Info()&types.IsBoolean != 0:
			return absVal{K: akBool, B: false}
		case u.Info()&types.IsInteger != 0:
			return absVal{K: akInt, I: 0}
		}
	case *types.Pointer, *types.Interface, *types.Slice, *types.Map, *types.Signature, *types.Chan:
		return absVal{K: akNil, B: true}
	case *types.Struct:
		return absVal{K: akStruct, F: map[int]absField{}}
	}
	return absVal{}
}

func (r *absRun) store(s *absState, st *ssa.Store) {
	switch a := st.Addr.(type) {
	case *ssa.FieldAddr:
		if inner, nested := a.X.(*ssa.FieldAddr); nested {
			// a store into a nested field: the enclosing top-level field is no longer known
			for {
				up, more := inner.X.(*ssa.FieldAddr)
				if !more {
					break
				}
				inner = up
			}
			if al, ok := inner.X.(*ssa.Alloc); ok {
				if m, tracked := s.mem[al]; tracked {
					m[inner.Field] = absField{}
				}
			}
			return
		}
		if al, ok := a.X.(*ssa.Alloc); ok {
			if m, tracked := s.mem[al]; tracked {
				src := st.Val
				if x, ok := s.alias[src]; ok {
					src = x
				}
				m[a.Field] = absField{V: r.eval(s, st.Val), Src: src}
			}
		}
	case *ssa.Alloc:
		if _, isCell := s.cell[a]; isCell {
			src := st.Val
			if x, ok := s.alias[src]; ok {
				src = x
			}
			s.cell[a] = absField{V: r.eval(s, st.Val), Src: src}
			return
		}
		if _, tracked := s.mem[a]; tracked {
			if sv := r.eval(s, st.Val); sv.K == akStruct {
				m := map[int]absField{}
				for i, f := range sv.F {
					m[i] = f
				}
				s.mem[a] = m
			} else {
				delete(s.mem, a) // contents unknown from here on
			}
		}
	}
}

func (r *absRun) load(s *absState, ld *ssa.UnOp) {
	switch a := ld.X.(type) {
	case *ssa.FieldAddr:
		if al, ok := a.X.(*ssa.Alloc); ok {
			if m, tracked := s.mem[al]; tracked {
				f, has := m[a.Field]
				if !has {
					f = absField{V: zeroAbs(ld.Type())}
				}
				if f.Src != nil {
					s.alias[ld] = f.Src
				}
				if f.V.K != akUnknown {
					s.env[ld] = f.V
					if f.V.K == akBool {
						s.note(ld, f.V.B)
					}
				} else {
					delete(s.env, ld)
				}
			}
		}
	case *ssa.Alloc:
		if f, isCell := s.cell[a]; isCell {
			v := f.V
			if f.Src != nil {
				s.alias[ld] = f.Src
				if v.K == akUnknown {
					v = r.eval(s, f.Src) // an assumption made on an earlier read of the variable
				}
			}
			if v.K != akUnknown {
				s.env[ld] = v
				if v.K == akBool {
					s.note(ld, v.B)
				}
			} else {
				delete(s.env, ld)
			}
			return
		}
		if m, tracked := s.mem[a]; tracked {
			c := map[int]absField{}
			for i, f := range m {
				c[i] = f
			}
			s.env[ld] = absVal{K: akStruct, F: c}
		}
	}
}

func (r *absRun) finish(fn *ssa.Function, results []absResult) []AbsExec {
	ei := errResultIndex(fn)
	var out []AbsExec
	for _, r := range results {
		e := AbsExec{Vals: r.st.vals, Seq: r.st.seq, Calls: r.st.calls, Alias: r.st.alias, Inlined: r.st.inlined, Edges: r.st.edges, Tested: r.st.tested, Panic: r.panicked, Ret: r.ret}
		if r.ret != nil {
			for i, rv := range r.ret.Results {
				if a, ok := r.st.alias[rv]; ok {
					rv = a
				}
				e.RetVals = append(e.RetVals, rv)
				e.RetKnown = append(e.RetKnown, i < len(r.rets) && r.rets[i].K == akBool)
				e.RetBool = append(e.RetBool, i < len(r.rets) && r.rets[i].K == akBool && r.rets[i].B)
			}
		}
		if r.ret != nil && ei >= 0 && ei < len(r.rets) && r.rets[ei].K == akNil {
			if r.rets[ei].B {
				e.ErrNil = 1
			} else {
				e.ErrNil = 2
			}
		}
		out = append(out, e)
	}
	return out
}

// LoopBodyExecutions enumerates the abstract executions of one iteration of the loop with the given header: from the
// header to the next arrival at it (or to leaving the loop / the function).
func (p *Program) LoopBodyExecutions(fn *ssa.Function, header *ssa.BasicBlock) ([]AbsExec, bool) {
	run := &absRun{p: p, limit: 20000, complete: true, top: fn}
	run.region = func(b *ssa.BasicBlock) bool { return b != header && SameLoop(b, header) }
	st := newAbsState()
	results := run.block(fn, header, nil, st, 0)
	return run.finish(fn, results), run.complete
}

// ExecsGuarded: on every given execution that performs `at`, a condition matched by g was evaluated (before it when
// before is set) with the matching truth value. Panicking executions are skipped.
func (p *Program) ExecsGuarded(execs []AbsExec, at ssa.Instruction, g GuardMatch, before bool) bool {
	top := at.Parent()
	for i := range execs {
		e := &execs[i]
		when, performed := e.Calls[at]
		if !performed || e.Panic {
			continue
		}
		if !p.execSatisfies(e, g, when, before, top) {
			return false
		}
	}
	return true
}

// DescribeExec renders an execution for diagnosis: the conditions evaluated (in order) and how it ended.
func (p *Program) DescribeExec(e *AbsExec) string {
	type kv struct {
		seq int
		s   string
	}
	var items []kv
	for v, tv := range e.Vals {
		ca := p.normVal(v, false)
		pos := ""
		if in, ok := v.(ssa.Instruction); ok {
			pos = p.InstrPos(in)
			if i := strings.LastIndex(pos, "/"); i >= 0 {
				pos = pos[i+1:]
			}
		}
		items = append(items, kv{e.Seq[v], fmt.Sprintf("%s=%v@%s", p.Describe(ca, true), tv != ca.Neg, pos)})
	}
	sort.Slice(items, func(i, j int) bool { return items[i].seq < items[j].seq })
	var parts []string
	for _, it := range items {
		parts = append(parts, it.s)
	}
	end := "region-end"
	switch {
	case e.Panic:
		end = "panic"
	case e.Ret != nil:
		end = fmt.Sprintf("return@%s errnil=%d", p.InstrPos(e.Ret), e.ErrNil)
	}
	return strings.Join(parts, "; ") + " => " + end
}

// trackableCell: a scalar local variable kept in memory because a closure captures it, where every closure only
// reads it (a named result inspected by a deferred function): its content is what this function last stored.
func trackableCell(al *ssa.Alloc) bool {
	switch al.Type().Underlying().(*types.Pointer).Elem().Underlying().(type) {
	case *types.Struct, *types.Array:
		return false
	}
	if al.Referrers() == nil {
		return false
	}
	for _, r := range *al.Referrers() {
		switch x := r.(type) {
		case *ssa.Store:
			if x.Addr != al {
				return false
			}
		case *ssa.UnOp:
			if x.Op != token.MUL {
				return false
			}
		case *ssa.DebugRef:
		case *ssa.MakeClosure:
			cl, ok := x.Fn.(*ssa.Function)
			if !ok {
				return false
			}
			for i, b := range x.Bindings {
				if b != al {
					continue
				}
				if i >= len(cl.FreeVars) || cl.FreeVars[i].Referrers() == nil {
					return false
				}
				for _, fr := range *cl.FreeVars[i].Referrers() {
					switch y := fr.(type) {
					case *ssa.UnOp:
						if y.Op != token.MUL {
							return false
						}
					case *ssa.DebugRef:
					default:
						return false
					}
				}
			}
		default:
			return false
		}
	}
	return true
}

// AbsBypass: is there an abstract execution that performs w, does not perform d afterwards, takes none of the avoided
// edges and ends in a commit return (any return with commitAll)? ok=false: nothing can be concluded.
func (p *Program) AbsBypass(fn *ssa.Function, w, d ssa.Instruction, commitAll bool, avoid map[Edge]bool) (exists bool, ok bool) {
	execs, complete := p.AbstractExecutions(fn)
	if !complete {
		return false, false
	}
	retClass := map[*ssa.Return]RetClass{}
	for _, ri := range p.Returns(fn) {
		retClass[ri.Ret] = ri.Class
	}
exec:
	for i := range execs {
		e := &execs[i]
		ww, performed := e.Calls[w]
		if !performed || e.Ret == nil {
			continue
		}
		if dw, did := e.Calls[d]; did && dw > ww {
			continue
		}
		if !commitAll && (e.ErrNil == 2 || (e.ErrNil == 0 && retClass[e.Ret] == RetFail)) {
			continue
		}
		for ed := range avoid {
			if e.Edges[ed] {
				continue exec
			}
		}
		return true, true
	}
	return false, true
}

// ExecCommits: the execution ends in a return whose error result may be nil.
func (p *Program) ExecCommits(fn *ssa.Function, e *AbsExec) bool {
	if e.Panic {
		return false
	}
	if e.Ret == nil {
		return true
	}
	if e.ErrNil == 2 {
		return false
	}
	if e.ErrNil == 0 {
		for _, ri := range p.Returns(fn) {
			if ri.Ret == e.Ret && ri.Class == RetFail {
				return false
			}
		}
	}
	return true
}

// ExecSatisfies: a condition matched by g was evaluated on the execution (before order `when` if when > 0).
func (p *Program) ExecSatisfies(e *AbsExec, g GuardMatch, when int) bool {
	return p.execSatisfies(e, g, when, when > 0, nil)
}

// ExecCond is one condition an execution evaluated, with its truth value.
type ExecCond struct {
	Atom  *CondAtom
	Truth bool
}

// ExecConditions lists the conditions the execution evaluated before order `when` (all of them if when <= 0).
func (p *Program) ExecConditions(e *AbsExec, when int) []ExecCond {
	var out []ExecCond
	add := func(v ssa.Value, tv bool) {
		in, isIn := v.(ssa.Instruction)
		if !isIn {
			return
		}
		ca := p.normVal(v, false)
		ca.If = in
		out = append(out, ExecCond{ca, tv != ca.Neg})
		if ca.Alt != nil {
			ca.Alt.If = in
			p.noteLift(ca.Alt)
			out = append(out, ExecCond{ca.Alt, tv != ca.Alt.Neg})
		}
	}
	for v, tv := range e.Vals {
		if when > 0 && e.Seq[v] > when {
			continue
		}
		add(v, tv)
		if a, ok := e.Alias[v]; ok && a != v && isBool(a.Type()) {
			add(a, tv)
		}
	}
	return out
}

// AbsEdgeCommits: does some abstract execution of fn take the branch edge and end in a commit return?
func (p *Program) AbsEdgeCommits(fn *ssa.Function, e Edge) (exists bool, ok bool) {
	execs, complete := p.AbstractExecutions(fn)
	if !complete {
		return false, false
	}
	for i := range execs {
		if execs[i].Edges[e] && p.ExecCommits(fn, &execs[i]) {
			return true, true
		}
	}
	return false, true
}
