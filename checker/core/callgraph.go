package core

import (
	"go/types"
	"sort"
	"strings"

	"golang.org/x/tools/go/ssa"
)

// CallGraph is the custom-code call graph: static callees, interface calls
// resolved by CHA restricted to custom concrete types, and closure/function
// values attributed to the function that creates or mentions them.
type CallGraph struct {
	Out map[*ssa.Function][]*ssa.Function
	In  map[*ssa.Function][]*ssa.Function
	// Unresolved dynamic calls inside custom functions (function-typed params/fields), by function.
	Dynamic map[*ssa.Function][]ssa.CallInstruction
}

// Callees resolves the possible custom (with body) callees of a call instruction.
// External callees (no body) are not returned; see ExtCallee.
func (p *Program) Callees(call ssa.CallInstruction) []*ssa.Function {
	c := call.Common()
	if c.IsInvoke() {
		return p.implementers(c.Value.Type(), c.Method)
	}
	if fn := c.StaticCallee(); fn != nil {
		if fn.Blocks != nil {
			return []*ssa.Function{fn}
		}
		return nil
	}
	// closure call: value is a MakeClosure in the same function
	switch v := c.Value.(type) {
	case *ssa.MakeClosure:
		if fn, ok := v.Fn.(*ssa.Function); ok {
			return []*ssa.Function{fn}
		}
	}
	if prm, ok := c.Value.(*ssa.Parameter); ok {
		if fs := p.paramFuncValues(prm); fs != nil {
			return fs
		}
	}
	return localFuncTable(c.Value)
}

// paramFuncValues: the called value is a function-typed parameter of a repository helper that is called directly from
// exactly one place and never used as a value; the argument there is a function, a closure or a method value: that is
// the callee.
func (p *Program) paramFuncValues(prm *ssa.Parameter) []*ssa.Function {
	fn := prm.Parent()
	if fn == nil || !IsCustomFn(fn) {
		return nil
	}
	if p.paramFn == nil {
		p.paramFn = map[*ssa.Parameter][]*ssa.Function{}
	}
	if fs, ok := p.paramFn[prm]; ok {
		return fs
	}
	p.paramFn[prm] = nil // cycle guard
	idx := -1
	for i, q := range fn.Params {
		if q == prm {
			idx = i
		}
	}
	var out []*ssa.Function
	ok := idx >= 0
	sites := 0
	for _, caller := range p.Funcs {
		if !ok {
			break
		}
		for _, b := range caller.Blocks {
			for _, in := range b.Instrs {
				var ops []*ssa.Value
				for _, op := range in.Operands(ops) {
					if op == nil || *op == nil || *op != ssa.Value(fn) {
						continue
					}
					call, isCall := in.(ssa.CallInstruction)
					if !isCall || call.Common().Value != ssa.Value(fn) || call.Common().IsInvoke() {
						ok = false // the helper escapes as a value
						continue
					}
				}
				call, isCall := in.(ssa.CallInstruction)
				if !isCall || call.Common().IsInvoke() || call.Common().StaticCallee() != fn {
					continue
				}
				sites++
				args := call.Common().Args
				if idx >= len(args) {
					ok = false
					continue
				}
				switch a := args[idx].(type) {
				case *ssa.Function:
					if a.Blocks != nil {
						out = append(out, a)
					} else {
						ok = false
					}
				case *ssa.MakeClosure:
					if f, isF := a.Fn.(*ssa.Function); isF && f.Blocks != nil {
						out = append(out, f)
					} else {
						ok = false
					}
				default:
					ok = false
				}
			}
		}
	}
	// with several call sites the union would attribute each caller's callback to every other caller (the callbacks of
	// an iterator helper): only the exact case — one call site, as for an instantiation of a generic helper — is resolved
	if !ok || sites != 1 {
		return nil
	}
	p.paramFn[prm] = out
	return out
}

// localFuncTable: the called value is an element read from a table (array / slice literal) of function values built
// in this very function and used for nothing but indexing: the callees are the table's entries.
func localFuncTable(v ssa.Value) []*ssa.Function {
	ld, ok := v.(*ssa.UnOp)
	if !ok {
		return nil
	}
	ia, ok := ld.X.(*ssa.IndexAddr)
	if !ok {
		return nil
	}
	base := ia.X
	if sl, ok := base.(*ssa.Slice); ok {
		if sl.Referrers() != nil {
			for _, r := range *sl.Referrers() {
				switch x := r.(type) {
				case *ssa.IndexAddr, *ssa.DebugRef:
				case *ssa.Call:
					if b, isB := x.Call.Value.(*ssa.Builtin); !isB || (b.Name() != "len" && b.Name() != "cap") {
						return nil
					}
				default:
					return nil
				}
			}
		}
		base = sl.X
	}
	al, ok := base.(*ssa.Alloc)
	if !ok || al.Referrers() == nil {
		return nil
	}
	var out []*ssa.Function
	for _, r := range *al.Referrers() {
		switch x := r.(type) {
		case *ssa.Slice, *ssa.DebugRef:
		case *ssa.IndexAddr:
			if x.Referrers() == nil {
				continue
			}
			for _, rr := range *x.Referrers() {
				switch y := rr.(type) {
				case *ssa.Store:
					if y.Addr != x {
						return nil
					}
					switch f := y.Val.(type) {
					case *ssa.Function:
						if f.Blocks != nil {
							out = append(out, f)
						}
					case *ssa.MakeClosure:
						fn, ok := f.Fn.(*ssa.Function)
						if !ok {
							return nil
						}
						out = append(out, fn)
					default:
						return nil
					}
				case *ssa.UnOp, *ssa.DebugRef:
				default:
					return nil
				}
			}
		default:
			return nil
		}
	}
	return out
}

// ExtCallee returns the static callee without body (library function / method), or nil.
func ExtCallee(call ssa.CallInstruction) *ssa.Function {
	c := call.Common()
	if c.IsInvoke() {
		return nil
	}
	if fn := c.StaticCallee(); fn != nil && fn.Blocks == nil {
		return fn
	}
	return nil
}

// CalleeFullName returns a stable textual identity of the callee of a call:
// "(recv).Method" for invoke calls, the function's String() for static ones, "" for dynamic.
func CalleeFullName(call ssa.CallInstruction) string {
	c := call.Common()
	if c.IsInvoke() {
		return "(" + c.Value.Type().String() + ")." + c.Method.Name()
	}
	if fn := c.StaticCallee(); fn != nil {
		return fn.String()
	}
	return ""
}

var implCache = map[string][]*ssa.Function{}

func (p *Program) implementers(iface types.Type, m *types.Func) []*ssa.Function {
	it, ok := iface.Underlying().(*types.Interface)
	if !ok {
		return nil
	}
	key := iface.String() + "." + m.Name()
	if r, ok := implCache[key+p.TreeDigest]; ok {
		return r
	}
	var out []*ssa.Function
	seen := map[*ssa.Function]bool{}
	for _, pk := range p.Pkgs {
		if IsTestSupportPkg(pk.PkgPath) {
			continue
		}
		sc := pk.Types.Scope()
		for _, n := range sc.Names() {
			tn, ok := sc.Lookup(n).(*types.TypeName)
			if !ok || tn.IsAlias() {
				continue
			}
			if _, isIface := tn.Type().Underlying().(*types.Interface); isIface {
				continue
			}
			for _, t := range []types.Type{tn.Type(), types.NewPointer(tn.Type())} {
				if !types.Implements(t, it) {
					continue
				}
				sel := p.SSA.MethodSets.MethodSet(t).Lookup(m.Pkg(), m.Name())
				if sel == nil {
					continue
				}
				fn := p.SSA.MethodValue(sel)
				if fn == nil {
					continue
				}
				// unwrap promoted-method wrappers to the declared method when custom
				if fn.Blocks != nil && !seen[fn] {
					seen[fn] = true
					out = append(out, fn)
				}
			}
		}
	}
	sort.Slice(out, func(i, j int) bool { return out[i].String() < out[j].String() })
	implCache[key+p.TreeDigest] = out
	return out
}

// CG builds (once) and returns the call graph.
func (p *Program) CG() *CallGraph {
	if p.cg != nil {
		return p.cg
	}
	cg := &CallGraph{Out: map[*ssa.Function][]*ssa.Function{}, In: map[*ssa.Function][]*ssa.Function{}, Dynamic: map[*ssa.Function][]ssa.CallInstruction{}}
	add := func(from, to *ssa.Function) {
		for _, x := range cg.Out[from] {
			if x == to {
				return
			}
		}
		cg.Out[from] = append(cg.Out[from], to)
		cg.In[to] = append(cg.In[to], from)
	}
	var funcs []*ssa.Function
	seen := map[*ssa.Function]bool{}
	var visit func(fn *ssa.Function)
	visit = func(fn *ssa.Function) {
		if fn == nil || seen[fn] || fn.Blocks == nil {
			return
		}
		seen[fn] = true
		funcs = append(funcs, fn)
		for _, b := range fn.Blocks {
			for _, in := range b.Instrs {
				if call, ok := in.(ssa.CallInstruction); ok {
					cs := p.Callees(call)
					for _, c := range cs {
						add(fn, c)
						visit(c)
					}
					if len(cs) == 0 && ExtCallee(call) == nil && !call.Common().IsInvoke() {
						if _, isBuiltin := call.Common().Value.(*ssa.Builtin); !isBuiltin {
							cg.Dynamic[fn] = append(cg.Dynamic[fn], call)
						}
					}
				}
				// function values mentioned (closures, method values, funcs passed as args)
				var ops []*ssa.Value
				ops = in.Operands(ops[:0])
				for _, op := range ops {
					if op == nil || *op == nil {
						continue
					}
					switch v := (*op).(type) {
					case *ssa.Function:
						if call, ok := in.(ssa.CallInstruction); ok && call.Common().Value == v {
							continue
						}
						if v.Blocks != nil {
							add(fn, v)
							visit(v)
						}
					case *ssa.MakeClosure:
						if f, ok := v.Fn.(*ssa.Function); ok {
							add(fn, f)
							visit(f)
						}
					}
				}
				if mc, ok := in.(*ssa.MakeClosure); ok {
					if f, ok := mc.Fn.(*ssa.Function); ok {
						add(fn, f)
						visit(f)
					}
				}
			}
		}
	}
	for _, fn := range p.Funcs {
		visit(fn)
	}
	p.cg = cg
	return cg
}

// Reachable returns the set of custom functions reachable from roots.
func (p *Program) Reachable(roots ...*ssa.Function) map[*ssa.Function]bool {
	cg := p.CG()
	out := map[*ssa.Function]bool{}
	var stack []*ssa.Function
	for _, r := range roots {
		if r != nil && !out[r] {
			out[r] = true
			stack = append(stack, r)
		}
	}
	for len(stack) > 0 {
		f := stack[len(stack)-1]
		stack = stack[:len(stack)-1]
		for _, c := range cg.Out[f] {
			if !out[c] {
				out[c] = true
				stack = append(stack, c)
			}
		}
	}
	return out
}

// CallPath returns one call path root -> target (function names) or nil.
func (p *Program) CallPath(root, target *ssa.Function) []*ssa.Function {
	cg := p.CG()
	prev := map[*ssa.Function]*ssa.Function{root: nil}
	q := []*ssa.Function{root}
	for len(q) > 0 {
		f := q[0]
		q = q[1:]
		if f == target {
			var path []*ssa.Function
			for x := f; x != nil; x = prev[x] {
				path = append([]*ssa.Function{x}, path...)
			}
			return path
		}
		for _, c := range cg.Out[f] {
			if _, ok := prev[c]; !ok {
				prev[c] = f
				q = append(q, c)
			}
		}
	}
	return nil
}

// SortedFuncs returns the keys of a function set in deterministic order.
func SortedFuncs(m map[*ssa.Function]bool) []*ssa.Function {
	var out []*ssa.Function
	for f := range m {
		out = append(out, f)
	}
	sort.Slice(out, func(i, j int) bool { return out[i].String() < out[j].String() })
	return out
}

// IsTestSupportPkg: mocks, test utilities and simulation helpers are not part of the node's consensus code.
func IsTestSupportPkg(path string) bool {
	for _, s := range []string{"/testutil", "/simulation", "/mocks", "/simapp"} {
		if strings.Contains(path, s) {
			return true
		}
	}
	return false
}
