package core

import (
	"fmt"
	"go/ast"
	"go/types"
	"sort"
	"strings"

	"golang.org/x/tools/go/ssa"
)

// Modules with a Msg service, discovered from x/<m>/types having a MsgServer interface.
var CustomModules = []string{"filetree", "jklmint", "notifications", "oracle", "rns", "storage"}

// Handler is one Msg service method with its implementation.
type Handler struct {
	Module  string
	Method  string
	ReqType *types.Named
	Fn      *ssa.Function // declared implementation (msgServer method)
	MsgIdx  int           // index of the request parameter in Fn.Params
}

func (h *Handler) String() string {
	return h.Module + ".Msg" + strings.TrimPrefix(h.ReqType.Obj().Name(), "Msg")
}

// Key is module + "." + request type name, e.g. "storage.MsgPostFile".
func (h *Handler) Key() string { return h.Module + "." + h.ReqType.Obj().Name() }

// Handlers discovers all Msg handlers from the MsgServer interfaces and the keeper types implementing them,
// cross-checking the method list against the generated _Msg_serviceDesc.
func (p *Program) Handlers() ([]*Handler, error) {
	var out []*Handler
	for _, m := range CustomModules {
		tp := p.ByPath[ModPath+"/x/"+m+"/types"]
		kp := p.ByPath[ModPath+"/x/"+m+"/keeper"]
		if tp == nil || kp == nil {
			return nil, fmt.Errorf("module %s: types/keeper package missing", m)
		}
		obj, ok := tp.Types.Scope().Lookup("MsgServer").(*types.TypeName)
		if !ok {
			continue
		}
		iface, ok := obj.Type().Underlying().(*types.Interface)
		if !ok {
			return nil, fmt.Errorf("module %s: MsgServer is not an interface", m)
		}
		// descriptor cross-check
		desc := serviceDescMethods(p, tp.PkgPath, "_Msg_serviceDesc")
		if len(desc) != iface.NumMethods() {
			return nil, fmt.Errorf("module %s: service descriptor lists %d methods, MsgServer has %d", m, len(desc), iface.NumMethods())
		}
		if iface.NumMethods() == 0 {
			continue
		}
		// implementing type in keeper
		var impl types.Type
		sc := kp.Types.Scope()
		for _, n := range sc.Names() {
			tn, ok := sc.Lookup(n).(*types.TypeName)
			if !ok {
				continue
			}
			if _, isI := tn.Type().Underlying().(*types.Interface); isI {
				continue
			}
			if types.Implements(tn.Type(), iface) || types.Implements(types.NewPointer(tn.Type()), iface) {
				if impl != nil {
					// prefer the one not named Keeper (msgServer embeds Keeper)
					if tn.Name() == "Keeper" {
						continue
					}
				}
				impl = tn.Type()
			}
		}
		if impl == nil {
			return nil, fmt.Errorf("module %s: no MsgServer implementation found", m)
		}
		for i := 0; i < iface.NumMethods(); i++ {
			meth := iface.Method(i)
			if !desc[meth.Name()] {
				return nil, fmt.Errorf("module %s: method %s not in service descriptor", m, meth.Name())
			}
			sig := meth.Type().(*types.Signature)
			if sig.Params().Len() != 2 {
				return nil, fmt.Errorf("module %s: %s unexpected signature", m, meth.Name())
			}
			rt := sig.Params().At(1).Type()
			if pt, ok := rt.(*types.Pointer); ok {
				rt = pt.Elem()
			}
			named, _ := rt.(*types.Named)
			var fn *ssa.Function
			for _, t := range []types.Type{impl, types.NewPointer(impl)} {
				if sel := p.SSA.MethodSets.MethodSet(t).Lookup(kp.Types, meth.Name()); sel != nil {
					f := p.SSA.MethodValue(sel)
					// declared method (not a promotion wrapper)
					if f != nil && f.Synthetic == "" {
						fn = f
						break
					}
					if f != nil && fn == nil {
						fn = unwrap(f)
					}
				}
			}
			if fn == nil || fn.Blocks == nil {
				return nil, fmt.Errorf("module %s: no body for handler %s", m, meth.Name())
			}
			out = append(out, &Handler{Module: m, Method: meth.Name(), ReqType: named, Fn: fn, MsgIdx: len(fn.Params) - 1})
		}
	}
	sort.Slice(out, func(i, j int) bool { return out[i].Key() < out[j].Key() })
	return out, nil
}

// unwrap follows a synthetic wrapper to the single function it calls.
func unwrap(f *ssa.Function) *ssa.Function {
	for i := 0; i < 4 && f != nil && f.Synthetic != ""; i++ {
		var next *ssa.Function
		for _, b := range f.Blocks {
			for _, in := range b.Instrs {
				if c, ok := in.(ssa.CallInstruction); ok {
					if sc := c.Common().StaticCallee(); sc != nil {
						next = sc
					}
				}
			}
		}
		if next == nil {
			return f
		}
		f = next
	}
	return f
}

func serviceDescMethods(p *Program, pkgPath, varName string) map[string]bool {
	out := map[string]bool{}
	pk := p.ByPath[pkgPath]
	for _, f := range pk.Syntax {
		for _, d := range f.Decls {
			gd, ok := d.(*ast.GenDecl)
			if !ok {
				continue
			}
			for _, s := range gd.Specs {
				vs, ok := s.(*ast.ValueSpec)
				if !ok || len(vs.Names) != 1 || vs.Names[0].Name != varName || len(vs.Values) != 1 {
					continue
				}
				ast.Inspect(vs.Values[0], func(n ast.Node) bool {
					kv, ok := n.(*ast.KeyValueExpr)
					if !ok {
						return true
					}
					if id, ok := kv.Key.(*ast.Ident); ok && id.Name == "MethodName" {
						if bl, ok := kv.Value.(*ast.BasicLit); ok {
							out[strings.Trim(bl.Value, "\"")] = true
						}
					}
					return true
				})
			}
		}
	}
	return out
}

// HandlerByKey finds a handler by "module.MsgType".
func HandlerByKey(hs []*Handler, key string) *Handler {
	for _, h := range hs {
		if h.Key() == key {
			return h
		}
	}
	return nil
}

// BeginBlockers returns the module-level BeginBlock methods of the custom AppModules with non-empty bodies
// (those that call anything), plus all EndBlock methods that call anything.
func (p *Program) BlockEntries() (begin, end []*ssa.Function) {
	for _, m := range CustomModules {
		for _, name := range []string{"BeginBlock", "EndBlock"} {
			fn := p.FuncByName("x/"+m, "AppModule", name)
			if fn == nil {
				continue
			}
			calls := 0
			for _, b := range fn.Blocks {
				for _, in := range b.Instrs {
					if c, ok := in.(ssa.CallInstruction); ok {
						if _, isB := c.Common().Value.(*ssa.Builtin); !isB {
							calls++
						}
					}
				}
			}
			if calls == 0 {
				continue
			}
			if name == "BeginBlock" {
				begin = append(begin, fn)
			} else {
				end = append(end, fn)
			}
		}
	}
	return
}

// GenesisEntries returns the InitGenesis / ExportGenesis functions of module m (package-level in x/<m>).
func (p *Program) GenesisEntries(m string) (init, export *ssa.Function) {
	return p.FuncByName("x/"+m, "", "InitGenesis"), p.FuncByName("x/"+m, "", "ExportGenesis")
}

// TxReachable: functions reachable from handlers, BeginBlockers and the wasm dispatcher.
func (p *Program) TxReachable() (map[*ssa.Function]bool, error) {
	hs, err := p.Handlers()
	if err != nil {
		return nil, err
	}
	var roots []*ssa.Function
	for _, h := range hs {
		roots = append(roots, h.Fn)
	}
	bb, eb := p.BlockEntries()
	roots = append(roots, bb...)
	roots = append(roots, eb...)
	if f := p.FuncByName("wasmbinding", "CustomMessenger", "DispatchMsg"); f != nil {
		roots = append(roots, f)
	}
	return p.Reachable(roots...), nil
}
