package core

import (
	"fmt"
	"go/token"
	"go/types"
	"sort"
	"strings"

	"golang.org/x/tools/go/ssa"
)

// ---------- branch-condition atoms (E4) ----------

// CondAtom is the normalised condition of an If.
// The atom holds on the *true* branch iff !Neg.
type CondAtom struct {
	Kind string // eq | cmp | found | member | errnil | isnil | callbool | flag | bool
	Op   token.Token
	X, Y ssa.Value
	Call *ssa.Call // found / callbool / errnil (call producing the error, when direct)
	Neg  bool
	If   ssa.Instruction // the branch (or, for lifted helpers, the return) where the condition is evaluated
	// Ctx: the condition is the body of a tiny comparison helper (sameAddress(a, b), rec.OwnedBy(x)) called here; X, Y
	// (and the arguments of Call) are values of that helper and are read in the context of this call
	Ctx ssa.CallInstruction
	// Alt: a second reading of the same condition (the body of the tiny helper a callbool atom calls); a guard that
	// does not recognise the atom itself is tried on Alt
	Alt *CondAtom
}

type liftKey struct {
	v  ssa.Value
	at ssa.Instruction
}

// noteLift records, for a lifted atom whose evaluation point is known, in which call its operands are to be read.
func (p *Program) noteLift(ca *CondAtom) {
	if ca == nil || ca.Ctx == nil || ca.If == nil {
		return
	}
	if p.lift == nil {
		p.lift = map[liftKey]ssa.CallInstruction{}
	}
	for _, v := range []ssa.Value{ca.X, ca.Y} {
		if v != nil {
			p.lift[liftKey{v, ca.If}] = ca.Ctx
		}
	}
	if ca.Call != nil && ca.Kind == "callbool" {
		for _, a := range ca.Call.Call.Args {
			p.lift[liftKey{a, ca.If}] = ca.Ctx
		}
		if ca.Call.Call.IsInvoke() {
			p.lift[liftKey{ca.Call.Call.Value, ca.If}] = ca.Ctx
		}
	}
}

// liftTiny: the boolean call goes to one straight-line helper of the repository whose result is a comparison (==, <,
// an external Equals / bytes.Equal): the comparison itself, to be read in the context of this call.
func (p *Program) liftTiny(x *ssa.Call, neg bool) *CondAtom {
	if p.liftDepth > 0 {
		return nil
	}
	cals := p.Callees(x)
	if len(cals) != 1 || len(cals[0].Blocks) != 1 || !IsCustomFn(cals[0]) {
		return nil
	}
	cal := cals[0]
	ret, ok := cal.Blocks[0].Instrs[len(cal.Blocks[0].Instrs)-1].(*ssa.Return)
	if !ok || len(ret.Results) != 1 {
		return nil
	}
	p.liftDepth++
	sub := p.normVal(ret.Results[0], neg)
	p.liftDepth--
	switch sub.Kind {
	case "eq", "cmp":
	case "callbool":
		if sub.Call == nil || len(p.Callees(sub.Call)) != 0 {
			return nil
		}
	default:
		return nil
	}
	sub.Ctx = x
	return sub
}

func isNilConst(v ssa.Value) bool {
	c, ok := v.(*ssa.Const)
	return ok && c.Value == nil
}

func isErrorType(t types.Type) bool {
	return t.String() == "error"
}

// NormCond normalises the condition value of an If instruction.
func (p *Program) NormCond(ifi *ssa.If) *CondAtom {
	ca := p.normVal(ifi.Cond, false)
	ca.If = ifi
	if ca.Alt != nil {
		ca.Alt.If = ifi
		p.noteLift(ca.Alt)
	}
	return ca
}

func (p *Program) normVal(v ssa.Value, neg bool) *CondAtom {
	switch x := v.(type) {
	case *ssa.UnOp:
		if x.Op == token.NOT {
			return p.normVal(x.X, !neg)
		}
	case *ssa.BinOp:
		switch x.Op {
		case token.EQL, token.NEQ:
			n := neg
			if x.Op == token.NEQ {
				n = !n
			}
			a, b := x.X, x.Y
			if isNilConst(a) {
				a, b = b, a
			}
			if isNilConst(b) {
				if isErrorType(a.Type()) {
					ca := &CondAtom{Kind: "errnil", X: a, Neg: n}
					ca.Call = errSourceCall(a)
					return ca
				}
				return &CondAtom{Kind: "isnil", X: a, Neg: n}
			}
			// comparison with boolean constant
			if c, ok := b.(*ssa.Const); ok && c.Value != nil && isBool(c.Type()) {
				if c.Value.ExactString() == "true" {
					return p.normVal(a, n)
				}
				return p.normVal(a, !n)
			}
			return &CondAtom{Kind: "eq", Op: token.EQL, X: a, Y: b, Neg: n}
		case token.LSS, token.LEQ, token.GTR, token.GEQ:
			return &CondAtom{Kind: "cmp", Op: x.Op, X: x.X, Y: x.Y, Neg: neg}
		}
	case *ssa.Extract:
		if call, ok := x.Tuple.(*ssa.Call); ok && isBool(x.Type()) {
			for _, cal := range p.Callees(call) {
				if gi := p.StoreGetter(cal); gi != nil && gi.Found && x.Index == 1 {
					return &CondAtom{Kind: "found", Call: call, X: x, Neg: neg}
				}
			}
			return &CondAtom{Kind: "callbool", Call: call, X: x, Neg: neg}
		}
		if _, ok := x.Tuple.(*ssa.Lookup); ok {
			return &CondAtom{Kind: "member", X: x, Neg: neg}
		}
	case *ssa.Call:
		if isBool(x.Type()) {
			return &CondAtom{Kind: "callbool", Call: x, X: x, Neg: neg, Alt: p.liftTiny(x, neg)}
		}
	case *ssa.Phi:
		// a boolean variable assigned only constants (phi web of constants)
		allConst := true
		seen := map[*ssa.Phi]bool{}
		var walk func(ph *ssa.Phi)
		walk = func(ph *ssa.Phi) {
			if seen[ph] {
				return
			}
			seen[ph] = true
			for _, e := range ph.Edges {
				switch y := e.(type) {
				case *ssa.Const:
				case *ssa.Phi:
					walk(y)
				case *ssa.BinOp, *ssa.Call, *ssa.UnOp, *ssa.Extract:
					// a computed truth value on one arm (flag := cond1 && cond2): still a flag; the arm's own
					// condition is judged where the flag is consumed (FlagImplies)
				default:
					allConst = false
				}
			}
		}
		walk(x)
		if allConst && isBool(x.Type()) {
			return &CondAtom{Kind: "flag", X: x, Neg: neg}
		}
	}
	return &CondAtom{Kind: "bool", X: v, Neg: neg}
}

func isBool(t types.Type) bool {
	b, ok := t.Underlying().(*types.Basic)
	return ok && b.Info()&types.IsBoolean != 0
}

// errSourceCall finds the call whose error result v is (directly or via extract).
func errSourceCall(v ssa.Value) *ssa.Call {
	switch x := v.(type) {
	case *ssa.Call:
		return x
	case *ssa.Extract:
		if c, ok := x.Tuple.(*ssa.Call); ok {
			return c
		}
	}
	return nil
}

// Describe renders an atom with the provenance of its operands.
func (p *Program) Describe(ca *CondAtom, truth bool) string {
	t := "true"
	if !truth {
		t = "false"
	}
	switch ca.Kind {
	case "eq":
		return fmt.Sprintf("Eq(%s, %s)=%s", p.ProvOf(ca.X, ""), p.ProvOf(ca.Y, ""), t)
	case "cmp":
		return fmt.Sprintf("Cmp(%s %s %s)=%s", p.ProvOf(ca.X, ""), ca.Op, p.ProvOf(ca.Y, ""), t)
	case "found":
		return fmt.Sprintf("Found(%s)=%s", p.ProvOf(ca.X, ""), t)
	case "member":
		return fmt.Sprintf("Member(%s)=%s", p.ProvOf(ca.X, ""), t)
	case "errnil":
		name := "?"
		if ca.Call != nil {
			name = shortCallee(ca.Call)
		}
		return fmt.Sprintf("ErrNil(%s)=%s", name, t)
	case "isnil":
		return fmt.Sprintf("IsNil(%s)=%s", p.ProvOf(ca.X, ""), t)
	case "callbool":
		return fmt.Sprintf("CallBool(%s)=%s", shortCallee(ca.Call), t)
	case "flag":
		return fmt.Sprintf("Flag(%s)=%s", ca.X.Name(), t)
	}
	return fmt.Sprintf("Bool(%s)=%s", ca.X.Name(), t)
}

func shortCallee(call ssa.CallInstruction) string {
	n := CalleeFullName(call)
	n = strings.ReplaceAll(n, ModPath+"/", "")
	n = strings.ReplaceAll(n, "github.com/cosmos/cosmos-sdk/", "sdk/")
	return n
}

// ---------- CFG edges and path search ----------

// Edge is a CFG edge (block, successor index).
type Edge struct {
	From *ssa.BasicBlock
	Succ int
}

// GuardMatch decides whether the edge on which atom `ca` has truth value `truth` is a pass-edge of the guard.
type GuardMatch func(ca *CondAtom, truth bool) bool

// PassEdges returns the CFG edges of fn matched by g.
func (p *Program) PassEdges(fn *ssa.Function, g GuardMatch) map[Edge]bool {
	out := map[Edge]bool{}
	for _, b := range fn.Blocks {
		ifi, ok := b.Instrs[len(b.Instrs)-1].(*ssa.If)
		if !ok {
			continue
		}
		ca := p.NormCond(ifi)
		// succ 0 = cond true
		if g(ca, !ca.Neg) || (ca.Alt != nil && g(ca.Alt, !ca.Alt.Neg)) {
			out[Edge{b, 0}] = true
		}
		if g(ca, ca.Neg) || (ca.Alt != nil && g(ca.Alt, ca.Alt.Neg)) {
			out[Edge{b, 1}] = true
		}
	}
	return out
}

// flagFeasible: edge-sensitivity for branches on a phi of boolean constants: entering the
// `want` side of an If on phi from predecessor `pred` is infeasible when the phi operand for
// that predecessor is the opposite constant.
func flagInfeasible(from *ssa.BasicBlock, via *ssa.BasicBlock, succ int) bool {
	// `via` ends with If on phi located in via; we arrive from `from`.
	ifi, ok := via.Instrs[len(via.Instrs)-1].(*ssa.If)
	if !ok {
		return false
	}
	neg := false
	v := ifi.Cond
	for {
		if u, ok := v.(*ssa.UnOp); ok && u.Op == token.NOT {
			neg = !neg
			v = u.X
			continue
		}
		break
	}
	phi, ok := v.(*ssa.Phi)
	if !ok || phi.Block() != via {
		return false
	}
	for i, pr := range via.Preds {
		if pr != from {
			continue
		}
		c, ok := phi.Edges[i].(*ssa.Const)
		if !ok || c.Value == nil {
			return false
		}
		val := c.Value.ExactString() == "true"
		if neg {
			val = !val
		}
		// succ 0 taken iff cond true
		if succ == 0 && !val {
			return true
		}
		if succ == 1 && val {
			return true
		}
		return false
	}
	return false
}

type bstate struct {
	b    *ssa.BasicBlock
	from *ssa.BasicBlock
}

// reachFrom computes blocks reachable from start (following edges not in removed).
// If startAfter is true the start block itself counts as reached only via a cycle.
func reachFrom(start *ssa.BasicBlock, removed map[Edge]bool, includeStart bool) map[*ssa.BasicBlock]bool {
	seen := map[bstate]bool{}
	reached := map[*ssa.BasicBlock]bool{}
	var stack []bstate
	push := func(s bstate) {
		if !seen[s] {
			seen[s] = true
			stack = append(stack, s)
		}
	}
	if includeStart {
		reached[start] = true
	}
	// expand successors of start
	expand := func(s bstate) {
		for i, nx := range s.b.Succs {
			if removed[Edge{s.b, i}] {
				continue
			}
			if s.from != nil && flagInfeasible(s.from, s.b, i) {
				continue
			}
			reached[nx] = true
			push(bstate{nx, s.b})
		}
	}
	expand(bstate{start, nil})
	for len(stack) > 0 {
		s := stack[len(stack)-1]
		stack = stack[:len(stack)-1]
		expand(s)
	}
	return reached
}

func instrIndex(in ssa.Instruction) int {
	for i, x := range in.Block().Instrs {
		if x == in {
			return i
		}
	}
	return -1
}

// PathExists: is there a CFG path entry -> w -> r avoiding removed edges?
func PathExists(fn *ssa.Function, removed map[Edge]bool, w ssa.Instruction, r ssa.Instruction) bool {
	entry := fn.Blocks[0]
	wb := w.Block()
	if wb != entry {
		if !reachFrom(entry, removed, true)[wb] {
			return false
		}
	}
	if r == nil {
		return true
	}
	rb := r.Block()
	if rb == wb && instrIndex(r) > instrIndex(w) {
		return true
	}
	return reachFrom(wb, removed, false)[rb]
}

// ---------- return classification ----------

// RetClass classifies a return of a function with an error result.
type RetClass int

const (
	RetCommit RetClass = iota // error result is (or may be) nil
	RetFail                   // error result is definitely non-nil
)

// RetInfo describes one return.
type RetInfo struct {
	Ret   *ssa.Return
	Class RetClass
	Why   string
}

func errResultIndex(fn *ssa.Function) int {
	res := fn.Signature.Results()
	for i := res.Len() - 1; i >= 0; i-- {
		if isErrorType(res.At(i).Type()) {
			return i
		}
	}
	return -1
}

// Returns classifies the returns of fn. Functions without an error result have only commit returns.
func (p *Program) Returns(fn *ssa.Function) []RetInfo {
	var out []RetInfo
	ei := errResultIndex(fn)
	for _, b := range fn.Blocks {
		ret, ok := b.Instrs[len(b.Instrs)-1].(*ssa.Return)
		if !ok {
			continue
		}
		if ei < 0 {
			out = append(out, RetInfo{ret, RetCommit, "no error result"})
			continue
		}
		v := ret.Results[ei]
		// defer-spilled named results: the returned value is a load of the result slot
		if u, ok := v.(*ssa.UnOp); ok && u.Op == token.MUL {
			if al, ok := u.X.(*ssa.Alloc); ok {
				if sv := lastStoreBefore(al, ret); sv != nil {
					v = sv
				}
			}
		}
		nn, why := p.nonNilErr(v, b, 0)
		if nn {
			out = append(out, RetInfo{ret, RetFail, why})
		} else {
			out = append(out, RetInfo{ret, RetCommit, why})
		}
	}
	return out
}

// lastStoreBefore finds the value last stored to alloc on the way to `at`: searches the returning
// block backwards, then unique-predecessor chains.
func lastStoreBefore(al *ssa.Alloc, at ssa.Instruction) ssa.Value {
	b := at.Block()
	idx := instrIndex(at)
	for hops := 0; hops < 16 && b != nil; hops++ {
		for i := idx - 1; i >= 0; i-- {
			if st, ok := b.Instrs[i].(*ssa.Store); ok && st.Addr == al {
				return st.Val
			}
		}
		if len(b.Preds) != 1 {
			return nil
		}
		b = b.Preds[0]
		idx = len(b.Instrs)
	}
	return nil
}

// nonNilErr: is error value v definitely non-nil when control is in block at?
func (p *Program) nonNilErr(v ssa.Value, at *ssa.BasicBlock, depth int) (bool, string) {
	if depth > 6 {
		return false, "depth"
	}
	switch x := v.(type) {
	case *ssa.Const:
		if x.Value == nil {
			return false, "nil"
		}
	case *ssa.MakeInterface:
		return true, "concrete error value"
	case *ssa.UnOp:
		if x.Op == token.MUL {
			if _, ok := x.X.(*ssa.Global); ok {
				return true, "registered error"
			}
		}
	case *ssa.Phi:
		all := true
		for _, e := range x.Edges {
			nn, _ := p.nonNilErr(e, at, depth+1)
			if !nn {
				all = false
			}
		}
		if all {
			return true, "phi of non-nil"
		}
	case *ssa.Call:
		name := CalleeFullName(x)
		switch {
		case strings.HasSuffix(name, "errors.New"), name == "fmt.Errorf", strings.HasSuffix(name, "errors.Register"):
			return true, "new error"
		case strings.HasSuffix(name, "errors.Wrap"), strings.HasSuffix(name, "errors.Wrapf"):
			if len(x.Call.Args) > 0 {
				nn, why := p.nonNilErr(x.Call.Args[0], at, depth+1)
				return nn, "wrap of " + why
			}
		case strings.HasSuffix(name, ".Wrap"), strings.HasSuffix(name, ".Wrapf"):
			// (*sdkerrors.Error).Wrap on a registered error
			return true, "wrap of registered error"
		}
	}
	// dominated by the non-nil edge of a test on v?
	if refs := v.Referrers(); refs != nil {
		for _, r := range *refs {
			bo, ok := r.(*ssa.BinOp)
			if !ok || (bo.Op != token.NEQ && bo.Op != token.EQL) {
				continue
			}
			if !(isNilConst(bo.X) || isNilConst(bo.Y)) {
				continue
			}
			for _, rr := range *bo.Referrers() {
				ifi, ok := rr.(*ssa.If)
				if !ok {
					continue
				}
				succ := 0
				if bo.Op == token.EQL {
					succ = 1
				}
				s := ifi.Block().Succs[succ]
				if len(s.Preds) == 1 && s.Dominates(at) {
					return true, "under err != nil"
				}
			}
		}
	}
	return false, "may be nil"
}

// ---------- effect sites ----------

// Effect is an instruction of a unit that (transitively) writes state or moves coins.
type Effect struct {
	Instr   ssa.Instruction
	Store   []*StoreOp // write ops reached through this instruction (direct or transitive)
	Bank    []*BankOp
	Callees []*ssa.Function
	Direct  bool
}

// Describe summarises the effect.
func (p *Program) DescribeEffect(e *Effect) string {
	set := map[string]bool{}
	for _, o := range e.Store {
		set[o.Kind+" "+o.Module+"/"+o.Prefix] = true
	}
	for _, b := range e.Bank {
		set["bank."+b.Method] = true
	}
	var parts []string
	for k := range set {
		parts = append(parts, k)
	}
	sort.Strings(parts)
	via := ""
	if !e.Direct && len(e.Callees) > 0 {
		via = " via " + FnName(e.Callees[0])
	}
	return p.InstrPos(e.Instr) + via + " [" + strings.Join(parts, "; ") + "]"
}

// Effects lists the effect sites inside fn (not descending: callees count at their call site).
func (p *Program) Effects(fn *ssa.Function) []*Effect {
	var out []*Effect
	si := p.storeInfo(fn)
	direct := map[ssa.Instruction]*Effect{}
	for _, o := range si.ops {
		if o.IsWrite() {
			e := direct[o.Instr]
			if e == nil {
				e = &Effect{Instr: o.Instr, Direct: true}
				direct[o.Instr] = e
			}
			e.Store = append(e.Store, o)
		}
	}
	for _, bo := range si.bank {
		e := direct[bo.Instr]
		if e == nil {
			e = &Effect{Instr: bo.Instr, Direct: true}
			direct[bo.Instr] = e
		}
		e.Bank = append(e.Bank, bo)
	}
	for _, b := range fn.Blocks {
		for _, in := range b.Instrs {
			if e, ok := direct[in]; ok {
				out = append(out, e)
				continue
			}
			var callees []*ssa.Function
			if call, ok := in.(ssa.CallInstruction); ok {
				callees = append(callees, p.Callees(call)...)
				// function values passed as arguments run inside the callee
				for _, a := range call.Common().Args {
					switch v := a.(type) {
					case *ssa.MakeClosure:
						if f, ok := v.Fn.(*ssa.Function); ok {
							callees = append(callees, f)
						}
					case *ssa.Function:
						if v.Blocks != nil {
							callees = append(callees, v)
						}
					}
				}
			}
			if len(callees) == 0 {
				continue
			}
			e := &Effect{Instr: in, Callees: callees}
			for _, c := range callees {
				s := p.Summary(c)
				for _, o := range s.Store {
					if o.IsWrite() {
						e.Store = append(e.Store, o)
					}
				}
				e.Bank = append(e.Bank, s.Bank...)
			}
			if len(e.Store) > 0 || len(e.Bank) > 0 {
				out = append(out, e)
			}
		}
	}
	return out
}

// Unguarded reports, for each effect, one commit return reachable through the effect without
// passing any pass-edge of g. commitAll treats every return as committing.
type Unguarded struct {
	Effect *Effect
	Ret    *ssa.Return
}

func (p *Program) FindUnguarded(fn *ssa.Function, effects []*Effect, g GuardMatch, commitAll bool) []Unguarded {
	removed := p.PassEdges(fn, g)
	rets := p.Returns(fn)
	var out []Unguarded
	for _, e := range effects {
		for _, r := range rets {
			if r.Class == RetFail && !commitAll {
				continue
			}
			if PathExists(fn, removed, e.Instr, r.Ret) {
				// the path view found a way round every branch of the guard: ask the abstract executions whether
				// the guard's condition reaches the effect through data instead (flags, verdicts, single exit)
				mode := AbsCommit
				if commitAll {
					mode = AbsAnyReturn
				}
				if guarded, ok := p.AbsGuarded(fn, e.Instr, g, mode); ok && guarded {
					break
				}
				out = append(out, Unguarded{e, r.Ret})
				break
			}
		}
	}
	return out
}

// MustPassAtoms lists, for an effect, the (atom, truth) pairs that every committing path through it passes.
func (p *Program) MustPassAtoms(fn *ssa.Function, e *Effect, commitAll bool) []string {
	rets := p.Returns(fn)
	var out []string
	for _, b := range fn.Blocks {
		ifi, ok := b.Instrs[len(b.Instrs)-1].(*ssa.If)
		if !ok {
			continue
		}
		for succ := 0; succ < 2; succ++ {
			removed := map[Edge]bool{{b, succ}: true}
			any := false
			for _, r := range rets {
				if r.Class == RetFail && !commitAll {
					continue
				}
				if PathExists(fn, removed, e.Instr, r.Ret) {
					any = true
					break
				}
			}
			if !any {
				ca := p.NormCond(ifi)
				truth := !ca.Neg
				if succ == 1 {
					truth = ca.Neg
				}
				out = append(out, p.Describe(ca, truth)+" @"+p.InstrPos(ifi))
			}
		}
	}
	return out
}

// CommitReachable: can the effect reach a commit return at all?
func (p *Program) CommitReachable(fn *ssa.Function, e *Effect, commitAll bool) bool {
	for _, r := range p.Returns(fn) {
		if r.Class == RetFail && !commitAll {
			continue
		}
		if PathExists(fn, nil, e.Instr, r.Ret) {
			return true
		}
	}
	return false
}

// ---------- interprocedural guarded-chain check ----------

// OpFilter selects the effects a row is about.
type OpFilter struct {
	Store func(*StoreOp) bool
	Bank  func(*BankOp) bool
}

func (f OpFilter) matches(e *Effect) bool {
	if f.Store != nil {
		for _, o := range e.Store {
			if f.Store(o) {
				return true
			}
		}
	}
	if f.Bank != nil {
		for _, b := range e.Bank {
			if f.Bank(b) {
				return true
			}
		}
	}
	return false
}

// ChainFailure is one unguarded route from a handler to an effect.
type ChainFailure struct {
	Chain []string // positions handler -> ... -> effect
	Final *Effect
	Unit  *ssa.Function
}

// ChainStats counts what CheckGuarded examined.
type ChainStats struct {
	Units, Effects, PathSearches int
}

// CheckGuarded decides: every committing execution from the entry of fn that performs a matching effect
// passed a pass-edge of the guard in some function on the call chain (the guard is judged in the
// function that contains it). mk builds the guard matcher for a unit. topCommitOnly: in the top unit only
// returns whose error may be nil count as commit; nested units treat every return as committing.
func (p *Program) CheckGuarded(fn *ssa.Function, filter OpFilter, mk func(unit *ssa.Function) GuardMatch, topCommitOnly bool, st *ChainStats) []ChainFailure {
	return p.checkGuarded(fn, filter, mk, !topCommitOnly, st, map[*ssa.Function]bool{}, 0)
}

func (p *Program) checkGuarded(fn *ssa.Function, filter OpFilter, mk func(unit *ssa.Function) GuardMatch, commitAll bool, st *ChainStats, busy map[*ssa.Function]bool, depth int) []ChainFailure {
	if busy[fn] || depth > 12 {
		return nil
	}
	busy[fn] = true
	defer delete(busy, fn)
	var out []ChainFailure
	if st != nil {
		st.Units++
	}
	var effs []*Effect
	for _, e := range p.Effects(fn) {
		if filter.matches(e) {
			effs = append(effs, e)
		}
	}
	if len(effs) == 0 {
		return nil
	}
	ung := p.FindUnguarded(fn, effs, mk(fn), commitAll)
	if st != nil {
		st.Effects += len(effs)
		st.PathSearches += len(effs)
	}
	for _, u := range ung {
		here := FnName(fn) + " @" + p.InstrPos(u.Effect.Instr)
		if u.Effect.Direct || len(u.Effect.Callees) == 0 {
			out = append(out, ChainFailure{Chain: []string{here + " " + p.DescribeEffect(u.Effect), "reaches return @" + p.InstrPos(u.Ret)}, Final: u.Effect, Unit: fn})
			continue
		}
		for _, cal := range u.Effect.Callees {
			sub := p.checkGuarded(cal, filter, mk, true, st, busy, depth+1)
			for _, f := range sub {
				f.Chain = append([]string{here + " -> " + FnName(cal)}, f.Chain...)
				out = append(out, f)
			}
		}
	}
	return out
}

// ResolveToEntry rewrites param atoms of functions below `entry` into entry-level atoms by substituting
// the provenance of the corresponding call arguments (callers restricted to functions reachable from entry).
func (p *Program) ResolveToEntry(pr Prov, entry *ssa.Function) Prov {
	reach := p.Reachable(entry)
	cur := pr
	for iter := 0; iter < 8; iter++ {
		next := Prov{}
		changed := false
		for _, a := range cur {
			if a.Kind != "param" || a.Fn == entry {
				next.add(a)
				continue
			}
			// closure parameters / unreachable functions stay
			subst := Prov{}
			found := false
			for _, caller := range p.CG().In[a.Fn] {
				if !reach[caller] {
					continue
				}
				for _, b := range caller.Blocks {
					for _, in := range b.Instrs {
						call, ok := in.(ssa.CallInstruction)
						if !ok {
							continue
						}
						for _, cal := range p.Callees(call) {
							if cal != a.Fn {
								continue
							}
							c := call.Common()
							var actuals []ssa.Value
							if c.IsInvoke() {
								actuals = append(actuals, c.Value)
							}
							actuals = append(actuals, c.Args...)
							if a.Idx >= 0 && a.Idx < len(actuals) {
								subst.union(p.ProvAt(actuals[a.Idx], a.Path, call))
								found = true
							}
						}
					}
				}
			}
			if found {
				changed = true
				next.union(subst)
			} else {
				next.add(a)
			}
		}
		cur = next
		if !changed {
			break
		}
	}
	return cur
}

// DataAtoms filters out constants, zero values and external-call markers.
func (pr Prov) DataAtoms() []Atom {
	var out []Atom
	for _, a := range pr {
		switch a.Kind {
		case "const", "zero", "ext":
			continue
		}
		out = append(out, a)
	}
	sort.Slice(out, func(i, j int) bool { return out[i].Key() < out[j].Key() })
	return out
}

// OnlyMsgField: resolved to the handler, every data atom is the given field of the handler's message.
func (p *Program) OnlyMsgField(pr Prov, h *Handler, field string) bool {
	res := p.ResolveToEntry(pr, h.Fn)
	atoms := res.DataAtoms()
	if len(atoms) == 0 {
		return false
	}
	for _, a := range atoms {
		if !(a.Kind == "param" && a.Fn == h.Fn && a.Idx == h.MsgIdx && a.Path == "."+field) {
			return false
		}
	}
	return true
}

// HasMsgField: resolved to the handler, some data atom is the given field of the handler's message.
func (p *Program) HasMsgField(pr Prov, h *Handler, field string) bool {
	res := p.ResolveToEntry(pr, h.Fn)
	for _, a := range res {
		if a.Kind == "param" && a.Fn == h.Fn && a.Idx == h.MsgIdx && (a.Path == "."+field || field == "") {
			return true
		}
	}
	return false
}

// MsgFields lists the message fields a provenance depends on (resolved to the handler).
func (p *Program) MsgFields(pr Prov, h *Handler) []string {
	res := p.ResolveToEntry(pr, h.Fn)
	set := map[string]bool{}
	for _, a := range res {
		if a.Kind == "param" && a.Fn == h.Fn && a.Idx == h.MsgIdx {
			set[strings.TrimPrefix(a.Path, ".")] = true
		}
	}
	var out []string
	for k := range set {
		out = append(out, k)
	}
	sort.Strings(out)
	return out
}

// ---------- error propagation (E6) ----------

// ErrPropagated: the error result of `call` inside fn either is returned directly or is tested against nil
// with the non-nil branch leading only to failing returns. Returns false with a reason otherwise.
func (p *Program) ErrPropagated(call ssa.CallInstruction) (bool, string) {
	v, ok := call.(ssa.Value)
	if !ok {
		return false, "call result discarded (go/defer)"
	}
	fn := call.Parent()
	var errv ssa.Value
	res := call.Common().Signature().Results()
	if res.Len() == 0 {
		return true, "no error result"
	}
	if res.Len() == 1 {
		if !isErrorType(res.At(0).Type()) {
			return true, "no error result"
		}
		errv = v
	} else {
		idx := -1
		for i := 0; i < res.Len(); i++ {
			if isErrorType(res.At(i).Type()) {
				idx = i
			}
		}
		if idx < 0 {
			return true, "no error result"
		}
		for _, r := range *v.Referrers() {
			if ex, ok := r.(*ssa.Extract); ok && ex.Index == idx {
				errv = ex
			}
		}
		if errv == nil {
			return false, "error result never extracted"
		}
	}
	rets := p.Returns(fn)
	failOnly := func(start *ssa.BasicBlock) bool {
		reach := reachFrom(start, nil, true)
		any := false
		for _, r := range rets {
			if reach[r.Ret.Block()] {
				any = true
				if r.Class != RetFail {
					return false
				}
			}
		}
		return any
	}
	seen := map[ssa.Value]bool{}
	var check func(v ssa.Value) bool
	check = func(v ssa.Value) bool {
		if seen[v] || v.Referrers() == nil {
			return false
		}
		seen[v] = true
		for _, r := range *v.Referrers() {
			switch x := r.(type) {
			case *ssa.Return:
				return true
			case *ssa.Store:
				// spilled to a result slot or local: follow loads
				if al, ok := x.Addr.(*ssa.Alloc); ok && x.Val == v {
					for _, rr := range *al.Referrers() {
						if u, ok := rr.(*ssa.UnOp); ok && check(u) {
							return true
						}
					}
				}
			case *ssa.Phi:
				if check(x) {
					return true
				}
			case *ssa.BinOp:
				if (x.Op == token.NEQ || x.Op == token.EQL) && (isNilConst(x.X) || isNilConst(x.Y)) {
					for _, rr := range *x.Referrers() {
						if ifi, ok := rr.(*ssa.If); ok {
							succ := 0
							if x.Op == token.EQL {
								succ = 1
							}
							if failOnly(ifi.Block().Succs[succ]) {
								return true
							}
						}
					}
				}
			}
		}
		return false
	}
	if ei := errResultIndex(fn); ei < 0 {
		return false, "enclosing function has no error result"
	}
	if check(errv) {
		return true, "returned or checked with failing branch"
	}
	return false, "error neither returned nor checked on a failing branch"
}

// SameValue: two operands are the same SSA value (modulo conversions / single-store allocs).
func SameValue(a, b ssa.Value) bool {
	strip := func(v ssa.Value) ssa.Value {
		for {
			switch x := v.(type) {
			case *ssa.Convert:
				v = x.X
				continue
			case *ssa.ChangeType:
				v = x.X
				continue
			case *ssa.UnOp:
				if x.Op == token.MUL {
					if al, ok := x.X.(*ssa.Alloc); ok {
						var st *ssa.Store
						n := 0
						for _, r := range *al.Referrers() {
							if s, ok := r.(*ssa.Store); ok && s.Addr == al {
								st = s
								n++
							}
						}
						if n == 1 {
							v = st.Val
							continue
						}
					}
				}
			}
			return v
		}
	}
	a, b = strip(a), strip(b)
	if a == b {
		return true
	}
	// two reads of the same field of the same local struct, the field never assigned on its own
	if fa, ok := a.(*ssa.Field); ok {
		if fb, ok := b.(*ssa.Field); ok {
			return fa.Field == fb.Field && SameValue(fa.X, fb.X)
		}
	}
	la, oka := a.(*ssa.UnOp)
	lb, okb := b.(*ssa.UnOp)
	if oka && okb && la.Op == token.MUL && lb.Op == token.MUL {
		fa, oka := la.X.(*ssa.FieldAddr)
		fb, okb := lb.X.(*ssa.FieldAddr)
		if oka && okb && fa.Field == fb.Field && fa.X == fb.X {
			if al, ok := fa.X.(*ssa.Alloc); ok && al.Referrers() != nil {
				for _, r := range *al.Referrers() {
					switch x := r.(type) {
					case *ssa.FieldAddr:
						if x.Field != fa.Field || x.Referrers() == nil {
							continue
						}
						for _, rr := range *x.Referrers() {
							if ld, isLoad := rr.(*ssa.UnOp); isLoad && ld.Op == token.MUL {
								continue
							}
							if _, dbg := rr.(*ssa.DebugRef); dbg {
								continue
							}
							return false // written, or its address taken
						}
					case *ssa.Store:
						if x.Addr != al {
							return false
						}
						// the whole struct assigned: fine when it happens once (the parameter spill / the initialisation)
					case *ssa.UnOp, *ssa.DebugRef:
					default:
						return false // the struct's address escapes
					}
				}
				n := 0
				for _, r := range *al.Referrers() {
					if st, ok := r.(*ssa.Store); ok && st.Addr == al {
						n++
					}
				}
				return n <= 1
			}
			// the same field read twice through the same pointer (a record handed in by the caller): the same value
			// when nothing that could write it — a store, a call — lies between the two reads
			if _, isAlloc := fa.X.(*ssa.Alloc); !isAlloc && la.Parent() != nil && la.Parent() == lb.Parent() {
				return nothingWritesBetween(la, lb) || nothingWritesBetween(lb, la)
			}
		}
	}
	return false
}

// nothingWritesBetween: b is reachable from a, and no instruction on any path from a to b is a store, a call (other
// than a builtin), a send or a deferred / spawned call.
func nothingWritesBetween(a, b ssa.Instruction) bool {
	quiet := func(in ssa.Instruction) bool {
		switch x := in.(type) {
		case *ssa.Store, *ssa.MapUpdate, *ssa.Send, *ssa.Go, *ssa.Defer, *ssa.RunDefers:
			return false
		case *ssa.Call:
			_, builtin := x.Call.Value.(*ssa.Builtin)
			return builtin
		}
		return true
	}
	ab, bb := a.Block(), b.Block()
	ia, ib := instrIndex(a), instrIndex(b)
	if ab == bb && ia < ib {
		for _, in := range ab.Instrs[ia+1 : ib] {
			if !quiet(in) {
				return false
			}
		}
		return true
	}
	// blocks reachable from a's block (going forward) that can reach b's block
	fwd := map[*ssa.BasicBlock]bool{}
	var f func(x *ssa.BasicBlock)
	f = func(x *ssa.BasicBlock) {
		for _, s := range x.Succs {
			if !fwd[s] {
				fwd[s] = true
				f(s)
			}
		}
	}
	f(ab)
	if !fwd[bb] {
		return false
	}
	bwd := map[*ssa.BasicBlock]bool{}
	var g func(x *ssa.BasicBlock)
	g = func(x *ssa.BasicBlock) {
		for _, s := range x.Preds {
			if !bwd[s] {
				bwd[s] = true
				g(s)
			}
		}
	}
	g(bb)
	if fwd[ab] && bwd[ab] || fwd[bb] && bwd[bb] {
		return false // a loop through either block: not a straight stretch
	}
	for _, in := range ab.Instrs[ia+1:] {
		if !quiet(in) {
			return false
		}
	}
	for _, in := range bb.Instrs[:ib] {
		if !quiet(in) {
			return false
		}
	}
	for blk := range fwd {
		if !bwd[blk] || blk == ab || blk == bb {
			continue
		}
		for _, in := range blk.Instrs {
			if !quiet(in) {
				return false
			}
		}
	}
	return true
}

// BypassExists: is there a path from instruction w to a commit return that does not execute instruction d?
func (p *Program) BypassExists(fn *ssa.Function, w, d ssa.Instruction, commitAll bool) *ssa.Return {
	return p.BypassExistsAvoiding(fn, w, d, commitAll, nil)
}

// BypassExistsAvoiding is BypassExists with additional CFG edges excluded (e.g. the failure edge of w itself).
func (p *Program) BypassExistsAvoiding(fn *ssa.Function, w, d ssa.Instruction, commitAll bool, avoid map[Edge]bool) *ssa.Return {
	wb, db := w.Block(), d.Block()
	if wb == db && instrIndex(d) > instrIndex(w) {
		return nil // d always follows w in the same block
	}
	// forbid entering db (d is the first relevant thing there: conservative—entering db means executing d
	// only if d precedes the block's exit, which always holds)
	blocked := map[Edge]bool{}
	for e := range avoid {
		blocked[e] = true
	}
	for _, b := range fn.Blocks {
		for i, s := range b.Succs {
			if s == db {
				blocked[Edge{b, i}] = true
			}
		}
	}
	reach := reachFrom(wb, blocked, true)
	for _, r := range p.Returns(fn) {
		if r.Class == RetFail && !commitAll {
			continue
		}
		rb := r.Ret.Block()
		if (rb == wb && instrIndex(r.Ret) > instrIndex(w)) || (rb != wb && reach[rb]) {
			// the path view sees a way round d: is there an execution that takes it?
			if exists, ok := p.AbsBypass(fn, w, d, commitAll, avoid); ok && !exists {
				return nil
			}
			return r.Ret
		}
	}
	return nil
}

// FlagImplies lifts a guard through boolean flag variables: it matches Flag(v)=true edges for which every
// definition of v with the constant true is itself reachable only through a pass-edge of g.
func (p *Program) FlagImplies(fn *ssa.Function, g GuardMatch) GuardMatch {
	removed := p.PassEdges(fn, g)
	memo := map[ssa.Value]bool{}
	return func(ca *CondAtom, truth bool) bool {
		if ca.Kind != "flag" || !truth {
			return false
		}
		if v, ok := memo[ca.X]; ok {
			return v
		}
		ok := true
		nTrue := 0
		seen := map[*ssa.Phi]bool{}
		var walk func(ph *ssa.Phi)
		walk = func(ph *ssa.Phi) {
			if seen[ph] {
				return
			}
			seen[ph] = true
			for i, e := range ph.Edges {
				switch y := e.(type) {
				case *ssa.Phi:
					walk(y)
				case *ssa.Const:
					if y.Value != nil && y.Value.ExactString() == "true" {
						nTrue++
						pred := ph.Block().Preds[i]
						if PathExists(fn, removed, pred.Instrs[len(pred.Instrs)-1], nil) {
							ok = false
						}
					}
				default:
					// a computed arm: true only if that value is true — either the way to the arm already passed g,
					// or the value itself is the guard's atom
					nTrue++
					pred := ph.Block().Preds[i]
					last := pred.Instrs[len(pred.Instrs)-1]
					if PathExists(fn, removed, last, nil) {
						ca2 := p.normVal(e, false)
						if !p.atomMatches(g, ca2, true, last) {
							ok = false
						}
					}
				}
			}
		}
		if ph, isPhi := ca.X.(*ssa.Phi); isPhi {
			walk(ph)
		} else {
			ok = false
		}
		memo[ca.X] = ok && nTrue > 0
		return memo[ca.X]
	}
}

// ParamFlagImplies: inside fn, a branch on a boolean PARAMETER being true counts as having passed the guard if at
// every call site of fn the argument handed in is a value whose truth implies the guard there (a flag set only behind
// the guard, the guard's own condition, or the constant false). mk builds the guard for a given caller.
func (p *Program) ParamFlagImplies(fn *ssa.Function, mk func(f *ssa.Function) GuardMatch) GuardMatch {
	return func(ca *CondAtom, truth bool) bool {
		if !truth {
			return false
		}
		prm, ok := ca.X.(*ssa.Parameter)
		if !ok || prm.Parent() != fn || !isBool(prm.Type()) {
			return false
		}
		idx := -1
		for i, q := range fn.Params {
			if q == prm {
				idx = i
			}
		}
		n := 0
		for _, caller := range p.CG().In[fn] {
			g := mk(caller)
			for _, b := range caller.Blocks {
				for _, in := range b.Instrs {
					cs, isCall := in.(ssa.CallInstruction)
					if !isCall {
						continue
					}
					hit := false
					for _, cal := range p.Callees(cs) {
						if cal == fn {
							hit = true
						}
					}
					if !hit {
						continue
					}
					c := cs.Common()
					var actuals []ssa.Value
					if c.IsInvoke() {
						actuals = append(actuals, c.Value)
					}
					actuals = append(actuals, c.Args...)
					if idx < 0 || idx >= len(actuals) {
						return false
					}
					n++
					a := actuals[idx]
					if k, isC := a.(*ssa.Const); isC && k.Value != nil && k.Value.ExactString() == "false" {
						continue
					}
					ca2 := p.normVal(a, false)
					if !p.atomMatches(g, ca2, true, cs) {
						return false
					}
				}
			}
		}
		return n > 0
	}
}

// ---------- bank call instances along call paths ----------

// BankInstance is one bank call reached from an entry function along a specific chain of call sites.
type BankInstance struct {
	Op    *BankOp
	Stack []ssa.CallInstruction // call sites from the entry down to the function holding Op
}

// BankInstances enumerates bank calls reachable from entry, one instance per call path (depth-limited, no recursion).
func (p *Program) BankInstances(entry *ssa.Function) []BankInstance {
	var out []BankInstance
	var walk func(fn *ssa.Function, stack []ssa.CallInstruction, on map[*ssa.Function]bool)
	walk = func(fn *ssa.Function, stack []ssa.CallInstruction, on map[*ssa.Function]bool) {
		if on[fn] || len(stack) > 10 {
			return
		}
		on[fn] = true
		defer delete(on, fn)
		if len(p.Summary(fn).Bank) == 0 {
			return
		}
		for _, b := range fn.Blocks {
			for _, in := range b.Instrs {
				call, ok := in.(ssa.CallInstruction)
				if !ok {
					continue
				}
				for _, bo := range p.BankOps(fn) {
					if bo.Instr == call {
						out = append(out, BankInstance{Op: bo, Stack: append([]ssa.CallInstruction{}, stack...)})
					}
				}
				var callees []*ssa.Function
				callees = append(callees, p.Callees(call)...)
				for _, a := range call.Common().Args {
					if mc, ok := a.(*ssa.MakeClosure); ok {
						if f, ok := mc.Fn.(*ssa.Function); ok {
							callees = append(callees, f)
						}
					}
				}
				for _, cal := range callees {
					walk(cal, append(stack, call), on)
				}
			}
		}
	}
	walk(entry, nil, map[*ssa.Function]bool{})
	return out
}

// ResolveAlong rewrites param atoms of the functions on the call path into the entry's context using the
// arguments at exactly these call sites (unlike ResolveToEntry, which unions over all callers).
func (p *Program) ResolveAlong(pr Prov, stack []ssa.CallInstruction) Prov {
	cur := pr
	for i := len(stack) - 1; i >= 0; i-- {
		call := stack[i]
		c := call.Common()
		var actuals []ssa.Value
		if c.IsInvoke() {
			actuals = append(actuals, c.Value)
		}
		actuals = append(actuals, c.Args...)
		callees := map[*ssa.Function]bool{}
		for _, cal := range p.Callees(call) {
			callees[cal] = true
		}
		for _, a := range c.Args {
			if mc, ok := a.(*ssa.MakeClosure); ok {
				if f, ok := mc.Fn.(*ssa.Function); ok {
					callees[f] = true
				}
			}
		}
		next := Prov{}
		for _, a := range cur {
			if a.Kind == "param" && callees[a.Fn] && a.Fn.Parent() == nil {
				if a.Idx >= 0 && a.Idx < len(actuals) {
					next.union(p.ProvAt(actuals[a.Idx], a.Path, call))
					continue
				}
			}
			next.add(a)
		}
		cur = next
	}
	return cur
}

// ---------- field-write summaries (E7) ----------

type fwKey struct {
	fn    *ssa.Function
	idx   int
	field string
}

var fwMemo = map[fwKey]int{} // 0 unknown, 1 busy, 2 no, 3 yes

// MayWriteField: may fn (transitively) assign field `field` of the struct its parameter idx points to?
func (p *Program) MayWriteField(fn *ssa.Function, idx int, field string) bool {
	k := fwKey{fn, idx, field}
	switch fwMemo[k] {
	case 1, 2:
		return false
	case 3:
		return true
	}
	fwMemo[k] = 1
	res := false
	if fn.Blocks != nil && idx < len(fn.Params) {
		// values derived from the parameter (pointer copies, phis)
		derived := map[ssa.Value]bool{fn.Params[idx]: true}
		changed := true
		for changed {
			changed = false
			for _, b := range fn.Blocks {
				for _, in := range b.Instrs {
					switch x := in.(type) {
					case *ssa.Phi:
						for _, e := range x.Edges {
							if derived[e] && !derived[x] {
								derived[x] = true
								changed = true
							}
						}
					case *ssa.ChangeType:
						if derived[x.X] && !derived[x] {
							derived[x] = true
							changed = true
						}
					case *ssa.UnOp:
						// load of a spilled pointer parameter
						if x.Op == token.MUL {
							if al, ok := x.X.(*ssa.Alloc); ok {
								for _, r := range *al.Referrers() {
									if st, ok := r.(*ssa.Store); ok && st.Addr == al && derived[st.Val] && !derived[x] {
										derived[x] = true
										changed = true
									}
								}
							}
						}
					}
				}
			}
		}
		for _, b := range fn.Blocks {
			for _, in := range b.Instrs {
				switch x := in.(type) {
				case *ssa.Store:
					if fa, ok := x.Addr.(*ssa.FieldAddr); ok && derived[fa.X] && fieldName(fa.X.Type(), fa.Field) == field {
						res = true
					}
				case ssa.CallInstruction:
					c := x.Common()
					var actuals []ssa.Value
					if c.IsInvoke() {
						actuals = append(actuals, c.Value)
					}
					actuals = append(actuals, c.Args...)
					for i, a := range actuals {
						if !derived[a] {
							continue
						}
						for _, cal := range p.Callees(x) {
							if p.MayWriteField(cal, i, field) {
								res = true
							}
						}
					}
				}
			}
		}
	}
	if res {
		fwMemo[k] = 3
	} else {
		fwMemo[k] = 2
	}
	return res
}

// InCycle reports whether block b lies on a CFG cycle.
func InCycle(b *ssa.BasicBlock) bool { return reachFrom(b, nil, false)[b] }

// SameLoop: blocks a and b are in the same strongly connected component.
func SameLoop(a, b *ssa.BasicBlock) bool {
	if a == b {
		return InCycle(a)
	}
	return reachFrom(a, nil, false)[b] && reachFrom(b, nil, false)[a]
}

// ---- lifting guards through helper functions ----

// LiftGuard extends a guard so that it is also passed by calling a helper that establishes it:
//   - ErrNil(helper(...))=true where every possibly-nil return of the helper lies behind a pass-edge of the
//     guard evaluated inside the helper, and
//   - CallBool(helper(...))=T where every return of the helper that may yield T lies behind such a pass-edge.
//
// mk builds the guard for a given function (provenance of helper parameters is resolved through its callers).
func (p *Program) LiftGuard(mk func(fn *ssa.Function) GuardMatch, depth int) func(fn *ssa.Function) GuardMatch {
	var lifted func(fn *ssa.Function) GuardMatch
	memo := map[string]bool{}
	establishes := func(cal *ssa.Function, wantBool *bool, d int, idx int) bool {
		key := cal.String() + fmt.Sprint("#", idx)
		if wantBool != nil {
			key += fmt.Sprint(*wantBool)
		}
		if v, ok := memo[key]; ok {
			return v
		}
		memo[key] = false // recursion guard
		if cal.Blocks == nil || d > depth {
			return false
		}
		g := mk(cal)
		if d < depth {
			g = lifted(cal)
		}
		removed := p.PassEdges(cal, g)
		ok := true
		n := 0
		if wantBool == nil {
			for _, ri := range p.Returns(cal) {
				if ri.Class == RetFail {
					continue
				}
				n++
				if PathExists(cal, removed, cal.Blocks[0].Instrs[0], ri.Ret) {
					ok = false
				}
			}
		} else {
			for _, b := range cal.Blocks {
				ret, isRet := b.Instrs[len(b.Instrs)-1].(*ssa.Return)
				if !isRet || len(ret.Results) <= idx {
					continue
				}
				// may this return yield *wantBool?
				may := true
				if c, isC := ret.Results[idx].(*ssa.Const); isC && c.Value != nil {
					may = (c.Value.ExactString() == "true") == *wantBool
				}
				if !may {
					continue
				}
				n++
				// a forwarded predicate: `return pred(...)` / `return a == b` is the atom itself
				if _, isC := ret.Results[idx].(*ssa.Const); !isC {
					ca2 := p.normVal(ret.Results[idx], false)
					if p.atomMatches(g, ca2, *wantBool, ret) {
						continue
					}
				}
				if PathExists(cal, removed, cal.Blocks[0].Instrs[0], ret) {
					ok = false
				}
			}
		}
		memo[key] = ok && n > 0
		return memo[key]
	}
	lifted = func(fn *ssa.Function) GuardMatch {
		base := mk(fn)
		return func(ca *CondAtom, truth bool) bool {
			if base(ca, truth) {
				return true
			}
			if ca.Call == nil {
				return false
			}
			callees := p.Callees(ca.Call)
			if len(callees) == 0 {
				return false
			}
			switch ca.Kind {
			case "errnil":
				if !truth {
					return false
				}
				for _, cal := range callees {
					if errResultIndex(cal) < 0 || !establishes(cal, nil, 1, 0) {
						return false
					}
				}
				return true
			case "callbool":
				idx := 0
				if ex, ok := ca.X.(*ssa.Extract); ok {
					idx = ex.Index
				}
				for _, cal := range callees {
					t := truth
					if !establishes(cal, &t, 1, idx) {
						return false
					}
				}
				return true
			}
			return false
		}
	}
	return lifted
}

// atomMatches evaluates a guard on a returned (not branched-on) condition value.
func (p *Program) atomMatches(g GuardMatch, ca *CondAtom, want bool, at ssa.Instruction) bool {
	truth := want
	if ca.Neg {
		truth = !want
	}
	tmp := *ca
	tmp.If = at
	if g(&tmp, truth) {
		return true
	}
	if ca.Alt != nil {
		alt := *ca.Alt
		alt.If = at
		p.noteLift(&alt)
		return g(&alt, want != alt.Neg)
	}
	return false
}

// NormCondValue normalises an arbitrary boolean value (not necessarily a branch condition).
func (p *Program) NormCondValue(v ssa.Value) *CondAtom { return p.normVal(v, false) }
