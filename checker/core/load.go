// Package core holds the reusable analyses (engines E1..E10 of DESIGN.md).
package core

import (
	"crypto/sha256"
	"encoding/hex"
	"fmt"
	"go/ast"
	"go/token"
	"go/types"
	"os"
	"path/filepath"
	"sort"
	"strings"

	"golang.org/x/tools/go/packages"
	"golang.org/x/tools/go/ssa"
	"golang.org/x/tools/go/ssa/ssautil"
)

// ModPath is the module path of the repository under analysis.
const ModPath = "github.com/jackalLabs/canine-chain/v4"

// Program is the loaded, type-checked repository with its SSA form.
type Program struct {
	Repo   string
	Fset   *token.FileSet
	Pkgs   []*packages.Package // custom packages (with syntax)
	ByPath map[string]*packages.Package
	SSA    *ssa.Program
	SSAPkg map[string]*ssa.Package
	// Funcs are all source-level functions (incl. anonymous) of custom packages.
	Funcs      []*ssa.Function
	TreeDigest string
	NFiles     int
	Whole      bool // LoadAllSyntax (thorough)

	cg               *CallGraph
	sums             map[*ssa.Function]*FnSummary
	provMem          map[provKey]Prov
	provBusy         map[provKey]bool
	storeFx          map[*ssa.Function]*storeFnInfo
	storeHelperDepth int
	lift             map[liftKey]ssa.CallInstruction
	liftDepth        int
	paramFn          map[*ssa.Parameter][]*ssa.Function
	blockReach       map[*ssa.BasicBlock]map[*ssa.BasicBlock]bool
	paramMins        map[string]map[string]int64
	absCache         map[*ssa.Function]absCached
}

// LoadConfig controls Load.
type LoadConfig struct {
	Repo    string
	Whole   bool
	Overlay map[string][]byte
}

// Load loads ./x/... ./app/... ./wasmbinding/... ./types/... of the repo.
func Load(cfg LoadConfig) (*Program, error) {
	env := append(os.Environ(),
		"GOFLAGS=-mod=mod", "GOPROXY=off", "GOSUMDB=off", "GOWORK=off", "GOTOOLCHAIN=local", "CGO_ENABLED=1")
	mode := packages.NeedName | packages.NeedFiles | packages.NeedCompiledGoFiles | packages.NeedImports |
		packages.NeedTypes | packages.NeedTypesSizes | packages.NeedSyntax | packages.NeedTypesInfo | packages.NeedModule
	if cfg.Whole {
		mode |= packages.NeedDeps
	}
	pc := &packages.Config{
		Mode:    mode,
		Dir:     cfg.Repo,
		Env:     env,
		Fset:    token.NewFileSet(),
		Overlay: cfg.Overlay,
		Tests:   false,
	}
	pkgs, err := packages.Load(pc, "./x/...", "./app/...", "./wasmbinding/...", "./types/...", "./cmd/...")
	if err != nil {
		return nil, fmt.Errorf("load: %w", err)
	}
	if len(pkgs) == 0 {
		return nil, fmt.Errorf("load: zero packages")
	}
	var errs []string
	for _, p := range pkgs {
		for _, e := range p.Errors {
			errs = append(errs, p.PkgPath+": "+e.Error())
		}
	}
	if len(errs) > 0 {
		sort.Strings(errs)
		if len(errs) > 10 {
			errs = errs[:10]
		}
		return nil, fmt.Errorf("load: type errors:\n%s", strings.Join(errs, "\n"))
	}
	p := &Program{Repo: cfg.Repo, Fset: pc.Fset, ByPath: map[string]*packages.Package{}, SSAPkg: map[string]*ssa.Package{}, Whole: cfg.Whole}
	sort.Slice(pkgs, func(i, j int) bool { return pkgs[i].PkgPath < pkgs[j].PkgPath })
	for _, pk := range pkgs {
		if strings.HasPrefix(pk.PkgPath, ModPath) {
			p.Pkgs = append(p.Pkgs, pk)
			p.ByPath[pk.PkgPath] = pk
		}
	}
	if len(p.Pkgs) < 20 {
		return nil, fmt.Errorf("load: only %d custom packages (expected >= 20)", len(p.Pkgs))
	}
	var prog *ssa.Program
	var spkgs []*ssa.Package
	bmode := ssa.InstantiateGenerics
	if cfg.Whole {
		prog, spkgs = ssautil.AllPackages(pkgs, bmode)
	} else {
		prog, spkgs = ssautil.Packages(pkgs, bmode)
	}
	prog.Build()
	p.SSA = prog
	for i, sp := range spkgs {
		if sp == nil {
			return nil, fmt.Errorf("load: no SSA for %s", pkgs[i].PkgPath)
		}
	}
	for _, sp := range prog.AllPackages() {
		p.SSAPkg[sp.Pkg.Path()] = sp
	}
	// all functions in custom packages
	all := ssautil.AllFunctions(prog)
	for fn := range all {
		if fn.Pkg == nil && fn.Parent() == nil {
			// wrappers/thunks/instantiations: keep those whose origin is custom
			if fn.Origin() == nil || fn.Origin().Pkg == nil || !strings.HasPrefix(fn.Origin().Pkg.Pkg.Path(), ModPath) {
				continue
			}
		}
		if IsCustomFn(fn) && fn.Blocks != nil {
			p.Funcs = append(p.Funcs, fn)
		}
	}
	sort.Slice(p.Funcs, func(i, j int) bool { return p.Funcs[i].String() < p.Funcs[j].String() })
	// digest of analysed files
	h := sha256.New()
	var files []string
	for _, pk := range p.Pkgs {
		files = append(files, pk.CompiledGoFiles...)
	}
	sort.Strings(files)
	for _, f := range files {
		var b []byte
		if ov, ok := cfg.Overlay[f]; ok {
			b = ov
		} else {
			b, err = os.ReadFile(f)
			if err != nil {
				return nil, err
			}
		}
		rel, _ := filepath.Rel(cfg.Repo, f)
		fmt.Fprintf(h, "%s %d\n", rel, len(b))
		h.Write(b)
	}
	p.NFiles = len(files)
	p.TreeDigest = hex.EncodeToString(h.Sum(nil))
	p.sums = map[*ssa.Function]*FnSummary{}
	p.provMem = map[provKey]Prov{}
	p.provBusy = map[provKey]bool{}
	return p, nil
}

// FnPkgPath returns the package path of a function (following parents / origins).
func FnPkgPath(fn *ssa.Function) string {
	for f := fn; f != nil; f = f.Parent() {
		if f.Pkg != nil {
			return f.Pkg.Pkg.Path()
		}
		if o := f.Origin(); o != nil && o.Pkg != nil {
			return o.Pkg.Pkg.Path()
		}
		if f.Object() != nil && f.Object().Pkg() != nil {
			return f.Object().Pkg().Path()
		}
	}
	return ""
}

// IsCustomFn reports whether fn belongs to the repository's own packages.
func IsCustomFn(fn *ssa.Function) bool {
	return fn != nil && strings.HasPrefix(FnPkgPath(fn), ModPath)
}

// IsGenerated reports whether the function's file is a generated *.pb.go / *.pb.gw.go file.
func (p *Program) IsGenerated(fn *ssa.Function) bool {
	pos := fn.Pos()
	if !pos.IsValid() {
		if fn.Parent() != nil {
			return p.IsGenerated(fn.Parent())
		}
		return false
	}
	f := p.Fset.Position(pos).Filename
	return strings.HasSuffix(f, ".pb.go") || strings.HasSuffix(f, ".pb.gw.go")
}

// Pos renders a position relative to the repo root.
func (p *Program) Pos(pos token.Pos) string {
	if !pos.IsValid() {
		return "-"
	}
	ps := p.Fset.Position(pos)
	rel, err := filepath.Rel(p.Repo, ps.Filename)
	if err != nil {
		rel = ps.Filename
	}
	return fmt.Sprintf("%s:%d", rel, ps.Line)
}

// InstrPos returns the best position for an instruction (falls back to the enclosing function).
func (p *Program) InstrPos(in ssa.Instruction) string {
	if in == nil {
		return "-"
	}
	if in.Pos().IsValid() {
		return p.Pos(in.Pos())
	}
	if ifi, ok := in.(*ssa.If); ok {
		if vi, ok := ifi.Cond.(ssa.Instruction); ok && vi.Pos().IsValid() {
			return p.Pos(vi.Pos())
		}
		if bo, ok := ifi.Cond.(*ssa.UnOp); ok {
			if vi, ok := bo.X.(ssa.Instruction); ok && vi.Pos().IsValid() {
				return p.Pos(vi.Pos())
			}
		}
		// position of the first positioned instruction in the block
		for i := len(ifi.Block().Instrs) - 1; i >= 0; i-- {
			if x := ifi.Block().Instrs[i]; x.Pos().IsValid() {
				return p.Pos(x.Pos())
			}
		}
	}
	if v, ok := in.(ssa.Value); ok {
		for _, r := range *v.Referrers() {
			if r.Pos().IsValid() {
				return p.Pos(r.Pos())
			}
		}
	}
	return p.Pos(in.Parent().Pos())
}

// RelPkg strips the module path from a package path.
func RelPkg(path string) string {
	return strings.TrimPrefix(strings.TrimPrefix(path, ModPath), "/")
}

// FnName gives a short readable name: "x/storage/keeper.(msgServer).PostFile".
func FnName(fn *ssa.Function) string {
	if fn == nil {
		return "<nil>"
	}
	s := fn.String()
	s = strings.ReplaceAll(s, ModPath+"/", "")
	return s
}

// FuncByName finds a package-level function or method: pkg relative path, optional receiver type name, name.
func (p *Program) FuncByName(relPkg, recv, name string) *ssa.Function {
	sp := p.SSAPkg[ModPath+"/"+relPkg]
	if relPkg == "" {
		sp = p.SSAPkg[ModPath]
	}
	if sp == nil {
		return nil
	}
	if recv == "" {
		return sp.Func(name)
	}
	tn, ok := sp.Pkg.Scope().Lookup(recv).(*types.TypeName)
	if !ok {
		return nil
	}
	for _, t := range []types.Type{tn.Type(), types.NewPointer(tn.Type())} {
		ms := p.SSA.MethodSets.MethodSet(t)
		if sel := ms.Lookup(sp.Pkg, name); sel != nil {
			return p.SSA.MethodValue(sel)
		}
	}
	return nil
}

// NamedType looks up a named type in a custom package.
func (p *Program) NamedType(relPkg, name string) *types.Named {
	pk := p.ByPath[ModPath+"/"+relPkg]
	if pk == nil {
		return nil
	}
	tn, ok := pk.Types.Scope().Lookup(name).(*types.TypeName)
	if !ok {
		return nil
	}
	n, _ := tn.Type().(*types.Named)
	return n
}

// FileOf returns the ast.File containing pos.
func (p *Program) FileOf(pos token.Pos) (*packages.Package, *ast.File) {
	for _, pk := range p.Pkgs {
		for _, f := range pk.Syntax {
			if f.Pos() <= pos && pos <= f.End() {
				return pk, f
			}
		}
	}
	return nil, nil
}
