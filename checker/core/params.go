package core

import (
	"go/token"
	"strconv"
	"strings"

	"golang.org/x/tools/go/ssa"
)

// ParamMins returns, for a module, the minimum value each integer parameter may take according to its
// ParamSetPair validator (T6): the validator must return a non-nil error on the edge `v < c` / `v <= c`.
func (p *Program) ParamMins(module string) map[string]int64 {
	if p.paramMins == nil {
		p.paramMins = map[string]map[string]int64{}
	}
	if m, ok := p.paramMins[module]; ok {
		return m
	}
	out := map[string]int64{}
	p.paramMins[module] = out
	for _, fn := range p.Funcs {
		if RelPkg(FnPkgPath(fn)) != "x/"+module+"/types" || fn.Name() != "ParamSetPairs" {
			continue
		}
		for _, b := range fn.Blocks {
			for _, in := range b.Instrs {
				call, ok := in.(*ssa.Call)
				if !ok || !strings.HasSuffix(CalleeFullName(call), "params/types.NewParamSetPair") || len(call.Call.Args) != 3 {
					continue
				}
				field := ""
				if mi, ok := call.Call.Args[1].(*ssa.MakeInterface); ok {
					if fa, ok := mi.X.(*ssa.FieldAddr); ok {
						field = fieldName(fa.X.Type(), fa.Field)
					}
				}
				var vf *ssa.Function
				switch v := call.Call.Args[2].(type) {
				case *ssa.Function:
					vf = v
				case *ssa.ChangeType:
					vf, _ = v.X.(*ssa.Function)
				case *ssa.MakeClosure:
					vf, _ = v.Fn.(*ssa.Function)
				}
				if field == "" || vf == nil || vf.Blocks == nil {
					continue
				}
				if min, ok := p.validatorMin(vf); ok {
					out[field] = min
				}
			}
		}
	}
	return out
}

func (p *Program) validatorMin(vf *ssa.Function) (int64, bool) {
	rets := p.Returns(vf)
	best, found := int64(0), false
	for _, b := range vf.Blocks {
		ifi, ok := b.Instrs[len(b.Instrs)-1].(*ssa.If)
		if !ok {
			continue
		}
		bo, ok := ifi.Cond.(*ssa.BinOp)
		if !ok {
			continue
		}
		c, ok := bo.Y.(*ssa.Const)
		op := bo.Op
		x := bo.X
		if !ok {
			c, ok = bo.X.(*ssa.Const)
			x = bo.Y
			switch op {
			case token.LSS:
				op = token.GTR
			case token.LEQ:
				op = token.GEQ
			case token.GTR:
				op = token.LSS
			case token.GEQ:
				op = token.LEQ
			}
		}
		if !ok || c.Value == nil {
			continue
		}
		// x must be the asserted parameter value
		ex, ok := x.(*ssa.Extract)
		if !ok {
			continue
		}
		ta, ok := ex.Tuple.(*ssa.TypeAssert)
		if !ok || ta.X != ssa.Value(vf.Params[0]) {
			continue
		}
		cv, err := strconv.ParseInt(c.Value.ExactString(), 10, 64)
		if err != nil {
			continue
		}
		// true edge must lead only to failing returns
		s := b.Succs[0]
		reach := reachFrom(s, nil, true)
		onlyFail, any := true, false
		for _, r := range rets {
			if reach[r.Ret.Block()] {
				any = true
				if r.Class != RetFail {
					onlyFail = false
				}
			}
		}
		if !any || !onlyFail {
			continue
		}
		var min int64
		switch op {
		case token.LSS:
			min = cv
		case token.LEQ:
			min = cv + 1
		default:
			continue
		}
		if !found || min > best {
			best, found = min, true
		}
	}
	return best, found
}
