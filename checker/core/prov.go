package core

import (
	"fmt"
	"go/token"
	"go/types"
	"sort"
	"strings"

	"golang.org/x/tools/go/ssa"
)

// Atom is a source of a value in the backward data-dependence slice (E5).
type Atom struct {
	Kind string // param | store | params | ctx | ext | const | global | zero | top | free
	Name string // store: module/prefix ; params: module ; ctx: method ; ext: callee ; const: literal ; global: name
	Path string // field path below the root, e.g. ".Creator"
	Fn   *ssa.Function
	Idx  int
	Call ssa.CallInstruction
}

func (a Atom) Key() string {
	switch a.Kind {
	case "param":
		return "param:" + a.Fn.String() + "#" + itoa(a.Idx) + a.Path
	case "store":
		return "store:" + a.Name + a.Path
	case "params":
		return "params:" + a.Name + a.Path
	default:
		return a.Kind + ":" + a.Name + a.Path
	}
}

func (a Atom) String() string {
	switch a.Kind {
	case "param":
		name := "p" + itoa(a.Idx)
		if a.Idx < len(a.Fn.Params) {
			name = a.Fn.Params[a.Idx].Name()
		}
		return "param(" + a.Fn.Name() + ":" + name + ")" + a.Path
	case "store":
		return "Store(" + a.Name + ")" + a.Path
	case "params":
		return "Param(" + a.Name + ")" + a.Path
	case "ctx":
		return "Ctx." + a.Name
	case "ext":
		return "Call(" + a.Name + ")" + a.Path
	case "const":
		return "Const(" + a.Name + ")"
	}
	return a.Kind + "(" + a.Name + ")" + a.Path
}

func itoa(i int) string {
	if i == 0 {
		return "0"
	}
	neg := i < 0
	if neg {
		i = -i
	}
	var b []byte
	for i > 0 {
		b = append([]byte{byte('0' + i%10)}, b...)
		i /= 10
	}
	if neg {
		b = append([]byte{'-'}, b...)
	}
	return string(b)
}

// Prov is a set of atoms.
type Prov map[string]Atom

func (p Prov) add(a Atom) { p[a.Key()] = a }
func (p Prov) union(q Prov) {
	for k, v := range q {
		p[k] = v
	}
}

// Strings renders the atoms sorted.
func (p Prov) Strings() []string {
	var out []string
	for _, a := range p {
		out = append(out, a.String())
	}
	sort.Strings(out)
	return out
}

func (p Prov) String() string { return "{" + strings.Join(p.Strings(), ", ") + "}" }

// Any reports whether some atom satisfies f.
func (p Prov) Any(f func(Atom) bool) bool {
	for _, a := range p {
		if f(a) {
			return true
		}
	}
	return false
}

// All reports whether every non-constant atom satisfies f (and there is at least one).
func (p Prov) All(f func(Atom) bool) bool {
	n := 0
	for _, a := range p {
		if a.Kind == "const" || a.Kind == "zero" {
			continue
		}
		n++
		if !f(a) {
			return false
		}
	}
	return n > 0
}

// HasTop reports an undecided (⊤) atom.
func (p Prov) HasTop() bool { return p.Any(func(a Atom) bool { return a.Kind == "top" }) }

// HasParam: some atom is the given parameter of fn with a path having the given prefix.
func (p Prov) HasParam(fn *ssa.Function, idx int, path string) bool {
	return p.Any(func(a Atom) bool {
		return a.Kind == "param" && a.Fn == fn && a.Idx == idx && (a.Path == path || strings.HasPrefix(a.Path, path+".") || strings.HasPrefix(a.Path, path+"[") || path == "")
	})
}

// HasStore: some atom is a field of a record loaded from module/prefix.
func (p Prov) HasStore(name, path string) bool {
	return p.Any(func(a Atom) bool {
		return a.Kind == "store" && a.Name == name && (path == "" || a.Path == path || strings.HasPrefix(a.Path, path+".") || strings.HasPrefix(a.Path, path+"["))
	})
}

// HasParams: some atom is a module parameter field.
func (p Prov) HasParams(module, path string) bool {
	return p.Any(func(a Atom) bool {
		return a.Kind == "params" && a.Name == module && (path == "" || a.Path == path)
	})
}

// HasCtx reports a dependence on a Context accessor.
func (p Prov) HasCtx(method string) bool {
	return p.Any(func(a Atom) bool { return a.Kind == "ctx" && a.Name == method })
}

// HasExt reports a dependence on the result of an external callee whose name contains sub.
func (p Prov) HasExt(sub string) bool {
	return p.Any(func(a Atom) bool { return a.Kind == "ext" && strings.Contains(a.Name, sub) })
}

type provKey struct {
	v    ssa.Value
	path string
	at   ssa.Instruction
}

const provMaxDepth = 10

// ProvOf computes the provenance of (sub-component path of) v in the context of its own function:
// parameters of that function stay as param atoms.
func (p *Program) ProvOf(v ssa.Value, path string) Prov {
	return p.prov(v, path, nil, 0)
}

// ProvAt is ProvOf for a location read at instruction `at` (only stores that may reach `at` count).
func (p *Program) ProvAt(v ssa.Value, path string, at ssa.Instruction) Prov {
	if call, ok := p.lift[liftKey{v, at}]; ok {
		// an operand of a lifted comparison helper: its provenance inside the helper, with the helper's parameters
		// replaced by the arguments of this very call
		if cals := p.Callees(call); len(cals) == 1 {
			sub := p.prov(v, path, nil, 0)
			out := Prov{}
			p.substInto(out, sub, cals[0], call, 0)
			return out
		}
	}
	return p.prov(v, path, at, 0)
}

// mayReach: can control flow from instruction s to instruction l (same function)?
func (p *Program) mayReach(s, l ssa.Instruction) bool {
	if s == nil || l == nil || s.Parent() != l.Parent() {
		return true
	}
	sb, lb := s.Block(), l.Block()
	if sb == lb && instrIndex(s) < instrIndex(l) {
		return true
	}
	if p.blockReach == nil {
		p.blockReach = map[*ssa.BasicBlock]map[*ssa.BasicBlock]bool{}
	}
	r, ok := p.blockReach[sb]
	if !ok {
		r = reachFrom(sb, nil, false)
		p.blockReach[sb] = r
	}
	return r[lb]
}

var busyHits int

func (p *Program) prov(v ssa.Value, path string, at ssa.Instruction, depth int) Prov {
	out := Prov{}
	if v == nil {
		return out
	}
	if depth > 1500 {
		out.add(Atom{Kind: "top", Name: "depth"})
		return out
	}
	key := provKey{v, path, at}
	if r, ok := p.provMem[key]; ok {
		return r
	}
	if p.provBusy[key] {
		busyHits++
		return out
	}
	p.provBusy[key] = true
	before := busyHits
	p.prov1(v, path, at, depth, out)
	delete(p.provBusy, key)
	if busyHits == before {
		p.provMem[key] = out
	}
	return out
}

func fieldName(t types.Type, idx int) string {
	for {
		if pt, ok := t.Underlying().(*types.Pointer); ok {
			t = pt.Elem()
			continue
		}
		break
	}
	if st, ok := t.Underlying().(*types.Struct); ok && idx < st.NumFields() {
		return st.Field(idx).Name()
	}
	return "?"
}

func isCtxType(t types.Type) bool {
	s := t.String()
	return s == "github.com/cosmos/cosmos-sdk/types.Context" || s == "context.Context"
}

// splitHead: path ".A.B" -> head ".A", rest ".B"; "[].x" -> "[]", ".x"
func splitHead(path string) (string, string) {
	if path == "" {
		return "", ""
	}
	if strings.HasPrefix(path, "[]") {
		return "[]", path[2:]
	}
	i := 1
	for i < len(path) && path[i] != '.' && path[i] != '[' {
		i++
	}
	return path[:i], path[i:]
}

func (p *Program) prov1(v ssa.Value, path string, at ssa.Instruction, depth int, out Prov) {
	switch x := v.(type) {
	case *ssa.Const:
		if x.Value == nil {
			out.add(Atom{Kind: "zero", Name: "nil"})
		} else {
			out.add(Atom{Kind: "const", Name: x.Value.ExactString()})
		}
	case *ssa.Parameter:
		fn := x.Parent()
		idx := -1
		for i, pr := range fn.Params {
			if pr == x {
				idx = i
			}
		}
		if isCtxType(x.Type()) {
			out.add(Atom{Kind: "ctx", Name: "ctx"})
			return
		}
		out.add(Atom{Kind: "param", Fn: fn, Idx: idx, Path: path})
		if _, isPtr := x.Type().Underlying().(*types.Pointer); isPtr {
			p.locWrites(x, path, at, depth, out)
		}
	case *ssa.FreeVar:
		fn := x.Parent()
		idx := -1
		for i, fv := range fn.FreeVars {
			if fv == x {
				idx = i
			}
		}
		bound := false
		parents := []*ssa.Function{fn.Parent()}
		if fn.Parent() == nil {
			// a bound-method wrapper (k.method used as a value) has no lexical parent: its receiver is bound where the
			// method value is created
			parents = p.CG().In[fn]
		}
		for _, par := range parents {
			if par == nil || idx < 0 {
				continue
			}
			for _, b := range par.Blocks {
				for _, in := range b.Instrs {
					if mc, ok := in.(*ssa.MakeClosure); ok && mc.Fn == fn && idx < len(mc.Bindings) {
						out.union(p.prov(mc.Bindings[idx], path, nil, depth+1))
						bound = true
					}
				}
			}
		}
		if !bound {
			out.add(Atom{Kind: "top", Name: "freevar"})
		}
		// writes through the free variable inside the closure
		p.locWrites(x, path, at, depth, out)
	case *ssa.Alloc:
		n := len(out)
		p.locWrites(x, path, at, depth, out)
		if len(out) == n {
			out.add(Atom{Kind: "zero", Name: "alloc"})
		}
	case *ssa.FieldAddr:
		p.provIntoAt(out, x.X, "."+fieldName(x.X.Type(), x.Field)+path, at, depth)
	case *ssa.Field:
		p.provInto(out, x.X, "."+fieldName(x.X.Type(), x.Field)+path, depth)
	case *ssa.IndexAddr:
		p.provIntoAt(out, x.X, "[]"+path, at, depth)
		p.provInto(out, x.Index, "", depth)
	case *ssa.Index:
		p.provInto(out, x.X, "[]"+path, depth)
		p.provInto(out, x.Index, "", depth)
	case *ssa.Lookup:
		p.provInto(out, x.X, "[]"+path, depth)
		p.provInto(out, x.Index, "", depth)
	case *ssa.UnOp:
		if x.Op == token.MUL {
			p.provIntoAt(out, x.X, path, x, depth)
		} else {
			p.provInto(out, x.X, "", depth)
		}
	case *ssa.BinOp:
		p.provInto(out, x.X, "", depth)
		p.provInto(out, x.Y, "", depth)
	case *ssa.Phi:
		for _, e := range x.Edges {
			p.provIntoAt(out, e, path, at, depth)
		}
	case *ssa.Convert:
		p.provInto(out, x.X, path, depth)
	case *ssa.ChangeType:
		p.provInto(out, x.X, path, depth)
	case *ssa.MakeInterface:
		p.provInto(out, x.X, path, depth)
	case *ssa.ChangeInterface:
		p.provInto(out, x.X, path, depth)
	case *ssa.TypeAssert:
		p.provInto(out, x.X, path, depth)
	case *ssa.Slice:
		p.provInto(out, x.X, path, depth)
		if x.Low != nil {
			p.provInto(out, x.Low, "", depth)
		}
		if x.High != nil {
			p.provInto(out, x.High, "", depth)
		}
	case *ssa.SliceToArrayPointer:
		p.provInto(out, x.X, path, depth)
	case *ssa.Extract:
		if call, ok := x.Tuple.(*ssa.Call); ok {
			p.callResult(out, call, x.Index, path, depth)
		} else if nx, ok := x.Tuple.(*ssa.Next); ok {
			if rg, ok := nx.Iter.(*ssa.Range); ok {
				p.provInto(out, rg.X, "[]"+path, depth)
			}
		} else if ta, ok := x.Tuple.(*ssa.TypeAssert); ok {
			p.provInto(out, ta.X, path, depth)
		} else if lk, ok := x.Tuple.(*ssa.Lookup); ok {
			p.provInto(out, lk.X, "[]"+path, depth)
			p.provInto(out, lk.Index, "", depth)
		} else if uo, ok := x.Tuple.(*ssa.UnOp); ok {
			p.provInto(out, uo.X, path, depth)
		} else {
			out.add(Atom{Kind: "top", Name: "extract"})
		}
	case *ssa.Call:
		p.callResult(out, x, 0, path, depth)
	case *ssa.Global:
		out.add(Atom{Kind: "global", Name: RelPkg(x.Pkg.Pkg.Path()) + "." + x.Name(), Path: path})
	case *ssa.Function:
		out.add(Atom{Kind: "const", Name: "func " + x.Name()})
	case *ssa.MakeClosure:
		out.add(Atom{Kind: "const", Name: "closure"})
	case *ssa.MakeSlice, *ssa.MakeMap, *ssa.MakeChan:
		n := len(out)
		p.locWrites(v, path, at, depth, out)
		if len(out) == n {
			out.add(Atom{Kind: "zero", Name: "make"})
		}
	case *ssa.Builtin:
	case *ssa.Range, *ssa.Next:
	default:
		out.add(Atom{Kind: "top", Name: fmt.Sprintf("value:%T", v)})
	}
}

func (p *Program) provInto(out Prov, v ssa.Value, path string, depth int) {
	out.union(p.prov(v, path, nil, depth+1))
}

func (p *Program) provIntoAt(out Prov, v ssa.Value, path string, at ssa.Instruction, depth int) {
	out.union(p.prov(v, path, at, depth+1))
}

// locWrites adds the provenance of everything written to the location root (a pointer, map or slice value)
// at path, by scanning root's referrers. Only writes that may reach instruction `at` count (at==nil: all).
func (p *Program) locWrites(root ssa.Value, path string, at ssa.Instruction, depth int, out Prov) {
	p.locW(root, path, at, depth, out, map[provKey]bool{})
}

func (p *Program) locW(root ssa.Value, path string, at ssa.Instruction, depth int, out Prov, seen map[provKey]bool) {
	k := provKey{root, path, nil}
	if seen[k] {
		return
	}
	seen[k] = true
	refs := root.Referrers()
	if refs == nil {
		return
	}
	if depth > 200 {
		out.add(Atom{Kind: "top", Name: "loc-depth"})
		return
	}
	for _, r := range *refs {
		switch x := r.(type) {
		case *ssa.Store:
			if x.Addr == root && p.mayReach(x, at) {
				p.provInto(out, x.Val, path, depth)
			}
		case *ssa.FieldAddr:
			if x.X != root {
				continue
			}
			name := "." + fieldName(x.X.Type(), x.Field)
			if path == "" {
				p.locW(x, "", at, depth+1, out, seen)
			} else if h, rest := splitHead(path); h == name {
				p.locW(x, rest, at, depth+1, out, seen)
			}
		case *ssa.IndexAddr:
			if x.X != root {
				continue
			}
			if path == "" {
				p.locW(x, "", at, depth+1, out, seen)
			} else if h, rest := splitHead(path); h == "[]" {
				p.locW(x, rest, at, depth+1, out, seen)
			}
		case *ssa.MapUpdate:
			if x.Map == root && p.mayReach(x, at) {
				_, rest := splitHead(path)
				if path == "" || strings.HasPrefix(path, "[]") {
					p.provInto(out, x.Value, rest, depth)
				}
			}
		case *ssa.UnOp:
			// a load of a pointer-to-pointer/map/slice location: writes through the loaded value
			if x.Op == token.MUL && x.X == root {
				switch x.Type().Underlying().(type) {
				case *types.Map, *types.Pointer, *types.Slice:
					// (a slice read back from the location shares its backing array: form.List[i] = v)
					p.locW(x, path, at, depth+1, out, seen)
				}
			}
		case *ssa.Slice:
			if x.X == root {
				p.locW(x, path, at, depth+1, out, seen)
			}
		case *ssa.Phi:
			// pointer merged: writes through the phi also hit this location
			p.locW(x, path, at, depth+1, out, seen)
		case *ssa.MakeClosure:
			fn, _ := x.Fn.(*ssa.Function)
			for i, b := range x.Bindings {
				if b == root && fn != nil && i < len(fn.FreeVars) {
					p.locW(fn.FreeVars[i], path, nil, depth+1, out, seen)
				}
			}
		case ssa.CallInstruction:
			c := x.Common()
			if c.IsInvoke() && c.Value == root {
				continue
			}
			if !p.mayReach(x, at) {
				continue
			}
			argIdx := -1
			for i, a := range c.Args {
				if a == root {
					argIdx = i
				}
			}
			if argIdx < 0 {
				continue
			}
			if bi, isB := c.Value.(*ssa.Builtin); isB {
				// copy(dst, src) writes the elements of src into dst
				if bi.Name() == "copy" && argIdx == 0 && len(c.Args) == 2 {
					p.provInto(out, c.Args[1], path, depth)
				}
				continue
			}
			p.callWrites(x, argIdx, path, depth, out, seen)
		case *ssa.MakeInterface:
			// the location passed as an interface (MustUnmarshal(b, &val))
			if x.X != root {
				continue
			}
			for _, rr := range *x.Referrers() {
				call, ok := rr.(ssa.CallInstruction)
				if !ok || !p.mayReach(call, at) {
					continue
				}
				c := call.Common()
				for i, a := range c.Args {
					if a == x {
						p.callWrites(call, i, path, depth, out, seen)
					}
				}
			}
		}
	}
}

// callWrites: what a call may write through its pointer argument argIdx (at path).
func (p *Program) callWrites(x ssa.CallInstruction, argIdx int, path string, depth int, out Prov, seen map[provKey]bool) {
	c := x.Common()
	callees := p.Callees(x)
	if len(callees) > 0 {
		for _, cal := range callees {
			pi := argIdx
			if c.IsInvoke() {
				pi = argIdx + 1
			}
			if pi < len(cal.Params) {
				sub := Prov{}
				p.locW(cal.Params[pi], path, nil, depth+3, sub, seen)
				p.substInto(out, sub, cal, x, depth)
			}
		}
		return
	}
	name := CalleeFullName(x)
	if n := calleeName(x); n == "GetParamSet" || n == "GetParamSetIfExists" {
		out.add(Atom{Kind: "params", Name: ModuleOf(x.Parent()), Path: path})
		return
	}
	if isPureReader(name) {
		return
	}
	if kind, ok := isCodecCall(x); ok && kind == "marshal" {
		return
	}
	out.add(Atom{Kind: "ext", Name: name, Call: x, Path: path})
	for i, a := range c.Args {
		if i == argIdx || isCtxType(a.Type()) {
			continue
		}
		p.provInto(out, a, "", depth)
	}
}

// isPureReader: external callees that take a pointer / slice / interface but do not write through it.
// Only a closed list of decoder-style callees is treated as writing through an argument
// (documented limit: an unknown external writer is missed, under-approximating provenance).
func isPureReader(name string) bool {
	for _, s := range []string{"Unmarshal", "Decode", "GetParamSet", "GetParamSetIfExists", "io.ReadFull", ".Read", "Scan", "binary.Put", "copy"} {
		if strings.Contains(name, s) {
			return false
		}
	}
	return true
}

// substInto rewrites callee-context atoms (params of cal) into the caller's context at call site.
func (p *Program) substInto(out Prov, sub Prov, cal *ssa.Function, call ssa.CallInstruction, depth int) {
	c := call.Common()
	var actuals []ssa.Value
	if c.IsInvoke() {
		actuals = append(actuals, c.Value)
	}
	actuals = append(actuals, c.Args...)
	for _, a := range sub {
		if a.Kind == "param" && a.Fn == cal {
			if a.Idx >= 0 && a.Idx < len(actuals) {
				out.union(p.prov(actuals[a.Idx], a.Path, call, depth+2))
			} else {
				out.add(Atom{Kind: "top", Name: "param-arity"})
			}
			continue
		}
		out.add(a)
	}
}

func (p *Program) callResult(out Prov, call *ssa.Call, idx int, path string, depth int) {
	c := call.Common()
	if b, ok := c.Value.(*ssa.Builtin); ok {
		switch b.Name() {
		case "append":
			for _, a := range c.Args {
				p.provInto(out, a, path, depth)
			}
		case "len", "cap", "min", "max":
			for _, a := range c.Args {
				p.provInto(out, a, "", depth)
			}
		default:
			for _, a := range c.Args {
				p.provInto(out, a, "", depth)
			}
		}
		return
	}
	callees := p.Callees(call)
	if len(callees) > 0 {
		if depth > 1200 {
			out.add(Atom{Kind: "top", Name: "call-depth"})
			return
		}
		for _, cal := range callees {
			if gi := p.StoreGetter(cal); gi != nil && idx == 0 && gi.Type != "" {
				out.add(Atom{Kind: "store", Name: gi.Module + "/" + gi.Prefix, Path: path, Call: call})
				continue
			}
			if gi := p.StoreGetter(cal); gi != nil && idx == 1 && gi.Found {
				out.add(Atom{Kind: "store", Name: gi.Module + "/" + gi.Prefix, Path: "#found", Call: call})
				continue
			}
			if p.IsParamGetter(cal) && idx == 0 {
				out.add(Atom{Kind: "params", Name: ModuleOf(cal), Path: path})
				continue
			}
			sub := Prov{}
			// the value returned next to a non-nil error is dead when the caller uses the result only behind err == nil
			var failing map[*ssa.Return]bool
			if p.FailResultsDead(call, idx, cal) {
				failing = map[*ssa.Return]bool{}
				for _, ri := range p.Returns(cal) {
					if ri.Class == RetFail {
						failing[ri.Ret] = true
					}
				}
			}
			for _, b := range cal.Blocks {
				ret, ok := b.Instrs[len(b.Instrs)-1].(*ssa.Return)
				if !ok || idx >= len(ret.Results) || failing[ret] {
					continue
				}
				sub.union(p.prov(ret.Results[idx], path, ret, depth+4))
			}
			p.substInto(out, sub, cal, call, depth)
		}
		return
	}
	// external
	name := CalleeFullName(call)
	if f := c.StaticCallee(); f != nil && f.Signature.Recv() != nil && isCtxType(f.Signature.Recv().Type()) {
		out.add(Atom{Kind: "ctx", Name: f.Name()})
		return
	}
	if name == "" {
		// dynamic call through a function value
		out.add(Atom{Kind: "ext", Name: "dynamic", Call: call})
		for _, a := range c.Args {
			if !isCtxType(a.Type()) {
				p.provInto(out, a, "", depth)
			}
		}
		return
	}
	// copies: the result is the argument, element for element
	if (strings.HasPrefix(name, "slices.Clone") || strings.HasPrefix(name, "bytes.Clone") || strings.HasPrefix(name, "strings.Clone")) && len(c.Args) == 1 {
		p.provInto(out, c.Args[0], path, depth)
		return
	}
	// field-sensitive coin constructors: Coin{Denom, Amount}
	if (strings.HasSuffix(name, "cosmos-sdk/types.NewCoin") || strings.HasSuffix(name, "cosmos-sdk/types.NewInt64Coin")) && len(c.Args) == 2 {
		switch {
		case strings.HasPrefix(path, ".Denom"):
			out.add(Atom{Kind: "ext", Name: name, Call: call})
			p.provInto(out, c.Args[0], "", depth)
			return
		case strings.HasPrefix(path, ".Amount"):
			out.add(Atom{Kind: "ext", Name: name, Call: call})
			p.provInto(out, c.Args[1], "", depth)
			return
		}
	}
	out.add(Atom{Kind: "ext", Name: name, Call: call})
	if c.IsInvoke() {
		// receiver of external interface: keeper dependencies are not data
		if !strings.Contains(c.Value.Type().String(), "Keeper") && !strings.Contains(c.Value.Type().String(), "codec") && !strings.Contains(c.Value.Type().String(), "Subspace") {
			p.provInto(out, c.Value, "", depth)
			p.objectInputs(out, c.Value, call, depth)
		}
	} else if c.Signature().Recv() != nil && len(c.Args) > 0 {
		p.objectInputs(out, c.Args[0], call, depth)
	}
	for _, a := range c.Args {
		if isCtxType(a.Type()) {
			continue
		}
		p.provInto(out, a, "", depth)
	}
}

// CallerArgProv: union of the provenance of argument idx over all call sites of fn in callers (custom code).
func (p *Program) CallerArgProv(fn *ssa.Function, idx int, path string) Prov {
	out := Prov{}
	for _, caller := range p.CG().In[fn] {
		for _, b := range caller.Blocks {
			for _, in := range b.Instrs {
				call, ok := in.(ssa.CallInstruction)
				if !ok {
					continue
				}
				for _, cal := range p.Callees(call) {
					if cal != fn {
						continue
					}
					c := call.Common()
					var actuals []ssa.Value
					if c.IsInvoke() {
						actuals = append(actuals, c.Value)
					}
					actuals = append(actuals, c.Args...)
					if idx < len(actuals) {
						out.union(p.ProvOf(actuals[idx], path))
					}
				}
			}
		}
	}
	return out
}

// objectInputs: a stateful external object (hash, buffer, builder) accumulates what earlier calls fed into it:
// the provenance of obj at `at` includes the other arguments of every call that may reach `at` and takes obj
// as receiver or argument (h.Write(x), io.WriteString(h, s), b.WriteString(s)).
func (p *Program) objectInputs(out Prov, obj ssa.Value, at ssa.Instruction, depth int) {
	switch obj.(type) {
	case *ssa.Call, *ssa.Extract, *ssa.Alloc, *ssa.MakeInterface, *ssa.Phi:
	default:
		return
	}
	// only reference-like objects can accumulate state: interfaces (hash.Hash, io.Writer) and pointers
	switch obj.Type().Underlying().(type) {
	case *types.Interface, *types.Pointer:
	default:
		return
	}
	if isCtxType(obj.Type()) {
		return
	}
	seen := map[ssa.Value]bool{}
	var walk func(v ssa.Value)
	walk = func(v ssa.Value) {
		if seen[v] || v.Referrers() == nil {
			return
		}
		seen[v] = true
		for _, r := range *v.Referrers() {
			switch x := r.(type) {
			case *ssa.MakeInterface:
				walk(x)
			case *ssa.ChangeInterface:
				walk(x)
			case ssa.CallInstruction:
				if x == at || !p.mayReach(x, at) {
					continue
				}
				c := x.Common()
				if _, isB := c.Value.(*ssa.Builtin); isB {
					continue
				}
				if len(p.Callees(x)) > 0 {
					continue
				}
				uses := c.IsInvoke() && c.Value == v
				for _, a := range c.Args {
					if a == v {
						uses = true
					}
				}
				if !uses {
					continue
				}
				for _, a := range c.Args {
					if a == v || isCtxType(a.Type()) {
						continue
					}
					p.provInto(out, a, "", depth)
				}
			}
		}
	}
	walk(obj)
}

// failResultsDead: every use of result idx of this call lies behind the err == nil edge of a test of the call's error
// result, so what the callee returns together with a non-nil error never reaches a use.
func (p *Program) FailResultsDead(call *ssa.Call, idx int, cal *ssa.Function) bool {
	ei := errResultIndex(cal)
	if ei < 0 || ei == idx || call.Referrers() == nil {
		return false
	}
	var errEx *ssa.Extract
	var vals []*ssa.Extract
	for _, r := range *call.Referrers() {
		if ex, ok := r.(*ssa.Extract); ok {
			if ex.Index == ei {
				errEx = ex
			}
			if ex.Index == idx {
				vals = append(vals, ex)
			}
		}
	}
	if errEx == nil || len(vals) == 0 || errEx.Referrers() == nil {
		return false
	}
	// ok successors of the tests of errEx
	var okSuccs []*ssa.BasicBlock
	for _, r := range *errEx.Referrers() {
		bo, ok := r.(*ssa.BinOp)
		if !ok || (bo.Op != token.EQL && bo.Op != token.NEQ) || !(isNilConst(bo.X) || isNilConst(bo.Y)) || bo.Referrers() == nil {
			continue
		}
		for _, rr := range *bo.Referrers() {
			ifi, ok := rr.(*ssa.If)
			if !ok {
				continue
			}
			succ := 0 // err == nil true
			if bo.Op == token.NEQ {
				succ = 1
			}
			if s := ifi.Block().Succs[succ]; len(s.Preds) == 1 {
				okSuccs = append(okSuccs, s)
			}
		}
	}
	if len(okSuccs) == 0 {
		return false
	}
	for _, v := range vals {
		if v.Referrers() == nil {
			continue
		}
		for _, use := range *v.Referrers() {
			if _, dbg := use.(*ssa.DebugRef); dbg {
				continue
			}
			dominated := false
			for _, s := range okSuccs {
				if s.Dominates(use.Block()) {
					dominated = true
				}
			}
			if !dominated {
				return false
			}
		}
	}
	return true
}
