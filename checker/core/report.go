package core

import (
	"encoding/json"
	"fmt"
	"os"
	"path/filepath"
	"sort"
	"strings"
	"time"
)

// Obligation is one decided rule instance.
type Obligation struct {
	Rule      string   `json:"rule"`
	Construct string   `json:"construct"`
	Pos       string   `json:"pos,omitempty"`
	Verdict   string   `json:"verdict"` // discharged | violated | known-finding | undecided
	Detail    string   `json:"detail,omitempty"`
	Atoms     []string `json:"atoms,omitempty"`
	Path      []string `json:"path,omitempty"`
}

// KnownFinding is an entry of /verif/known_findings.json.
type KnownFinding struct {
	Property  string `json:"property"`
	Rule      string `json:"rule"`
	Construct string `json:"construct"`
	Status    string `json:"status"` // known | fixed
	Commit    string `json:"commit,omitempty"`
	What      string `json:"what"`
}

// Run collects what one check did.
type Run struct {
	Prop        string
	Tier        string
	Seed        int
	VerifDir    string
	Start       time.Time
	Prog        *Program
	Rules       map[string]string
	Obls        []Obligation
	Explanation string
	NotDecided  []string
	Assumptions []string
	nontrivial  map[string]bool
	evals       int
	funcs       map[string]bool
	callSites   int
	Extra       map[string]interface{}
	SelfTest    []string
	Dry         bool // mutant run: print violated (rule, construct) pairs only
}

func NewRun(prop, tier string, seed int, verif string, prog *Program) *Run {
	return &Run{Prop: prop, Tier: tier, Seed: seed, VerifDir: verif, Start: time.Now(), Prog: prog,
		Rules: map[string]string{}, nontrivial: map[string]bool{}, funcs: map[string]bool{}, Extra: map[string]interface{}{}}
}

// Rule registers the text of a rule.
func (r *Run) Rule(id, text string) { r.Rules[id] = text }

// Analysed records that a function was analysed.
func (r *Run) Analysed(names ...string) {
	for _, n := range names {
		r.funcs[n] = true
	}
}

func (r *Run) CallSites(n int) { r.callSites += n }

// Ok records a discharged obligation. nontrivial marks a decision that needed a path search / slice / term comparison.
func (r *Run) Ok(rule, construct, pos, detail string, atoms ...string) {
	r.Obls = append(r.Obls, Obligation{Rule: rule, Construct: construct, Pos: pos, Verdict: "discharged", Detail: detail, Atoms: atoms})
	r.evals++
	r.nontrivial[rule+"|"+construct] = true
}

// Trivial records a discharged obligation that needed no real decision (census entries).
func (r *Run) Trivial(rule, construct, pos, detail string) {
	r.Obls = append(r.Obls, Obligation{Rule: rule, Construct: construct, Pos: pos, Verdict: "discharged", Detail: detail})
	r.evals++
}

// Violation records a violated obligation.
func (r *Run) Violation(rule, construct, pos, detail string, path ...string) {
	r.Obls = append(r.Obls, Obligation{Rule: rule, Construct: construct, Pos: pos, Verdict: "violated", Detail: detail, Path: path})
	r.evals++
	r.nontrivial[rule+"|"+construct] = true
}

// Undecided records a construct the analysis cannot decide (fails the check).
func (r *Run) Undecided(rule, construct, pos, detail string) {
	r.Obls = append(r.Obls, Obligation{Rule: "undecided:" + rule, Construct: construct, Pos: pos, Verdict: "undecided", Detail: detail})
	r.evals++
}

// Floor fails when a rule matched fewer instances than confirmed by hand (vacuity guard).
func (r *Run) Floor(rule string, got, floor int, what string) {
	if got < floor {
		r.Undecided(rule, "vacuous:"+what, "", fmt.Sprintf("rule matched %d %s, expected at least %d", got, what, floor))
	}
}

// Check is a convenience: discharged if ok else violated.
func (r *Run) Check(ok bool, rule, construct, pos, okDetail, badDetail string) bool {
	if ok {
		r.Ok(rule, construct, pos, okDetail)
	} else {
		r.Violation(rule, construct, pos, badDetail)
	}
	return ok
}

func loadKnown(verif string) ([]KnownFinding, error) {
	b, err := os.ReadFile(filepath.Join(verif, "known_findings.json"))
	if err != nil {
		if os.IsNotExist(err) {
			return nil, nil
		}
		return nil, err
	}
	var kf []KnownFinding
	if err := json.Unmarshal(b, &kf); err != nil {
		return nil, fmt.Errorf("known_findings.json: %w", err)
	}
	return kf, nil
}

// Finish matches known findings, writes evidence and replay files, prints the verdict lines and returns the exit code.
func (r *Run) Finish() int {
	if r.Dry {
		known, _ := loadKnown(r.VerifDir)
		for _, o := range r.Obls {
			isKnown := false
			for _, k := range known {
				if k.Status == "known" && k.Property == r.Prop && k.Rule == o.Rule && k.Construct == o.Construct {
					isKnown = true
				}
			}
			if isKnown {
				continue
			}
			if o.Verdict == "violated" || o.Verdict == "undecided" {
				fmt.Printf("MUTANT-FIRES\t%s\t%s\t%s\n", o.Rule, o.Construct, o.Pos)
				if os.Getenv("JKL_DEBUG") != "" {
					fmt.Printf("    detail: %s\n", o.Detail)
				}
			}
		}
		return 0
	}
	known, err := loadKnown(r.VerifDir)
	if err != nil {
		fmt.Println("error:", err)
		return 2
	}
	var matched []string
	nviol := 0
	var viols []Obligation
	for i := range r.Obls {
		o := &r.Obls[i]
		if o.Verdict != "violated" {
			if o.Verdict == "undecided" {
				nviol++
				viols = append(viols, *o)
			}
			continue
		}
		isKnown := false
		for _, k := range known {
			if k.Status == "known" && k.Property == r.Prop && k.Rule == o.Rule && k.Construct == o.Construct {
				isKnown = true
				fmt.Printf("KNOWN-FINDING: property=%s %s %s: %s\n", r.Prop, o.Rule, o.Construct, k.What)
				matched = append(matched, o.Rule+" "+o.Construct)
				break
			}
		}
		if isKnown {
			o.Verdict = "known-finding"
			continue
		}
		nviol++
		viols = append(viols, *o)
	}
	evDir := filepath.Join(r.VerifDir, "evidence")
	os.MkdirAll(filepath.Join(evDir, "replay"), 0o755)
	// stale replay files of this property
	old, _ := filepath.Glob(filepath.Join(evDir, "replay", r.Prop+"-*.json"))
	for _, f := range old {
		os.Remove(f)
	}
	for i, v := range viols {
		path := filepath.Join(evDir, "replay", fmt.Sprintf("%s-%d.json", r.Prop, i+1))
		b, _ := json.MarshalIndent(map[string]interface{}{
			"property": r.Prop, "rule": v.Rule, "rule_text": r.Rules[strings.TrimPrefix(v.Rule, "undecided:")], "construct": v.Construct, "pos": v.Pos,
			"detail": v.Detail, "path": v.Path, "tree_digest": r.Prog.TreeDigest,
			"replay": fmt.Sprintf("checker/bin/jklcheck -prop %s -tier %s", r.Prop, r.Tier),
		}, "", " ")
		os.WriteFile(path, b, 0o644)
		fmt.Printf("VIOLATION property=%s replay=%s\n", r.Prop, path)
		fmt.Printf("  rule=%s construct=%s at %s: %s\n", v.Rule, v.Construct, v.Pos, v.Detail)
		for _, s := range v.Path {
			fmt.Printf("    %s\n", s)
		}
	}
	// evidence
	discharged := 0
	var samples []Obligation
	perRule := map[string]int{}
	for _, o := range r.Obls {
		if o.Verdict == "discharged" {
			discharged++
		}
		if perRule[o.Rule] < 6 || o.Verdict != "discharged" {
			samples = append(samples, o)
		}
		perRule[o.Rule]++
	}
	ruleCounts := map[string]int{}
	for _, o := range r.Obls {
		ruleCounts[o.Rule]++
	}
	var fnames []string
	for f := range r.funcs {
		fnames = append(fnames, f)
	}
	sort.Strings(fnames)
	cov := map[string]interface{}{
		"explanation":            r.Explanation,
		"rules":                  r.Rules,
		"rule_instance_counts":   ruleCounts,
		"obligations":            len(r.Obls),
		"discharged":             discharged,
		"evaluations":            r.evals,
		"distinct_nontrivial":    len(r.nontrivial),
		"rule":                   "one evaluation = one rule instance (rule x construct) decided on the current tree; distinct_nontrivial counts distinct (rule, construct) pairs decided by a CFG path search, a provenance slice or a term comparison (census-only entries are excluded)",
		"samples":                samples,
		"functions_analysed":     len(fnames),
		"functions":              fnames,
		"call_sites":             r.callSites,
		"packages":               len(r.Prog.Pkgs),
		"files":                  r.Prog.NFiles,
		"tree_digest":            r.Prog.TreeDigest,
		"known_findings_matched": matched,
		"not_decided":            r.NotDecided,
		"exhaustive":             true,
		"checker_cmd":            fmt.Sprintf("checker/bin/jklcheck -prop %s -tier %s", r.Prop, r.Tier),
		"whole_program":          r.Prog.Whole,
	}
	for k, v := range r.Extra {
		cov[k] = v
	}
	if len(r.SelfTest) > 0 {
		cov["selftest"] = r.SelfTest
	}
	ev := map[string]interface{}{
		"property_id": r.Prop,
		"tier":        r.Tier,
		"seed":        r.Seed,
		"level":       "other",
		"coverage":    cov,
		"assumptions": r.Assumptions,
		"wall_s":      time.Since(r.Start).Seconds(),
		"violations":  nviol,
	}
	b, _ := json.MarshalIndent(ev, "", " ")
	if err := os.WriteFile(filepath.Join(evDir, r.Prop+".json"), b, 0o644); err != nil {
		fmt.Println("error: cannot write evidence:", err)
		return 2
	}
	fmt.Printf("%s %s: %d rule instances, %d discharged, %d known findings, %d violations/undecided (%.1fs)\n",
		r.Prop, r.Tier, len(r.Obls), discharged, len(matched), nviol, time.Since(r.Start).Seconds())
	if nviol > 0 {
		return 1
	}
	if r.Extra["selftest_failed"] == true {
		return 2
	}
	return 0
}
