package core

import (
	"fmt"
	"go/constant"
	"go/token"
	"go/types"
	"sort"
	"strings"

	"golang.org/x/tools/go/ssa"
)

// ---------- constant evaluation of prefixes / keys (E2) ----------

type frame struct {
	bind map[*ssa.Parameter]ssa.Value
	up   *frame
}

// ConstPrefix evaluates v to a constant string if possible. complete=false means
// only the leading constant part could be evaluated (the value continues dynamically).
func (p *Program) ConstPrefix(v ssa.Value) (s string, complete, ok bool) {
	return p.constPrefix(v, nil, 0)
}

func (p *Program) constPrefix(v ssa.Value, fr *frame, depth int) (string, bool, bool) {
	if depth > 8 {
		return "", false, false
	}
	switch x := v.(type) {
	case *ssa.Const:
		if x.Value != nil && x.Value.Kind() == constant.String {
			return constant.StringVal(x.Value), true, true
		}
		if x.Value == nil { // nil slice => empty prefix
			return "", true, true
		}
		return x.Value.ExactString(), true, true
	case *ssa.Convert:
		return p.constPrefix(x.X, fr, depth)
	case *ssa.ChangeType:
		return p.constPrefix(x.X, fr, depth)
	case *ssa.MakeInterface:
		return p.constPrefix(x.X, fr, depth)
	case *ssa.Parameter:
		for f := fr; f != nil; f = f.up {
			if b, ok := f.bind[x]; ok {
				return p.constPrefix(b, f.up, depth+1)
			}
		}
		return "", false, true // dynamic from here on
	case *ssa.BinOp:
		l, lc, lok := p.constPrefix(x.X, fr, depth+1)
		if !lok {
			return "", false, false
		}
		if !lc {
			return l, false, true
		}
		r, rc, rok := p.constPrefix(x.Y, fr, depth+1)
		if !rok {
			return l, false, true
		}
		return l + r, rc, true
	case *ssa.Call:
		callee := x.Call.StaticCallee()
		if callee == nil {
			return "", false, true
		}
		if callee.String() == "fmt.Sprintf" && len(x.Call.Args) >= 1 {
			format, fc, fok := p.constPrefix(x.Call.Args[0], fr, depth+1)
			if !fok || !fc {
				return "", false, true
			}
			var args []ssa.Value
			if len(x.Call.Args) > 1 {
				args = VarArgs(x.Call.Args[1])
			}
			out := ""
			ai := 0
			for i := 0; i < len(format); i++ {
				if format[i] != '%' {
					out += string(format[i])
					continue
				}
				if i+1 < len(format) && format[i+1] == '%' {
					out += "%"
					i++
					continue
				}
				// a verb: only %s / %d / %v of complete constants are folded
				j := i + 1
				for j < len(format) && strings.ContainsRune("+-# 0123456789.", rune(format[j])) {
					j++
				}
				if j >= len(format) || ai >= len(args) || args[ai] == nil {
					return out, false, true
				}
				verb := format[j]
				as, ac, aok := p.constPrefix(args[ai], fr, depth+1)
				ai++
				if !aok || !ac || !(verb == 's' || verb == 'd' || verb == 'v') || j != i+1 {
					if aok && verb == 's' && j == i+1 {
						return out + as, false, true
					}
					return out, false, true
				}
				out += as
				i = j
			}
			return out, true, true
		}
		if callee.Blocks != nil && IsCustomFn(callee) {
			// inline single-result helpers with a single return
			var ret *ssa.Return
			n := 0
			for _, b := range callee.Blocks {
				if r, ok := b.Instrs[len(b.Instrs)-1].(*ssa.Return); ok {
					ret = r
					n++
				}
			}
			if n == 1 && len(ret.Results) == 1 {
				nf := &frame{bind: map[*ssa.Parameter]ssa.Value{}, up: fr}
				for i, prm := range callee.Params {
					if i < len(x.Call.Args) {
						nf.bind[prm] = x.Call.Args[i]
					}
				}
				return p.constPrefix(ret.Results[0], nf, depth+1)
			}
		}
		return "", false, true
	case *ssa.Slice:
		return p.constPrefix(x.X, fr, depth)
	case *ssa.Global:
		return "", false, true
	}
	return "", false, true
}

// VarArgs recovers the element values of a variadic slice argument built in-line.
func VarArgs(v ssa.Value) []ssa.Value {
	sl, ok := v.(*ssa.Slice)
	if !ok {
		return nil
	}
	al, ok := sl.X.(*ssa.Alloc)
	if !ok {
		return nil
	}
	var out []ssa.Value
	for _, r := range *al.Referrers() {
		ia, ok := r.(*ssa.IndexAddr)
		if !ok {
			continue
		}
		c, ok := ia.Index.(*ssa.Const)
		if !ok {
			continue
		}
		idx := int(c.Int64())
		for _, rr := range *ia.Referrers() {
			if st, ok := rr.(*ssa.Store); ok && st.Addr == ia {
				for len(out) <= idx {
					out = append(out, nil)
				}
				out[idx] = st.Val
			}
		}
	}
	return out
}

// ---------- store sites / ops ----------

// StoreOp is one KV operation on a prefix store.
type StoreOp struct {
	Fn       *ssa.Function
	Module   string // x/<module>
	Prefix   string
	Complete bool   // prefix fully constant (false: narrower dynamic sub-prefix)
	Raw      bool   // raw ctx.KVStore without prefix.NewStore
	Kind     string // Set Get Delete Has Iterate
	Instr    ssa.CallInstruction
	Key      ssa.Value
	Val      ssa.Value
	Types    []string // proto/raw types marshalled into or out of the value
	NewStore ssa.Value
	Via      *ssa.Function // the repository helper the store was handed to, when the operation happens there
}

func (o *StoreOp) IsWrite() bool { return o.Kind == "Set" || o.Kind == "Delete" }

// BankOp is one call of a bank keeper method.
type BankOp struct {
	Fn     *ssa.Function
	Method string
	Instr  ssa.CallInstruction
	Args   []ssa.Value // without ctx
}

type storeFnInfo struct {
	ops      []*StoreOp
	bank     []*BankOp
	escapes  []string
	marshal  []string
	unmarsh  []string
	paramGet bool
}

var bankMoveMethods = map[string]bool{
	"SendCoins": true, "SendCoinsFromModuleToAccount": true, "SendCoinsFromAccountToModule": true,
	"SendCoinsFromModuleToModule": true, "MintCoins": true, "BurnCoins": true,
	"DelegateCoinsFromAccountToModule": true, "UndelegateCoinsFromModuleToAccount": true,
}

// ModuleOf returns "storage" for functions under x/storage/..., else "".
func ModuleOf(fn *ssa.Function) string {
	pp := RelPkg(FnPkgPath(fn))
	if strings.HasPrefix(pp, "x/") {
		parts := strings.Split(pp, "/")
		if len(parts) >= 2 {
			return parts[1]
		}
	}
	return ""
}

func typeNameOf(t types.Type) string {
	for {
		if pt, ok := t.(*types.Pointer); ok {
			t = pt.Elem()
			continue
		}
		break
	}
	if n, ok := t.(*types.Named); ok {
		if n.Obj().Pkg() != nil {
			return RelPkg(n.Obj().Pkg().Path()) + "." + n.Obj().Name()
		}
		return n.Obj().Name()
	}
	return t.String()
}

func isCodecCall(call ssa.CallInstruction) (kind string, ok bool) {
	c := call.Common()
	var name string
	if c.IsInvoke() {
		name = c.Method.Name()
		if !strings.Contains(c.Value.Type().String(), "codec") {
			return "", false
		}
	} else if f := c.StaticCallee(); f != nil {
		name = f.Name()
		if !strings.Contains(f.String(), "codec") {
			return "", false
		}
	}
	switch name {
	case "MustMarshal", "Marshal", "MustMarshalLengthPrefixed", "MarshalLengthPrefixed":
		return "marshal", true
	case "MustUnmarshal", "Unmarshal", "MustUnmarshalLengthPrefixed", "UnmarshalLengthPrefixed":
		return "unmarshal", true
	}
	return "", false
}

func (p *Program) storeInfo(fn *ssa.Function) *storeFnInfo {
	if p.storeFx == nil {
		p.storeFx = map[*ssa.Function]*storeFnInfo{}
	}
	if si, ok := p.storeFx[fn]; ok {
		return si
	}
	si := &storeFnInfo{}
	p.storeFx[fn] = si
	if fn.Blocks == nil {
		return si
	}
	mod := ModuleOf(fn)
	for _, b := range fn.Blocks {
		for _, in := range b.Instrs {
			call, ok := in.(ssa.CallInstruction)
			if !ok {
				continue
			}
			c := call.Common()
			if kind, ok := isCodecCall(call); ok {
				args := c.Args
				if kind == "marshal" && len(args) >= 1 {
					if mi, ok := args[len(args)-1].(*ssa.MakeInterface); ok {
						si.marshal = append(si.marshal, typeNameOf(mi.X.Type()))
					}
				}
				if kind == "unmarshal" && len(args) >= 2 {
					a := args[len(args)-1]
					if mi, ok := a.(*ssa.MakeInterface); ok {
						a = mi.X
					}
					si.unmarsh = append(si.unmarsh, typeNameOf(a.Type()))
				}
			}
			if c.IsInvoke() && bankMoveMethods[c.Method.Name()] && len(p.implementers(c.Value.Type(), c.Method)) == 0 {
				si.bank = append(si.bank, &BankOp{Fn: fn, Method: c.Method.Name(), Instr: call, Args: c.Args[1:]})
			}
			if c.IsInvoke() && (c.Method.Name() == "GetParamSet" || c.Method.Name() == "GetParamSetIfExists") {
				si.paramGet = true
			}
			// prefix.NewStore(...)
			if f := c.StaticCallee(); f != nil && f.String() == "github.com/cosmos/cosmos-sdk/store/prefix.NewStore" {
				v, _ := call.(ssa.Value)
				pre, complete, ok := p.ConstPrefix(c.Args[1])
				if !ok {
					si.escapes = append(si.escapes, "unresolved prefix at "+p.InstrPos(in))
				}
				p.followStore(fn, si, v, mod, pre, complete, false, v)
			}
			// a store accessor of the repository: a helper whose result is prefix.NewStore(..., constant prefix)
			if f := c.StaticCallee(); f != nil && !c.IsInvoke() && IsCustomFn(f) && f.Blocks != nil {
				if pre, complete, ok := p.storeAccessor(f); ok {
					if v, isV := call.(ssa.Value); isV {
						p.followStore(fn, si, v, mod, pre, complete, false, v)
					}
				}
			}
			// raw store: (sdk.Context).KVStore result used other than as NewStore arg
			if f := c.StaticCallee(); f != nil && f.Name() == "KVStore" && strings.HasSuffix(f.String(), "types.Context).KVStore") {
				v, _ := call.(ssa.Value)
				rawUse := false
				for _, r := range *v.Referrers() {
					if rc, ok := r.(ssa.CallInstruction); ok {
						if sf := rc.Common().StaticCallee(); sf != nil && strings.HasSuffix(sf.String(), "prefix.NewStore") {
							continue
						}
					}
					rawUse = true
				}
				if rawUse {
					p.followStore(fn, si, v, mod, "", true, true, v)
				}
			}
		}
	}
	return si
}

// storeAccessor recognises a repository function that only opens a prefix store: every return hands back the result of
// prefix.NewStore with one and the same constant prefix.
func (p *Program) storeAccessor(f *ssa.Function) (pre string, complete, ok bool) {
	if f.Signature.Results().Len() != 1 {
		return "", false, false
	}
	n := 0
	for _, b := range f.Blocks {
		ret, isRet := b.Instrs[len(b.Instrs)-1].(*ssa.Return)
		if !isRet {
			continue
		}
		v := ret.Results[0]
		for i := 0; i < 3; i++ {
			switch x := v.(type) {
			case *ssa.MakeInterface:
				v = x.X
				continue
			case *ssa.ChangeInterface:
				v = x.X
				continue
			}
			break
		}
		call, isCall := v.(*ssa.Call)
		if !isCall {
			return "", false, false
		}
		sf := call.Call.StaticCallee()
		if sf == nil || sf.String() != "github.com/cosmos/cosmos-sdk/store/prefix.NewStore" {
			return "", false, false
		}
		pr, co, okp := p.ConstPrefix(call.Call.Args[1])
		if !okp || (n > 0 && (pr != pre || co != complete)) {
			return "", false, false
		}
		pre, complete = pr, co
		n++
	}
	return pre, complete, n > 0
}

var storeMethodKinds = map[string]string{
	"Set": "Set", "Get": "Get", "Has": "Has", "Delete": "Delete",
	"Iterator": "Iterate", "ReverseIterator": "Iterate",
}

func (p *Program) followStore(fn *ssa.Function, si *storeFnInfo, root ssa.Value, mod, pre string, complete, raw bool, ns ssa.Value) {
	seen := map[ssa.Value]bool{}
	work := []ssa.Value{root}
	for len(work) > 0 {
		v := work[len(work)-1]
		work = work[:len(work)-1]
		if seen[v] {
			continue
		}
		seen[v] = true
		refs := v.Referrers()
		if refs == nil {
			continue
		}
		for _, r := range *refs {
			switch x := r.(type) {
			case *ssa.MakeInterface:
				work = append(work, x)
			case *ssa.ChangeInterface:
				work = append(work, x)
			case *ssa.Phi:
				work = append(work, x)
			case *ssa.Store:
				if x.Val == v {
					if al, ok := x.Addr.(*ssa.Alloc); ok {
						for _, rr := range *al.Referrers() {
							if u, ok := rr.(*ssa.UnOp); ok {
								work = append(work, u)
							}
							if mc, ok := rr.(*ssa.MakeClosure); ok {
								// captured by a closure: follow the free variable loads there
								cf := mc.Fn.(*ssa.Function)
								for i, b := range mc.Bindings {
									if b == al && i < len(cf.FreeVars) {
										for _, fr := range *cf.FreeVars[i].Referrers() {
											if u, ok := fr.(*ssa.UnOp); ok {
												csi := p.storeInfo(cf)
												p.followStore(cf, csi, u, mod, pre, complete, raw, ns)
											}
										}
									}
								}
							}
						}
					} else {
						si.escapes = append(si.escapes, "store value saved at "+p.InstrPos(x))
					}
				}
			case *ssa.DebugRef:
			case ssa.CallInstruction:
				c := x.Common()
				name := ""
				if c.IsInvoke() {
					if c.Value != v {
						continue
					}
					name = c.Method.Name()
				} else if f := c.StaticCallee(); f != nil {
					name = f.Name()
				}
				op := &StoreOp{Fn: fn, Module: mod, Prefix: pre, Complete: complete, Raw: raw, Instr: x, NewStore: ns}
				isRecv := c.IsInvoke() || (len(c.Args) > 0 && c.Args[0] == v && c.Signature().Recv() != nil)
				if k, ok := storeMethodKinds[name]; ok && isRecv {
					op.Kind = k
					args := c.Args
					if !c.IsInvoke() {
						args = args[1:]
					}
					if len(args) > 0 {
						op.Key = args[0]
					}
					if k == "Set" && len(args) > 1 {
						op.Val = args[1]
					}
				} else if name == "NewStore" && !isRecv {
					continue // raw store wrapped into prefix store: handled at NewStore
				} else if name == "KVStorePrefixIterator" || name == "KVStoreReversePrefixIterator" || name == "Paginate" || name == "FilteredPaginate" {
					op.Kind = "Iterate"
				} else if f := c.StaticCallee(); f != nil && !c.IsInvoke() && IsCustomFn(f) && f.Blocks != nil && p.storeHelperDepth < 3 {
					// the store is handed to a helper of the repository (a generic loader, say): the helper's operations
					// on that parameter are operations of this call, with the helper's key / value parameters replaced
					// by the arguments given here
					idx := -1
					for i, a := range c.Args {
						if a == v {
							idx = i
						}
					}
					if idx < 0 || idx >= len(f.Params) {
						si.escapes = append(si.escapes, fmt.Sprintf("store passed to %s at %s", name, p.InstrPos(x)))
						continue
					}
					tmp := &storeFnInfo{}
					p.storeHelperDepth++
					p.followStore(f, tmp, f.Params[idx], mod, pre, complete, raw, ns)
					p.storeHelperDepth--
					argOf := func(w ssa.Value) ssa.Value {
						for i := 0; i < 4 && w != nil; i++ {
							switch y := w.(type) {
							case *ssa.Convert:
								w = y.X
								continue
							case *ssa.ChangeType:
								w = y.X
								continue
							}
							break
						}
						if pa, ok := w.(*ssa.Parameter); ok {
							for i, fp := range f.Params {
								if fp == pa && i < len(c.Args) {
									return c.Args[i]
								}
							}
						}
						return nil
					}
					for _, o := range tmp.ops {
						no := &StoreOp{Fn: fn, Module: mod, Prefix: o.Prefix, Complete: o.Complete, Raw: raw, Kind: o.Kind, Instr: x, NewStore: ns, Types: o.Types, Via: f}
						if o.Key != nil {
							no.Key = argOf(o.Key)
						}
						if o.Val != nil {
							no.Val = argOf(o.Val)
						}
						if o.Kind == "Iterate" && len(no.Types) == 0 {
							no.Types = p.storeInfo(f).unmarsh
						}
						si.ops = append(si.ops, no)
					}
					si.escapes = append(si.escapes, tmp.escapes...)
					continue
				} else {
					si.escapes = append(si.escapes, fmt.Sprintf("store passed to %s at %s", name, p.InstrPos(x)))
					continue
				}
				p.opTypes(fn, si, op)
				si.ops = append(si.ops, op)
			default:
				if _, ok := r.(ssa.Value); ok {
					si.escapes = append(si.escapes, fmt.Sprintf("store value used by %T at %s", r, p.InstrPos(r)))
				}
			}
		}
	}
}

// opTypes determines which types are (un)marshalled through this op.
func (p *Program) opTypes(fn *ssa.Function, si *storeFnInfo, op *StoreOp) {
	switch op.Kind {
	case "Set":
		v := op.Val
		for i := 0; i < 6 && v != nil; i++ {
			switch x := v.(type) {
			case *ssa.Call:
				if k, ok := isCodecCall(x); ok && k == "marshal" {
					if mi, ok := x.Call.Args[len(x.Call.Args)-1].(*ssa.MakeInterface); ok {
						op.Types = []string{typeNameOf(mi.X.Type())}
					}
					return
				}
				op.Types = []string{"raw:" + CalleeFullName(x)}
				return
			case *ssa.Extract:
				v = x.Tuple
			case *ssa.Convert:
				op.Types = []string{"raw:bytes"}
				return
			case *ssa.Phi:
				v = x.Edges[0]
			default:
				op.Types = []string{"raw:?"}
				return
			}
		}
	case "Get":
		v, _ := op.Instr.(ssa.Value)
		if v == nil {
			return
		}
		seen := map[ssa.Value]bool{}
		work := []ssa.Value{v}
		for len(work) > 0 {
			w := work[len(work)-1]
			work = work[:len(work)-1]
			if seen[w] || w.Referrers() == nil {
				continue
			}
			seen[w] = true
			for _, r := range *w.Referrers() {
				switch x := r.(type) {
				case ssa.CallInstruction:
					if k, ok := isCodecCall(x); ok && k == "unmarshal" {
						a := x.Common().Args[len(x.Common().Args)-1]
						if mi, ok := a.(*ssa.MakeInterface); ok {
							a = mi.X
						}
						op.Types = append(op.Types, typeNameOf(a.Type()))
					}
				case *ssa.Convert:
					if b, ok := x.Type().Underlying().(*types.Basic); ok && b.Kind() == types.String {
						op.Types = append(op.Types, "raw:bytes")
					}
				case *ssa.Phi:
					work = append(work, x)
				case *ssa.Slice:
					work = append(work, x)
				}
			}
		}
	}
}

// StoreOps returns the direct store operations of fn.
func (p *Program) StoreOps(fn *ssa.Function) []*StoreOp { return p.storeInfo(fn).ops }

// BankOps returns the direct bank operations of fn.
func (p *Program) BankOps(fn *ssa.Function) []*BankOp { return p.storeInfo(fn).bank }

// FnSummary is the transitive effect summary of a function.
type FnSummary struct {
	Store []*StoreOp
	Bank  []*BankOp
	Funcs []*ssa.Function // transitive custom callees incl. itself
}

// Summary computes the transitive effects of fn over the call graph.
func (p *Program) Summary(fn *ssa.Function) *FnSummary {
	if s, ok := p.sums[fn]; ok {
		return s
	}
	s := &FnSummary{}
	reach := p.Reachable(fn)
	for _, f := range SortedFuncs(reach) {
		s.Funcs = append(s.Funcs, f)
		si := p.storeInfo(f)
		s.Store = append(s.Store, si.ops...)
		s.Bank = append(s.Bank, si.bank...)
	}
	p.sums[fn] = s
	return s
}

// Writes reports whether the summary contains a store write or a bank move.
func (s *FnSummary) Writes() bool {
	for _, o := range s.Store {
		if o.IsWrite() {
			return true
		}
	}
	return len(s.Bank) > 0
}

// WritesPrefix lists write ops on a prefix (module, prefix).
func (s *FnSummary) WritesPrefix(module, prefix string) []*StoreOp {
	var out []*StoreOp
	for _, o := range s.Store {
		if o.IsWrite() && o.Module == module && o.Prefix == prefix {
			out = append(out, o)
		}
	}
	return out
}

// AllStoreOps lists every store op in custom code, sorted.
func (p *Program) AllStoreOps() []*StoreOp {
	var out []*StoreOp
	for _, fn := range p.Funcs {
		out = append(out, p.storeInfo(fn).ops...)
	}
	sort.SliceStable(out, func(i, j int) bool {
		return p.InstrPos(out[i].Instr) < p.InstrPos(out[j].Instr)
	})
	return out
}

// StoreEscapes lists unresolved store usages (undecided constructs).
func (p *Program) StoreEscapes() []string {
	var out []string
	for _, fn := range p.Funcs {
		out = append(out, p.storeInfo(fn).escapes...)
	}
	sort.Strings(out)
	return out
}

// IsParamGetter: the function reads the module parameter set (subspace GetParamSet).
func (p *Program) IsParamGetter(fn *ssa.Function) bool {
	return fn != nil && fn.Blocks != nil && p.storeInfo(fn).paramGet
}

// GetterInfo describes a keeper accessor returning a decoded record.
type GetterInfo struct {
	Module string
	Prefix string
	Type   string
	Found  bool // has a second bool result
}

// StoreGetter recognises keeper getters: custom function whose own body performs a Get on a
// complete prefix, unmarshals it, has no write, and returns the record (optionally with found bool).
func (p *Program) StoreGetter(fn *ssa.Function) *GetterInfo {
	if fn == nil || fn.Blocks == nil {
		return nil
	}
	si := p.storeInfo(fn)
	var get *StoreOp
	for _, o := range si.ops {
		if o.IsWrite() {
			return nil
		}
		if o.Kind == "Get" {
			if get != nil && get.Prefix != o.Prefix {
				return nil
			}
			get = o
		}
	}
	if get == nil {
		return nil
	}
	// no write through a callee either (a function that reads a record and stores one through a setter is not a getter)
	for _, b := range fn.Blocks {
		for _, in := range b.Instrs {
			if call, ok := in.(ssa.CallInstruction); ok {
				for _, cal := range p.Callees(call) {
					if cal == fn || cal.Blocks == nil {
						continue
					}
					for _, o := range p.storeInfo(cal).ops {
						if o.IsWrite() {
							return nil
						}
					}
				}
			}
		}
	}
	res := fn.Signature.Results()
	if res.Len() == 0 || res.Len() > 2 {
		return nil
	}
	gi := &GetterInfo{Module: get.Module, Prefix: get.Prefix}
	if len(get.Types) > 0 {
		gi.Type = get.Types[0]
	}
	if res.Len() == 2 {
		if b, ok := res.At(1).Type().Underlying().(*types.Basic); ok && b.Kind() == types.Bool {
			gi.Found = true
		} else {
			return nil
		}
	}
	return gi
}

func calleeName(call ssa.CallInstruction) string {
	c := call.Common()
	if c.IsInvoke() {
		return c.Method.Name()
	}
	if f := c.StaticCallee(); f != nil {
		return f.Name()
	}
	return ""
}

// TypeName renders a (pointer to) named type as "<pkg>.<Name>" with the module path stripped.
func TypeName(t types.Type) string { return typeNameOf(t) }

// FieldName returns the name of field idx of the struct (pointer) type t.
func FieldName(t types.Type, idx int) string { return fieldName(t, idx) }

// KeyComponent is one formatted component of a store key.
type KeyComponent struct {
	Verb string
	Val  ssa.Value
	At   ssa.Instruction
}

// KeyComponents decomposes a key expression into its formatted components: it follows []byte/string
// conversions, inlines single-return key helpers and splits fmt.Sprintf by its constant format.
// A key that is not built this way is returned as a single component.
func (p *Program) KeyComponents(v ssa.Value, at ssa.Instruction) []KeyComponent {
	out, _ := p.keyParts(v, at, 0)
	if len(out) == 0 {
		return []KeyComponent{{Verb: "", Val: v, At: at}} // a constant key
	}
	return out
}

// keyParts: the variable components of a key expression, left to right; literals contribute nothing. composed reports
// whether the expression was recognised as a concatenation / formatting at all.
func (p *Program) keyParts(v ssa.Value, at ssa.Instruction, depth int) ([]KeyComponent, bool) {
	opaque := func() ([]KeyComponent, bool) { return []KeyComponent{{Verb: "", Val: v, At: at}}, false }
	if depth > 12 {
		return opaque()
	}
	switch x := v.(type) {
	case *ssa.Convert:
		return p.keyParts(x.X, at, depth+1)
	case *ssa.ChangeType:
		return p.keyParts(x.X, at, depth+1)
	case *ssa.Const:
		if x.Value == nil || x.Value.Kind() == constant.String {
			return nil, true
		}
	case *ssa.MakeSlice:
		if c, ok := x.Len.(*ssa.Const); ok && c.Value != nil && c.Value.ExactString() == "0" {
			return nil, true
		}
	case *ssa.Slice:
		if al, ok := x.X.(*ssa.Alloc); ok {
			if _, isConst := constByteArray(al); isConst {
				return nil, true
			}
		}
	case *ssa.BinOp:
		if x.Op == token.ADD {
			if b, ok := x.Type().Underlying().(*types.Basic); ok && b.Info()&types.IsString != 0 {
				l, lc := p.keyParts(x.X, at, depth+1)
				r, rc := p.keyParts(x.Y, at, depth+1)
				return append(asStringParts(l, lc), asStringParts(r, rc)...), true
			}
		}
	case *ssa.Call:
		if b, ok := x.Call.Value.(*ssa.Builtin); ok && b.Name() == "append" && len(x.Call.Args) == 2 {
			l, lc := p.keyParts(x.Call.Args[0], x, depth+1)
			r, rc := p.keyParts(x.Call.Args[1], x, depth+1)
			return append(asStringParts(l, lc), asStringParts(r, rc)...), true
		}
		callee := x.Call.StaticCallee()
		name := ""
		if callee != nil {
			name = callee.String()
		}
		switch {
		case name == "fmt.Sprintf" && len(x.Call.Args) >= 1:
			format, fc, fok := p.ConstPrefix(x.Call.Args[0])
			if fok && fc {
				var args []ssa.Value
				if len(x.Call.Args) > 1 {
					args = VarArgs(x.Call.Args[1])
				}
				var out []KeyComponent
				ai := 0
				for i := 0; i < len(format); i++ {
					if format[i] != '%' {
						continue
					}
					if i+1 < len(format) && format[i+1] == '%' {
						i++
						continue
					}
					j := i + 1
					for j < len(format) && strings.ContainsRune("+-# 0123456789.", rune(format[j])) {
						j++
					}
					if j < len(format) && ai < len(args) && args[ai] != nil {
						a := args[ai]
						if mi, ok := a.(*ssa.MakeInterface); ok {
							a = mi.X
						}
						out = append(out, KeyComponent{Verb: "%" + string(format[j]), Val: a, At: x})
					}
					ai++
					i = j
				}
				return out, true
			}
		case (name == "strconv.AppendInt" || name == "strconv.AppendUint") && len(x.Call.Args) == 3 && isConstInt(x.Call.Args[2], 10):
			l, _ := p.keyParts(x.Call.Args[0], x, depth+1)
			return append(l, KeyComponent{Verb: "%d", Val: x.Call.Args[1], At: x}), true
		case (name == "strconv.FormatInt" || name == "strconv.FormatUint") && len(x.Call.Args) == 2 && isConstInt(x.Call.Args[1], 10):
			return []KeyComponent{{Verb: "%d", Val: x.Call.Args[0], At: x}}, true
		case name == "strconv.Itoa" && len(x.Call.Args) == 1:
			return []KeyComponent{{Verb: "%d", Val: x.Call.Args[0], At: x}}, true
		case name == "encoding/hex.EncodeToString" && len(x.Call.Args) == 1:
			return []KeyComponent{{Verb: "%x", Val: x.Call.Args[0], At: x}}, true
		case name == "encoding/hex.AppendEncode" && len(x.Call.Args) == 2:
			l, _ := p.keyParts(x.Call.Args[0], x, depth+1)
			return append(l, KeyComponent{Verb: "%x", Val: x.Call.Args[1], At: x}), true
		}
		if callee != nil && callee.Blocks != nil && IsCustomFn(callee) {
			var ret *ssa.Return
			n := 0
			for _, b := range callee.Blocks {
				if r, ok := b.Instrs[len(b.Instrs)-1].(*ssa.Return); ok {
					ret = r
					n++
				}
			}
			if n == 1 && len(ret.Results) == 1 {
				if parts, ok := p.joinEachParts(callee, ret.Results[0], x, depth); ok {
					return parts, true
				}
				parts, composed := p.keyParts(ret.Results[0], ret, depth+1)
				// a component that is a parameter of the helper is, for this call, the argument handed in (which may
				// itself be formatted: joinKey(hex.EncodeToString(m), owner))
				var out []KeyComponent
				for _, c := range parts {
					prm, isParam := c.Val.(*ssa.Parameter)
					if !isParam || prm.Parent() != callee || (c.Verb != "%s" && c.Verb != "") {
						out = append(out, c)
						continue
					}
					var arg ssa.Value
					for i, q := range callee.Params {
						if q == prm && i < len(x.Call.Args) {
							arg = x.Call.Args[i]
						}
					}
					if arg == nil {
						out = append(out, c)
						continue
					}
					if sub, subComposed := p.keyParts(arg, x, depth+1); subComposed && len(sub) > 0 {
						out = append(out, sub...)
					} else {
						out = append(out, KeyComponent{Verb: c.Verb, Val: arg, At: x})
					}
				}
				return out, composed
			}
		}
	case *ssa.Phi:
		// straight-line appends joined by no branch never produce a phi; a phi here is a real alternative
	}
	return opaque()
}

// PrefixTypes returns, per "module/prefix", the set of types marshalled into or decoded out of that prefix,
// with the positions of the ops that contribute each type.
func (p *Program) PrefixTypes(funcs []*ssa.Function) map[string]map[string][]string {
	out := map[string]map[string][]string{}
	add := func(name, typ, pos string) {
		if out[name] == nil {
			out[name] = map[string][]string{}
		}
		out[name][typ] = append(out[name][typ], pos)
	}
	for _, fn := range funcs {
		si := p.storeInfo(fn)
		prefixes := map[string]bool{}
		hasIter := false
		for _, o := range si.ops {
			if o.Raw {
				continue
			}
			name := o.Module + "/" + o.Prefix
			prefixes[name] = true
			if o.Kind == "Iterate" {
				hasIter = true
			}
			for _, t := range o.Types {
				add(name, t, p.InstrPos(o.Instr))
			}
			if _, ok := out[name]; !ok {
				out[name] = map[string][]string{}
			}
		}
		if hasIter && len(prefixes) == 1 {
			var name string
			for k := range prefixes {
				name = k
			}
			types := append([]string{}, si.unmarsh...)
			for _, an := range fn.AnonFuncs {
				types = append(types, p.storeInfo(an).unmarsh...)
			}
			for _, t := range types {
				add(name, t, p.Pos(fn.Pos()))
			}
		}
	}
	return out
}

// asStringParts: an operand of a concatenation that is not itself a formatting is written out as it is ("%s").
func asStringParts(parts []KeyComponent, composed bool) []KeyComponent {
	if !composed && len(parts) == 1 && parts[0].Verb == "" {
		parts[0].Verb = "%s"
	}
	return parts
}

// joinEachParts: the callee builds its result by appending, for every element of its variadic parameter in order, that
// element (and literals) to a buffer that starts empty — buildKey(a, b, c) = a "/" b "/" c "/". The components of the
// key are then the components of the actual variadic arguments at this call.
func (p *Program) joinEachParts(callee *ssa.Function, result ssa.Value, call *ssa.Call, depth int) ([]KeyComponent, bool) {
	if !callee.Signature.Variadic() || len(callee.Params) == 0 {
		return nil, false
	}
	vparam := callee.Params[len(callee.Params)-1]
	for {
		if cv, ok := result.(*ssa.Convert); ok {
			result = cv.X
			continue
		}
		break
	}
	ph, ok := result.(*ssa.Phi)
	if !ok || !InCycle(ph.Block()) || len(ph.Edges) != 2 {
		return nil, false
	}
	var init, update ssa.Value
	for i, e := range ph.Edges {
		if SameLoop(ph.Block().Preds[i], ph.Block()) {
			update = e
		} else {
			init = e
		}
	}
	if init == nil || update == nil {
		return nil, false
	}
	if ip, composed := p.keyParts(init, call, depth+1); !composed || len(ip) != 0 {
		return nil, false // the buffer does not start empty
	}
	up, composed := p.keyParts(update, call, depth+1)
	if !composed {
		return nil, false
	}
	// the update is: the buffer itself, one element of the variadic parameter, literals
	nPhi, nElem := 0, 0
	for _, c := range up {
		switch {
		case c.Val == ssa.Value(ph):
			nPhi++
		default:
			ld, isLd := c.Val.(*ssa.UnOp)
			if !isLd {
				return nil, false
			}
			ia, isIA := ld.X.(*ssa.IndexAddr)
			if !isIA || ia.X != ssa.Value(vparam) {
				return nil, false
			}
			nElem++
		}
	}
	if nPhi != 1 || nElem != 1 || len(call.Call.Args) == 0 {
		return nil, false
	}
	actuals := VarArgs(call.Call.Args[len(call.Call.Args)-1])
	if len(actuals) == 0 {
		return nil, false
	}
	var out []KeyComponent
	for _, a := range actuals {
		if a == nil {
			return nil, false
		}
		ap, ac := p.keyParts(a, call, depth+1)
		out = append(out, asStringParts(ap, ac)...)
	}
	return out, true
}
