package core

import (
	"fmt"
	"go/constant"
	"go/token"
	"go/types"
	"sort"
	"strings"

	"golang.org/x/tools/go/ssa"
)

// TermBuilder canonicalises pure byte/string builders into terms (E10).
// Strings and []byte are identified; fmt.Sprintf with a constant format is split into a concatenation
// ("%x" of bytes ≡ hex(...), "%d" ≡ dec(...)); hash objects fold New -> Write* -> Sum(nil) into H(concat(...)).
type TermBuilder struct {
	P     *Program
	Names map[ssa.Value]string // placeholders for leaves (parameters, loop-carried values, elements)
	// Bounds keeps slice bounds and computed element positions in the term (slice(X,lo,hi), elem(X,i))
	Bounds bool
	// Bind maps a callee's parameters to the caller's values (evaluated with the caller's builder)
	Bind map[*ssa.Parameter]BoundVal
	// Loaded applies the store invariant "a key field of a record equals the key it was loaded by": field F of the
	// record returned by a store getter is replaced by the getter argument at F's key position
	Loaded bool
	depth  int
}

// BoundVal is an actual argument together with the builder of the function it lives in.
type BoundVal struct {
	Val ssa.Value
	TB  *TermBuilder
}

// resolveRec follows bound parameters, single-store locals and loads to the value a record variable holds.
func (t *TermBuilder) resolveRec(v ssa.Value, depth int) (ssa.Value, *TermBuilder) {
	for ; depth < 8; depth++ {
		switch x := v.(type) {
		case *ssa.Parameter:
			if b, ok := t.Bind[x]; ok && b.TB != nil {
				return b.TB.resolveRec(b.Val, depth+1)
			}
			return v, t
		case *ssa.UnOp:
			if x.Op != token.MUL {
				return v, t
			}
			v = x.X
		case *ssa.Alloc:
			var st *ssa.Store
			n := 0
			for _, r := range *x.Referrers() {
				if s, ok := r.(*ssa.Store); ok && s.Addr == x {
					st, n = s, n+1
				}
			}
			if n != 1 {
				return v, t
			}
			v = st.Val
		default:
			return v, t
		}
	}
	return v, t
}

var keyFieldCache = map[string][]string{}

// keyFieldsOf: for a store prefix, the record field behind each key component (from a Set op whose key is built
// from the record's own fields); nil if unknown.
func (p *Program) keyFieldsOf(name string) []string {
	ck := name + p.TreeDigest
	if r, ok := keyFieldCache[ck]; ok {
		return r
	}
	var out []string
	for _, fn := range p.Funcs {
		for _, o := range p.StoreOps(fn) {
			if o.Kind != "Set" || o.Module+"/"+o.Prefix != name || out != nil {
				continue
			}
			comps := p.KeyComponents(o.Key, o.Instr)
			var fs []string
			for _, c := range comps {
				at := p.ResolveToEntry(p.ProvAt(c.Val, "", c.At), fn).DataAtoms()
				if len(at) != 1 || at[0].Kind != "param" || at[0].Fn != fn || at[0].Path == "" || strings.Count(at[0].Path, ".") != 1 {
					fs = nil
					break
				}
				fs = append(fs, strings.TrimPrefix(at[0].Path, "."))
			}
			if len(fs) == len(comps) && len(fs) > 0 {
				out = fs
			}
		}
	}
	keyFieldCache[ck] = out
	return out
}

// loadedKeyArg: rec is the record returned by a store getter call; returns the getter argument the record's key
// field `field` equals.
func (t *TermBuilder) loadedKeyArg(rec ssa.Value, field string) (ssa.Value, bool) {
	var call *ssa.Call
	switch x := rec.(type) {
	case *ssa.Extract:
		if c, ok := x.Tuple.(*ssa.Call); ok && x.Index == 0 {
			call = c
		}
	case *ssa.Call:
		call = x
	}
	if call == nil {
		return nil, false
	}
	cs := t.P.Callees(call)
	if len(cs) != 1 {
		return nil, false
	}
	gi := t.P.StoreGetter(cs[0])
	if gi == nil {
		return nil, false
	}
	fields := t.P.keyFieldsOf(gi.Module + "/" + gi.Prefix)
	if fields == nil {
		return nil, false
	}
	for _, o := range t.P.StoreOps(cs[0]) {
		if o.Kind != "Get" {
			continue
		}
		comps := t.P.KeyComponents(o.Key, o.Instr)
		if len(comps) != len(fields) {
			return nil, false
		}
		var actuals []ssa.Value
		if call.Call.IsInvoke() {
			actuals = append(actuals, call.Call.Value)
		}
		actuals = append(actuals, call.Call.Args...)
		for i, c := range comps {
			if fields[i] != field {
				continue
			}
			at := t.P.ResolveToEntry(t.P.ProvAt(c.Val, "", c.At), cs[0]).DataAtoms()
			if len(at) == 1 && at[0].Kind == "param" && at[0].Fn == cs[0] && at[0].Path == "" && at[0].Idx < len(actuals) {
				return actuals[at[0].Idx], true
			}
		}
	}
	return nil, false
}

// fieldTerm: term of X.field with the loaded-record invariant applied when enabled.
func (t *TermBuilder) fieldTerm(x ssa.Value, field string) string {
	if t.Loaded {
		rec, tb := t.resolveRec(x, 0)
		if arg, ok := tb.loadedKeyArg(rec, field); ok {
			return tb.Term(arg)
		}
	}
	return t.Term(x) + "." + field
}

func NewTermBuilder(p *Program) *TermBuilder {
	return &TermBuilder{P: p, Names: map[ssa.Value]string{}}
}

func concatTerm(parts []string) string {
	var flat []string
	for _, p := range parts {
		if p == `""` || p == "" {
			continue
		}
		if strings.HasPrefix(p, "concat(") && strings.HasSuffix(p, ")") && balanced(p[7:len(p)-1]) {
			flat = append(flat, splitTop(p[7:len(p)-1])...)
			continue
		}
		flat = append(flat, p)
	}
	if len(flat) == 0 {
		return `""`
	}
	if len(flat) == 1 {
		return flat[0]
	}
	return "concat(" + strings.Join(flat, ",") + ")"
}

func balanced(s string) bool {
	d := 0
	for _, c := range s {
		if c == '(' {
			d++
		}
		if c == ')' {
			d--
			if d < 0 {
				return false
			}
		}
	}
	return d == 0
}

func splitTop(s string) []string {
	var out []string
	d, start := 0, 0
	inq := false
	for i, c := range s {
		switch {
		case c == '"':
			inq = !inq
		case inq:
		case c == '(':
			d++
		case c == ')':
			d--
		case c == ',' && d == 0:
			out = append(out, s[start:i])
			start = i + 1
		}
	}
	return append(out, s[start:])
}

// Term computes the canonical term of v.
func (t *TermBuilder) Term(v ssa.Value) string {
	t.depth++
	defer func() { t.depth-- }()
	if t.depth > 60 {
		return "⊤depth"
	}
	if n, ok := t.Names[v]; ok {
		return n
	}
	switch x := v.(type) {
	case *ssa.Const:
		if x.Value == nil {
			return "nil"
		}
		if x.Value.Kind() == constant.String {
			return fmt.Sprintf("%q", constant.StringVal(x.Value))
		}
		return x.Value.ExactString()
	case *ssa.Parameter:
		if b, ok := t.Bind[x]; ok && b.TB != nil {
			return b.TB.Term(b.Val)
		}
		for i, p := range x.Parent().Params {
			if p == x {
				return fmt.Sprintf("P%d", i)
			}
		}
	case *ssa.Convert:
		return t.Term(x.X)
	case *ssa.ChangeType:
		return t.Term(x.X)
	case *ssa.MakeInterface:
		return t.Term(x.X)
	case *ssa.Slice:
		if x.Low == nil && x.High == nil {
			return t.Term(x.X)
		}
		if !t.Bounds {
			return "slice(" + t.Term(x.X) + ")"
		}
		lo, hi := "", ""
		if x.Low != nil {
			lo = t.Term(x.Low)
		}
		if x.High != nil {
			hi = t.Term(x.High)
		}
		return "slice(" + t.Term(x.X) + "," + lo + "," + hi + ")"
	case *ssa.UnOp:
		if x.Op == token.MUL {
			switch a := x.X.(type) {
			case *ssa.Alloc:
				var st *ssa.Store
				n := 0
				for _, r := range *a.Referrers() {
					if s, ok := r.(*ssa.Store); ok && s.Addr == a {
						st, n = s, n+1
					}
				}
				if n == 1 {
					return t.Term(st.Val)
				}
			case *ssa.FieldAddr:
				return t.fieldTerm(a.X, fieldName(a.X.Type(), a.Field))
			case *ssa.IndexAddr:
				return t.elemTerm(a.X, a.Index)
			}
		}
		return "unop(" + x.Op.String() + "," + t.Term(x.X) + ")"
	case *ssa.Index:
		return t.elemTerm(x.X, x.Index)
	case *ssa.Extract:
		if nx, ok := x.Tuple.(*ssa.Next); ok {
			if rg, ok := nx.Iter.(*ssa.Range); ok && x.Index == 2 {
				return "elem(" + t.Term(rg.X) + ")"
			}
		}
		return fmt.Sprintf("%s#%d", t.Term(x.Tuple), x.Index)
	case *ssa.BinOp:
		if x.Op == token.ADD {
			if b, ok := x.Type().Underlying().(*types.Basic); ok && b.Info()&types.IsString != 0 {
				return concatTerm([]string{t.Term(x.X), t.Term(x.Y)})
			}
		}
		return "(" + t.Term(x.X) + x.Op.String() + t.Term(x.Y) + ")"
	case *ssa.Field:
		return t.fieldTerm(x.X, fieldName(x.X.Type(), x.Field))
	case *ssa.FieldAddr:
		return t.Term(x.X) + "." + fieldName(x.X.Type(), x.Field)
	case *ssa.Alloc:
		// a local holding one value (sum := sha256.Sum256(x); sum[:]): the value; array literals etc. stay opaque
		var only *ssa.Store
		n := 0
		for _, r := range *x.Referrers() {
			switch y := r.(type) {
			case *ssa.Store:
				if y.Addr == x {
					only, n = y, n+1
				}
			case *ssa.IndexAddr, *ssa.FieldAddr:
				n += 2
			}
		}
		if n == 1 {
			if _, isCall := only.Val.(*ssa.Call); isCall {
				return t.Term(only.Val)
			}
		}
		return "alloc"
	case *ssa.Phi:
		if ts, ok := t.trimSuffixIdiom(x); ok {
			return ts
		}
		if t.Bounds && !InCycle(x.Block()) {
			// a join of alternatives (not loop-carried): keep the alternatives
			var alts []string
			for _, e := range x.Edges {
				alts = append(alts, t.Term(e))
			}
			sort.Strings(alts)
			return "alt(" + strings.Join(alts, ",") + ")"
		}
		return "φ" + x.Name()
	case *ssa.MakeSlice:
		// make([]byte, 0, n): the empty byte string (a buffer to append to)
		if c, ok := x.Len.(*ssa.Const); ok && c.Value != nil && c.Value.ExactString() == "0" {
			return `""`
		}
		return "φmake" + x.Name()
	case *ssa.Call:
		return t.callTerm(x)
	}
	return fmt.Sprintf("⊤%T", v)
}

// trimSuffixIdiom: p' := p; if strings.HasSuffix(p, s) { p' = p[:len(p)-len(s)] }  ≡  strings.TrimSuffix(p, s)
func (t *TermBuilder) trimSuffixIdiom(ph *ssa.Phi) (string, bool) {
	if len(ph.Edges) != 2 {
		return "", false
	}
	for i := 0; i < 2; i++ {
		whole, cut := ph.Edges[i], ph.Edges[1-i]
		sl, ok := cut.(*ssa.Slice)
		if !ok || sl.Low != nil || sl.High == nil || sl.X != whole {
			continue
		}
		sub, ok := sl.High.(*ssa.BinOp)
		if !ok || sub.Op != token.SUB {
			continue
		}
		ln, ok := sub.X.(*ssa.Call)
		if !ok {
			continue
		}
		if b, isB := ln.Call.Value.(*ssa.Builtin); !isB || b.Name() != "len" || ln.Call.Args[0] != whole {
			continue
		}
		k, ok := sub.Y.(*ssa.Const)
		if !ok || k.Value == nil {
			continue
		}
		// the cutting arm is entered only behind strings.HasSuffix(whole, s) with len(s) = k
		pred := ph.Block().Preds[1-i]
		for hops := 0; hops < 3 && pred != nil; hops++ {
			if len(pred.Preds) != 1 {
				break
			}
			up := pred.Preds[0]
			if ifi, ok := up.Instrs[len(up.Instrs)-1].(*ssa.If); ok && up.Succs[0] == pred {
				if c, ok := ifi.Cond.(*ssa.Call); ok && CalleeFullName(c) == "strings.HasSuffix" && c.Call.Args[0] == whole {
					if sc, ok := c.Call.Args[1].(*ssa.Const); ok && sc.Value != nil && sc.Value.Kind() == constant.String &&
						fmt.Sprint(len(constant.StringVal(sc.Value))) == k.Value.ExactString() {
						return "strings.TrimSuffix(" + t.Term(whole) + "," + fmt.Sprintf("%q", constant.StringVal(sc.Value)) + ")", true
					}
				}
			}
			pred = up
		}
	}
	return "", false
}

// elemTerm: an element selected by a loop variable is "some element" (elem(X)); a computed position is kept.
func (t *TermBuilder) elemTerm(x, idx ssa.Value) string {
	if !t.Bounds {
		return "elem(" + t.Term(x) + ")"
	}
	it := t.Term(idx)
	if strings.Contains(it, "φ") || strings.Contains(it, "⊤") {
		return "elem(" + t.Term(x) + ")"
	}
	return "elem(" + t.Term(x) + "," + it + ")"
}

func (t *TermBuilder) callTerm(c *ssa.Call) string {
	name := CalleeFullName(c)
	if b, ok := c.Call.Value.(*ssa.Builtin); ok {
		var as []string
		for _, a := range c.Call.Args {
			as = append(as, t.Term(a))
		}
		if b.Name() == "append" {
			return concatTerm(as)
		}
		return b.Name() + "(" + strings.Join(as, ",") + ")"
	}
	switch {
	case name == "fmt.Sprintf":
		format, complete, ok := t.P.ConstPrefix(c.Call.Args[0])
		if !ok || !complete {
			return "⊤format"
		}
		var args []ssa.Value
		if len(c.Call.Args) > 1 {
			args = VarArgs(c.Call.Args[1])
		}
		var parts []string
		lit := ""
		ai := 0
		for i := 0; i < len(format); i++ {
			if format[i] != '%' {
				lit += string(format[i])
				continue
			}
			if i+1 < len(format) && format[i+1] == '%' {
				lit += "%"
				i++
				continue
			}
			if lit != "" {
				parts = append(parts, fmt.Sprintf("%q", lit))
				lit = ""
			}
			j := i + 1
			for j < len(format) && strings.ContainsRune("+-# 0123456789.", rune(format[j])) {
				j++
			}
			if j >= len(format) || ai >= len(args) || args[ai] == nil {
				return "⊤format-arity"
			}
			at := t.Term(args[ai])
			ai++
			verb := format[i+1 : j+1]
			switch verb {
			case "s", "v":
				parts = append(parts, at)
			case "x":
				parts = append(parts, "hex("+at+")")
			case "d":
				parts = append(parts, "dec("+at+")")
			default:
				parts = append(parts, "fmt%"+verb+"("+at+")")
			}
			i = j
		}
		if lit != "" {
			parts = append(parts, fmt.Sprintf("%q", lit))
		}
		return concatTerm(parts)
	case name == "encoding/hex.EncodeToString":
		return "hex(" + t.Term(c.Call.Args[0]) + ")"
	case name == "encoding/hex.AppendEncode" && len(c.Call.Args) == 2:
		return concatTerm([]string{t.Term(c.Call.Args[0]), "hex(" + t.Term(c.Call.Args[1]) + ")"})
	case (name == "strconv.AppendInt" || name == "strconv.AppendUint") && len(c.Call.Args) == 3 && isConstInt(c.Call.Args[2], 10):
		return concatTerm([]string{t.Term(c.Call.Args[0]), "dec(" + t.Term(c.Call.Args[1]) + ")"})
	case (name == "strconv.FormatInt" || name == "strconv.FormatUint") && len(c.Call.Args) == 2 && isConstInt(c.Call.Args[1], 10):
		return "dec(" + t.Term(c.Call.Args[0]) + ")"
	case name == "strconv.Itoa" && len(c.Call.Args) == 1:
		return "dec(" + t.Term(c.Call.Args[0]) + ")"
	case strings.HasPrefix(name, "crypto/") && strings.Contains(name, ".Sum") && len(c.Call.Args) == 1:
		// one-shot digest: sha256.Sum256(x) ≡ h := sha256.New(); h.Write(x); h.Sum(nil)
		pkg := name[strings.LastIndex(name, "/")+1 : strings.LastIndex(name, ".")]
		ctor := map[string]string{"sha256.Sum256": "sha256.New", "sha256.Sum224": "sha256.New224", "sha512.Sum512": "sha512.New", "sha1.Sum": "sha1.New", "md5.Sum": "md5.New"}[pkg+name[strings.LastIndex(name, "."):]]
		if ctor != "" {
			return ctor + "(" + concatTerm([]string{t.Term(c.Call.Args[0])}) + ")"
		}
	}
	// hash.Sum(nil) typestate fold
	if c.Call.IsInvoke() && c.Call.Method.Name() == "Sum" {
		if ctor, ok := c.Call.Value.(*ssa.Call); ok && len(t.P.Callees(ctor)) == 0 {
			hname := CalleeFullName(ctor)
			hname = hname[strings.LastIndex(hname, "/")+1:]
			var writes []ssa.CallInstruction
			var walk func(v ssa.Value)
			seen := map[ssa.Value]bool{}
			walk = func(v ssa.Value) {
				if seen[v] || v.Referrers() == nil {
					return
				}
				seen[v] = true
				for _, r := range *v.Referrers() {
					switch y := r.(type) {
					case *ssa.MakeInterface:
						walk(y)
					case *ssa.ChangeInterface:
						walk(y)
					case ssa.CallInstruction:
						if y == ssa.CallInstruction(c) || y == ssa.CallInstruction(ctor) {
							continue
						}
						cc := y.Common()
						if cc.IsInvoke() && cc.Value == v && (cc.Method.Name() == "Write" || cc.Method.Name() == "WriteString") {
							writes = append(writes, y)
						} else if !cc.IsInvoke() && strings.HasSuffix(CalleeFullName(y), "io.WriteString") {
							writes = append(writes, y)
						}
					}
				}
			}
			walk(ctor)
			// order writes by dominance (all must be on the straight line to Sum)
			sort.SliceStable(writes, func(i, j int) bool {
				bi, bj := writes[i].Block(), writes[j].Block()
				if bi == bj {
					return instrIndex(writes[i]) < instrIndex(writes[j])
				}
				return bi.Dominates(bj)
			})
			var parts []string
			for _, w := range writes {
				if !t.P.mayReach(w, c) {
					continue
				}
				args := w.Common().Args
				parts = append(parts, t.Term(args[len(args)-1]))
			}
			if len(c.Call.Args) == 1 {
				if sa := t.Term(c.Call.Args[0]); sa != "nil" {
					parts = append([]string{sa}, parts...)
				}
			}
			return hname + "(" + concatTerm(parts) + ")"
		}
	}
	// custom single-return helper: inline
	if callees := t.P.Callees(c); len(callees) == 1 && callees[0].Blocks != nil {
		cal := callees[0]
		var ret *ssa.Return
		n := 0
		for _, b := range cal.Blocks {
			if r, ok := b.Instrs[len(b.Instrs)-1].(*ssa.Return); ok {
				ret, n = r, n+1
			}
		}
		if n == 1 && len(ret.Results) == 1 {
			sub := NewTermBuilder(t.P)
			sub.depth = t.depth
			sub.Bounds = t.Bounds
			sub.Loaded = t.Loaded
			actuals := c.Call.Args
			for i, prm := range cal.Params {
				if i < len(actuals) {
					sub.Names[prm] = t.Term(actuals[i])
				}
			}
			return sub.Term(ret.Results[0])
		}
	}
	var as []string
	if c.Call.IsInvoke() {
		as = append(as, t.Term(c.Call.Value))
	}
	for _, a := range c.Call.Args {
		if isCtxType(a.Type()) {
			continue
		}
		as = append(as, t.Term(a))
	}
	short := name
	if i := strings.LastIndex(short, "/"); i >= 0 {
		short = short[i+1:]
	}
	return short + "(" + strings.Join(as, ",") + ")"
}

func isConstInt(v ssa.Value, n int64) bool {
	c, ok := v.(*ssa.Const)
	if !ok || c.Value == nil {
		return false
	}
	i, exact := constant.Int64Val(c.Value)
	return exact && i == n
}
