package core

import (
	"fmt"
	"go/constant"
	"go/token"
	"go/types"
	"sort"
	"strings"

	"golang.org/x/tools/go/ssa"
)

// TermBuilder canonicalises pure byte/string builders into terms (E10).
// Strings and []byte are identified; fmt.Sprintf with a constant format is split into a concatenation
// ("%x" of bytes ≡ hex(...), "%d" ≡ dec(...)); hash objects fold New -> Write* -> Sum(nil) into H(concat(...)).
type TermBuilder struct {
	P     *Program
	Names map[ssa.Value]string // placeholders for leaves (parameters, loop-carried values, elements)
	// Bounds keeps slice bounds and computed element positions in the term (slice(X,lo,hi), elem(X,i))
	Bounds bool
	// Bind maps a callee's parameters to the caller's values (evaluated with the caller's builder)
	Bind map[*ssa.Parameter]BoundVal
	// Loaded applies the store invariant "a key field of a record equals the key it was loaded by": field F of the
	// record returned by a store getter is replaced by the getter argument at F's key position
	Loaded bool
	depth  int
}

// BoundVal is an actual argument together with the builder of the function it lives in.
type BoundVal struct {
	Val ssa.Value
	TB  *TermBuilder
}

// resolveRec follows bound parameters, single-store locals and loads to the value a record variable holds.
func (t *TermBuilder) resolveRec(v ssa.Value, depth int) (ssa.Value, *TermBuilder) {
	for ; depth < 8; depth++ {
		switch x := v.(type) {
		case *ssa.Parameter:
			if b, ok := t.Bind[x]; ok && b.TB != nil {
				return b.TB.resolveRec(b.Val, depth+1)
			}
			return v, t
		case *ssa.UnOp:
			if x.Op != token.MUL {
				return v, t
			}
			v = x.X
		case *ssa.Alloc:
			var st *ssa.Store
			n := 0
			for _, r := range *x.Referrers() {
				if s, ok := r.(*ssa.Store); ok && s.Addr == x {
					st, n = s, n+1
				}
			}
			if n != 1 {
				return v, t
			}
			v = st.Val
		default:
			return v, t
		}
	}
	return v, t
}

var keyFieldCache = map[string][]string{}

// keyFieldsOf: for a store prefix, the record field behind each key component (from a Set op whose key is built
// from the record's own fields); nil if unknown.
func (p *Program) keyFieldsOf(name string) []string {
	ck := name + p.TreeDigest
	if r, ok := keyFieldCache[ck]; ok {
		return r
	}
	var out []string
	for _, fn := range p.Funcs {
		for _, o := range p.StoreOps(fn) {
			if o.Kind != "Set" || o.Module+"/"+o.Prefix != name || out != nil {
				continue
			}
			comps := p.KeyComponents(o.Key, o.Instr)
			var fs []string
			for _, c := range comps {
				at := p.ResolveToEntry(p.ProvAt(c.Val, "", c.At), fn).DataAtoms()
				if len(at) != 1 || at[0].Kind != "param" || at[0].Fn != fn || at[0].Path == "" || strings.Count(at[0].Path, ".") != 1 {
					fs = nil
					break
				}
				fs = append(fs, strings.TrimPrefix(at[0].Path, "."))
			}
			if len(fs) == len(comps) && len(fs) > 0 {
				out = fs
			}
		}
	}
	keyFieldCache[ck] = out
	return out
}

// loadedKeyArg: rec is the record returned by a store getter call; returns the getter argument the record's key
// field `field` equals.
func (t *TermBuilder) loadedKeyArg(rec ssa.Value, field string) (ssa.Value, bool) {
	var call *ssa.Call
	switch x := rec.(type) {
	case *ssa.Extract:
		if c, ok := x.Tuple.(*ssa.Call); ok && x.Index == 0 {
			call = c
		}
	case *ssa.Call:
		call = x
	}
	if call == nil {
		return nil, false
	}
	cs := t.P.Callees(call)
	if len(cs) != 1 {
		return nil, false
	}
	gi := t.P.StoreGetter(cs[0])
	if gi == nil {
		return nil, false
	}
	fields := t.P.keyFieldsOf(gi.Module + "/" + gi.Prefix)
	if fields == nil {
		return nil, false
	}
	for _, o := range t.P.StoreOps(cs[0]) {
		if o.Kind != "Get" {
			continue
		}
		comps := t.P.KeyComponents(o.Key, o.Instr)
		if len(comps) != len(fields) {
			return nil, false
		}
		var actuals []ssa.Value
		if call.Call.IsInvoke() {
			actuals = append(actuals, call.Call.Value)
		}
		actuals = append(actuals, call.Call.Args...)
		for i, c := range comps {
			if fields[i] != field {
				continue
			}
			at := t.P.ResolveToEntry(t.P.ProvAt(c.Val, "", c.At), cs[0]).DataAtoms()
			if len(at) == 1 && at[0].Kind == "param" && at[0].Fn == cs[0] && at[0].Path == "" && at[0].Idx < len(actuals) {
				return actuals[at[0].Idx], true
			}
		}
	}
	return nil, false
}

// fieldTerm: term of X.field with the loaded-record invariant applied when enabled.
func (t *TermBuilder) fieldTerm(x ssa.Value, field string) string {
	if t.Loaded {
		rec, tb := t.resolveRec(x, 0)
		if arg, ok := tb.loadedKeyArg(rec, field); ok {
			return tb.Term(arg)
		}
	}
	if v, tb, ok := t.localFieldRef(x, field, 0); ok {
		return tb.Term(v)
	}
	return t.Term(x) + "." + field
}

// FieldTerm is the term of field `field` of the record value x.
func (t *TermBuilder) FieldTerm(x ssa.Value, field string) string { return t.fieldTerm(x, field) }

// localFieldRef: the value assigned to a field of a record built in place — a local filled field by field (or a
// composite literal) whose field is assigned exactly once and which is never assigned as a whole — or returned by a
// single-return constructor helper that builds it that way; nested records are followed field by field.
func (t *TermBuilder) localFieldRef(x ssa.Value, field string, depth int) (ssa.Value, *TermBuilder, bool) {
	if depth > 4 {
		return nil, nil, false
	}
	// a field of a field: resolve the enclosing field first
	if fa, ok := x.(*ssa.FieldAddr); ok {
		if v, tb, ok := t.localFieldRef(fa.X, fieldName(fa.X.Type(), fa.Field), depth+1); ok {
			return tb.localFieldRef(v, field, depth+1)
		}
		return nil, nil, false
	}
	if f, ok := x.(*ssa.Field); ok {
		if v, tb, ok := t.localFieldRef(f.X, fieldName(f.X.Type(), f.Field), depth+1); ok {
			return tb.localFieldRef(v, field, depth+1)
		}
		return nil, nil, false
	}
	if ld, ok := x.(*ssa.UnOp); ok && ld.Op == token.MUL {
		if fa, ok := ld.X.(*ssa.FieldAddr); ok {
			if v, tb, ok := t.localFieldRef(fa.X, fieldName(fa.X.Type(), fa.Field), depth+1); ok {
				return tb.localFieldRef(v, field, depth+1)
			}
			return nil, nil, false
		}
	}
	rec, tb := t.resolveRec(x, 0)
	var call *ssa.Call
	idx := 0
	switch y := rec.(type) {
	case *ssa.Alloc:
		if y.Referrers() == nil {
			return nil, nil, false
		}
		var stores []*ssa.Store
		for _, r := range *y.Referrers() {
			switch z := r.(type) {
			case *ssa.Store:
				if z.Addr == y {
					return nil, nil, false // assigned as a whole somewhere
				}
			case *ssa.FieldAddr:
				if fieldName(z.X.Type(), z.Field) != field || z.Referrers() == nil {
					continue
				}
				for _, rr := range *z.Referrers() {
					if st, ok := rr.(*ssa.Store); ok && st.Addr == z {
						stores = append(stores, st)
					}
				}
			}
		}
		if len(stores) == 1 {
			return stores[0].Val, tb, true
		}
		return nil, nil, false
	case *ssa.Call:
		call = y
	case *ssa.Extract:
		c, ok := y.Tuple.(*ssa.Call)
		if !ok {
			return nil, nil, false
		}
		call, idx = c, y.Index
	default:
		return nil, nil, false
	}
	cs := tb.P.Callees(call)
	if len(cs) != 1 || cs[0].Blocks == nil {
		return nil, nil, false
	}
	// the constructor's commit return (returns next to a non-nil error do not deliver the record)
	failing := map[*ssa.Return]bool{}
	for _, ri := range tb.P.Returns(cs[0]) {
		if ri.Class == RetFail {
			failing[ri.Ret] = true
		}
	}
	var ret *ssa.Return
	n := 0
	for _, b := range cs[0].Blocks {
		if r, ok := b.Instrs[len(b.Instrs)-1].(*ssa.Return); ok && !failing[r] {
			ret, n = r, n+1
		}
	}
	if n != 1 || idx >= len(ret.Results) {
		return nil, nil, false
	}
	sub := NewTermBuilder(tb.P)
	sub.depth = tb.depth
	sub.Bounds, sub.Loaded = tb.Bounds, tb.Loaded
	c := call.Common()
	var actuals []ssa.Value
	if c.IsInvoke() {
		actuals = append(actuals, c.Value)
	}
	actuals = append(actuals, c.Args...)
	for i, prm := range cs[0].Params {
		if i < len(actuals) {
			sub.Names[prm] = tb.Term(actuals[i])
		}
	}
	return sub.localFieldRef(ret.Results[idx], field, depth+1)
}

func NewTermBuilder(p *Program) *TermBuilder {
	return &TermBuilder{P: p, Names: map[ssa.Value]string{}}
}

func concatTerm(parts []string) string {
	var flat []string
	for _, p := range parts {
		if p == `""` || p == "" {
			continue
		}
		if strings.HasPrefix(p, "concat(") && strings.HasSuffix(p, ")") && balanced(p[7:len(p)-1]) {
			flat = append(flat, splitTop(p[7:len(p)-1])...)
			continue
		}
		flat = append(flat, p)
	}
	if len(flat) == 0 {
		return `""`
	}
	if len(flat) == 1 {
		return flat[0]
	}
	return "concat(" + strings.Join(flat, ",") + ")"
}

func balanced(s string) bool {
	d := 0
	for _, c := range s {
		if c == '(' {
			d++
		}
		if c == ')' {
			d--
			if d < 0 {
				return false
			}
		}
	}
	return d == 0
}

func splitTop(s string) []string {
	var out []string
	d, start := 0, 0
	inq := false
	for i, c := range s {
		switch {
		case c == '"':
			inq = !inq
		case inq:
		case c == '(':
			d++
		case c == ')':
			d--
		case c == ',' && d == 0:
			out = append(out, s[start:i])
			start = i + 1
		}
	}
	return append(out, s[start:])
}

// Term computes the canonical term of v.
func (t *TermBuilder) Term(v ssa.Value) string {
	t.depth++
	defer func() { t.depth-- }()
	if t.depth > 60 {
		return "⊤depth"
	}
	if n, ok := t.Names[v]; ok {
		return n
	}
	switch x := v.(type) {
	case *ssa.Const:
		if x.Value == nil {
			return "nil"
		}
		if x.Value.Kind() == constant.String {
			return fmt.Sprintf("%q", constant.StringVal(x.Value))
		}
		return x.Value.ExactString()
	case *ssa.Parameter:
		if b, ok := t.Bind[x]; ok && b.TB != nil {
			return b.TB.Term(b.Val)
		}
		for i, p := range x.Parent().Params {
			if p == x {
				return fmt.Sprintf("P%d", i)
			}
		}
	case *ssa.Convert:
		// string <-> []byte is the identity on the bytes; string <-> []rune is not (bytes that are not valid UTF-8 are
		// replaced)
		if isRuneSlice(x.Type()) || isRuneSlice(x.X.Type()) {
			return "runes(" + t.Term(x.X) + ")"
		}
		return t.Term(x.X)
	case *ssa.ChangeType:
		return t.Term(x.X)
	case *ssa.MakeInterface:
		return t.Term(x.X)
	case *ssa.Slice:
		if x.Low == nil && x.High == nil {
			return t.Term(x.X)
		}
		if !t.Bounds {
			return "slice(" + t.Term(x.X) + ")"
		}
		lo, hi := "", ""
		if x.Low != nil {
			lo = t.Term(x.Low)
		}
		if x.High != nil {
			hi = t.Term(x.High)
		}
		return "slice(" + t.Term(x.X) + "," + lo + "," + hi + ")"
	case *ssa.UnOp:
		if x.Op == token.MUL {
			switch a := x.X.(type) {
			case *ssa.Alloc:
				var st *ssa.Store
				n := 0
				for _, r := range *a.Referrers() {
					if s, ok := r.(*ssa.Store); ok && s.Addr == a {
						st, n = s, n+1
					}
				}
				if n == 1 {
					return t.Term(st.Val)
				}
			case *ssa.FieldAddr:
				return t.fieldTerm(a.X, fieldName(a.X.Type(), a.Field))
			case *ssa.IndexAddr:
				return t.elemTerm(a.X, a.Index)
			}
		}
		return "unop(" + x.Op.String() + "," + t.Term(x.X) + ")"
	case *ssa.Index:
		return t.elemTerm(x.X, x.Index)
	case *ssa.Extract:
		if nx, ok := x.Tuple.(*ssa.Next); ok {
			if rg, ok := nx.Iter.(*ssa.Range); ok && x.Index == 2 {
				return "elem(" + t.Term(rg.X) + ")"
			}
		}
		return fmt.Sprintf("%s#%d", t.Term(x.Tuple), x.Index)
	case *ssa.BinOp:
		if x.Op == token.ADD {
			if b, ok := x.Type().Underlying().(*types.Basic); ok && b.Info()&types.IsString != 0 {
				return concatTerm([]string{t.Term(x.X), t.Term(x.Y)})
			}
		}
		return "(" + t.Term(x.X) + x.Op.String() + t.Term(x.Y) + ")"
	case *ssa.Field:
		return t.fieldTerm(x.X, fieldName(x.X.Type(), x.Field))
	case *ssa.FieldAddr:
		return t.Term(x.X) + "." + fieldName(x.X.Type(), x.Field)
	case *ssa.Alloc:
		// a local holding one value (sum := sha256.Sum256(x); sum[:]): the value; array literals etc. stay opaque
		var only *ssa.Store
		n := 0
		for _, r := range *x.Referrers() {
			switch y := r.(type) {
			case *ssa.Store:
				if y.Addr == x {
					only, n = y, n+1
				}
			case *ssa.IndexAddr, *ssa.FieldAddr:
				n += 2
			}
		}
		if n == 1 {
			if _, isCall := only.Val.(*ssa.Call); isCall {
				return t.Term(only.Val)
			}
		}
		// a byte array literal whose elements are all constants (append(key, '/')): the literal string
		if lit, ok := constByteArray(x); ok {
			return fmt.Sprintf("%q", lit)
		}
		return "alloc"
	case *ssa.Phi:
		if ts, ok := t.trimSuffixIdiom(x); ok {
			return ts
		}
		if ms, ok := t.mapAppendIdiom(x); ok {
			return ms
		}
		if t.Bounds && !InCycle(x.Block()) {
			// a join of alternatives (not loop-carried): keep the alternatives
			var alts []string
			for _, e := range x.Edges {
				alts = append(alts, t.Term(e))
			}
			sort.Strings(alts)
			return "alt(" + strings.Join(alts, ",") + ")"
		}
		return "φ" + x.Name()
	case *ssa.MakeSlice:
		// make([]byte, 0, n): the empty byte string (a buffer to append to)
		if c, ok := x.Len.(*ssa.Const); ok && c.Value != nil && c.Value.ExactString() == "0" {
			return `""`
		}
		return "φmake" + x.Name()
	case *ssa.Call:
		return t.callTerm(x)
	}
	return fmt.Sprintf("⊤%T", v)
}

// trimSuffixIdiom: p' := p; if strings.HasSuffix(p, s) { p' = p[:len(p)-len(s)] }  ≡  strings.TrimSuffix(p, s)
func (t *TermBuilder) trimSuffixIdiom(ph *ssa.Phi) (string, bool) {
	if len(ph.Edges) != 2 {
		return "", false
	}
	for i := 0; i < 2; i++ {
		whole, cut := ph.Edges[i], ph.Edges[1-i]
		sl, ok := cut.(*ssa.Slice)
		if !ok || sl.Low != nil || sl.High == nil || sl.X != whole {
			continue
		}
		sub, ok := sl.High.(*ssa.BinOp)
		if !ok || sub.Op != token.SUB {
			continue
		}
		ln, ok := sub.X.(*ssa.Call)
		if !ok {
			continue
		}
		if b, isB := ln.Call.Value.(*ssa.Builtin); !isB || b.Name() != "len" || ln.Call.Args[0] != whole {
			continue
		}
		k, ok := sub.Y.(*ssa.Const)
		if !ok || k.Value == nil {
			continue
		}
		// the cutting arm is entered only behind strings.HasSuffix(whole, s) with len(s) = k
		pred := ph.Block().Preds[1-i]
		for hops := 0; hops < 3 && pred != nil; hops++ {
			if len(pred.Preds) != 1 {
				break
			}
			up := pred.Preds[0]
			if ifi, ok := up.Instrs[len(up.Instrs)-1].(*ssa.If); ok && up.Succs[0] == pred {
				if c, ok := ifi.Cond.(*ssa.Call); ok && CalleeFullName(c) == "strings.HasSuffix" && c.Call.Args[0] == whole {
					if sc, ok := c.Call.Args[1].(*ssa.Const); ok && sc.Value != nil && sc.Value.Kind() == constant.String &&
						fmt.Sprint(len(constant.StringVal(sc.Value))) == k.Value.ExactString() {
						return "strings.TrimSuffix(" + t.Term(whole) + "," + fmt.Sprintf("%q", constant.StringVal(sc.Value)) + ")", true
					}
				}
			}
			pred = up
		}
	}
	return "", false
}

// elemTerm: an element selected by a loop variable is "some element" (elem(X)); a computed position is kept.
func (t *TermBuilder) elemTerm(x, idx ssa.Value) string {
	// an element of a slice built by appending f(e) for every element e of another list, in order: f(elem(list))
	if xt := t.Term(x); strings.HasPrefix(xt, "map{") && strings.HasSuffix(xt, "}") {
		return xt[4 : len(xt)-1]
	}
	if !t.Bounds {
		return "elem(" + t.Term(x) + ")"
	}
	it := t.Term(idx)
	if strings.Contains(it, "φ") || strings.Contains(it, "⊤") {
		return "elem(" + t.Term(x) + ")"
	}
	return "elem(" + t.Term(x) + "," + it + ")"
}

func (t *TermBuilder) callTerm(c *ssa.Call) string {
	name := CalleeFullName(c)
	if b, ok := c.Call.Value.(*ssa.Builtin); ok {
		var as []string
		for _, a := range c.Call.Args {
			as = append(as, t.Term(a))
		}
		if b.Name() == "append" {
			return concatTerm(as)
		}
		return b.Name() + "(" + strings.Join(as, ",") + ")"
	}
	switch {
	case name == "fmt.Sprintf":
		format, complete, ok := t.P.ConstPrefix(c.Call.Args[0])
		if !ok || !complete {
			return "⊤format"
		}
		var args []ssa.Value
		if len(c.Call.Args) > 1 {
			args = VarArgs(c.Call.Args[1])
		}
		var parts []string
		lit := ""
		ai := 0
		for i := 0; i < len(format); i++ {
			if format[i] != '%' {
				lit += string(format[i])
				continue
			}
			if i+1 < len(format) && format[i+1] == '%' {
				lit += "%"
				i++
				continue
			}
			if lit != "" {
				parts = append(parts, fmt.Sprintf("%q", lit))
				lit = ""
			}
			j := i + 1
			for j < len(format) && strings.ContainsRune("+-# 0123456789.", rune(format[j])) {
				j++
			}
			if j >= len(format) || ai >= len(args) || args[ai] == nil {
				return "⊤format-arity"
			}
			at := t.Term(args[ai])
			ai++
			verb := format[i+1 : j+1]
			switch verb {
			case "s", "v":
				parts = append(parts, at)
			case "x":
				parts = append(parts, "hex("+at+")")
			case "d":
				parts = append(parts, "dec("+at+")")
			default:
				parts = append(parts, "fmt%"+verb+"("+at+")")
			}
			i = j
		}
		if lit != "" {
			parts = append(parts, fmt.Sprintf("%q", lit))
		}
		return concatTerm(parts)
	case name == "encoding/hex.EncodeToString":
		return "hex(" + t.Term(c.Call.Args[0]) + ")"
	case name == "encoding/hex.AppendEncode" && len(c.Call.Args) == 2:
		return concatTerm([]string{t.Term(c.Call.Args[0]), "hex(" + t.Term(c.Call.Args[1]) + ")"})
	case (name == "strconv.AppendInt" || name == "strconv.AppendUint") && len(c.Call.Args) == 3 && isConstInt(c.Call.Args[2], 10):
		return concatTerm([]string{t.Term(c.Call.Args[0]), "dec(" + t.Term(c.Call.Args[1]) + ")"})
	case (name == "strconv.FormatInt" || name == "strconv.FormatUint") && len(c.Call.Args) == 2 && isConstInt(c.Call.Args[1], 10):
		return "dec(" + t.Term(c.Call.Args[0]) + ")"
	case name == "strconv.Itoa" && len(c.Call.Args) == 1:
		return "dec(" + t.Term(c.Call.Args[0]) + ")"
	case strings.HasPrefix(name, "crypto/") && strings.Contains(name, ".Sum") && len(c.Call.Args) == 1:
		// one-shot digest: sha256.Sum256(x) ≡ h := sha256.New(); h.Write(x); h.Sum(nil)
		pkg := name[strings.LastIndex(name, "/")+1 : strings.LastIndex(name, ".")]
		ctor := map[string]string{"sha256.Sum256": "sha256.New", "sha256.Sum224": "sha256.New224", "sha512.Sum512": "sha512.New", "sha1.Sum": "sha1.New", "md5.Sum": "md5.New"}[pkg+name[strings.LastIndex(name, "."):]]
		if ctor != "" {
			return ctor + "(" + concatTerm([]string{t.Term(c.Call.Args[0])}) + ")"
		}
	}
	// hash.Sum(nil) typestate fold
	if c.Call.IsInvoke() && c.Call.Method.Name() == "Sum" {
		if ctor, ok := c.Call.Value.(*ssa.Call); ok && len(t.P.Callees(ctor)) == 0 {
			hname := CalleeFullName(ctor)
			hname = hname[strings.LastIndex(hname, "/")+1:]
			var writes []ssa.CallInstruction
			var walk func(v ssa.Value)
			seen := map[ssa.Value]bool{}
			walk = func(v ssa.Value) {
				if seen[v] || v.Referrers() == nil {
					return
				}
				seen[v] = true
				for _, r := range *v.Referrers() {
					switch y := r.(type) {
					case *ssa.MakeInterface:
						walk(y)
					case *ssa.ChangeInterface:
						walk(y)
					case ssa.CallInstruction:
						if y == ssa.CallInstruction(c) || y == ssa.CallInstruction(ctor) {
							continue
						}
						cc := y.Common()
						if cc.IsInvoke() && cc.Value == v && (cc.Method.Name() == "Write" || cc.Method.Name() == "WriteString") {
							writes = append(writes, y)
						} else if !cc.IsInvoke() && strings.HasSuffix(CalleeFullName(y), "io.WriteString") {
							writes = append(writes, y)
						}
					}
				}
			}
			walk(ctor)
			// order writes by dominance (all must be on the straight line to Sum)
			sort.SliceStable(writes, func(i, j int) bool {
				bi, bj := writes[i].Block(), writes[j].Block()
				if bi == bj {
					return instrIndex(writes[i]) < instrIndex(writes[j])
				}
				return bi.Dominates(bj)
			})
			var parts []string
			for _, w := range writes {
				if !t.P.mayReach(w, c) {
					continue
				}
				args := w.Common().Args
				parts = append(parts, t.Term(args[len(args)-1]))
			}
			if len(c.Call.Args) == 1 {
				if sa := t.Term(c.Call.Args[0]); sa != "nil" {
					parts = append([]string{sa}, parts...)
				}
			}
			return hname + "(" + concatTerm(parts) + ")"
		}
	}
	// custom single-return helper: inline
	if callees := t.P.Callees(c); len(callees) == 1 && callees[0].Blocks != nil {
		cal := callees[0]
		var ret *ssa.Return
		n := 0
		for _, b := range cal.Blocks {
			if r, ok := b.Instrs[len(b.Instrs)-1].(*ssa.Return); ok {
				ret, n = r, n+1
			}
		}
		if n == 1 && len(ret.Results) == 1 {
			sub := NewTermBuilder(t.P)
			sub.depth = t.depth
			sub.Bounds = t.Bounds
			sub.Loaded = t.Loaded
			actuals := c.Call.Args
			sub.Bind = map[*ssa.Parameter]BoundVal{}
			for i, prm := range cal.Params {
				if i < len(actuals) {
					sub.Names[prm] = t.Term(actuals[i])
					// a record handed in (by value or by address) stays resolvable field by field
					sub.Bind[prm] = BoundVal{Val: actuals[i], TB: t}
				}
			}
			return sub.Term(ret.Results[0])
		}
	}
	var as []string
	if c.Call.IsInvoke() {
		as = append(as, t.Term(c.Call.Value))
	}
	for _, a := range c.Call.Args {
		if isCtxType(a.Type()) {
			continue
		}
		as = append(as, t.Term(a))
	}
	short := name
	if i := strings.LastIndex(short, "/"); i >= 0 {
		short = short[i+1:]
	}
	return short + "(" + strings.Join(as, ",") + ")"
}

func isConstInt(v ssa.Value, n int64) bool {
	c, ok := v.(*ssa.Const)
	if !ok || c.Value == nil {
		return false
	}
	i, exact := constant.Int64Val(c.Value)
	return exact && i == n
}

func isRuneSlice(t types.Type) bool {
	sl, ok := t.Underlying().(*types.Slice)
	if !ok {
		return false
	}
	b, ok := sl.Elem().Underlying().(*types.Basic)
	return ok && b.Kind() == types.Int32
}

// constByteArray: al is a [N]byte array each element of which is stored exactly once, with a constant.
func constByteArray(al *ssa.Alloc) (string, bool) {
	arr, ok := al.Type().Underlying().(*types.Pointer).Elem().Underlying().(*types.Array)
	if !ok || arr.Len() > 64 {
		return "", false
	}
	if b, isB := arr.Elem().Underlying().(*types.Basic); !isB || (b.Kind() != types.Uint8 && b.Kind() != types.Byte) {
		return "", false
	}
	out := make([]byte, arr.Len())
	set := make([]bool, arr.Len())
	if al.Referrers() == nil {
		return "", false
	}
	for _, r := range *al.Referrers() {
		switch x := r.(type) {
		case *ssa.IndexAddr:
			idx, isC := x.Index.(*ssa.Const)
			if !isC || idx.Value == nil || x.Referrers() == nil {
				return "", false
			}
			i, exact := constant.Int64Val(idx.Value)
			if !exact || i < 0 || i >= arr.Len() {
				return "", false
			}
			for _, rr := range *x.Referrers() {
				st, isSt := rr.(*ssa.Store)
				if !isSt {
					continue
				}
				c, isC := st.Val.(*ssa.Const)
				if !isC || c.Value == nil || set[i] {
					return "", false
				}
				v, exact := constant.Int64Val(c.Value)
				if !exact || v < 0 || v > 255 {
					return "", false
				}
				out[i], set[i] = byte(v), true
			}
		case *ssa.Slice, *ssa.DebugRef:
		default:
			return "", false
		}
	}
	for _, ok := range set {
		if !ok {
			return "", false
		}
	}
	return string(out), true
}

// mapAppendIdiom: a loop-carried slice that starts empty and is extended by exactly one append per iteration of a
// loop ranging over a list, with a value computed from the current element: out = append(out, f(elem)). Its term is
// "map{<term of f(elem(list))>}"; elemTerm turns an element of it back into that term.
func (t *TermBuilder) mapAppendIdiom(ph *ssa.Phi) (string, bool) {
	if !InCycle(ph.Block()) || len(ph.Edges) != 2 {
		return "", false
	}
	if _, isSlice := ph.Type().Underlying().(*types.Slice); !isSlice {
		return "", false
	}
	var init, update ssa.Value
	for i, e := range ph.Edges {
		if SameLoop(ph.Block().Preds[i], ph.Block()) {
			update = e
		} else {
			init = e
		}
	}
	if init == nil || update == nil {
		return "", false
	}
	// starts empty: nil, or make([]T, 0, n)
	switch iv := init.(type) {
	case *ssa.Const:
		if iv.Value != nil {
			return "", false
		}
	case *ssa.MakeSlice:
		if c, ok := iv.Len.(*ssa.Const); !ok || c.Value == nil || c.Value.ExactString() != "0" {
			return "", false
		}
	default:
		return "", false
	}
	app, ok := update.(*ssa.Call)
	if !ok {
		return "", false
	}
	b, isB := app.Call.Value.(*ssa.Builtin)
	if !isB || b.Name() != "append" || len(app.Call.Args) != 2 || app.Call.Args[0] != ssa.Value(ph) {
		return "", false
	}
	// one appended value: the variadic array holds a single element
	sl, ok := app.Call.Args[1].(*ssa.Slice)
	if !ok {
		return "", false
	}
	arr, ok := sl.X.(*ssa.Alloc)
	if !ok || arr.Referrers() == nil {
		return "", false
	}
	at, ok := arr.Type().Underlying().(*types.Pointer).Elem().Underlying().(*types.Array)
	if !ok || at.Len() != 1 {
		return "", false
	}
	var val ssa.Value
	for _, r := range *arr.Referrers() {
		if ia, ok := r.(*ssa.IndexAddr); ok && ia.Referrers() != nil {
			for _, rr := range *ia.Referrers() {
				if st, ok := rr.(*ssa.Store); ok && st.Addr == ia {
					val = st.Val
				}
			}
		}
	}
	if val == nil {
		return "", false
	}
	vt := t.Term(val)
	if !strings.Contains(vt, "elem(") || strings.Contains(vt, "φ") || strings.Contains(vt, "⊤") {
		return "", false
	}
	return "map{" + vt + "}", true
}
