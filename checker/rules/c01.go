package rules

import (
	"fmt"
	"strings"

	"golang.org/x/tools/go/ssa"

	"jklcheck/core"
)

const (
	stProof   = "storage/FileProof/value/"
	stFiles   = "storage/FilesByMerkle/value/"
	stFilesO  = "storage/FilesByOwner/value/"
	merkleLib = "go-merkletree/v2.VerifyProofUsing"
)

func init() { registry["C01"] = c01 }

// verifierFn: a custom bool function all of whose possibly-true returns are the result of the Merkle library verification.
func verifierFn(p *core.Program, fn *ssa.Function) (*ssa.Call, bool) {
	if fn == nil || fn.Blocks == nil || fn.Signature.Results().Len() != 1 || fn.Signature.Results().At(0).Type().String() != "bool" {
		return nil, false
	}
	libOf := func(v ssa.Value) *ssa.Call {
		ex, isEx := v.(*ssa.Extract)
		if !isEx || ex.Index != 0 {
			return nil
		}
		call, isCall := ex.Tuple.(*ssa.Call)
		if !isCall || !strings.HasSuffix(core.CalleeFullName(call), merkleLib) {
			return nil
		}
		return call
	}
	var lib *ssa.Call
	ok := true
	n := 0
	for _, b := range fn.Blocks {
		ret, isRet := b.Instrs[len(b.Instrs)-1].(*ssa.Return)
		if !isRet {
			continue
		}
		n++
		var leaves []ssa.Value
		phiLeaves(ret.Results[0], map[ssa.Value]bool{}, &leaves)
		for _, lf := range leaves {
			if c, isC := lf.(*ssa.Const); isC && c.Value != nil && c.Value.ExactString() == "false" {
				continue
			}
			if call := libOf(lf); call != nil {
				lib = call
				continue
			}
			ok = false
		}
	}
	if ok && n > 0 && lib != nil {
		return lib, true
	}
	// the verdict assembled through variables (`verified = err == nil && ok`, named result, single exit): on every
	// execution that may return true, the library's verdict was evaluated true or is the value returned
	execs, complete := p.AbstractExecutions(fn)
	if !complete || len(execs) == 0 {
		return nil, false
	}
	lib = nil
	for i := range execs {
		e := &execs[i]
		if e.Ret == nil || (e.RetKnown[0] && !e.RetBool[0]) {
			continue
		}
		if call := libOf(e.RetVals[0]); call != nil {
			lib = call
			continue
		}
		good := false
		for v, tv := range e.Vals {
			if call := libOf(v); call != nil && tv {
				lib, good = call, true
			}
		}
		if !good {
			return nil, false
		}
	}
	return lib, lib != nil
}

// proverFn: a custom function with an error result whose every possibly-nil return passed verifierFn(...)=true.
// Returns the verifier call inside it.
func proverFn(p *core.Program, fn *ssa.Function) (*ssa.Call, bool) {
	if fn == nil || fn.Blocks == nil {
		return nil, false
	}
	var vcall *ssa.Call
	g := callBoolGuard(p, func(call *ssa.Call, callees []*ssa.Function) bool {
		for _, c := range callees {
			if _, ok := verifierFn(p, c); ok {
				vcall = call
				return true
			}
		}
		return false
	}, true)
	removed := p.PassEdges(fn, g)
	if vcall == nil {
		return nil, false
	}
	for _, ri := range p.Returns(fn) {
		if ri.Class == core.RetFail {
			continue
		}
		// a commit return reachable from entry without the verification pass-edge?
		if core.PathExists(fn, removed, fn.Blocks[0].Instrs[0], ri.Ret) {
			if holds, ok := p.AbsEveryCommit(fn, g); ok && holds {
				continue
			}
			return vcall, false
		}
	}
	return vcall, true
}

func c01(r *core.Run) {
	p := r.Prog
	r.Explanation = "Static rules over storage.MsgPostProof and the reward path: every state write of the proof handler lies, on every nil-error return (the handler reports rejection as Success=false with a nil error, so those commit), behind the nil result of the call whose callee returns nil only after the Merkle library verification succeeded; the verifier is fed the stored challenge index and the file's stored root, never the submitted index; writes also lie behind the submitted-index == stored-challenge comparison; only PostProof and the attestation quorum path can write proof records; reward crediting is keyed by the prover of a proof record loaded for a key of the file's prover list."
	r.Assumptions = []string{T1, T4, "soundness of the go-merkletree verification and of SHA-256/SHA3"}
	r.NotDecided = []string{"cryptographic soundness of the Merkle library", "unpredictability of the stored challenge"}
	r.Rule("C01/R6", "block-height arithmetic is dimensionally consistent: absolute heights (Ctx.BlockHeight and fields assigned from it) are compared only with absolute heights, intervals/offsets/parameters only with each other (point - point = span, point ± span = point), followed through helper calls with the dimensions of the actual arguments")
	r.Rule("C01/R1", "verification gates every write of storage.MsgPostProof: on all returns with nil error, each effect is behind ErrNil(prove call)=true")
	r.Rule("C01/R2", "the prove callee returns nil only under merkle-library verification = true; the chunk index handed to the verifier ⊵ Store(FileProof).ChunkToProve and ⋫ msg.ToProve; the root ⊵ the stored file's Merkle")
	r.Rule("C01/R3", "challenge match: every write of the handler is behind Eq(msg.ToProve, Store(FileProof).ChunkToProve)=true")
	r.Rule("C01/R4", "who-may-write: the only transaction/block entry points that can Set a FileProof record are storage.MsgPostProof and storage.MsgAttest")
	r.Rule("C01/R7", "the window a proof is judged by is the governance-set one: on transaction / block paths UnifiedFile.ProofInterval is assigned the storage parameter ProofWindow and nothing else (a file with an uploader-chosen interval keeps its provers credited without further proofs)")
	r.Rule("C01/R5", "crediting: the reward size tracker is keyed only by the Prover of a FileProof record loaded for a key taken from the file's Proofs list — the processed file's own list or a per-file copy of exactly its length")
	heightDimensions(r, "C01/R6", moduleFuncs(p, "storage"), 8)
	hs, err := p.Handlers()
	if err != nil {
		r.Undecided("C01/R1", "handlers", "", err.Error())
		return
	}
	h := core.HandlerByKey(hs, "storage.MsgPostProof")
	if h == nil {
		r.Undecided("C01/R1", "storage.MsgPostProof:anchor-missing", "", "handler missing")
		return
	}
	var proveCall *ssa.Call
	var verifyCall *ssa.Call
	mk := func(unit *ssa.Function) core.GuardMatch {
		return errNilGuard(p, func(call *ssa.Call) bool {
			for _, c := range p.Callees(call) {
				if vc, ok := proverFn(p, c); ok {
					if unit == h.Fn {
						proveCall, verifyCall = call, vc
					}
					return true
				}
			}
			return false
		})
	}
	guardRow(r, "C01/R1", h, "verify-before-write", allEffects(), mk, "ErrNil(prove)=true")
	if proveCall == nil {
		r.Violation("C01/R2", "storage.MsgPostProof:prover", p.Pos(h.Fn.Pos()), "no call in the handler whose callee returns nil only after a successful Merkle verification")
	} else {
		r.Ok("C01/R2", "storage.MsgPostProof:prover", p.InstrPos(proveCall), "callee returns nil only behind merkle verification = true")
		// arguments of the verifier
		callee := p.Callees(verifyCall)[0]
		lib, _ := verifierFn(p, callee)
		args := dataArgs(verifyCall)
		// which argument is the chunk index: the integer-typed one
		var chunkArg ssa.Value
		for _, a := range args {
			if strings.HasPrefix(a.Type().String(), "int") {
				chunkArg = a
			}
		}
		if chunkArg == nil {
			r.Undecided("C01/R2", "storage.MsgPostProof:verifier-index", p.InstrPos(verifyCall), "verifier takes no integer chunk index")
		} else {
			cp := p.ResolveToEntry(p.ProvAt(chunkArg, "", verifyCall), h.Fn)
			ok := cp.HasStore(stProof, ".ChunkToProve") && !p.HasMsgField(cp, h, "ToProve")
			r.Check(ok, "C01/R2", "storage.MsgPostProof:verifier-index", p.InstrPos(verifyCall), "index ⊵ Store(FileProof).ChunkToProve, ⋫ msg.ToProve", "the verifier is fed an index that is not the stored challenge: "+cp.String())
		}
		// root handed to the library (arg 3: [][]byte{root})
		if lib != nil && len(lib.Call.Args) >= 4 {
			rp := p.ProvAt(lib.Call.Args[3], "", lib)
			okRoot := rp.Any(func(a core.Atom) bool { return a.Kind == "param" && a.Idx == 0 && strings.HasSuffix(a.Path, ".Merkle") }) && len(rp.DataAtoms()) == 1
			r.Check(okRoot, "C01/R2", "verifier:root", p.InstrPos(lib), "root = receiver file's Merkle", "the Merkle library is given a root other than the stored file's Merkle: "+rp.String())
			// the receiver at the verifier call is the stored file
			recv := verifyCall.Call.Args[0]
			fp := p.ResolveToEntry(p.ProvAt(recv, ".Merkle", verifyCall), h.Fn)
			r.Check(fp.HasStore(stFiles, ".Merkle") && len(p.MsgFields(fp, h)) == 0, "C01/R2", "storage.MsgPostProof:verifier-file", p.InstrPos(verifyCall), "verified file = record loaded from the store", "the verified file's root does not come from the stored file: "+fp.String())
			// leaf: hash input depends on chunk index and the submitted item
			lp := p.ProvAt(lib.Call.Args[0], "", lib)
			r.Check(lp.HasExt("sha256") && lp.HasParam(callee, 2, "") && lp.HasParam(callee, 3, ""), "C01/R2", "verifier:leaf", p.InstrPos(lib), "leaf = H(index, item)", "the verified leaf does not depend on both the chunk index and the submitted item: "+lp.String())
		}
	}
	// R3
	guardRow(r, "C01/R3", h, "challenge-match", allEffects(), func(*ssa.Function) core.GuardMatch {
		return eqGuard(p, msgField(p, h, "ToProve"), storeField(stProof, ".ChunkToProve"), true)
	}, "Eq(msg.ToProve, Store(FileProof).ChunkToProve)=true")

	// R4 who may write proof records
	allowed := map[string]bool{"storage.MsgPostProof": true, "storage.MsgAttest": true}
	nw := 0
	for _, hh := range hs {
		sets := false
		for _, o := range p.Summary(hh.Fn).Store {
			if o.Kind == "Set" && o.Module+"/"+o.Prefix == stProof {
				sets = true
			}
		}
		if !sets {
			continue
		}
		nw++
		r.Check(allowed[hh.Key()], "C01/R4", hh.Key()+":sets-proof-record", p.Pos(hh.Fn.Pos()), "allowed writer of proof records", "this handler can write a FileProof record (prover status) but is neither PostProof nor the attestation quorum path")
	}
	bb, eb := p.BlockEntries()
	for _, fn := range append(bb, eb...) {
		for _, o := range p.Summary(fn).Store {
			if o.Kind == "Set" && o.Module+"/"+o.Prefix == stProof {
				r.Violation("C01/R4", core.FnName(fn)+":sets-proof-record", p.InstrPos(o.Instr), "block processing can write a FileProof record (prover status without a proof)")
			}
		}
	}
	r.Floor("C01/R4", nw, 2, "handlers writing proof records")

	// R5 crediting
	n5 := 0
	for _, fn := range bb {
		for _, f := range p.Summary(fn).Funcs {
			allInstrs(f, func(in ssa.Instruction) {
				mu, ok := in.(*ssa.MapUpdate)
				if !ok || mu.Value.Type().String() != "int64" {
					return // only the size tracker (string -> bytes counted) is a credit
				}
				n5++
				r.Analysed(core.FnName(f))
				kp := p.ProvAt(mu.Key, "", mu)
				if kp.Any(func(a core.Atom) bool { return a.Kind == "param" && a.Fn == f }) && f != fn {
					// the credit is made by a helper (tally.credit(prover, size)): the key is what its callers hand in
					kp = p.ResolveToEntry(kp, fn)
				}
				atoms := kp.DataAtoms()
				ok1 := len(atoms) == 1 && atoms[0].Kind == "store" && atoms[0].Name == stProof && atoms[0].Path == ".Prover"
				detail := "credited key ⊵ Store(FileProof).Prover only"
				if ok1 {
					// the record was loaded for a key from the file's prover list
					gp := core.Prov{}
					for _, a := range dataArgs(atoms[0].Call) {
						for k, v := range p.ResolveToEntry(p.ProvAt(a, "", atoms[0].Call), fn) {
							gp[k] = v
						}
					}
					fromList := gp.Any(func(a core.Atom) bool { return strings.Contains(a.Path, ".Proofs[]") })
					if !fromList {
						ok1 = false
						detail = "proof record is loaded for a key that does not come from the file's prover list: " + gp.String()
					}
				} else {
					detail = "credited key is " + kp.String()
				}
				r.Check(ok1, "C01/R5", "rewards:credited-key", p.InstrPos(mu), detail, "reward credit is not keyed by the prover of a listed proof record: "+detail)
			})
		}
	}
	r.Floor("C01/R5", n5, 1, "reward credit sites")
	if reachTx, errTx := p.TxReachable(); errTx == nil {
		r.Floor("C01/R7", fieldOnlyFromParam(r, "C01/R7", "x/storage/types.UnifiedFile", "ProofInterval", "storage", "ProofWindow", reachTx), 1, "assignments of UnifiedFile.ProofInterval")
	}
	// ... and that key list is the processed file's own prover list (not a buffer that outlives the file)
	for _, fn := range bb {
		if core.ModuleOf(fn) != "storage" {
			continue
		}
		if unit := perProofUnit(p, p.Summary(fn).Funcs); unit.Routine != nil && unit.CreditFn != nil {
			perProofKeysFromFileList(r, "C01/R5", unit.Routine)
		}
	}
	_ = fmt.Sprint
}
