package rules

import (
	"fmt"
	"regexp"
	"strings"

	"golang.org/x/tools/go/ssa"

	"jklcheck/core"
)

func init() { registry["C02"] = c02 }

var leafRe = regexp.MustCompile(`(φ[A-Za-z0-9_]+|P[0-9]+|slice\([^()]*\)|elem\([^()]*\))`)

// shapeOf abstracts the leaves of a term.
func shapeOf(term string) string { return leafRe.ReplaceAllString(term, "_") }

func c02(r *core.Run) {
	p := r.Prog
	r.Explanation = "Static rules: (R1) expression-DAG equivalence of the two leaf encoders — the leaf the tree builder feeds the Merkle library and the leaf the on-chain verifier feeds it are the same term SHA256(dec(index) ‖ hex(chunk)) up to leaf naming, with the same tree hash constructor and salting flag; (R2) every random challenge draw is reached only behind pieces > 0, the bound derives from FileSize / chunk size with the chunk size coming from a parameter whose validator rejects values below 1, and the challenge is the constant 0 otherwise; (R3) removal and burning in the per-proof routine happen only on the miss branch. The window clause (one proof per window at any phase is always enough) is pure schedule arithmetic and is not decided."
	r.Assumptions = []string{T4, T6, "soundness of go-merkletree"}
	r.NotDecided = []string{"the proof-window clause: for every placement of one proof per window relative to reward blocks the prover is never dropped (schedule arithmetic; the code is the definition)"}
	r.Rule("C02/R6", "an honest proof is never refused for a reason outside the prover's control: every branch of the proof handler that leads only to Success=false answers is decided by the message, the file's slot list, the challenged chunk or a lookup / verification verdict — never by another stored field or the block height")
	r.Rule("C02/R5", "block-height arithmetic is dimensionally consistent: absolute heights (Ctx.BlockHeight and fields assigned from it) are compared only with absolute heights, intervals/offsets/parameters only with each other (point - point = span, point ± span = point), followed through helper calls with the dimensions of the actual arguments")
	r.Rule("C02/R1", "writer/reader leaf encodings agree: term(builder leaf) ≡ term(verifier leaf) up to leaf naming; same tree hash constructor; same salted flag")
	r.Rule("C02/R2", "challenge bounded: each Int63n(n) on transaction paths is behind Cmp(n > 0); n ⊵ FileSize and the chunk size; the chunk size at every caller ⊵ Param(storage.ChunkSize) whose validator enforces >= 1")
	r.Rule("C02/R4", "the file judged in the reward loop is decoded into a fresh variable per file (no captured decode target with repeated fields): otherwise an honest prover of an earlier file is judged against a later file's window and removed/burned")
	r.Rule("C02/R3", "remove/burn only on the miss branch: in the per-proof routine removal is behind young=false and (proof not found or proven=false); burn behind proven=false and young=false; the provider burned is the prover named by the per-proof key")
	heightDimensions(r, "C02/R5", moduleFuncs(p, "storage"), 8)
	if hs, err := p.Handlers(); err == nil {
		if h := core.HandlerByKey(hs, "storage.MsgPostProof"); h != nil {
			refusalReasons(r, "C02/R6", h)
		} else {
			r.Undecided("C02/R6", "storage.MsgPostProof:anchor-missing", "", "handler missing")
		}
	}
	// ---- R1
	var bLeaf, vLeaf ssa.Value
	var bHash, vHash, bSalt, vSalt string
	var bPos, vPos string
	for _, fn := range consensusFuncs(p) {
		allInstrs(fn, func(in ssa.Instruction) {
			c, ok := in.(*ssa.Call)
			if !ok {
				return
			}
			name := core.CalleeFullName(c)
			switch {
			case strings.HasSuffix(name, "go-merkletree/v2.NewUsing") && core.RelPkg(core.FnPkgPath(fn)) == "x/storage/utils":
				// data argument: slice accumulated by append(data, leaf)
				seen := map[ssa.Value]bool{}
				var find func(v ssa.Value)
				find = func(v ssa.Value) {
					if seen[v] {
						return
					}
					seen[v] = true
					switch x := v.(type) {
					case *ssa.Phi:
						for _, e := range x.Edges {
							find(e)
						}
					case *ssa.Call:
						if b, ok := x.Call.Value.(*ssa.Builtin); ok && b.Name() == "append" {
							for _, el := range core.VarArgs(x.Call.Args[1]) {
								if el != nil {
									bLeaf = el
								}
							}
							find(x.Call.Args[0])
						}
					}
				}
				find(c.Call.Args[0])
				bHash = core.NewTermBuilder(p).Term(c.Call.Args[1])
				bSalt = core.NewTermBuilder(p).Term(c.Call.Args[2])
				bPos = p.InstrPos(c)
			case strings.HasSuffix(name, merkleLib):
				vLeaf = c.Call.Args[0]
				vSalt = core.NewTermBuilder(p).Term(c.Call.Args[1])
				vHash = core.NewTermBuilder(p).Term(c.Call.Args[4])
				vPos = p.InstrPos(c)
			}
		})
	}
	if bLeaf == nil || vLeaf == nil {
		r.Undecided("C02/R1", "leaf-encoders:anchor-missing", "", fmt.Sprintf("tree builder leaf found=%v, verifier leaf found=%v", bLeaf != nil, vLeaf != nil))
	} else {
		bt, vt := core.NewTermBuilder(p).Term(bLeaf), core.NewTermBuilder(p).Term(vLeaf)
		r.Check(shapeOf(bt) == shapeOf(vt) && strings.Contains(shapeOf(bt), "dec(_)") && strings.Contains(shapeOf(bt), "hex(_)"), "C02/R1", "leaf-encoding:builder≡verifier", vPos,
			"both encode "+shapeOf(vt), "the tree builder and the on-chain verifier hash different leaf encodings: builder "+bt+" vs verifier "+vt+" — every honest proof is rejected")
		r.Check(bHash == vHash, "C02/R1", "tree-hash:builder≡verifier", bPos, "both use "+vHash, "tree hash differs: builder "+bHash+" verifier "+vHash)
		r.Check(bSalt == vSalt, "C02/R1", "salted-flag:builder≡verifier", bPos, "both use salted="+vSalt, "salting differs: builder "+bSalt+" verifier "+vSalt)
	}
	// ---- R2
	reach, err := p.TxReachable()
	if err != nil {
		r.Undecided("C02/R2", "reach", "", err.Error())
		return
	}
	mins := p.ParamMins("storage")
	nDraw := 0
	for _, fn := range core.SortedFuncs(reach) {
		if core.RelPkg(core.FnPkgPath(fn)) != "x/storage/types" {
			continue
		}
		allInstrs(fn, func(in ssa.Instruction) {
			c, ok := in.(*ssa.Call)
			if !ok || !strings.HasSuffix(core.CalleeFullName(c), ".Int63n") {
				return
			}
			nDraw++
			r.Analysed(core.FnName(fn))
			n := c.Call.Args[len(c.Call.Args)-1]
			g := func(ca *core.CondAtom, truth bool) bool {
				if ca.Kind != "cmp" {
					return false
				}
				var cst *ssa.Const
				op := ca.Op
				switch {
				case ca.X == n:
					cst, _ = ca.Y.(*ssa.Const)
				case ca.Y == n:
					cst, _ = ca.X.(*ssa.Const)
					op = flip(op)
				default:
					return false
				}
				if cst == nil || cst.Value == nil || cst.Value.ExactString() != "0" {
					return false
				}
				if !truth {
					op = negate(op)
				}
				return op.String() == ">"
			}
			bad := p.ReachesUnguarded(fn, c, g)
			r.Check(!bad, "C02/R2", core.FnName(fn)+":draw-bounded", p.InstrPos(c), "Int63n(n) only behind n > 0", "the challenge draw can be reached with n <= 0 (Int63n panics) — or designates no existing chunk")
			np := p.ProvAt(n, "", c)
			okN := np.Any(func(a core.Atom) bool { return strings.HasSuffix(a.Path, ".FileSize") })
			// chunk size parameter index
			csIdx := -1
			for _, a := range np.DataAtoms() {
				if a.Kind == "param" && a.Fn == fn && a.Path == "" {
					csIdx = a.Idx
				}
			}
			r.Check(okN && csIdx >= 0, "C02/R2", core.FnName(fn)+":draw-bound-from-size", p.InstrPos(c), "n ⊵ {FileSize, chunk size}", "the draw bound does not derive from the file size and the chunk size: "+np.String())
			if csIdx >= 0 {
				// resolve the chunk size through callers to handlers
				res := core.Prov{}
				var up func(f *ssa.Function, idx int, depth int)
				seen := map[string]bool{}
				up = func(f *ssa.Function, idx int, depth int) {
					k := f.String() + fmt.Sprint(idx)
					if seen[k] || depth > 6 {
						return
					}
					seen[k] = true
					for _, a := range p.CallerArgProv(f, idx, "") {
						if a.Kind == "param" && a.Path == "" && reach[a.Fn] {
							up(a.Fn, a.Idx, depth+1)
							continue
						}
						res[a.Key()] = a
					}
				}
				up(fn, csIdx, 0)
				at := res.DataAtoms()
				okP := len(at) == 1 && at[0].Kind == "params" && at[0].Name == "storage" && at[0].Path == ".ChunkSize"
				min, has := mins["ChunkSize"]
				r.Check(okP && has && min >= 1, "C02/R2", core.FnName(fn)+":chunk-size-positive", p.InstrPos(c), fmt.Sprintf("chunk size ⊵ Param(ChunkSize) only; validator min=%d", min), fmt.Sprintf("the chunk size divisor is not a validated-positive parameter: sources %v, validator bound known=%v min=%d", res.Strings(), has, min))
			}
		})
	}
	r.Floor("C02/R2", nDraw, 1, "challenge draws")
	// the stored challenge is the draw or 0
	// ---- R3
	bb, _ := p.BlockEntries()
	for _, e := range bb {
		if core.ModuleOf(e) != "storage" {
			continue
		}
		unit := perProofUnit(p, p.Summary(e).Funcs)
		if unit.CreditFn == nil {
			r.Undecided("C02/R3", "rewards:per-proof-routine", "", "not found")
			continue
		}
		if !unit.Complete {
			r.Undecided("C02/R3", "rewards:per-proof-routine", p.Pos(unit.Core.Pos()), unit.Why)
			continue
		}
		routine := unit.Routine
		isProvenF := callBoolGuard(p, func(call *ssa.Call, cs []*ssa.Function) bool { return len(cs) == 1 && provenPredicate(p, cs[0]) }, false)
		isYoungF := callBoolGuard(p, func(call *ssa.Call, cs []*ssa.Function) bool { return len(cs) == 1 && youngPredicate(p, cs[0]) }, false)
		notFound := foundGuard(p, stProof, false)
		unguarded := func(at ssa.Instruction, g core.GuardMatch) bool {
			if at.Parent() == routine && len(p.FindUnguarded(routine, []*core.Effect{{Instr: at}}, g, true)) == 0 {
				return false
			}
			return !unit.guarded(p, at, g)
		}
		class := func(in ssa.Instruction) string {
			call, ok := in.(ssa.CallInstruction)
			if !ok {
				return ""
			}
			out := ""
			for _, cal := range p.Callees(call) {
				for _, o := range p.Summary(cal).Store {
					if o.Kind == "Delete" && o.Module+"/"+o.Prefix == stProof && !strings.Contains(out, "remove") {
						out += "remove "
					}
					if o.Kind == "Set" && o.Module+"/"+o.Prefix == stProviders && !strings.Contains(out, "burn") {
						out += "burn "
					}
				}
			}
			return out
		}
		nRem, nBurn := 0, 0
		for _, in := range unit.sites(class) {
			c := class(in)
			if strings.Contains(c, "remove") {
				nRem++
				r.Check(!unguarded(in, isYoungF) && !unguarded(in, anyOf(isProvenF, notFound)), "C02/R3", "rewards:removal-only-on-miss", p.InstrPos(in), "removal behind young=false and (proven=false or proof missing)", "a prover can be removed from a file although its file is young or it proved within the last window")
			}
			if strings.Contains(c, "burn") {
				nBurn++
				r.Check(!unguarded(in, isYoungF) && !unguarded(in, isProvenF), "C02/R3", "rewards:burn-only-on-miss", p.InstrPos(in), "burn behind young=false and proven=false", "a provider's burn counter can rise although it proved within the last window or the file is young")
			}
		}
		r.Floor("C02/R3", nRem, 1, "removal sites of the per-proof routine")
		r.Floor("C02/R3", nBurn, 1, "burn sites of the per-proof routine")
		r.Floor("C02/R3", burnTargetIsProver(r, "C02/R3", p.Summary(e).Funcs, routine), 1, "burned provider lookups")
		staleDecodeTargets(r, "C02/R4", p.Summary(e).Funcs)
	}
}

// refusalReasons: the proof handler answers Success=false only for reasons an honest holder of the file controls or the
// reward sweep honours too: the file or the prover's slot does not exist, the wrong chunk was answered, the proof
// does not verify. A refusal decided by any other stored field or by the block height (e.g. "the file's paid term is
// over") locks an honest prover out while the reward sweep keeps demanding proofs from it.
// rejectingResponse: v is a response built with Success=false — in place, or by a helper all of whose returns build
// one.
func rejectingResponse(p *core.Program, v ssa.Value, depth int) bool {
	if al, ok := v.(*ssa.Alloc); ok {
		for _, st := range fieldStores(al, "Success") {
			if c, isC := st.Val.(*ssa.Const); isC && c.Value != nil && c.Value.ExactString() == "false" {
				return true
			}
		}
		return false
	}
	var call *ssa.Call
	idx := 0
	switch x := v.(type) {
	case *ssa.Extract:
		call, _ = x.Tuple.(*ssa.Call)
		idx = x.Index
	case *ssa.Call:
		call = x
	}
	if call == nil || depth > 2 {
		return false
	}
	callees := p.Callees(call)
	if len(callees) != 1 || callees[0].Blocks == nil {
		return false
	}
	n := 0
	for _, b := range callees[0].Blocks {
		ret, ok := b.Instrs[len(b.Instrs)-1].(*ssa.Return)
		if !ok {
			continue
		}
		n++
		if idx >= len(ret.Results) || !rejectingResponse(p, ret.Results[idx], depth+1) {
			return false
		}
	}
	return n > 0
}

func refusalReasons(r *core.Run, rule string, h *core.Handler) {
	p := r.Prog
	fn := h.Fn
	rejecting := map[*ssa.Return]bool{}
	nRet := 0
	for _, b := range fn.Blocks {
		ret, ok := b.Instrs[len(b.Instrs)-1].(*ssa.Return)
		if !ok {
			continue
		}
		nRet++
		if rejectingResponse(p, ret.Results[0], 0) {
			rejecting[ret] = true
		}
	}
	onlyRejects := func(from *ssa.BasicBlock) bool {
		any := false
		for _, b := range fn.Blocks {
			ret, ok := b.Instrs[len(b.Instrs)-1].(*ssa.Return)
			if !ok {
				continue
			}
			if b == from || blockReaches(from, b) {
				any = true
				if !rejecting[ret] {
					return false
				}
			}
		}
		return any
	}
	n := 0
	for _, b := range fn.Blocks {
		ifi, ok := b.Instrs[len(b.Instrs)-1].(*ssa.If)
		if !ok {
			continue
		}
		refuses := false
		for _, sc := range b.Succs {
			if onlyRejects(sc) {
				refuses = true
			}
		}
		if !refuses || onlyRejects(b) {
			continue // not a decision between refusing and going on
		}
		n++
		ca := p.NormCond(ifi)
		bad := ""
		check := func(v ssa.Value) {
			for _, a := range p.ResolveToEntry(p.ProvAt(v, "", ifi), fn).DataAtoms() {
				ok := false
				switch a.Kind {
				case "param":
					ok = a.Fn == fn && a.Idx == h.MsgIdx
				case "store":
					ok = (a.Name == stFiles && (a.Path == ".Proofs" || a.Path == ".MaxProofs" || strings.HasPrefix(a.Path, ".Proofs") || a.Path == "#found" || a.Path == ".Merkle")) ||
						(a.Name == stProof && (a.Path == ".ChunkToProve" || a.Path == "#found"))
				case "const", "zero":
					ok = true
				}
				if !ok {
					bad = a.String()
				}
			}
		}
		switch ca.Kind {
		case "eq", "cmp":
			check(ca.X)
			check(ca.Y)
		case "errnil", "isnil", "found":
			// verdict of a lookup / the verifier / the slot allocator: judged by C01/R2, C17/R3
		case "callbool":
			if ca.Call != nil {
				for _, a := range dataArgs(ca.Call) {
					check(a)
				}
			}
		default:
			check(ifi.Cond)
		}
		r.Check(bad == "", rule, h.Key()+":refusal-reason:"+p.Describe(ca, true), p.InstrPos(ifi), "the refusal depends only on the message, the slot list and the challenged chunk (or on a lookup / verification verdict)", "a proof is refused on a condition that depends on "+bad+": an honest holder of the file cannot influence it, and the reward sweep, which does not look at it, keeps demanding proofs — the prover is dropped and burned although it holds the data")
	}
	r.Floor(rule, n, 3, "refusal decisions in the proof handler")
}
