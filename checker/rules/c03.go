package rules

import (
	"fmt"
	"go/token"
	"go/types"
	"sort"
	"strings"

	"golang.org/x/tools/go/ssa"

	"jklcheck/core"
)

func init() { registry["C03"] = c03 }

// youngPredicate: bool method (file, height) returning Start + ProofInterval >= height.
func youngPredicate(p *core.Program, fn *ssa.Function) bool {
	if fn == nil || fn.Blocks == nil || len(fn.Params) != 2 || len(fn.Blocks) != 1 {
		return false
	}
	ret, ok := fn.Blocks[0].Instrs[len(fn.Blocks[0].Instrs)-1].(*ssa.Return)
	if !ok || len(ret.Results) != 1 {
		return false
	}
	bo, ok := ret.Results[0].(*ssa.BinOp)
	if !ok {
		return false
	}
	x, y, op := bo.X, bo.Y, bo.Op
	if op == token.LEQ || op == token.LSS {
		x, y, op = y, x, flip(op) // height <= start+interval
	}
	if op != token.GEQ && op != token.GTR {
		return false
	}
	px, py := p.ProvAt(x, "", bo), p.ProvAt(y, "", bo)
	return px.HasParam(fn, 0, ".Start") && px.HasParam(fn, 0, ".ProofInterval") && py.HasParam(fn, 1, "") && len(py.DataAtoms()) == 1
}

// provenPredicate: bool method (file, height, lastProven) returning lastProven >= f(window start).
func provenPredicate(p *core.Program, fn *ssa.Function) bool {
	if fn == nil || fn.Blocks == nil || len(fn.Params) != 3 || len(fn.Blocks) != 1 {
		return false
	}
	ret, ok := fn.Blocks[0].Instrs[len(fn.Blocks[0].Instrs)-1].(*ssa.Return)
	if !ok || len(ret.Results) != 1 {
		return false
	}
	bo, ok := ret.Results[0].(*ssa.BinOp)
	if !ok {
		return false
	}
	x, y, op := bo.X, bo.Y, bo.Op
	if op == token.LEQ {
		x, y, op = y, x, token.GEQ // boundary <= lastProven
	}
	if op != token.GEQ {
		return false
	}
	px, py := p.ProvAt(x, "", bo), p.ProvAt(y, "", bo)
	lp := px.DataAtoms()
	return len(lp) == 1 && lp[0].Kind == "param" && lp[0].Idx == 2 && py.HasParam(fn, 1, "") && py.HasParam(fn, 0, ".ProofInterval") && py.HasParam(fn, 0, ".Start")
}

func c03(r *core.Run) {
	p := r.Prog
	r.Explanation = "Static rules over the reward path (functions reachable from the storage BeginBlock): (R1) no loop indexes a slice loaded from UnifiedFile.Proofs while its body passes the same file to a callee whose field-write summary may assign .Proofs (in-place removal shifts the elements under the iterator: one prover skipped, one visited twice); (R2) all CFG paths of the per-proof routine are enumerated and each performs exactly one of {credit} | {remove} | {remove, burn}, the credit only behind proven=true or young=true, the burn only behind proven=false and young=false, with the predicates fed the block height and the LastProven of the record loaded for the iterated key; (R3) the only module->account payout on the path goes to keys of the size tracker with an amount depending on the tracker entry, the total size and the pulled coins; (R4) the payout amount depends on every source of the gauge pull amount."
	r.Assumptions = []string{T1, T3, T4}
	r.NotDecided = []string{"size-weighted share within one base unit", "Σ paid ≤ released (numeric)"}
	r.Rule("C03/R9", "each prover's share is converted from decimals to whole units by truncation only (never RoundInt/Ceil): the shares of one release cannot add up to more than was released")
	r.Rule("C03/R8", "block-height arithmetic is dimensionally consistent: absolute heights (Ctx.BlockHeight and fields assigned from it) are compared only with absolute heights, intervals/offsets/parameters only with each other (point - point = span, point ± span = point), followed through helper calls with the dimensions of the actual arguments")
	r.Rule("C03/R1", "no iteration over a prover list that the loop body may rewrite (range over file.Proofs while a callee may assign file.Proofs of the same object)")
	r.Rule("C03/R2", "path classes of the per-proof routine: each path performs exactly one of {credit} | {remove} | {remove, burn}; credit behind {proven=true ∨ young=true}; burn behind proven=false ∧ young=false; predicate arguments ⊵ Ctx.BlockHeight and Store(FileProof).LastProven")
	r.Rule("C03/R3", "only counted provers are paid: the payout recipient ⊵ size-tracker keys only; amount ⊵ {tracker entry, total size, pulled coins}")
	r.Rule("C03/R4", "the paid pool is what was pulled: the payout amount depends on every source of the gauge->module pull amount")
	r.Rule("C03/R7", "the burn counter is written as (count read from the store in this invocation)+1: no cached or passed-in provider record")
	r.Rule("C03/R6", "decode targets are fresh: no proto Unmarshal on the reward path decodes into a variable captured from an enclosing function (the generated decoder appends to repeated fields, so a reused target accumulates the prover lists of earlier files)")
	r.Rule("C03/R10", "the window a proof is judged by is the governance-set one: on transaction / block paths UnifiedFile.ProofInterval is assigned the storage parameter ProofWindow and nothing else")
	r.Rule("C03/R5", "the keys handed to the per-proof routine are exactly the processed file's prover list: file.Proofs itself or a per-file copy of len(file.Proofs) elements filled from it")
	heightDimensions(r, "C03/R8", moduleFuncs(p, "storage"), 8)
	bb, _ := p.BlockEntries()
	var entry *ssa.Function
	for _, fn := range bb {
		if core.ModuleOf(fn) == "storage" {
			entry = fn
		}
	}
	if entry == nil {
		r.Undecided("C03/R1", "storage:BeginBlock:anchor-missing", "", "storage BeginBlock calls nothing")
		return
	}
	funcs := p.Summary(entry).Funcs
	// ---- R1
	nLoops := 0
	for _, fn := range funcs {
		for _, b := range fn.Blocks {
			for _, in := range b.Instrs {
				var sl ssa.Value
				switch x := in.(type) {
				case *ssa.IndexAddr:
					sl = x.X
				case *ssa.Index:
					sl = x.X
				}
				if sl == nil || !core.InCycle(b) {
					continue
				}
				ld, ok := sl.(*ssa.UnOp)
				if !ok || ld.Op != token.MUL {
					continue
				}
				fa, ok := ld.X.(*ssa.FieldAddr)
				if !ok || core.FieldName(fa.X.Type(), fa.Field) != "Proofs" || core.TypeName(fa.X.Type()) != "x/storage/types.UnifiedFile" {
					continue
				}
				nLoops++
				r.Analysed(core.FnName(fn))
				obj := fa.X
				bad := ""
				for _, lb := range fn.Blocks {
					if !core.SameLoop(b, lb) {
						continue
					}
					for _, li := range lb.Instrs {
						call, ok := li.(ssa.CallInstruction)
						if !ok {
							continue
						}
						c := call.Common()
						var actuals []ssa.Value
						if c.IsInvoke() {
							actuals = append(actuals, c.Value)
						}
						actuals = append(actuals, c.Args...)
						for i, a := range actuals {
							if a != obj {
								continue
							}
							for _, cal := range p.Callees(call) {
								if p.MayWriteField(cal, i, "Proofs") {
									bad = core.FnName(cal) + " @" + p.InstrPos(call)
								}
							}
						}
					}
				}
				r.Check(bad == "", "C03/R1", core.FnName(fn)+":range-mutated:UnifiedFile.Proofs", p.InstrPos(in), "loop body never passes the iterated file to a callee that may assign .Proofs", "the loop iterates the file's prover list while its body may rewrite that list in place ("+bad+"): after a removal the next prover is skipped and the last one is visited twice")
			}
		}
	}
	r.Floor("C03/R1", nLoops, 1, "loops over a file's prover list on the reward path")

	if reachTx, errTx := p.TxReachable(); errTx == nil {
		r.Floor("C03/R10", fieldOnlyFromParam(r, "C03/R10", "x/storage/types.UnifiedFile", "ProofInterval", "storage", "ProofWindow", reachTx), 1, "assignments of UnifiedFile.ProofInterval")
	}
	// ---- R2 per-proof unit: the code deciding one (file, prover) pair, its executions enumerated abstractly
	unit := perProofUnit(p, funcs)
	routine, credit := unit.Routine, unit.Credit
	if unit.CreditFn == nil {
		routine = nil
		r.Violation("C03/R2", "rewards:per-proof-routine", p.Pos(entry.Pos()), "no crediting of provers on the reward path")
	} else {
		r.Analysed(core.FnName(routine))
		r.Analysed(core.FnName(unit.CreditFn))
		class := func(in ssa.Instruction) string {
			if in == ssa.Instruction(credit) {
				return "credit"
			}
			call, ok := in.(ssa.CallInstruction)
			if !ok {
				return ""
			}
			rem, burn := false, false
			for _, cal := range p.Callees(call) {
				for _, o := range p.Summary(cal).Store {
					if o.Kind == "Delete" && o.Module+"/"+o.Prefix == stProof {
						rem = true
					}
					if o.Kind == "Set" && o.Module+"/"+o.Prefix == stProviders {
						burn = true
					}
				}
			}
			switch {
			case rem && burn:
				return "remove+burn"
			case rem:
				return "remove"
			case burn:
				return "burn"
			}
			return ""
		}
		if !unit.Complete {
			r.Undecided("C03/R2", "rewards:path-classes", p.Pos(routine.Pos()), unit.Why)
		} else {
			seen := map[string]int{}
			nPaths := 0
			for i := range unit.Execs {
				e := &unit.Execs[i]
				if e.Panic {
					continue
				}
				nPaths++
				seen[unit.classesOf(e, class)]++
			}
			allowed := map[string]bool{"credit": true, "remove": true, "burn,remove": true}
			var bad []string
			for k := range seen {
				if !allowed[k] {
					bad = append(bad, "{"+k+"}")
				}
			}
			sort.Strings(bad)
			r.Check(len(bad) == 0 && nPaths > 0, "C03/R2", "rewards:path-classes", p.Pos(routine.Pos()), fmt.Sprintf("%d executions, classes %v", nPaths, sortedKeysOf(seen)), "an execution of the per-proof routine performs "+strings.Join(bad, " / ")+" instead of exactly one of {credit} | {remove} | {remove, burn}")
			r.Extra["per_proof_paths"] = nPaths
		}
		var provenCall, youngCall *ssa.Call
		isProven := func(want bool) core.GuardMatch {
			return callBoolGuard(p, func(call *ssa.Call, callees []*ssa.Function) bool {
				if len(callees) == 1 && provenPredicate(p, callees[0]) {
					provenCall = call
					return true
				}
				return false
			}, want)
		}
		isYoung := func(want bool) core.GuardMatch {
			return callBoolGuard(p, func(call *ssa.Call, callees []*ssa.Function) bool {
				if len(callees) == 1 && youngPredicate(p, callees[0]) {
					youngCall = call
					return true
				}
				return false
			}, want)
		}
		// `proven` is stored in a variable: the branch is on the call value itself (callbool) or its negation
		unguarded := func(at ssa.Instruction, g core.GuardMatch) bool {
			if at.Parent() == routine && len(p.FindUnguarded(routine, []*core.Effect{{Instr: at}}, g, true)) == 0 {
				return false
			}
			return !(unit.Complete && unit.guarded(p, at, g))
		}
		r.Check(!unguarded(credit, anyOf(isProven(true), isYoung(true))), "C03/R2", "rewards:credit-guard", p.InstrPos(credit), "credit only behind proven=true or young=true", "a prover that neither proved in the last window nor holds a young file is credited")
		nBurnSites := 0
		for _, in := range unit.sites(class) {
			c := class(in)
			if c != "burn" && c != "remove+burn" {
				continue
			}
			nBurnSites++
			r.Check(!unguarded(in, isProven(false)) && !unguarded(in, isYoung(false)), "C03/R2", "rewards:burn-guard", p.InstrPos(in), "burn only behind proven=false and young=false", "a provider is burned although it proved in the last window or the file is still young")
		}
		if unit.Complete {
			r.Floor("C03/R2", nBurnSites, 1, "burn sites of the per-proof routine")
		}
		if provenCall != nil {
			a := dataArgs(provenCall)
			hp := p.ResolveToEntry(p.ProvAt(a[0], "", provenCall), routine)
			lp := p.ResolveToEntry(p.ProvAt(a[1], "", provenCall), routine).DataAtoms()
			okA := hp.HasCtx("BlockHeight") && len(hp.DataAtoms()) == 1 && len(lp) == 1 && lp[0].Kind == "store" && lp[0].Name == stProof && lp[0].Path == ".LastProven"
			r.Check(okA, "C03/R2", "rewards:proven-arguments", p.InstrPos(provenCall), "proven(Ctx.BlockHeight, Store(FileProof).LastProven)", "the proven-in-window predicate is not fed the block height and the loaded proof's LastProven")
		} else {
			r.Violation("C03/R2", "rewards:proven-predicate", p.Pos(routine.Pos()), "the per-proof routine never tests whether the proof was renewed in the last window")
		}
		if youngCall != nil {
			hp := p.ResolveToEntry(p.ProvAt(dataArgs(youngCall)[0], "", youngCall), routine)
			r.Check(hp.HasCtx("BlockHeight") && len(hp.DataAtoms()) == 1, "C03/R2", "rewards:young-arguments", p.InstrPos(youngCall), "young(Ctx.BlockHeight)", "the young-file predicate is not fed the block height")
		}
	}

	// ---- R5 the list handed to the per-proof routine is exactly the file's prover list
	if routine != nil {
		perProofKeysFromFileList(r, "C03/R5", routine)
	}

	// ---- R7 the burn counter is incremented from a fresh read of the provider record
	nBurn := 0
	for _, fn := range funcs {
		for _, e := range p.Effects(fn) {
			call, ok := e.Instr.(ssa.CallInstruction)
			if !ok {
				continue
			}
			if cal, _ := directOpCallee(p, call, "Set", stProviders); cal == nil {
				continue
			}
			nBurn++
			args := dataArgs(call)
			rec := args[len(args)-1]
			bp := p.ProvAt(rec, ".BurnedContracts", call)
			fresh := bp.HasStore(stProviders, ".BurnedContracts")
			stale := ""
			for _, a := range bp.DataAtoms() {
				if !(a.Kind == "store" && a.Name == stProviders) {
					stale = a.String()
				}
			}
			// the record as a whole must also come from the store read of this invocation
			for _, a := range p.ProvAt(rec, "", call).DataAtoms() {
				if a.Kind == "param" || a.Kind == "free" {
					stale = a.String()
				}
			}
			r.Check(fresh && stale == "", "C03/R7", core.FnName(fn)+":burn-from-fresh-read", p.InstrPos(call), "new burn count ⊵ the provider record read from the store in this invocation only", "the burn counter written does not come solely from a fresh store read (it depends on "+stale+"): several misses of one provider in a reward block are collapsed into one increment")
			// and it is an increment by one
			inc := false
			if al := recordAlloc(rec); al != nil {
				for _, st := range fieldStores(al, "BurnedContracts") {
					tb := core.NewTermBuilder(p)
					if strings.Contains(tb.Term(st.Val), "+1)") {
						inc = true
					}
				}
				// ... or set through a method of the record (prov.SetBurnCount(burned + 1))
				for _, ma := range fieldAssignsThroughMethods(p, al, "BurnedContracts") {
					if strings.Contains(termInCall(p, ma.Val, ma.Callee, ma.Call), "+1)") {
						inc = true
					}
				}
			}
			r.Check(inc, "C03/R7", core.FnName(fn)+":burn-increments-by-one", p.InstrPos(call), "burn count := parsed(old)+1", "the burn counter is not incremented by exactly one")
		}
	}
	r.Floor("C03/R7", nBurn, 1, "burn sites")
	r.Floor("C03/R7", burnTargetIsProver(r, "C03/R7", funcs, routine), 1, "burned provider lookups")

	// ---- R6 decode targets are fresh per callback invocation
	staleDecodeTargets(r, "C03/R6", funcs)

	// ---- R3 / R4
	insts := p.BankInstances(entry)
	var pull, pay []core.BankInstance
	seenSite := map[ssa.Instruction]bool{}
	for _, bi := range insts {
		// one site reached along two call chains (a callback is reached from the function that passes it and from the
		// iterator that calls it) is one site
		if seenSite[bi.Op.Instr] {
			continue
		}
		seenSite[bi.Op.Instr] = true
		switch bi.Op.Method {
		case "SendCoinsFromAccountToModule":
			pull = append(pull, bi)
		case "SendCoinsFromModuleToAccount":
			pay = append(pay, bi)
		default:
			r.Violation("C03/R3", "rewards:bank:"+bi.Op.Method, p.InstrPos(bi.Op.Instr), "unexpected bank operation on the reward path")
		}
	}
	r.Check(len(pay) == 1, "C03/R3", "rewards:single-payout-site", p.Pos(entry.Pos()), "one payout site", fmt.Sprintf("%d payout sites on the reward path, expected 1", len(pay)))
	r.Check(len(pull) == 1, "C03/R4", "rewards:single-pull-site", p.Pos(entry.Pos()), "one gauge pull site", fmt.Sprintf("%d gauge pull sites on the reward path, expected 1", len(pull)))
	if len(pay) == 1 && len(pull) == 1 {
		bo := pay[0].Op
		// the unit: the function (bo.Fn or a caller of it) that receives the size tracker
		unit := bo.Fn
		// the size tracker among the parameters: map[string]int64, a pointer to one, or a struct carrying one
		// (index of the parameter, path of the map below it)
		trackerOf := func(fn *ssa.Function) (int, string) {
			for i, prm := range fn.Params {
				t := prm.Type()
				if pt, ok := t.Underlying().(*types.Pointer); ok {
					t = pt.Elem()
				}
				if t.String() == "map[string]int64" {
					return i, ""
				}
				if st, ok := t.Underlying().(*types.Struct); ok {
					for f := 0; f < st.NumFields(); f++ {
						ft := st.Field(f).Type()
						if pt, ok := ft.Underlying().(*types.Pointer); ok {
							ft = pt.Elem()
						}
						if ft.String() == "map[string]int64" {
							return i, "." + st.Field(f).Name()
						}
					}
				}
			}
			return -1, ""
		}
		hasTracker := func(fn *ssa.Function) bool { i, _ := trackerOf(fn); return i >= 0 }
		for hops := 0; hops < 3 && !hasTracker(unit); hops++ {
			next := unit
			for _, c := range p.CG().In[unit] {
				if core.ModuleOf(c) == "storage" {
					next = c
				}
			}
			if next == unit {
				break
			}
			unit = next
		}
		res := func(pr core.Prov) core.Prov {
			if unit == bo.Fn {
				return pr
			}
			return p.ResolveToEntry(pr, unit)
		}
		tIdx, tPath := trackerOf(unit)
		rp := res(p.ProvAt(bo.Args[1], "", bo.Instr))
		okr := len(rp.DataAtoms()) > 0
		for _, a := range rp.DataAtoms() {
			if !(a.Kind == "param" && a.Fn == unit && a.Idx == tIdx && strings.HasPrefix(a.Path, tPath+"[]")) {
				okr = false
			}
		}
		// the parameter is the size tracker: a pointer to map[string]int64
		r.Check(okr, "C03/R3", "rewards:payout-recipient", p.InstrPos(bo.Instr), "recipient ⊵ keys of the size tracker only", "the payout recipient is not a counted prover: "+rp.String())
		ap := res(p.ProvAt(bo.Args[2], "", bo.Instr))
		okTracker := ap.Any(func(a core.Atom) bool {
			return a.Kind == "param" && a.Fn == unit && a.Idx == tIdx && strings.HasPrefix(a.Path, tPath+"[]")
		})
		okTotal := ap.Any(func(a core.Atom) bool {
			return a.Kind == "param" && a.Fn == unit && !strings.Contains(a.Path, "[]") && (a.Path == "" || (a.Idx == tIdx && tPath != "" && a.Path != tPath))
		})
		roundsDown(r, "C03/R9", "rewards:payout-rounds-down", bo.Args[2], p.InstrPos(bo.Instr))
		r.Check(okTracker && okTotal, "C03/R3", "rewards:payout-amount", p.InstrPos(bo.Instr), "amount ⊵ {tracker entry, total size}", "the payout does not depend on the prover's counted size and the network total")
		// R4
		// (both sides read in the same context: a callback's parameter resolves to what its iterator hands in)
		pp := res(p.ProvAt(pull[0].Op.Args[2], "", pull[0].Op.Instr))
		have := map[string]bool{}
		for _, a := range ap.DataAtoms() {
			have[a.Key()] = true
		}
		for _, a := range ap {
			if a.Kind == "ext" {
				have[a.Key()] = true
			}
		}
		var missing []string
		for _, a := range pp.DataAtoms() {
			if !have[a.Key()] {
				missing = append(missing, a.String())
			}
		}
		for _, a := range pp {
			if a.Kind == "ext" && strings.Contains(a.Name, "GetAllBalances") && !have[a.Key()] {
				missing = append(missing, a.String())
			}
		}
		r.Check(len(missing) == 0, "C03/R4", "rewards:paid-pool-is-pulled", p.InstrPos(bo.Instr), "payout amount depends on every source of the pull amount", "the coins paid to provers are not the coins pulled from the gauges: missing "+strings.Join(missing, ", "))
	}
}

// iterationListIsFileList: slice sl is file.Proofs itself, or a per-invocation copy of exactly len(file.Proofs)
// elements filled from file.Proofs (make+copy or append to an empty slice).
func iterationListIsFileList(p *core.Program, sl ssa.Value, file ssa.Value) (bool, string) {
	isProofsOf := func(v ssa.Value) bool {
		ld, ok := v.(*ssa.UnOp)
		if !ok {
			return false
		}
		fa, ok := ld.X.(*ssa.FieldAddr)
		return ok && fa.X == file && core.FieldName(fa.X.Type(), fa.Field) == "Proofs"
	}
	switch x := sl.(type) {
	case *ssa.UnOp:
		if isProofsOf(x) {
			return true, "iterates file.Proofs itself (R1 governs mutation)"
		}
		return false, "iterates a variable that outlives the file (a shared or captured buffer)"
	case *ssa.MakeSlice:
		// length must be len(file.Proofs)
		lenOK := false
		if c, ok := x.Len.(*ssa.Call); ok {
			if b, ok := c.Call.Value.(*ssa.Builtin); ok && b.Name() == "len" && isProofsOf(c.Call.Args[0]) {
				lenOK = true
			}
		}
		if !lenOK {
			return false, "the copy's length is not len(file.Proofs)"
		}
		filled := false
		for _, r := range *x.Referrers() {
			if c, ok := r.(*ssa.Call); ok {
				if b, ok := c.Call.Value.(*ssa.Builtin); ok && b.Name() == "copy" && c.Call.Args[0] == ssa.Value(x) && isProofsOf(c.Call.Args[1]) {
					filled = true
				}
			}
		}
		if !filled {
			return false, "the copy is not filled from file.Proofs"
		}
		return true, "iterates a fresh copy: make(len(file.Proofs)) + copy(file.Proofs)"
	case *ssa.Call:
		if name := core.CalleeFullName(x); (strings.HasPrefix(name, "slices.Clone") || strings.HasSuffix(name, "/slices.Clone") || strings.Contains(name, "slices.Clone[")) && len(x.Call.Args) == 1 && isProofsOf(x.Call.Args[0]) {
			return true, "iterates slices.Clone(file.Proofs)"
		}
		if b, ok := x.Call.Value.(*ssa.Builtin); ok && b.Name() == "append" && len(x.Call.Args) == 2 && isProofsOf(x.Call.Args[1]) {
			if c, ok := x.Call.Args[0].(*ssa.Const); ok && c.Value == nil {
				return true, "iterates append(nil, file.Proofs...)"
			}
			if s2, ok := x.Call.Args[0].(*ssa.Slice); ok {
				if _, ok := s2.X.(*ssa.Alloc); ok {
					return true, "iterates append([]string{}, file.Proofs...)"
				}
			}
		}
	case *ssa.Phi:
		return false, "iterates a buffer that is conditionally re-allocated (it can be longer than the file's list)"
	}
	return false, "iterates a slice that is not a fresh copy of file.Proofs"
}

// staleDecodeTargets: proto Unmarshal into a variable that outlives the callback invocation (a captured variable)
// whose type has repeated fields.
func staleDecodeTargets(r *core.Run, rule string, funcs []*ssa.Function) {
	p := r.Prog
	n := 0
	for _, fn := range funcs {
		allInstrs(fn, func(in ssa.Instruction) {
			call, ok := in.(ssa.CallInstruction)
			if !ok {
				return
			}
			name := core.CalleeFullName(call)
			if !(strings.Contains(name, "codec") && (strings.HasSuffix(name, ".MustUnmarshal") || strings.HasSuffix(name, ".Unmarshal"))) {
				return
			}
			args := call.Common().Args
			tgt := args[len(args)-1]
			if mi, ok := tgt.(*ssa.MakeInterface); ok {
				tgt = mi.X
			}
			n++
			why := "the generated proto decoder neither resets the target nor clears fields that are absent on the wire: repeated fields are appended to and empty scalar fields keep the value of the previous record"
			if fv, isFree := tgt.(*ssa.FreeVar); isFree {
				if _, ok := derefStruct(fv.Type()); ok {
					r.Violation(rule, core.FnName(fn)+":decode-target-reused:"+core.TypeName(fv.Type()), p.InstrPos(call), "a record is decoded into a variable captured from the enclosing function: "+why+" (e.g. the prover list of all earlier files)")
				} else {
					r.Trivial(rule, core.FnName(fn)+":decode-target-fresh", p.InstrPos(call), "captured non-struct target")
				}
				return
			}
			// a target allocated outside the loop that decodes into it is reused across iterations
			if al, isAlloc := tgt.(*ssa.Alloc); isAlloc && core.InCycle(call.Block()) && !core.SameLoop(al.Block(), call.Block()) {
				if _, ok := derefStruct(al.Type()); ok {
					r.Violation(rule, core.FnName(fn)+":decode-target-reused:"+core.TypeName(al.Type()), p.InstrPos(call), "a record is decoded, inside a loop, into a variable declared outside the loop: "+why)
					return
				}
			}
			r.Trivial(rule, core.FnName(fn)+":decode-target-fresh", p.InstrPos(call), "decodes into a variable local to this invocation / iteration")
		})
	}
	r.Floor(rule, n, 3, "decode sites on the path")
}

func derefStruct(t types.Type) (*types.Struct, bool) {
	for i := 0; i < 3; i++ {
		if pt, ok := t.Underlying().(*types.Pointer); ok {
			t = pt.Elem()
			continue
		}
		break
	}
	st, ok := t.Underlying().(*types.Struct)
	return st, ok
}

// perProofKeysFromFileList: at every call of the per-proof routine the key is an element of the processed file's own
// prover list (file.Proofs itself or a per-file copy of exactly its length).
func perProofKeysFromFileList(r *core.Run, rule string, routine *ssa.Function) {
	p := r.Prog
	nCall := 0
	for _, caller := range p.CG().In[routine] {
		allInstrs(caller, func(in ssa.Instruction) {
			call, ok := in.(ssa.CallInstruction)
			if !ok {
				return
			}
			isR := false
			for _, cal := range p.Callees(call) {
				if cal == routine {
					isR = true
				}
			}
			if !isR {
				return
			}
			nCall++
			// key argument: the string argument; file argument: the *UnifiedFile argument
			var keyArg, fileArg ssa.Value
			for _, a := range call.Common().Args {
				if a.Type().String() == "string" {
					keyArg = a
				}
				if core.TypeName(a.Type()) == "x/storage/types.UnifiedFile" {
					fileArg = a
				}
			}
			if keyArg == nil || fileArg == nil {
				r.Undecided(rule, core.FnName(caller)+":per-proof-call-shape", p.InstrPos(call), "per-proof routine is not called with (file, key)")
				return
			}
			// the key is an element of a slice S
			var sl ssa.Value
			if ld, ok := keyArg.(*ssa.UnOp); ok {
				if ia, ok := ld.X.(*ssa.IndexAddr); ok {
					sl = ia.X
				}
			}
			ok5, why := false, "the key is not an element of a slice"
			if sl != nil {
				ok5, why = iterationListIsFileList(p, sl, fileArg)
			}
			r.Check(ok5, rule, core.FnName(caller)+":iterated-list=file-list", p.InstrPos(call), why, "the keys handed to the per-proof routine are not exactly the prover list of the file being processed ("+why+"): provers of other files can be credited or burned against this file")
		})
	}
	r.Floor(rule, nCall, 1, "per-proof routine call sites")
}

// burnTargetIsProver: the provider record whose burn counter is raised on the reward path is loaded under the prover
// named by the per-proof key (the routine's key parameter, or the Prover field of the proof record loaded for it) —
// never under another field of that record (its Owner is the file's owner, who may be an honest provider itself).
func burnTargetIsProver(r *core.Run, rule string, funcs []*ssa.Function, routine *ssa.Function) int {
	p := r.Prog
	n := 0
	if routine == nil {
		return 0
	}
	for _, fn := range funcs {
		for _, e := range p.Effects(fn) {
			call, ok := e.Instr.(ssa.CallInstruction)
			if !ok {
				continue
			}
			if cal, _ := directOpCallee(p, call, "Set", stProviders); cal == nil {
				continue
			}
			args := dataArgs(call)
			rec := args[len(args)-1]
			for _, a := range p.ProvAt(rec, ".BurnedContracts", call).DataAtoms() {
				if !(a.Kind == "store" && a.Name == stProviders) || a.Call == nil {
					continue
				}
				for _, ka := range dataArgs(a.Call) {
					kp := p.ResolveToEntry(p.ProvAt(ka, "", a.Call), routine)
					atoms := kp.DataAtoms()
					okT := len(atoms) > 0
					for _, x := range atoms {
						isKeyParam := x.Kind == "param" && x.Fn == routine && x.Idx < len(routine.Params) && routine.Params[x.Idx].Type().String() == "string"
						isProver := x.Kind == "store" && x.Name == stProof && x.Path == ".Prover"
						if !isKeyParam && !isProver {
							okT = false
						}
					}
					n++
					r.Check(okT, rule, core.FnName(fn)+":burn-target-is-the-prover", p.InstrPos(a.Call), "the burned provider record is loaded under the prover of the per-proof key", "the provider whose burn counter is raised is not the prover that missed its window: the record is loaded under "+kp.String()+" (the file owner, say — an honest provider that owns the file is burned and the lazy prover is not)")
				}
			}
		}
	}
	return n
}
