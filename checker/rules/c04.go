package rules

import (
	"fmt"
	"go/token"
	"strings"

	"golang.org/x/tools/go/ssa"

	"jklcheck/core"
)

func init() { registry["C04"] = c04 }

type c04Site struct {
	bo    *core.BankOp
	class string // debit | gauge | pol | referrer | fee-collector | unknown
}

func c04Classify(p *core.Program, h *core.Handler, bo *core.BankOp) string {
	switch bo.Method {
	case "SendCoinsFromAccountToModule":
		return "debit"
	case "SendCoinsFromModuleToModule":
		rp := p.ResolveToEntry(p.ProvAt(bo.Args[1], "", bo.Instr), h.Fn)
		if rp.Any(func(a core.Atom) bool { return strings.HasSuffix(a.Path, ".feeCollectorName") }) {
			return "fee-collector"
		}
		return "unknown"
	case "SendCoinsFromModuleToAccount":
		rp := p.ResolveToEntry(p.ProvAt(bo.Args[1], "", bo.Instr), h.Fn)
		switch {
		case p.HasMsgField(rp, h, "Referral"):
			return "referrer"
		case rp.HasCtx("BlockHeight") && len(p.MsgFields(rp, h)) >= 0 && rp.HasExt("sha256"):
			// account derived from a freshly created gauge (id = H(height, end, coins))
			return "gauge"
		case len(rp.DataAtoms()) == 0 && rp.HasExt("sha256"):
			return "pol"
		}
	}
	return "unknown"
}

func hasStorageParam(pr core.Prov, f string) bool { return pr.HasParams("storage", "."+f) }

func c04(r *core.Run) {
	p := r.Prog
	r.Explanation = "Static rules over storage.MsgBuyStorage and the pay-once branch of storage.MsgPostFile: every bank call of the handler is classified by the provenance of its counterparty into {debit, new gauge, POL account, referrer, fee collector} (closed set); the debit depends on the priced quantities of the message, the price parameter and the price feed; every cut depends on everything the debit depends on (same base); the gauge is funded with the very value it records; the POL cut depends on Param(PolRatio) and not on Param(ReferralCommission), the referrer's and the fee collector's cut depend on Param(ReferralCommission) and not on Param(PolRatio); all bank errors propagate to a failing return. Exact prices and 'within one base unit' are numeric and not decided."
	r.Assumptions = []string{T1, T3, T6}
	r.NotDecided = []string{"exact price arithmetic", "'within one base unit'", "Σ credits ≤ debit (follows numerically from ratios ≤ 100%)"}
	r.Rule("C04/R11", "what is stored is the record as it stands: wherever the storage module writes the marshalled form of a local record, the record is not assigned to between the marshalling and the write (a gauge record marshalled before the merge with an existing gauge keeps only the latest deposit)")
	r.Rule("C04/R10", "the ratio and price parameters used are the governance-set ones: the storage module's GetParams returns the stored parameter set unmodified (no default standing in for a stored 0) and each parameter key is bound to the Params field confirmed for it")
	r.Rule("C04/R1", "debit = price: the account->module amount depends on the message's size/duration fields, Param(PricePerTbPerMonth) and the price feed; payer ⊵ signer; every cut depends on every source the debit depends on")
	r.Rule("C04/R2", "gauge funded with exactly what it records: the value passed to the gauge constructor and the value sent to that gauge's account are the same SSA value")
	r.Rule("C04/R3", "each recipient gets its own percentage: POL amount ⊵ Param(PolRatio) ∧ ⋫ Param(ReferralCommission); referrer and fee-collector amounts ⊵ Param(ReferralCommission) ∧ ⋫ Param(PolRatio)")
	r.Rule("C04/R4", "closed recipient set: every bank call of the unit is one of {debit from signer, new gauge, POL account, referrer named by msg.Referral, fee collector}")
	r.Rule("C04/R5", "failure debits nothing: every bank error propagates to a failing return")
	r.Rule("C04/R9", "every cut of the payment is converted from decimals to whole units by truncation only: the credits cannot add up to more than the debit")
	r.Rule("C04/R8", "every cut is computed from the payment as finally debited: no re-assignment of the payment lies on a path between a cut's computation and its transfer")
	r.Rule("C04/R7", "success implies the money moved: every committing return of a plan purchase has debited the payer, created the gauge and written the plan record")
	r.Rule("C04/R6", "referral gate: the referrer payout is on committing paths only behind a successful resolution of msg.Referral and behind Eq(resolved referral, signer)=false (directly or through a boolean flag set only there)")
	paramsGetterFaithful(r, "C04/R10", "storage")
	paramPairsConsistent(r, "C04/R10", "storage")
	r.Floor("C04/R11", marshalIsFresh(r, "C04/R11", "storage"), 8, "marshalled local records written by the storage module")
	hs, err := p.Handlers()
	if err != nil {
		r.Undecided("C04/R1", "handlers", "", err.Error())
		return
	}
	type spec struct {
		key     string
		priced  []string
		classes map[string]int // expected count per class
	}
	specs := []spec{
		{"storage.MsgBuyStorage", []string{"Bytes", "DurationDays"}, map[string]int{"debit": 1, "gauge": 1, "pol": 1, "referrer": 1, "fee-collector": 1}},
		{"storage.MsgPostFile", []string{"FileSize", "MaxProofs", "Expires"}, map[string]int{"debit": 1, "gauge": 1}},
	}
	for _, sp := range specs {
		h := core.HandlerByKey(hs, sp.key)
		if h == nil {
			r.Undecided("C04/R1", sp.key+":anchor-missing", "", "handler missing")
			continue
		}
		r.Analysed(core.FnName(h.Fn))
		var sites []c04Site
		got := map[string]int{}
		for _, bo := range p.Summary(h.Fn).Bank {
			c := c04Classify(p, h, bo)
			sites = append(sites, c04Site{bo, c})
			got[c]++
			r.Check(c != "unknown", "C04/R4", fmt.Sprintf("%s:recipient:%s", sp.key, c), p.InstrPos(bo.Instr), "counterparty class "+c,
				"a bank call whose counterparty is none of {signer, new gauge, POL account, msg.Referral, fee collector}: "+p.ResolveToEntry(p.ProvAt(bo.Args[1], "", bo.Instr), h.Fn).String())
		}
		r.CallSites(len(sites))
		for c, n := range sp.classes {
			if got[c] != n {
				r.Violation("C04/R4", fmt.Sprintf("%s:count:%s", sp.key, c), p.Pos(h.Fn.Pos()), fmt.Sprintf("expected %d bank call(s) of class %s, found %d", n, c, got[c]))
			}
		}
		var debit *core.BankOp
		for _, s := range sites {
			if s.class == "debit" {
				debit = s.bo
			}
		}
		if debit == nil {
			continue
		}
		dp := p.ResolveToEntry(p.ProvAt(debit.Args[2], "", debit.Instr), h.Fn)
		okD := hasStorageParam(dp, "PricePerTbPerMonth") && dp.HasStore("oracle/Feed/value/", "")
		for _, f := range sp.priced {
			if !p.HasMsgField(dp, h, f) {
				okD = false
			}
		}
		r.Check(okD, "C04/R1", sp.key+":debit-is-price", p.InstrPos(debit.Instr), "debit ⊵ {"+strings.Join(sp.priced, ",")+", Param(PricePerTbPerMonth), price feed}", "the amount debited does not depend on all priced quantities: "+dp.String())
		r.Check(p.OnlyMsgField(p.ProvAt(debit.Args[0], "", debit.Instr), h, "Creator"), "C04/R1", sp.key+":payer-is-signer", p.InstrPos(debit.Instr), "payer ⊵ signer only", "payer is not the signer")
		// base sources of the debit (without constants)
		base := map[string]bool{}
		for _, a := range dp.DataAtoms() {
			base[a.Key()] = true
		}
		for _, s := range sites {
			if s.class == "debit" || s.class == "unknown" {
				continue
			}
			ap := p.ResolveToEntry(p.ProvAt(s.bo.Args[2], "", s.bo.Instr), h.Fn)
			missing := []string{}
			have := map[string]bool{}
			for _, a := range ap.DataAtoms() {
				have[a.Key()] = true
			}
			for k := range base {
				if !have[k] {
					missing = append(missing, k)
				}
			}
			r.Check(len(missing) == 0, "C04/R1", fmt.Sprintf("%s:cut-base:%s", sp.key, s.class), p.InstrPos(s.bo.Instr), "cut depends on every source of the debit (same base)", "the "+s.class+" amount is not computed from the amount paid: missing "+strings.Join(missing, ", "))
			pol, ref := hasStorageParam(ap, "PolRatio"), hasStorageParam(ap, "ReferralCommission")
			switch s.class {
			case "pol":
				r.Check(pol && !ref, "C04/R3", sp.key+":share:pol", p.InstrPos(s.bo.Instr), "POL amount ⊵ PolRatio, ⋫ ReferralCommission", fmt.Sprintf("POL account receives a share that depends on PolRatio=%v ReferralCommission=%v", pol, ref))
			case "referrer":
				r.Check(ref && !pol, "C04/R3", sp.key+":share:referrer", p.InstrPos(s.bo.Instr), "referrer amount ⊵ ReferralCommission, ⋫ PolRatio", fmt.Sprintf("the referrer receives a share that depends on PolRatio=%v ReferralCommission=%v (expected the referral commission only)", pol, ref))
			case "fee-collector":
				r.Check(ref && !pol, "C04/R3", sp.key+":share:fee-collector", p.InstrPos(s.bo.Instr), "fee-collector amount ⊵ ReferralCommission, ⋫ PolRatio", fmt.Sprintf("the stakers' pool receives a share that depends on PolRatio=%v ReferralCommission=%v", pol, ref))
			case "gauge":
				r.Check(pol && ref, "C04/R3", sp.key+":share:gauge", p.InstrPos(s.bo.Instr), "provider cut ⊵ both ratios (remainder)", "the provider gauge cut does not account for both the POL and the referral share")
				// R2: same value as recorded by the gauge constructor
				var ctor *ssa.Call
				rp := p.ProvAt(s.bo.Args[1], "", s.bo.Instr)
				_ = rp
				allInstrs(s.bo.Fn, func(in ssa.Instruction) {
					if c, ok := in.(*ssa.Call); ok {
						for _, cal := range p.Callees(c) {
							if isGaugeCtor(p, cal) {
								ctor = c
							}
						}
					}
				})
				funded := s.bo.Args[2]
				if ctor == nil && s.bo.Fn != h.Fn {
					// the transfer lives in a helper: find the constructor next to the helper's call and express the
					// funded amount in the caller's values
					for _, caller := range p.Summary(h.Fn).Funcs {
						allInstrs(caller, func(in ssa.Instruction) {
							hop, ok := in.(ssa.CallInstruction)
							if !ok || ctor != nil {
								return
							}
							isHop := false
							for _, cal := range p.Callees(hop) {
								if cal == s.bo.Fn {
									isHop = true
								}
							}
							if !isHop {
								return
							}
							allInstrs(caller, func(in2 ssa.Instruction) {
								if c, ok := in2.(*ssa.Call); ok {
									for _, cal := range p.Callees(c) {
										if isGaugeCtor(p, cal) {
											ctor = c
										}
									}
								}
							})
							if prm, isParam := funded.(*ssa.Parameter); isParam {
								hc := hop.Common()
								var actuals []ssa.Value
								if hc.IsInvoke() {
									actuals = append(actuals, hc.Value)
								}
								actuals = append(actuals, hc.Args...)
								for i, q := range s.bo.Fn.Params {
									if q == prm && i < len(actuals) {
										funded = actuals[i]
									}
								}
							}
						})
					}
				}
				if ctor == nil {
					r.Violation("C04/R2", sp.key+":gauge-recorded", p.InstrPos(s.bo.Instr), "coins are sent to a gauge account but no gauge record is created in the same unit")
				} else {
					same := false
					for _, a := range dataArgs(ctor) {
						if core.SameValue(a, funded) {
							same = true
						}
					}
					r.Check(same, "C04/R2", sp.key+":gauge-funded=recorded", p.InstrPos(s.bo.Instr), "gauge constructor and funding use the same value", "the gauge is funded with a different value than the one handed to its constructor (e.g. the returned record's Coins, which after a merge is the total of several deposits): the account holds more or less than the record says and the gauge over- or under-releases")
					// the record stores exactly that argument as Coins
					callee := p.Callees(ctor)[0]
					for _, o := range gaugeSetOps(p, callee) {
						if o.Kind == "Set" {
							// value marshalled: field Coins ⊵ coins param only
							for _, b := range callee.Blocks {
								for _, in := range b.Instrs {
									if al, ok := in.(*ssa.Alloc); ok && core.TypeName(al.Type()) == "x/storage/types.PaymentGauge" {
										// the record that is built here: the parameter itself, or — when a gauge with the same
										// id already exists — the parameter added to that gauge's recorded coins (merge)
										okc, nStores := true, 0
										for _, ref := range *al.Referrers() {
											if fa, ok := ref.(*ssa.FieldAddr); ok && core.FieldName(fa.X.Type(), fa.Field) == "Coins" {
												for _, rr := range *fa.Referrers() {
													st, ok := rr.(*ssa.Store)
													if !ok || st.Addr != fa {
														continue
													}
													nStores++
													if _, isParam := st.Val.(*ssa.Parameter); isParam {
														continue
													}
													if !mergesExisting(p, st.Val, callee, o) {
														okc = false
													}
												}
											}
										}
										if nStores == 0 {
											continue // a record only decoded here (the existing gauge), not the one written
										}
										r.Check(okc, "C04/R2", "gauge-constructor:records-argument", p.InstrPos(o.Instr), "PaymentGauge.Coins ⊵ constructor argument only", "the gauge constructor records something other than the coins it is given")
									}
								}
							}
						}
					}
				}
			}
		}
		// ---- R8 no cut is computed from an outdated payment: between the computation of a cut and its transfer the
		// payment value (the coin that is debited) is not re-assigned on any path
		if dc := debitCoin(debit); dc != nil {
			var defs []ssa.Instruction
			var leaves []ssa.Value
			phiLeaves(dc, map[ssa.Value]bool{}, &leaves)
			for _, lf := range leaves {
				if in, ok := lf.(ssa.Instruction); ok {
					defs = append(defs, in)
				}
			}
			for _, sx := range sites {
				if sx.class == "debit" || sx.class == "unknown" {
					continue
				}
				var amtLeaves []ssa.Value
				phiLeaves(sx.bo.Args[len(sx.bo.Args)-1], map[ssa.Value]bool{}, &amtLeaves)
				stale := ""
				for _, al := range amtLeaves {
					for _, use := range coinUses(al) {
						for _, d := range defs {
							if d == use.def {
								continue
							}
							if d.Parent() == use.at.Parent() && mayReachInstr(use.at, d) && mayReachInstr(d, sx.bo.Instr) {
								stale = p.InstrPos(use.at) + " (payment re-assigned at " + p.InstrPos(d) + ")"
							}
						}
					}
				}
				roundsDown(r, "C04/R9", fmt.Sprintf("%s:cut-rounds-down:%s", sp.key, sx.class), sx.bo.Args[len(sx.bo.Args)-1], p.InstrPos(sx.bo.Instr))
				r.Check(stale == "", "C04/R8", fmt.Sprintf("%s:cut-from-current-payment:%s", sp.key, sx.class), p.InstrPos(sx.bo.Instr), "the cut is computed after the last assignment of the payment on every path", "the "+sx.class+" amount is computed from the payment at "+stale+": on that path the transfer uses a share of an outdated amount, so credits no longer add up to the debit")
			}
		}
		errorsPropagate(r, "C04/R5", h)
		// ---- R7 success implies the money moved: debit and gauge funding on every committing path of the paying branch
		if sp.key == "storage.MsgBuyStorage" {
			successImplies(r, "C04/R7", h, "debit of the payer", core.OpFilter{Bank: func(b *core.BankOp) bool { return b.Method == "SendCoinsFromAccountToModule" }})
			successImplies(r, "C04/R7", h, "creation of the provider gauge", storeWrites("storage", "PaymentGauge/value/"))
			successImplies(r, "C04/R7", h, "write of the plan record", storeWrites("storage", "StoragePaymentInfo/value/"))
		}
		// ---- R6 referral gate (plan purchase only)
		for _, s := range sites {
			if s.class != "referrer" {
				continue
			}
			fn := s.bo.Fn
			eff := &core.Effect{Instr: s.bo.Instr}
			isReferral := func(pr core.Prov) bool {
				fs := p.MsgFields(pr, h)
				return len(fs) == 1 && fs[0] == "Referral"
			}
			isSigner := func(pr core.Prov) bool { return p.OnlyMsgField(pr, h, "Creator") }
			distinct := func(ca *core.CondAtom, truth bool) bool {
				if truth {
					return false
				}
				var a, b ssa.Value
				switch {
				case ca.Kind == "eq":
					a, b = ca.X, ca.Y
				case ca.Kind == "callbool" && ca.Call != nil && len(p.Callees(ca.Call)) == 0 && strings.HasSuffix(core.CalleeFullName(ca.Call), ".Equals") && len(ca.Call.Call.Args) == 2:
					a, b = ca.Call.Call.Args[0], ca.Call.Call.Args[1]
				case ca.Kind == "callbool" && ca.Call != nil:
					var okh bool
					if a, b, okh = equalityHelper(p, ca.Call); !okh {
						return false
					}
				default:
					return false
				}
				pa, pb := p.ProvAt(a, "", ca.If), p.ProvAt(b, "", ca.If)
				return (isReferral(pa) && isSigner(pb)) || (isReferral(pb) && isSigner(pa))
			}
			// the call that resolves msg.Referral into the payout recipient
			resolvers := map[ssa.CallInstruction]bool{}
			var back func(v ssa.Value, d int)
			back = func(v ssa.Value, d int) {
				if d > 6 {
					return
				}
				switch x := v.(type) {
				case *ssa.Parameter:
					// handed in by the caller: follow the argument at every call site
					pf := x.Parent()
					for _, caller := range p.CG().In[pf] {
						allInstrs(caller, func(in ssa.Instruction) {
							cs, ok := in.(ssa.CallInstruction)
							if !ok {
								return
							}
							for _, cal := range p.Callees(cs) {
								if cal != pf {
									continue
								}
								cc := cs.Common()
								var actuals []ssa.Value
								if cc.IsInvoke() {
									actuals = append(actuals, cc.Value)
								}
								actuals = append(actuals, cc.Args...)
								for i, q := range pf.Params {
									if q == x && i < len(actuals) {
										back(actuals[i], d+1)
									}
								}
							}
						})
					}
				case *ssa.Extract:
					if c, ok := x.Tuple.(*ssa.Call); ok {
						resolvers[c] = true
					}
				case *ssa.Call:
					resolvers[x] = true
				case *ssa.Phi:
					for _, e := range x.Edges {
						back(e, d+1)
					}
				case *ssa.Convert:
					back(x.X, d+1)
				case *ssa.ChangeType:
					back(x.X, d+1)
				case *ssa.UnOp:
					if al, ok := x.X.(*ssa.Alloc); ok {
						for _, ref := range *al.Referrers() {
							if st, ok := ref.(*ssa.Store); ok && st.Addr == al {
								back(st.Val, d+1)
							}
						}
					}
				}
			}
			back(s.bo.Args[1], 0)
			resolved := errNilGuard(p, func(c *ssa.Call) bool {
				if !resolvers[c] {
					return false
				}
				for _, a := range c.Call.Args {
					if isReferral(p.ProvAt(a, "", c)) && !isCtxArg(a) {
						return true
					}
				}
				return false
			})
			viaParam := func(base core.GuardMatch) core.GuardMatch {
				return p.ParamFlagImplies(fn, func(f *ssa.Function) core.GuardMatch { return anyOf(base, p.FlagImplies(f, base)) })
			}
			u1 := p.FindUnguarded(fn, []*core.Effect{eff}, anyOf(distinct, p.FlagImplies(fn, distinct), viaParam(distinct)), false)
			r.Check(len(u1) == 0, "C04/R6", sp.key+":referrer-distinct-from-signer", p.InstrPos(s.bo.Instr), "referrer payout only behind Eq(resolved msg.Referral, signer)=false", "the referral commission (and discount) can be paid when the referrer is not established to be distinct from the paying signer — a payer can refer itself")
			// the distinctness test compares accounts, not spellings: AccAddress.Equals, or two canonical renderings
			// (AccAddress.String()); a message string compared as text lets the same account through in another case
			isCanon := func(v ssa.Value) bool {
				for i := 0; i < 4; i++ {
					switch x := v.(type) {
					case *ssa.UnOp:
						if al, ok := x.X.(*ssa.Alloc); ok {
							var only ssa.Value
							n := 0
							for _, ref := range *al.Referrers() {
								if st, isSt := ref.(*ssa.Store); isSt && st.Addr == al {
									only, n = st.Val, n+1
								}
							}
							if n == 1 {
								v = only
								continue
							}
						}
					case *ssa.Call:
						return strings.HasSuffix(core.CalleeFullName(x), "types.AccAddress).String")
					}
					break
				}
				return false
			}
			for _, tf := range p.Summary(h.Fn).Funcs {
				allInstrs(tf, func(in ssa.Instruction) {
					bo, ok := in.(*ssa.BinOp)
					if !ok || (bo.Op != token.EQL && bo.Op != token.NEQ) {
						return
					}
					pa, pb := p.ResolveToEntry(p.ProvAt(bo.X, "", bo), h.Fn), p.ResolveToEntry(p.ProvAt(bo.Y, "", bo), h.Fn)
					if !((isReferral(pa) && isSigner(pb)) || (isReferral(pb) && isSigner(pa))) {
						return
					}
					r.Check(isCanon(bo.X) && isCanon(bo.Y), "C04/R6", sp.key+":referrer-distinctness-on-addresses", p.InstrPos(bo), "both sides are canonical renderings of parsed addresses",
						"the referrer is compared with the signer as text, one side being the message's own spelling: bech32 accepts the all-upper-case form of an address, so a payer that spells its own address in upper case passes as a distinct referrer and collects the referral discount and commission on its own purchase")
				})
			}
			u2 := p.FindUnguarded(fn, []*core.Effect{eff}, anyOf(resolved, p.FlagImplies(fn, resolved), viaParam(resolved)), false)
			r.Check(len(u2) == 0, "C04/R6", sp.key+":referrer-resolved", p.InstrPos(s.bo.Instr), "referrer payout only behind ErrNil(resolve msg.Referral)", "the referral commission can be paid to an unresolved referrer")
			// the fee-collector payout is the complementary branch: not behind the same flag=true
		}
	}
}

func isCtxArg(v ssa.Value) bool {
	s := v.Type().String()
	return strings.HasSuffix(s, "types.Context") || s == "context.Context"
}

// debitCoin: the sdk.Coin value inside NewCoins(...) of the debit.
func debitCoin(debit *core.BankOp) ssa.Value {
	c, ok := debit.Args[2].(*ssa.Call)
	if !ok || !strings.HasSuffix(core.CalleeFullName(c), "types.NewCoins") {
		return nil
	}
	va := core.VarArgs(c.Call.Args[0])
	if len(va) != 1 || va[0] == nil {
		return nil
	}
	return va[0]
}

type coinUse struct {
	def ssa.Instruction // the definition of the coin value used
	at  ssa.Instruction // where it is used
}

// coinUses walks the computation of an amount backwards and returns the uses of values of type sdk.Coin
// (field reads of a coin, coins passed to helper functions).
func coinUses(v ssa.Value) []coinUse {
	var out []coinUse
	seen := map[ssa.Value]bool{}
	isCoin := func(x ssa.Value) bool { return strings.HasSuffix(x.Type().String(), "cosmos-sdk/types.Coin") }
	var walk func(x ssa.Value, depth int)
	note := func(coin ssa.Value, at ssa.Instruction) {
		var leaves []ssa.Value
		phiLeaves(coin, map[ssa.Value]bool{}, &leaves)
		for _, lf := range leaves {
			if in, ok := lf.(ssa.Instruction); ok {
				out = append(out, coinUse{in, at})
			}
		}
	}
	walk = func(x ssa.Value, depth int) {
		if x == nil || seen[x] || depth > 12 {
			return
		}
		seen[x] = true
		switch y := x.(type) {
		case *ssa.Field:
			if isCoin(y.X) {
				note(y.X, y)
				return
			}
			walk(y.X, depth+1)
		case *ssa.Call:
			for _, a := range y.Call.Args {
				if isCoin(a) && len(y.Call.Args) > 0 && y.Call.StaticCallee() != nil && y.Call.StaticCallee().Blocks != nil {
					note(a, y)
					continue
				}
				walk(a, depth+1)
			}
			if y.Call.IsInvoke() {
				walk(y.Call.Value, depth+1)
			}
		case *ssa.Slice:
			if al, ok := y.X.(*ssa.Alloc); ok {
				for _, el := range core.VarArgs(y) {
					walk(el, depth+1)
				}
				_ = al
			} else {
				walk(y.X, depth+1)
			}
		case *ssa.Extract:
			walk(y.Tuple, depth+1)
		case *ssa.BinOp:
			walk(y.X, depth+1)
			walk(y.Y, depth+1)
		case *ssa.Phi:
			for _, e := range y.Edges {
				walk(e, depth+1)
			}
		case *ssa.Convert:
			walk(y.X, depth+1)
		case *ssa.MakeInterface:
			walk(y.X, depth+1)
		case *ssa.UnOp:
			walk(y.X, depth+1)
		}
	}
	walk(v, 0)
	return out
}

func mayReachInstr(a, b ssa.Instruction) bool {
	if a.Parent() != b.Parent() {
		return false
	}
	if a.Block() == b.Block() {
		ia, ib := -1, -1
		for i, in := range a.Block().Instrs {
			if in == a {
				ia = i
			}
			if in == b {
				ib = i
			}
		}
		if ia < ib {
			return true
		}
	}
	return core.PathExists(a.Parent(), nil, a, nil) && blockReaches(a.Block(), b.Block())
}

func blockReaches(from, to *ssa.BasicBlock) bool {
	seen := map[*ssa.BasicBlock]bool{}
	stack := append([]*ssa.BasicBlock{}, from.Succs...)
	for len(stack) > 0 {
		b := stack[len(stack)-1]
		stack = stack[:len(stack)-1]
		if seen[b] {
			continue
		}
		seen[b] = true
		if b == to {
			return true
		}
		stack = append(stack, b.Succs...)
	}
	return false
}

// mergesExisting: v = existing.Coins.Add(param...) where existing was decoded from the record stored under the key
// that the constructor writes (set).
func mergesExisting(p *core.Program, v ssa.Value, ctor *ssa.Function, set *core.StoreOp) bool {
	c, ok := v.(*ssa.Call)
	if !ok || !strings.HasSuffix(core.CalleeFullName(c), "types.Coins).Add") || len(c.Call.Args) != 2 {
		return false
	}
	// the added coins are exactly the constructor's coins parameter
	added := c.Call.Args[1]
	for i := 0; i < 3; i++ {
		if ct, ok := added.(*ssa.ChangeType); ok {
			added = ct.X
		} else if cv, ok := added.(*ssa.Convert); ok {
			added = cv.X
		}
	}
	if sl, ok := added.(*ssa.Parameter); !ok || sl.Parent() != ctor {
		va := core.VarArgs(added)
		if len(va) == 0 {
			return false
		}
		for _, a := range va {
			if _, isParam := a.(*ssa.Parameter); !isParam {
				return false
			}
		}
	}
	// the receiver comes from a record read under the same key
	tb := core.NewTermBuilder(p)
	setKey := tb.Term(set.Key)
	if set.Instr.Parent() != ctor {
		// written through an accessor keyed by the record's own Id: the key is built from the Id the constructor
		// gives the record
		setKey = ""
		allInstrs(ctor, func(in ssa.Instruction) {
			if al, ok := in.(*ssa.Alloc); ok && core.TypeName(al.Type()) == "x/storage/types.PaymentGauge" {
				if sts := fieldStores(al, "Id"); len(sts) > 0 {
					setKey = tb.Term(sts[len(sts)-1].Val)
				}
			}
		})
	}
	for _, o := range p.StoreOps(ctor) {
		kt := tb.Term(o.Key)
		if o.Kind == "Get" && o.Module+"/"+o.Prefix == set.Module+"/"+set.Prefix && (kt == setKey || (setKey != "" && strings.Contains(kt, setKey))) {
			// the receiver is the Coins field of a record decoded in this constructor
			if u, ok := c.Call.Args[0].(*ssa.UnOp); ok {
				if fa, ok := u.X.(*ssa.FieldAddr); ok && core.FieldName(fa.X.Type(), fa.Field) == "Coins" {
					if al, ok := fa.X.(*ssa.Alloc); ok && core.TypeName(al.Type()) == "x/storage/types.PaymentGauge" {
						return true
					}
				}
			}
			return false
		}
	}
	// read through the record getter: a getter of the same prefix is called with the key material the record is written
	// under (its Id), and the receiver is exactly the Coins of what that getter returned
	okGetter := false
	allInstrs(ctor, func(in ssa.Instruction) {
		call, isCall := in.(*ssa.Call)
		if !isCall {
			return
		}
		for _, cal := range p.Callees(call) {
			gi := p.StoreGetter(cal)
			if gi == nil || gi.Module+"/"+gi.Prefix != set.Module+"/"+set.Prefix {
				continue
			}
			for _, a := range dataArgs(call) {
				at := tb.Term(a)
				if setKey != "" && (at == setKey || strings.Contains(setKey, at) || strings.Contains(at, setKey)) {
					pr := p.ProvOf(c.Call.Args[0], "")
					if pr.All(func(a core.Atom) bool {
						return a.Kind == "store" && a.Name == set.Module+"/"+set.Prefix && strings.HasPrefix(strings.TrimPrefix(a.Path, "."), "Coins")
					}) {
						okGetter = true
					}
				}
			}
		}
	})
	return okGetter
}

// isGaugeCtor: fn builds a payment gauge record, stores it (directly or through the record setter) and returns it.
func isGaugeCtor(p *core.Program, fn *ssa.Function) bool {
	if fn == nil || fn.Blocks == nil {
		return false
	}
	res := fn.Signature.Results()
	ret := false
	for i := 0; i < res.Len(); i++ {
		if strings.HasSuffix(res.At(i).Type().String(), "types.PaymentGauge") {
			ret = true
		}
	}
	return ret && len(gaugeSetOps(p, fn)) > 0
}

// gaugeSetOps: the Set operations on the gauge prefix performed by fn itself or by a thin accessor it calls.
func gaugeSetOps(p *core.Program, fn *ssa.Function) []*core.StoreOp {
	var out []*core.StoreOp
	for _, o := range p.StoreOps(fn) {
		if o.Kind == "Set" && o.Module+"/"+o.Prefix == "storage/PaymentGauge/value/" {
			out = append(out, o)
		}
	}
	allInstrs(fn, func(in ssa.Instruction) {
		c, ok := in.(ssa.CallInstruction)
		if !ok {
			return
		}
		for _, cal := range p.Callees(c) {
			if cal == fn || !isAccessorFn(p, cal) {
				continue
			}
			for _, o := range p.StoreOps(cal) {
				if o.Kind == "Set" && o.Module+"/"+o.Prefix == "storage/PaymentGauge/value/" {
					out = append(out, o)
				}
			}
		}
	})
	return out
}
