package rules

import (
	"fmt"
	"go/token"
	"go/types"
	"strconv"
	"strings"

	"golang.org/x/tools/go/ssa"

	"jklcheck/core"
)

func init() { registry["C05"] = c05 }

type c05ctx struct {
	r     *core.Run
	p     *core.Program
	scope map[*ssa.Function]bool
	reach map[*ssa.Function]bool // tx-reachable (for field write census)
	memo  map[ssa.Value]int      // 1 busy, 2 nonneg, 3 unknown
	why   map[ssa.Value]string
	door  map[string]bool // validated-at-the-door message fields
	// bind: parameters of a helper currently being evaluated for ONE call, bound to that call's arguments
	// (small pure helpers such as int64ToDec are shared by callers with different sign facts)
	bind []map[*ssa.Parameter]ssa.Value
}

var nonNegPreserving = []string{
	"types.NewDec", "types.NewDecFromInt", "types.NewInt", "types.Int).ToDec", "types.Dec).TruncateInt", "types.Dec).TruncateInt64",
	"types.Int).Int64", "types.Dec).MulInt64", "types.Dec).Mul", "types.Dec).MulInt", "types.Dec).Quo", "types.Dec).QuoInt64",
	"types.Dec).Add", "types.Int).Add", "types.Int).Mul", "types.Dec).RoundInt64", "types.Dec).QuoInt", "types.Int).Quo", "types.Int).MulRaw", "types.Int).QuoRaw", "types.Int).AddRaw", "types.NewIntFromUint64", "types.Dec).MulTruncate", "types.Dec).QuoTruncate", "types.OneDec", "types.ZeroDec", "types.OneInt", "types.ZeroInt",
}

func hasSuffixAny(s string, xs []string) bool {
	for _, x := range xs {
		if strings.HasSuffix(s, x) {
			return true
		}
	}
	return false
}

func isCoinType(t types.Type) bool {
	s := core.TypeName(t)
	return strings.HasSuffix(s, "cosmos-sdk/types.Coin") || strings.HasSuffix(s, "cosmos-sdk/types.DecCoin")
}

// nonNeg: is the integer/decimal value v non-negative in the small sign domain?
func (c *c05ctx) nonNeg(v ssa.Value, depth int) (bool, string) {
	if depth > 48 {
		return false, "depth"
	}
	if len(c.bind) > 0 {
		// inside a helper evaluated for one particular call: the result depends on that call, not memoised
		if prm, isParam := v.(*ssa.Parameter); isParam {
			for i := len(c.bind) - 1; i >= 0; i-- {
				if a, ok := c.bind[i][prm]; ok {
					saved := c.bind
					c.bind = c.bind[:i]
					ok2, why := c.nonNeg(a, depth+1)
					c.bind = saved
					return ok2, "argument of this call: " + why
				}
			}
		}
		return c.nonNeg1(v, depth)
	}
	switch c.memo[v] {
	case 1:
		return true, "inductive" // loop-carried accumulation: assume the hypothesis
	case 2:
		return true, c.why[v]
	case 3:
		return false, c.why[v]
	}
	c.memo[v] = 1
	ok, why := c.nonNeg1(v, depth)
	if ok {
		c.memo[v] = 2
	} else {
		c.memo[v] = 3
	}
	c.why[v] = why
	return ok, why
}

func (c *c05ctx) nonNeg1(v ssa.Value, depth int) (bool, string) {
	p := c.p
	if ok, why := nonNegByGuard(p, v); ok {
		return true, why
	}
	switch x := v.(type) {
	case *ssa.Const:
		if x.Value != nil && !strings.HasPrefix(x.Value.ExactString(), "-") {
			return true, "non-negative constant"
		}
		return false, "negative constant"
	case *ssa.Convert:
		return c.nonNeg(x.X, depth+1)
	case *ssa.ChangeType:
		return c.nonNeg(x.X, depth+1)
	case *ssa.Phi:
		for _, e := range x.Edges {
			if ok, why := c.nonNeg(e, depth+1); !ok {
				return false, "phi edge: " + why
			}
		}
		return true, "all incoming values non-negative"
	case *ssa.BinOp:
		switch x.Op {
		case token.ADD, token.MUL, token.QUO, token.REM, token.AND, token.SHR:
			ok1, w1 := c.nonNeg(x.X, depth+1)
			ok2, w2 := c.nonNeg(x.Y, depth+1)
			if ok1 && ok2 {
				return true, "sum/product of non-negatives"
			}
			return false, "operand of " + x.Op.String() + ": " + w1 + " / " + w2
		}
		return false, "result of " + x.Op.String() + " has unknown sign"
	case *ssa.UnOp:
		if x.Op == token.MUL {
			return c.nonNegLoad(x, depth)
		}
		return false, "unary " + x.Op.String()
	case *ssa.Field:
		if core.FieldName(x.X.Type(), x.Field) == "Amount" && isCoinType(x.X.Type()) {
			return true, "sdk.Coin amount (T3)"
		}
		return c.nonNegField(x.X.Type(), core.FieldName(x.X.Type(), x.Field), v, depth)
	case *ssa.Lookup:
		// map of accumulated sizes: every MapUpdate on maps of this type in scope stores a non-negative value
		return c.nonNegMap(x.X.Type(), depth)
	case *ssa.Extract:
		if lk, ok := x.Tuple.(*ssa.Lookup); ok && x.Index == 0 {
			return c.nonNegMap(lk.X.Type(), depth)
		}
		if nx, ok := x.Tuple.(*ssa.Next); ok && x.Index == 2 {
			if rg, ok := nx.Iter.(*ssa.Range); ok {
				if _, isMap := rg.X.Type().Underlying().(*types.Map); isMap {
					return c.nonNegMap(rg.X.Type(), depth)
				}
			}
		}
		return false, "tuple component of unknown sign"
	case *ssa.Parameter:
		return c.nonNegParam(x, depth)
	case *ssa.Call:
		if b, ok := x.Call.Value.(*ssa.Builtin); ok && (b.Name() == "len" || b.Name() == "cap") {
			return true, "len/cap"
		}
		name := core.CalleeFullName(x)
		if hasSuffixAny(name, nonNegPreserving) {
			for _, a := range x.Call.Args {
				if isCoinsOrCtx(a.Type()) {
					continue
				}
				if ok, why := c.nonNeg(a, depth+1); !ok {
					return false, short(name) + " of " + why
				}
			}
			return true, short(name) + " of non-negatives"
		}
		if strings.HasSuffix(name, "types.Coins).AmountOf") || strings.HasSuffix(name, "Microseconds") && false {
			return true, "sdk.Coins amount (T3)"
		}
		if callees := p.Callees(x); len(callees) == 1 && callees[0].Blocks != nil {
			cal := callees[0]
			// a small loop-free helper is evaluated for THIS call (parameters bound to the arguments here)
			small := len(cal.Blocks) <= 3 && !x.Call.IsInvoke()
			if small {
				b := map[*ssa.Parameter]ssa.Value{}
				for i, prm := range cal.Params {
					if i < len(x.Call.Args) {
						b[prm] = x.Call.Args[i]
					}
				}
				c.bind = append(c.bind, b)
			}
			n := 0
			res, why := true, ""
			for _, b := range cal.Blocks {
				ret, ok := b.Instrs[len(b.Instrs)-1].(*ssa.Return)
				if !ok || len(ret.Results) != 1 {
					continue
				}
				n++
				if ok2, w := c.nonNeg(ret.Results[0], depth+1); !ok2 {
					res, why = false, "return of "+cal.Name()+": "+w
					break
				}
			}
			if small {
				c.bind = c.bind[:len(c.bind)-1]
			}
			if !res {
				return false, why
			}
			if n > 0 {
				return true, "every return of " + cal.Name() + " non-negative"
			}
		}
		return false, "result of " + short(name)
	}
	return false, fmt.Sprintf("%T of unknown sign", v)
}

func isCoinsOrCtx(t types.Type) bool {
	s := t.String()
	return strings.HasSuffix(s, "types.Context") || s == "context.Context"
}

func (c *c05ctx) nonNegLoad(x *ssa.UnOp, depth int) (bool, string) {
	switch a := x.X.(type) {
	case *ssa.Alloc:
		n := 0
		for _, r := range *a.Referrers() {
			if st, ok := r.(*ssa.Store); ok && st.Addr == a {
				n++
				if ok2, why := c.nonNeg(st.Val, depth+1); !ok2 {
					return false, "stored value: " + why
				}
			}
		}
		if n > 0 {
			return true, "every stored value non-negative"
		}
		return true, "zero value"
	case *ssa.FreeVar:
		// captured variable: stores in the closure and its creator
		fn := a.Parent()
		idx := -1
		for i, fv := range fn.FreeVars {
			if fv == a {
				idx = i
			}
		}
		var vals []ssa.Value
		for _, r := range *a.Referrers() {
			if st, ok := r.(*ssa.Store); ok && st.Addr == a {
				vals = append(vals, st.Val)
			}
		}
		if par := fn.Parent(); par != nil && idx >= 0 {
			allInstrs(par, func(in ssa.Instruction) {
				if mc, ok := in.(*ssa.MakeClosure); ok && mc.Fn == fn && idx < len(mc.Bindings) {
					if al, ok := mc.Bindings[idx].(*ssa.Alloc); ok {
						for _, r := range *al.Referrers() {
							if st, ok := r.(*ssa.Store); ok && st.Addr == al {
								vals = append(vals, st.Val)
							}
						}
					}
				}
			})
		}
		for _, sv := range vals {
			if ok, why := c.nonNeg(sv, depth+1); !ok {
				return false, "captured variable: " + why
			}
		}
		return true, "captured accumulator of non-negatives"
	case *ssa.FieldAddr:
		name := core.FieldName(a.X.Type(), a.Field)
		if name == "Amount" && isCoinType(a.X.Type()) {
			return true, "sdk.Coin amount (T3)"
		}
		return c.nonNegField(a.X.Type(), name, x, depth)
	case *ssa.IndexAddr:
		return false, "slice element of unknown sign"
	}
	return false, "load of unknown sign"
}

// nonNegField: a field of a module parameter set (validator), or of a stored record whose writers are validated.
func (c *c05ctx) nonNegField(t types.Type, field string, v ssa.Value, depth int) (bool, string) {
	p := c.p
	tn := core.TypeName(t)
	if strings.HasSuffix(tn, "/types.Params") {
		mod := strings.Split(strings.TrimPrefix(tn, "x/"), "/")[0]
		if min, ok := p.ParamMins(mod)[field]; ok && min >= 0 {
			return true, fmt.Sprintf("Param(%s.%s) >= %d by its validator (T6)", mod, field, min)
		}
		return false, "parameter " + mod + "." + field + " has no lower-bound validator"
	}
	if tn == "x/storage/types.UnifiedFile" && (field == "FileSize" || field == "MaxProofs") {
		if c.door[field] && c.fieldWritersFromMsg(tn, field) {
			return true, "UnifiedFile." + field + " is written only from a message field validated >= 1 at the door"
		}
		return false, "UnifiedFile." + field + " is user-sized and not validated at the door"
	}
	return false, "field " + tn + "." + field + " of unknown sign"
}

// fieldWritersFromMsg: every transaction-path store into the record field takes the same-named message field.
func (c *c05ctx) fieldWritersFromMsg(typeName, field string) bool {
	p := c.p
	n := 0
	ok := true
	for fn := range c.reach {
		if p.IsGenerated(fn) {
			continue
		}
		allInstrs(fn, func(in ssa.Instruction) {
			st, isSt := in.(*ssa.Store)
			if !isSt {
				return
			}
			fa, isFa := st.Addr.(*ssa.FieldAddr)
			if !isFa || core.TypeName(fa.X.Type()) != typeName || core.FieldName(fa.X.Type(), fa.Field) != field {
				return
			}
			n++
			at := p.ProvAt(st.Val, "", st).DataAtoms()
			if !(len(at) == 1 && at[0].Kind == "param" && at[0].Path == "."+field) {
				ok = false
			}
		})
	}
	return ok && n > 0
}

func (c *c05ctx) nonNegMap(t types.Type, depth int) (bool, string) {
	n := 0
	for fn := range c.scope {
		bad := ""
		allInstrs(fn, func(in ssa.Instruction) {
			mu, ok := in.(*ssa.MapUpdate)
			if !ok || !types.Identical(mu.Map.Type(), t) {
				return
			}
			n++
			if ok2, why := c.nonNeg(mu.Value, depth+1); !ok2 {
				bad = why
			}
		})
		if bad != "" {
			return false, "map value: " + bad
		}
	}
	if n == 0 {
		return false, "map never written in scope"
	}
	return true, "every value stored in the map is non-negative"
}

func (c *c05ctx) nonNegParam(x *ssa.Parameter, depth int) (bool, string) {
	p := c.p
	fn := x.Parent()
	idx := -1
	for i, pr := range fn.Params {
		if pr == x {
			idx = i
		}
	}
	n := 0
	for _, caller := range p.CG().In[fn] {
		if !c.scope[caller] {
			continue
		}
		bad := ""
		allInstrs(caller, func(in ssa.Instruction) {
			call, ok := in.(ssa.CallInstruction)
			if !ok {
				return
			}
			for _, cal := range p.Callees(call) {
				if cal != fn {
					continue
				}
				cc := call.Common()
				var actuals []ssa.Value
				if cc.IsInvoke() {
					actuals = append(actuals, cc.Value)
				}
				actuals = append(actuals, cc.Args...)
				if idx < len(actuals) {
					n++
					if ok2, why := c.nonNeg(actuals[idx], depth+1); !ok2 {
						bad = why + " @" + p.InstrPos(call)
					}
				}
			}
		})
		if bad != "" {
			return false, "argument: " + bad
		}
	}
	if n == 0 {
		return false, "parameter with no call site in scope"
	}
	return true, "every call site passes a non-negative value"
}

var divCallees = []string{"types.Dec).Quo", "types.Dec).QuoInt64", "types.Dec).QuoInt", "types.Dec).QuoTruncate", "types.Dec).QuoRoundUp", "types.Int).Quo", "types.Int).QuoRaw", "types.Int).Mod", "types.Int).ModRaw", "types.Dec).QuoMut"}

// unwrapNum: the integer a decimal/int wrapper was built from (NewDec(n), NewDecFromInt(NewInt(n)), helper(n)).
func (c *c05ctx) unwrapNum(v ssa.Value) []ssa.Value {
	out := []ssa.Value{v}
	for i := 0; i < 6; i++ {
		call, ok := v.(*ssa.Call)
		if !ok {
			if cv, ok := v.(*ssa.Convert); ok {
				v = cv.X
				out = append(out, v)
				continue
			}
			break
		}
		name := core.CalleeFullName(call)
		if hasSuffixAny(name, []string{"types.NewDec", "types.NewDecFromInt", "types.NewInt", "types.Int).ToDec"}) && len(call.Call.Args) >= 1 {
			v = call.Call.Args[len(call.Call.Args)-1]
			out = append(out, v)
			continue
		}
		if cs := c.p.Callees(call); len(cs) == 1 && len(cs[0].Params) == 1 && len(call.Call.Args) == 1 {
			v = call.Call.Args[0]
			out = append(out, v)
			continue
		}
		break
	}
	return out
}

func (c *c05ctx) positive(v ssa.Value, at ssa.Instruction, depth int) (bool, string) {
	p := c.p
	if depth > 5 {
		return false, "depth"
	}
	cands := c.unwrapNum(v)
	for _, cv := range cands {
		if k, ok := cv.(*ssa.Const); ok && k.Value != nil {
			if n, err := strconv.ParseInt(k.Value.ExactString(), 10, 64); err == nil && n != 0 {
				return true, "non-zero constant"
			}
		}
	}
	fn := at.Parent()
	// (i) guard on the divisor or the integer it was built from
	g := func(ca *core.CondAtom, truth bool) bool {
		for _, cv := range cands {
			switch ca.Kind {
			case "cmp":
				var k *ssa.Const
				op := ca.Op
				switch {
				case core.SameValue(ca.X, cv):
					k, _ = ca.Y.(*ssa.Const)
				case core.SameValue(ca.Y, cv):
					k, _ = ca.X.(*ssa.Const)
					op = flip(op)
				default:
					continue
				}
				if k == nil || k.Value == nil {
					continue
				}
				if !truth {
					op = negate(op)
				}
				kv := k.Value.ExactString()
				if (op == token.GTR && kv == "0") || (op == token.GEQ && kv == "1") {
					return true
				}
			case "eq":
				if !truth {
					if (core.SameValue(ca.X, cv) && isZeroConst(ca.Y)) || (core.SameValue(ca.Y, cv) && isZeroConst(ca.X)) {
						return true
					}
				}
			case "callbool":
				if ca.Call != nil && !truth && strings.HasSuffix(core.CalleeFullName(ca.Call), ").IsZero") && len(ca.Call.Call.Args) > 0 && core.SameValue(ca.Call.Call.Args[0], cv) {
					return true
				}
			}
		}
		return false
	}
	if !p.ReachesUnguarded(fn, at, g) {
		return true, "guarded by a sign/zero test on every path"
	}
	// (ii)/(iii) provenance
	for _, cv := range cands {
		at2 := p.ProvAt(cv, "", at).DataAtoms()
		if len(at2) == 1 && at2[0].Kind == "params" {
			f := strings.TrimPrefix(at2[0].Path, ".")
			if min, ok := p.ParamMins(at2[0].Name)[f]; ok && min >= 1 {
				return true, fmt.Sprintf("Param(%s.%s) >= %d by its validator (T6)", at2[0].Name, f, min)
			}
			return false, "parameter " + at2[0].Name + "." + f + " is not validated positive"
		}
		// (iii) record field whose tx-path writers all assign a validated-positive parameter
		if fa := fieldAddrOf(cv); fa != nil {
			tn, field := core.TypeName(fa.X.Type()), core.FieldName(fa.X.Type(), fa.Field)
			if ok, why := c.fieldWritersPositive(tn, field); ok {
				return true, why
			}
		}
		// (iv) a parameter: every call site passes a positive value
		if prm, ok := cv.(*ssa.Parameter); ok {
			fnp := prm.Parent()
			idx := -1
			for i, x := range fnp.Params {
				if x == prm {
					idx = i
				}
			}
			n, allOK, why := 0, true, ""
			for _, caller := range p.CG().In[fnp] {
				if !c.scope[caller] && !c.reach[caller] {
					continue
				}
				allInstrs(caller, func(in ssa.Instruction) {
					call, ok := in.(ssa.CallInstruction)
					if !ok {
						return
					}
					for _, cal := range p.Callees(call) {
						if cal != fnp {
							continue
						}
						cc := call.Common()
						var actuals []ssa.Value
						if cc.IsInvoke() {
							actuals = append(actuals, cc.Value)
						}
						actuals = append(actuals, cc.Args...)
						if idx < len(actuals) {
							n++
							if ok2, w := c.positive(actuals[idx], call, depth+1); !ok2 {
								allOK, why = false, w+" @"+p.InstrPos(call)
							}
						}
					}
				})
			}
			if n > 0 && allOK {
				return true, "every call site passes a positive value"
			}
			if n > 0 {
				return false, "a call site passes " + why
			}
		}
	}
	return false, "divisor " + p.ProvAt(v, "", at).String() + " has no zero guard, positive-parameter source or positive call sites"
}

func isZeroConst(v ssa.Value) bool {
	k, ok := v.(*ssa.Const)
	return ok && k.Value != nil && k.Value.ExactString() == "0"
}

func fieldAddrOf(v ssa.Value) *ssa.FieldAddr {
	if u, ok := v.(*ssa.UnOp); ok && u.Op == token.MUL {
		if fa, ok := u.X.(*ssa.FieldAddr); ok {
			return fa
		}
	}
	return nil
}

func (c *c05ctx) fieldWritersPositive(typeName, field string) (bool, string) {
	p := c.p
	n := 0
	ok := true
	src := ""
	for fn := range c.reach {
		if p.IsGenerated(fn) {
			continue
		}
		allInstrs(fn, func(in ssa.Instruction) {
			st, isSt := in.(*ssa.Store)
			if !isSt {
				return
			}
			fa, isFa := st.Addr.(*ssa.FieldAddr)
			if !isFa || core.TypeName(fa.X.Type()) != typeName || core.FieldName(fa.X.Type(), fa.Field) != field {
				return
			}
			n++
			at := p.ProvAt(st.Val, "", st).DataAtoms()
			if len(at) == 1 && at[0].Kind == "params" {
				f := strings.TrimPrefix(at[0].Path, ".")
				if min, has := p.ParamMins(at[0].Name)[f]; has && min >= 1 {
					src = fmt.Sprintf("Param(%s.%s) >= %d", at[0].Name, f, min)
					return
				}
			}
			ok = false
		})
	}
	if ok && n > 0 {
		return true, fmt.Sprintf("%s.%s is written on transaction paths only from %s", typeName, field, src)
	}
	return false, ""
}

func c05(r *core.Run) {
	p := r.Prog
	r.Explanation = "Panic-guard analysis over every custom function reachable from the two non-empty BeginBlockers (no EndBlock does anything): each division / modulo with a non-constant divisor is guarded by a zero test on every path, or its divisor comes from a parameter whose validator enforces >= 1, from a record field written only from such a parameter, or from positive call-site arguments; each coin constructor's amount is non-negative in a small sign domain seeded by sdk.Coin amounts, validated parameters, door-validated message fields and sign guards; user-sized message fields that reach block arithmetic are validated >= 1 in ValidateBasic; no explicit panic or Must* on variable input; constant indices are guarded or index 0 of a strings.Split result. Variable-index range errors, nil dereferences, failed type assertions, SDK-internal panics, gas and memory exhaustion are not decided."
	r.Assumptions = []string{T1, T3, T6}
	r.NotDecided = []string{"variable-index out-of-range, nil dereference, failed type assertion (need value-range / nilness reasoning)", "panics inside SDK / bank / IAVL", "out-of-gas, memory exhaustion from unbounded iteration", "governance-set parameters without validators (e.g. mint denom)"}
	r.Rule("C05/R0", "scope closure: every EndBlock of the custom modules is empty; BeginBlock scope = functions reachable from the non-empty BeginBlockers")
	r.Rule("C05/R1", "divisions guarded: every Quo/Mod/'/'/'%' in scope with a non-constant divisor has a zero guard on all paths, a validated-positive parameter source (directly or through a record field), positive call-site arguments, or is a named exception")
	r.Rule("C05/R2", "coin constructors non-negative: the amount of every NewCoin/NewInt64Coin in scope is non-negative in the sign domain, or is a named exception")
	r.Rule("C05/R3", "user-sized fields validated at the door: MsgPostFile.FileSize and .MaxProofs are rejected below 1 by ValidateBasic, an overflowing product is rejected by the division form, and the wasm entry validates before calling the handler")
	r.Rule("C05/R4", "no explicit panic, no Must* on non-constant input and no slice allocation sized by anything but a constant or the length of an existing collection in scope (codec Must(Un)Marshal of stored values excepted, see C18/R1)")
	r.Rule("C05/R7", "no panicking coin subtraction: every sdk.Coins.Sub / Coin.Sub / SubAmount / DecCoins.Sub in scope lies on all paths behind an IsAllGTE / IsGTE test of the same operands")
	r.Rule("C05/R8", "block processing keeps the unbounded gas meter: no function in BeginBlock scope creates a bounded meter (NewGasMeter) or installs a meter other than a fresh NewInfiniteGasMeter with WithGasMeter / WithBlockGasMeter — a bounded meter panics with ErrorOutOfGas once the iterated state outgrows the budget, and begin-block has no recover")
	r.Rule("C05/R6", "no panicking narrowing conversion (Int.Int64, Dec.TruncateInt64, ...) in scope is applied to an accumulator — a value that depends on its own previous value through a loop or through a variable updated by a callback: such a sum grows with the state and is bounded by nothing a message validates")
	r.Rule("C05/R5", "constant indices in scope are behind a length guard, or are index 0 of a strings.Split result")
	bb, eb := p.BlockEntries()
	r.Check(len(eb) == 0, "C05/R0", "endblock:empty", "", "all six EndBlock methods are empty", fmt.Sprintf("%d EndBlock methods now do work and must enter the scope", len(eb)))
	r.Check(len(bb) == 2, "C05/R0", "beginblock:entries", "", "two non-empty BeginBlockers (jklmint, storage)", fmt.Sprintf("%d non-empty BeginBlockers", len(bb)))
	scope := p.Reachable(bb...)
	for fn := range scope {
		if p.IsGenerated(fn) {
			delete(scope, fn)
		}
	}
	reach, err := p.TxReachable()
	if err != nil {
		r.Undecided("C05/R1", "reach", "", err.Error())
		return
	}
	r.Extra["scope_functions"] = len(scope)
	r.Floor("C05/R0", len(scope), 30, "functions in BeginBlock scope")
	r.Extra["coin_subtractions_in_scope"] = coinSubtractionsGuarded(r, "C05/R7", core.SortedFuncs(scope))
	r.Extra["gas_meter_sites_in_scope"] = noBoundedMeterInBlockScope(r, "C05/R8", core.SortedFuncs(scope))
	r.Extra["narrowing_conversions_in_scope"] = narrowingOfAccumulators(r, "C05/R6", core.SortedFuncs(scope))
	c := &c05ctx{r: r, p: p, scope: scope, reach: reach, memo: map[ssa.Value]int{}, why: map[ssa.Value]string{}, door: map[string]bool{}}
	// ---- R3
	if vb := p.FuncByName("x/storage/types", "MsgPostFile", "ValidateBasic"); vb == nil {
		r.Undecided("C05/R3", "storage.MsgPostFile:ValidateBasic", "", "not found")
	} else {
		for _, f := range []string{"FileSize", "MaxProofs"} {
			ok := fieldLowerBounded(p, vb, f)
			c.door[f] = ok
			r.Check(ok, "C05/R3", "postfile:unvalidated:"+f, p.Pos(vb.Pos()), "ValidateBasic rejects "+f+" < 1", "MsgPostFile.ValidateBasic accepts zero or negative "+f+", which flows through stored files into BeginBlock arithmetic (zero network size, negative shares)")
		}
	}
	if vb := p.FuncByName("x/storage/types", "MsgPostFile", "ValidateBasic"); vb != nil {
		r.Check(productOverflowGuarded(p, vb, "FileSize", "MaxProofs"), "C05/R3", "postfile:product-overflow-checked", p.Pos(vb.Pos()), "ValidateBasic rejects FileSize > MaxInt64/MaxProofs", "MsgPostFile.ValidateBasic does not reject an overflowing FileSize*MaxProofs by the division form (a sign test of the wrapped product misses products that wrap past 2^64): the footprint charged and stored is the wrapped value")
	}
	if hs5, err := p.Handlers(); err == nil {
		wasmDoorValidated(r, "C05/R3", hs5, "storage.MsgPostFile")
	}
	funcs := core.SortedFuncs(scope)
	nDiv, nCoin, nIdx := 0, 0, 0
	for _, fn := range funcs {
		r.Analysed(core.FnName(fn))
		for _, b := range fn.Blocks {
			for _, in := range b.Instrs {
				switch x := in.(type) {
				case *ssa.BinOp:
					if (x.Op == token.QUO || x.Op == token.REM) && !isFloat(x.Type()) {
						if k, ok := x.Y.(*ssa.Const); ok && !isZeroConst(k) {
							continue
						}
						nDiv++
						ok, why := c.positive(x.Y, x, 0)
						r.Check(ok, "C05/R1", core.FnName(fn)+":div:"+divKey(p, x.Y, x), p.InstrPos(x), why, "integer division/modulo in block processing whose divisor can be zero: "+why)
					}
				case *ssa.Call:
					name := core.CalleeFullName(x)
					if hasSuffixAny(name, divCallees) {
						d := x.Call.Args[len(x.Call.Args)-1]
						if k, ok := d.(*ssa.Const); ok && !isZeroConst(k) {
							continue
						}
						nDiv++
						ok, why := c.positive(d, x, 0)
						construct := core.FnName(fn) + ":quo:" + divKey(p, d, x)
						if !ok {
							// (v) named exception: elapsed/total time of a gauge behind End > Start
							dp := p.ProvAt(d, "", x)
							isInterval := hasPathSuffix(".End")(dp) && hasPathSuffix(".Start")(dp) && dp.HasExt("time.Time).Sub")
							if isInterval {
								g1 := timeGuard(p, hasPathSuffix(".End"), hasPathSuffix(".Start"), ">=", ">")
								g2 := timeGuard(p, hasPathSuffix(".End"), hasPathSuffix(".Start"), "!=", ">", "<")
								if guardedHereOrAtCallSites(p, fn, x, g1) && guardedHereOrAtCallSites(p, fn, x, g2) {
									ok, why = true, "exception (reviewed): divisor = End − Start in microseconds, reached only behind End > Start (Before=false, Equal=false); gauges span whole days"
								}
							}
						}
						r.Check(ok, "C05/R1", construct, p.InstrPos(x), why, "decimal/integer quotient in block processing whose divisor can be zero (Quo panics, halting the chain): "+why)
					}
					if strings.HasSuffix(name, "types.NewCoin") || strings.HasSuffix(name, "types.NewInt64Coin") {
						nCoin++
						amt := x.Call.Args[1]
						ok, why := c.nonNeg(amt, 0)
						construct := core.FnName(fn) + ":coin:" + divKey(p, amt, x)
						if !ok {
							// (v) named exception: the gauge release amount
							ap := p.ProvAt(amt, "", x)
							if ap.HasExt("GetAllBalances") && hasPathSuffix(".End")(ap) && hasPathSuffix(".Start")(ap) && ap.HasCtx("BlockTime") {
								ok, why = true, "exception (reviewed): release = ratio·deposit − already released; non-negative because the gauge is funded with exactly what it records (C04/R2) and block time is monotone — numeric, outside the sign domain"
							}
						}
						r.Check(ok, "C05/R2", construct, p.InstrPos(x), why, "a coin is constructed in block processing from an amount that can be negative (NewCoin panics, halting the chain): "+why)
					}
					if b, ok := x.Call.Value.(*ssa.Builtin); ok && b.Name() == "panic" {
						r.Violation("C05/R4", core.FnName(fn)+":explicit-panic", p.InstrPos(x), "explicit panic in block processing")
					}
					if f := x.Call.StaticCallee(); f != nil && strings.HasPrefix(f.Name(), "Must") && len(p.Callees(x)) == 0 {
						allConst := true
						for _, a := range x.Call.Args {
							if _, isC := a.(*ssa.Const); !isC && !isCoinsOrCtx(a.Type()) {
								allConst = false
							}
						}
						if !allConst {
							r.Violation("C05/R4", core.FnName(fn)+":"+f.Name(), p.InstrPos(x), "Must* function called on non-constant input in block processing")
						}
					}
				case *ssa.Panic:
					r.Violation("C05/R4", core.FnName(fn)+":explicit-panic", p.InstrPos(x), "explicit panic in block processing")
				case *ssa.MakeSlice:
					// make([]T, n, c) panics ("len/cap out of range") or exhausts memory when n or c is a stored,
					// user-chosen number; sizes taken from existing collections (len/cap) and constants are fine
					tbm := core.NewTermBuilder(p)
					for _, sz := range []ssa.Value{x.Len, x.Cap} {
						if _, isC := sz.(*ssa.Const); isC {
							continue
						}
						t := tbm.Term(sz)
						okSize := strings.HasPrefix(t, "len(") || strings.HasPrefix(t, "cap(") || strings.HasPrefix(t, "(len(") || strings.HasPrefix(t, "φ") || sizeOfCollections(sz, 0)
						r.Check(okSize, "C05/R4", core.FnName(fn)+":make-size", p.InstrPos(x), "slice size taken from an existing collection", "a slice is allocated in block processing with a size that is not a constant or the length of an existing collection ("+t+"): a stored, user-chosen number there panics in makeslice (or exhausts memory) and halts the chain")
					}
				case *ssa.IndexAddr, *ssa.Index:
					var idx, base ssa.Value
					if ia, ok := x.(*ssa.IndexAddr); ok {
						idx, base = ia.Index, ia.X
					} else {
						idx, base = x.(*ssa.Index).Index, x.(*ssa.Index).X
					}
					k, ok := idx.(*ssa.Const)
					if !ok {
						continue
					}
					if _, isArr := base.Type().Underlying().(*types.Pointer); isArr {
						continue // fixed-size array (varargs literal)
					}
					if _, isArr := base.Type().Underlying().(*types.Array); isArr {
						continue
					}
					nIdx++
					kv := k.Value.ExactString()
					okI := false
					why := ""
					if call, isCall := base.(*ssa.Call); isCall && kv == "0" && strings.HasSuffix(core.CalleeFullName(call), "strings.Split") {
						okI, why = true, "index 0 of a strings.Split result (always at least one element)"
					} else {
						g := func(ca *core.CondAtom, truth bool) bool {
							if ca.Kind != "cmp" {
								return false
							}
							isLen := func(v ssa.Value) bool {
								cl, ok := v.(*ssa.Call)
								if !ok {
									return false
								}
								b, ok := cl.Call.Value.(*ssa.Builtin)
								return ok && b.Name() == "len" && core.SameValue(cl.Call.Args[0], base)
							}
							return isLen(ca.X) || isLen(ca.Y)
						}
						if !p.ReachesUnguarded(fn, x, g) {
							okI, why = true, "behind a length test"
						}
					}
					r.Check(okI, "C05/R5", core.FnName(fn)+":const-index:"+kv, p.InstrPos(x), why, "constant index "+kv+" on a slice/string in block processing without a length guard")
				}
			}
		}
	}
	r.Floor("C05/R1", nDiv, 4, "non-constant divisions in scope")
	r.Floor("C05/R2", nCoin, 4, "coin constructors in scope")
	r.Extra["constant_index_sites"] = nIdx
	r.Ok("C05/R4", "scope:no-panic-census", "", fmt.Sprintf("%d functions scanned for explicit panics and Must* on variable input", len(funcs)))
}

// divKey gives a stable semantic key for a site: the sorted data atoms of the operand.
func divKey(p *core.Program, v ssa.Value, at ssa.Instruction) string {
	var parts []string
	for _, a := range p.ProvAt(v, "", at).DataAtoms() {
		s := a.String()
		if a.Kind == "param" {
			s = "arg" + strconv.Itoa(a.Idx) + a.Path
		}
		parts = append(parts, s)
	}
	if len(parts) > 4 {
		parts = parts[:4]
	}
	return strings.Join(parts, "+")
}

// sizeOfCollections: the size is computed from lengths of existing collections and constants only: len / cap, sums and
// constant multiples of such, the encoded-length helpers of the encoding packages applied to such.
func sizeOfCollections(v ssa.Value, depth int) bool {
	if depth > 8 {
		return false
	}
	switch x := v.(type) {
	case *ssa.Const:
		return true
	case *ssa.Convert:
		return sizeOfCollections(x.X, depth+1)
	case *ssa.BinOp:
		switch x.Op {
		case token.ADD:
			return sizeOfCollections(x.X, depth+1) && sizeOfCollections(x.Y, depth+1)
		case token.MUL:
			_, cx := x.X.(*ssa.Const)
			_, cy := x.Y.(*ssa.Const)
			return (cx || cy) && sizeOfCollections(x.X, depth+1) && sizeOfCollections(x.Y, depth+1)
		}
	case *ssa.Call:
		if b, ok := x.Call.Value.(*ssa.Builtin); ok {
			return b.Name() == "len" || b.Name() == "cap"
		}
		name := core.CalleeFullName(x)
		if strings.HasPrefix(name, "encoding/") && strings.HasSuffix(name, "EncodedLen") && len(x.Call.Args) >= 1 {
			return sizeOfCollections(x.Call.Args[len(x.Call.Args)-1], depth+1)
		}
	}
	return false
}

// noBoundedMeterInBlockScope: begin-block runs on the infinite gas meter the SDK installs; store reads there are
// charged but can never exhaust it. A bounded meter created or installed inside the scope turns the size of the
// iterated state (user-controlled: number and size of stored records) into a panic in gaskv.
func noBoundedMeterInBlockScope(r *core.Run, rule string, funcs []*ssa.Function) int {
	p := r.Prog
	n := 0
	for _, fn := range funcs {
		allInstrs(fn, func(in ssa.Instruction) {
			c, ok := in.(ssa.CallInstruction)
			if !ok {
				return
			}
			name := core.CalleeFullName(c)
			switch {
			case strings.HasSuffix(name, ".NewGasMeter"):
				n++
				r.Violation(rule, core.FnName(fn)+":bounded-gas-meter", p.InstrPos(in), "a bounded gas meter is created in block processing: every store read under it is charged and the meter panics (ErrorOutOfGas) once the state read outgrows the budget; begin-block has no recover, so the chain halts")
			case strings.HasSuffix(name, "Context).WithGasMeter") || strings.HasSuffix(name, "Context).WithBlockGasMeter"):
				n++
				args := c.Common().Args
				arg := args[len(args)-1]
				for i := 0; i < 4; i++ {
					if mi, ok := arg.(*ssa.MakeInterface); ok {
						arg = mi.X
					} else if ci, ok := arg.(*ssa.ChangeInterface); ok {
						arg = ci.X
					} else {
						break
					}
				}
				inf := false
				if ac, ok := arg.(*ssa.Call); ok && strings.HasSuffix(core.CalleeFullName(ac), ".NewInfiniteGasMeter") {
					inf = true
				}
				r.Check(inf, rule, core.FnName(fn)+":installs-gas-meter", p.InstrPos(in), "the installed meter is a fresh infinite meter", "block processing installs a gas meter that is not a fresh NewInfiniteGasMeter: if it is bounded, reading the state panics once it outgrows the budget")
			}
		})
	}
	r.Ok(rule, "scope:no-bounded-meter", "", fmt.Sprintf("%d functions in BeginBlock scope examined, %d gas-meter sites", len(funcs), n))
	return n
}
