package rules

import (
	"fmt"
	"go/token"
	"go/types"
	"sort"
	"strings"

	"golang.org/x/tools/go/ssa"

	"jklcheck/core"
)

func init() { registry["C06"] = c06 }

// consensusScope: functions reachable from Msg handlers, block entries, genesis init, the wasm dispatcher and
// every function of the upgrade packages.
func consensusScope(p *core.Program) (map[*ssa.Function]bool, []string, error) {
	hs, err := p.Handlers()
	if err != nil {
		return nil, nil, err
	}
	var roots []*ssa.Function
	var names []string
	for _, h := range hs {
		roots = append(roots, h.Fn)
	}
	names = append(names, fmt.Sprintf("%d Msg handlers", len(hs)))
	bb, eb := p.BlockEntries()
	roots = append(roots, bb...)
	roots = append(roots, eb...)
	names = append(names, fmt.Sprintf("%d BeginBlock/EndBlock entries", len(bb)+len(eb)))
	for _, m := range core.CustomModules {
		if ig, _ := p.GenesisEntries(m); ig != nil {
			roots = append(roots, ig)
		}
	}
	names = append(names, "InitGenesis of 6 modules")
	if f := p.FuncByName("wasmbinding", "CustomMessenger", "DispatchMsg"); f != nil {
		roots = append(roots, f)
		names = append(names, "wasm DispatchMsg")
	}
	nUp := 0
	for _, fn := range p.Funcs {
		pp := core.RelPkg(core.FnPkgPath(fn))
		if (strings.HasPrefix(pp, "app/upgrades") || strings.Contains(pp, "/legacy")) && !strings.Contains(p.Pos(fn.Pos()), "_test.go") && fn.Synthetic == "" {
			roots = append(roots, fn)
			nUp++
		}
	}
	names = append(names, fmt.Sprintf("%d upgrade/migration functions", nUp))
	reach := p.Reachable(roots...)
	for fn := range reach {
		if p.IsGenerated(fn) || core.IsTestSupportPkg(core.FnPkgPath(fn)) || strings.Contains(core.FnPkgPath(fn), "/client/") {
			delete(reach, fn)
		}
	}
	return reach, names, nil
}

var forbiddenCalls = []struct{ sub, why string }{
	{"time.Now", "wall-clock time"}, {"time.Since", "wall-clock time"}, {"time.Until", "wall-clock time"},
	{"math/rand.", "process-local randomness (package-level math/rand)"},
	{"crypto/rand.", "process-local randomness"},
	{"os.Getenv", "process environment"}, {"os.ReadFile", "local file system"}, {"os.Open", "local file system"}, {"os.Hostname", "host identity"},
	{"net/http.", "network"}, {"net.Dial", "network"},
	{"uuid.New", "random identifier"},
	{"runtime.NumGoroutine", "scheduler state"}, {"runtime.NumCPU", "host identity"},
}

// package-level draws of tendermint libs/rand and math/rand (global generator seeded from crypto/rand)
var globalRandDraws = map[string]bool{"Int": true, "Intn": true, "Int31": true, "Int31n": true, "Int63": true, "Int63n": true, "Uint32": true, "Uint64": true,
	"Float32": true, "Float64": true, "Perm": true, "Shuffle": true, "Str": true, "Bytes": true, "Uint16": true, "Int16": true, "Time": true, "Bool": true, "Uint": true, "Int32": true, "Int64": true}

// hostZoneTime: the call returns a time.Time whose location is the host's (time.Local) or an arbitrary loaded one.
func hostZoneTime(name string, call ssa.CallInstruction) bool {
	switch name {
	case "time.Unix", "time.UnixMilli", "time.UnixMicro", "(time.Time).Local", "time.ParseInLocation", "time.LoadLocation":
		return true
	case "(time.Time).In", "time.Date":
		args := call.Common().Args
		loc := args[len(args)-1]
		if u, ok := loc.(*ssa.UnOp); ok {
			if g, ok := u.X.(*ssa.Global); ok && g.Name() == "UTC" && g.Pkg.Pkg.Path() == "time" {
				return false
			}
		}
		return true
	}
	return false
}

func c06(r *core.Run) {
	p := r.Prog
	r.Explanation = "Determinism lint over every custom function reachable from consensus entry points (Msg handlers, BeginBlock, InitGenesis, wasm dispatcher, upgrade/migration code): no call to a nondeterministic source (wall clock except as a telemetry argument, process-global or crypto randomness, environment, files, network, goroutines, select); every range over a Go map has an order-insensitive body (or fills a slice that is sorted before use); every random generator object is seeded, on all paths before its first draw, from consensus data only; no float-typed value flows anywhere but logging/telemetry; no stored or emitted proto type has a map field; no custom wasm query plugin exists (gRPC queries are not consensus code)."
	r.Assumptions = []string{T4, T5, "determinism of third-party libraries (SDK, tendermint, go-merkletree)"}
	r.NotDecided = []string{"determinism of third-party libraries", "gas accounting equality"}
	r.Rule("C06/R0", "gRPC/CLI queries are not consensus code: no custom wasm query plugin is registered")
	r.Rule("C06/R1", "no forbidden source in scope: time.Now/Since (unless only a telemetry argument), package-level rand draws, crypto/rand, os env/files, net, uuid, go statements, select, %p formatting, times in the host's zone (time.Unix*, Local, In/Date with a non-UTC location) unless used only through zone-independent methods")
	r.Rule("C06/R2", "every range over a map in scope is order-insensitive: the body only updates maps, accumulates integers, deletes, or fills a slice that is sorted before any other use")
	r.Rule("C06/R3", "RNG typestate: every generator drawn from in scope is created locally and Seed()ed before the first draw on all paths, with a seed ⊵ only Ctx.*, constants, parameters and store values")
	r.Rule("C06/R4", "no float reaches state: float-typed values flow only into logging / telemetry / formatting")
	r.Rule("C06/R6", "no process-local state: consensus code writes no package-level variable and nothing reachable from a Keeper field; every module's GetParams is a faithful read of the parameter store (no cache, no defaults)")
	r.Rule("C06/R5", "no proto map<> field in a type marshalled to the store")
	scope, rootNames, err := consensusScope(p)
	if err != nil {
		r.Undecided("C06/R1", "scope", "", err.Error())
		return
	}
	r.Extra["scope_roots"] = rootNames
	r.Extra["scope_functions"] = len(scope)
	funcs := core.SortedFuncs(scope)
	r.Floor("C06/R1", len(funcs), 250, "functions in consensus scope")
	// ---- R0
	plug := ""
	for _, fn := range p.Funcs {
		if !strings.HasPrefix(core.RelPkg(core.FnPkgPath(fn)), "wasmbinding") && core.RelPkg(core.FnPkgPath(fn)) != "app" {
			continue
		}
		allInstrs(fn, func(in ssa.Instruction) {
			if c, ok := in.(ssa.CallInstruction); ok {
				n := core.CalleeFullName(c)
				if strings.Contains(n, "WithQueryPlugins") || strings.Contains(n, "WithQueryHandler") {
					plug = p.InstrPos(in)
				}
			}
		})
	}
	r.Check(plug == "", "C06/R0", "wasm:no-custom-query-plugin", plug, "no custom wasm query plugin: query code is outside consensus", "a custom wasm query plugin is registered: gRPC query code becomes consensus code and must be in scope")
	// ---- R1
	nCalls := 0
	for _, fn := range funcs {
		r.Analysed(core.FnName(fn))
		for _, b := range fn.Blocks {
			for _, in := range b.Instrs {
				switch x := in.(type) {
				case *ssa.Go:
					r.Violation("C06/R1", core.FnName(fn)+":go-statement", p.InstrPos(in), "goroutine started on a consensus path (scheduling nondeterminism)")
				case *ssa.Select:
					r.Violation("C06/R1", core.FnName(fn)+":select", p.InstrPos(in), "select on a consensus path (scheduling nondeterminism)")
				case ssa.CallInstruction:
					nCalls++
					name := core.CalleeFullName(x)
					if name == "" {
						continue
					}
					for _, fc := range forbiddenCalls {
						if !strings.Contains(name, fc.sub) {
							continue
						}
						if strings.HasPrefix(fc.sub, "time.") && onlyTelemetryUse(x) {
							r.Trivial("C06/R1", core.FnName(fn)+":time.Now-for-telemetry", p.InstrPos(in), "accepted idiom: wall clock used only as a telemetry argument")
							continue
						}
						r.Violation("C06/R1", core.FnName(fn)+":"+fc.sub, p.InstrPos(in), "call of "+short(name)+" on a consensus path: "+fc.why)
					}
					// package-level draws of the tendermint / math global generator
					if f := x.Common().StaticCallee(); f != nil && f.Signature.Recv() == nil && globalRandDraws[f.Name()] &&
						(strings.HasSuffix(core.FnPkgPath(f), "tendermint/libs/rand") || core.FnPkgPath(f) == "math/rand") {
						r.Violation("C06/R1", core.FnName(fn)+":global-rand."+f.Name(), p.InstrPos(in), "draw from the process-global random generator (seeded from crypto/rand) on a consensus path")
					}
					// a time.Time carrying the host's time zone
					if hostZoneTime(name, x) {
						zoneFree := map[string]bool{"UTC": true, "Unix": true, "UnixNano": true, "UnixMilli": true, "UnixMicro": true, "Before": true, "After": true, "Equal": true, "Sub": true, "Add": true, "IsZero": true, "Compare": true}
						leak := ""
						if v, ok := in.(ssa.Value); ok && v.Referrers() != nil {
							for _, ref := range *v.Referrers() {
								rc, isCall := ref.(ssa.CallInstruction)
								if isCall {
									if f := rc.Common().StaticCallee(); f != nil && f.Signature.Recv() != nil && zoneFree[f.Name()] && len(rc.Common().Args) > 0 && rc.Common().Args[0] == v {
										continue
									}
								}
								if _, isDbg := ref.(*ssa.DebugRef); isDbg {
									continue
								}
								leak = p.InstrPos(ref)
							}
						}
						if leak != "" {
							r.Violation("C06/R1", core.FnName(fn)+":host-time-zone:"+short(name), p.InstrPos(in), short(name)+" yields a time in the host's local zone and the value is used by something other than a zone-independent method (at "+leak+"): calendar arithmetic, formatting and stored bytes then differ between nodes in different zones")
						} else {
							r.Trivial("C06/R1", core.FnName(fn)+":host-time-zone-neutralised", p.InstrPos(in), "local-zone time used only through zone-independent methods (UTC, Unix, Before, ...)")
						}
					}
					// %p formatting
					if name == "fmt.Sprintf" || name == "fmt.Errorf" || name == "fmt.Printf" {
						if f, complete, ok := p.ConstPrefix(x.Common().Args[0]); ok && complete && strings.Contains(f, "%p") {
							r.Violation("C06/R1", core.FnName(fn)+":%p", p.InstrPos(in), "pointer value formatted on a consensus path")
						}
					}
				}
			}
		}
	}
	r.CallSites(nCalls)
	r.Ok("C06/R1", "scope:forbidden-sources-census", "", fmt.Sprintf("%d call sites in %d functions examined", nCalls, len(funcs)))
	// ---- R6 no state outside the stores; parameter getters are faithful reads
	processLocalState(r, "C06/R6", funcs)
	for _, m := range core.CustomModules {
		paramsGetterFaithful(r, "C06/R6", m)
	}
	// ---- R2 map ranges
	nRange := 0
	for _, fn := range funcs {
		for _, b := range fn.Blocks {
			for _, in := range b.Instrs {
				rg, ok := in.(*ssa.Range)
				if !ok {
					continue
				}
				if _, isMap := rg.X.Type().Underlying().(*types.Map); !isMap {
					continue
				}
				nRange++
				bad := mapRangeOrderSensitive(p, fn, rg)
				r.Check(bad == "", "C06/R2", core.FnName(fn)+":map-range", p.InstrPos(in), "order-insensitive body (map updates / integer accumulation / sorted slice)", "range over a Go map whose body is order-sensitive: "+bad+" — results depend on Go's random map iteration order")
			}
		}
	}
	r.Floor("C06/R2", nRange, 1, "map ranges in scope")
	// ---- R3 RNG typestate
	nDraw := 0
	for _, fn := range funcs {
		allInstrs(fn, func(in ssa.Instruction) {
			c, ok := in.(*ssa.Call)
			if !ok {
				return
			}
			f := c.Call.StaticCallee()
			if f == nil || f.Signature.Recv() == nil || !strings.HasSuffix(f.Signature.Recv().Type().String(), "rand.Rand") || f.Name() == "Seed" {
				return
			}
			if !globalRandDraws[f.Name()] {
				return
			}
			nDraw++
			recv := c.Call.Args[0]
			ctor, okc := recv.(*ssa.Call)
			if !okc || !(strings.HasSuffix(core.CalleeFullName(ctor), "rand.NewRand") || strings.HasSuffix(core.CalleeFullName(ctor), "rand.New")) {
				r.Violation("C06/R3", core.FnName(fn)+":rng-not-local", p.InstrPos(c), "a random draw on a consensus path uses a generator that is not created locally")
				return
			}
			// a Seed call on the same generator must precede the draw on all paths
			var seed *ssa.Call
			for _, ref := range *ctor.Referrers() {
				if sc, ok := ref.(*ssa.Call); ok {
					if sf := sc.Call.StaticCallee(); sf != nil && sf.Name() == "Seed" && precedesAlways(fn, sc, c) {
						seed = sc
					}
				}
			}
			if seed == nil {
				r.Violation("C06/R3", core.FnName(fn)+":rng-unseeded", p.InstrPos(c), "random draw from a generator that is not re-seeded on every path before the draw (NewRand seeds from crypto/rand): nodes disagree")
				return
			}
			sp := p.ProvAt(seed.Call.Args[1], "", seed)
			// the seed handed in by the callers of a shuffling helper: judged at every call site
			for hop := 0; hop < 3; hop++ {
				next := core.Prov{}
				changed := false
				for k, a := range sp {
					if a.Kind == "param" && a.Fn.Signature.Recv() == nil && len(p.CG().In[a.Fn]) > 0 {
						if up := p.CallerArgProv(a.Fn, a.Idx, a.Path); len(up) > 0 {
							for k2, a2 := range up {
								next[k2] = a2
							}
							changed = true
							continue
						}
					}
					next[k] = a
				}
				sp = next
				if !changed {
					break
				}
			}
			okSeed := true
			var srcs []string
			for _, a := range sp {
				srcs = append(srcs, a.String())
				switch a.Kind {
				case "ctx", "const", "store", "params", "zero":
				case "ext":
					if !(strings.Contains(a.Name, "GasMeter") || strings.Contains(a.Name, "GasConsumed")) {
						okSeed = false
					}
				default:
					okSeed = false
				}
			}
			sort.Strings(srcs)
			r.Check(okSeed, "C06/R3", core.FnName(fn)+":rng-seed", p.InstrPos(seed), "seed ⊵ "+strings.Join(srcs, ", "), "the generator is seeded from something other than consensus data: "+strings.Join(srcs, ", "))
		})
	}
	r.Floor("C06/R3", nDraw, 3, "random draws in scope")
	// ---- R4 floats
	nFloat := 0
	for _, fn := range funcs {
		allInstrs(fn, func(in ssa.Instruction) {
			v, ok := in.(ssa.Value)
			if !ok || !isFloat(v.Type()) {
				return
			}
			nFloat++
			if sink := floatSink(v, map[ssa.Value]bool{}, 0); sink != "" {
				r.Violation("C06/R4", core.FnName(fn)+":float-flow", p.InstrPos(in), "a floating-point value flows to "+sink+" on a consensus path (floating point is not bit-reproducible across platforms)")
			} else {
				r.Ok("C06/R4", core.FnName(fn)+":float-contained", p.InstrPos(in), "float used only for logging/telemetry/formatting")
			}
		})
	}
	r.Extra["float_values_in_scope"] = nFloat
	// ---- R5 proto maps
	pt := p.PrefixTypes(consensusFuncs(p))
	nTypes := 0
	for _, name := range sortedKeysOf(pt) {
		for _, tn := range sortedKeysOf(pt[name]) {
			if strings.HasPrefix(tn, "raw:") {
				continue
			}
			i := strings.LastIndex(tn, ".")
			nt := p.NamedType(tn[:i], tn[i+1:])
			if nt == nil {
				continue
			}
			nTypes++
			if f := mapFieldOf(nt.Underlying(), map[types.Type]bool{}); f != "" {
				r.Violation("C06/R5", "stored-type-has-map:"+tn, "", "stored type "+tn+" has a map field ("+f+"): proto map encoding order is not deterministic")
			} else {
				r.Ok("C06/R5", "stored-type:"+tn, "", "no map field")
			}
		}
	}
	r.Floor("C06/R5", nTypes, 15, "stored proto types")
}

func isFloat(t types.Type) bool {
	b, ok := t.Underlying().(*types.Basic)
	return ok && b.Info()&types.IsFloat != 0
}

// onlyTelemetryUse: every use of the call's result is an argument of a telemetry function.
func onlyTelemetryUse(c ssa.CallInstruction) bool {
	v, ok := c.(ssa.Value)
	if !ok || v.Referrers() == nil || len(*v.Referrers()) == 0 {
		return false
	}
	for _, r := range *v.Referrers() {
		ci, ok := r.(ssa.CallInstruction)
		if !ok || !strings.Contains(core.CalleeFullName(ci), "cosmos-sdk/telemetry.") {
			return false
		}
	}
	return true
}

func floatSink(v ssa.Value, seen map[ssa.Value]bool, depth int) string {
	if seen[v] || v.Referrers() == nil || depth > 20 {
		return ""
	}
	seen[v] = true
	for _, r := range *v.Referrers() {
		switch x := r.(type) {
		case *ssa.DebugRef:
		case ssa.CallInstruction:
			n := core.CalleeFullName(x)
			if strings.HasPrefix(n, "fmt.") || strings.Contains(n, "telemetry.") || strings.Contains(n, "Logger") || strings.HasPrefix(n, "math.") || strings.HasPrefix(n, "(*math/big.") || strings.Contains(n, "log.") {
				if strings.HasPrefix(n, "math.") || strings.HasPrefix(n, "(*math/big.") {
					if cv, ok := x.(ssa.Value); ok {
						if s := floatSink(cv, seen, depth+1); s != "" {
							return s
						}
					}
				}
				continue
			}
			return "call of " + short(n)
		case *ssa.MakeInterface, *ssa.Convert, *ssa.BinOp, *ssa.UnOp, *ssa.Phi, *ssa.ChangeType:
			if s := floatSink(x.(ssa.Value), seen, depth+1); s != "" {
				return s
			}
		case *ssa.Store:
			if al, ok := x.Addr.(*ssa.Alloc); ok {
				// varargs array / local: follow the alloc
				if s := floatSink(al, seen, depth+1); s != "" {
					return s
				}
				continue
			}
			if ia, ok := x.Addr.(*ssa.IndexAddr); ok {
				if s := floatSink(ia.X, seen, depth+1); s != "" {
					return s
				}
				continue
			}
			return "a store into memory"
		case *ssa.IndexAddr, *ssa.Slice, *ssa.FieldAddr:
			if s := floatSink(x.(ssa.Value), seen, depth+1); s != "" {
				return s
			}
		case *ssa.Return:
			return "a function result"
		case *ssa.If:
			return "a branch condition"
		default:
			return fmt.Sprintf("%T", r)
		}
	}
	return ""
}

func mapFieldOf(t types.Type, seen map[types.Type]bool) string {
	if seen[t] {
		return ""
	}
	seen[t] = true
	switch x := t.(type) {
	case *types.Struct:
		for i := 0; i < x.NumFields(); i++ {
			f := x.Field(i)
			if strings.HasPrefix(f.Name(), "XXX_") {
				continue
			}
			if _, ok := f.Type().Underlying().(*types.Map); ok {
				return f.Name()
			}
			if s := mapFieldOf(f.Type().Underlying(), seen); s != "" {
				return f.Name() + "." + s
			}
		}
	case *types.Pointer:
		return mapFieldOf(x.Elem().Underlying(), seen)
	case *types.Slice:
		return mapFieldOf(x.Elem().Underlying(), seen)
	}
	return ""
}

// mapRangeOrderSensitive returns "" when the body of the map range is order-insensitive.
func mapRangeOrderSensitive(p *core.Program, fn *ssa.Function, rg *ssa.Range) string {
	// loop blocks: same SCC as the block of the Next instruction
	var next *ssa.Next
	for _, r := range *rg.Referrers() {
		if n, ok := r.(*ssa.Next); ok {
			next = n
		}
	}
	if next == nil {
		return ""
	}
	for _, b := range fn.Blocks {
		if !core.SameLoop(next.Block(), b) {
			continue
		}
		for _, in := range b.Instrs {
			switch x := in.(type) {
			case *ssa.BinOp:
				// integer accumulation commutes; string concatenation does not
				if bt, ok := x.Type().Underlying().(*types.Basic); ok && bt.Info()&types.IsString != 0 && x.Op == token.ADD {
					return "it concatenates strings in iteration order @" + p.InstrPos(in)
				}
			case *ssa.Next, *ssa.Extract, *ssa.Phi, *ssa.If, *ssa.Jump, *ssa.MapUpdate, *ssa.Lookup, *ssa.UnOp, *ssa.DebugRef, *ssa.Convert, *ssa.ChangeType, *ssa.FieldAddr, *ssa.Field:
			case *ssa.IndexAddr:
				if al, local := x.X.(*ssa.Alloc); local && (al.Block() == b || core.SameLoop(al.Block(), next.Block())) {
					continue // an array created in this iteration (the variadic argument of append)
				}
				// element address of a slice: the slice must be sorted before use
				if !sliceSortedLater(p, fn, x.X, nil) {
					return "it fills a slice in iteration order without sorting it @" + p.InstrPos(in)
				}
			case *ssa.Store:
				// a store into memory created in this iteration (a local, a composite literal, append's variadic array)
				root := x.Addr
				for {
					if fa, ok := root.(*ssa.FieldAddr); ok {
						root = fa.X
						continue
					}
					if ia, ok := root.(*ssa.IndexAddr); ok {
						if _, isAlloc := ia.X.(*ssa.Alloc); isAlloc {
							root = ia.X
							continue
						}
					}
					break
				}
				if al, ok := root.(*ssa.Alloc); ok {
					// a plain local variable, or memory created in this very iteration; an array / record that outlives
					// the iteration and is filled element by element is order-sensitive
					if root == x.Addr || al.Block() == b || core.SameLoop(al.Block(), next.Block()) {
						continue
					}
				}
				if ia, ok := x.Addr.(*ssa.IndexAddr); ok {
					if !sliceSortedLater(p, fn, ia.X, nil) {
						return "it fills a slice in iteration order without sorting it @" + p.InstrPos(in)
					}
					continue
				}
				return "it stores into shared memory @" + p.InstrPos(in)
			case ssa.CallInstruction:
				c := x.Common()
				if b, ok := c.Value.(*ssa.Builtin); ok {
					switch b.Name() {
					case "delete", "len", "cap", "min", "max":
						continue
					case "append":
						v, _ := x.(ssa.Value)
						if v != nil && sliceSortedLater(p, fn, v, keyFieldsOfAppend(x, next)) {
							continue
						}
						return "it appends to a slice in iteration order without sorting it @" + p.InstrPos(in)
					}
				}
				name := core.CalleeFullName(x)
				writes := false
				for _, cal := range p.Callees(x) {
					if p.Summary(cal).Writes() {
						writes = true
					}
				}
				if writes || strings.Contains(name, "EmitEvent") || strings.Contains(name, "Keeper).") || strings.Contains(name, "fmt.Sprintf") {
					return "it calls " + short(name) + " in iteration order @" + p.InstrPos(in)
				}
			}
		}
	}
	return ""
}

// keyFieldsOfAppend: the fields of the appended struct element that hold the map key of this iteration (map keys are
// distinct, so a sort comparing that field of two elements is total).
func keyFieldsOfAppend(app ssa.CallInstruction, next *ssa.Next) map[int]bool {
	out := map[int]bool{}
	args := app.Common().Args
	if len(args) != 2 {
		return out
	}
	sl, ok := args[1].(*ssa.Slice)
	if !ok {
		return out
	}
	arr, ok := sl.X.(*ssa.Alloc)
	if !ok || arr.Referrers() == nil {
		return out
	}
	isKey := func(v ssa.Value) bool {
		ex, ok := v.(*ssa.Extract)
		return ok && ex.Tuple == ssa.Value(next) && ex.Index == 1
	}
	var scan func(addr ssa.Value)
	scan = func(addr ssa.Value) {
		if addr.Referrers() == nil {
			return
		}
		for _, r := range *addr.Referrers() {
			switch x := r.(type) {
			case *ssa.IndexAddr:
				scan(x)
			case *ssa.FieldAddr:
				for _, rr := range *x.Referrers() {
					if st, ok := rr.(*ssa.Store); ok && st.Addr == x && isKey(st.Val) {
						out[x.Field] = true
					}
				}
			case *ssa.Store:
				// the element stored as a whole: a composite literal built in a local
				if ld, ok := x.Val.(*ssa.UnOp); ok && x.Addr == addr {
					if al, ok := ld.X.(*ssa.Alloc); ok {
						scan(al)
					}
				}
			}
		}
	}
	scan(arr)
	return out
}

func sliceSortedLater(p *core.Program, fn *ssa.Function, sl ssa.Value, keyFields map[int]bool) bool {
	// the slice value (or the phi web it belongs to) is passed to a sort function in this function
	seen := map[ssa.Value]bool{}
	var found bool
	var walk func(v ssa.Value)
	walk = func(v ssa.Value) {
		if seen[v] || v.Referrers() == nil {
			return
		}
		seen[v] = true
		for _, r := range *v.Referrers() {
			switch x := r.(type) {
			case *ssa.Phi:
				walk(x)
			case *ssa.MakeInterface:
				walk(x)
			case *ssa.Slice:
				walk(x)
			case ssa.CallInstruction:
				n := core.CalleeFullName(x)
				if strings.HasPrefix(n, "slices.Sort") || strings.HasPrefix(n, "sort.") {
					if sortIsTotal(x, n, keyFields) {
						found = true
					}
				}
				if b, ok := x.Common().Value.(*ssa.Builtin); ok && b.Name() == "append" {
					if v2, ok := x.(ssa.Value); ok {
						walk(v2)
					}
				}
			}
		}
	}
	walk(sl)
	return found
}

// sortIsTotal: natural-order sorts are total on distinct map keys; comparator-based sorts are accepted only if the
// comparator compares the two elements themselves (directly, or as slice elements at its two indices) — a
// comparator that only looks at derived values leaves ties in map-iteration order.
func sortIsTotal(call ssa.CallInstruction, name string, keyFields map[int]bool) bool {
	base := name
	if i := strings.Index(base, "["); i >= 0 {
		base = base[:i]
	}
	switch base {
	case "slices.Sort", "sort.Strings", "sort.Ints", "sort.Float64s", "slices.SortStable":
		return true
	case "slices.SortFunc", "slices.SortStableFunc", "sort.Slice", "sort.SliceStable":
	default:
		return false
	}
	args := call.Common().Args
	if len(args) < 2 {
		return false
	}
	var cmpFn *ssa.Function
	switch v := args[1].(type) {
	case *ssa.MakeClosure:
		cmpFn, _ = v.Fn.(*ssa.Function)
	case *ssa.Function:
		cmpFn = v
	case *ssa.ChangeType:
		if mc, ok := v.X.(*ssa.MakeClosure); ok {
			cmpFn, _ = mc.Fn.(*ssa.Function)
		} else if f, ok := v.X.(*ssa.Function); ok {
			cmpFn = f
		}
	}
	if cmpFn == nil || cmpFn.Blocks == nil || len(cmpFn.Params) != 2 {
		return false
	}
	a, b := ssa.Value(cmpFn.Params[0]), ssa.Value(cmpFn.Params[1])
	isElem := func(v ssa.Value, idx ssa.Value) bool {
		if v == idx {
			return true
		}
		// the field of the element that holds the (distinct) map key
		if f, ok := v.(*ssa.Field); ok && f.X == idx && keyFields[f.Field] {
			return true
		}
		if ld, ok := v.(*ssa.UnOp); ok {
			if fa, ok := ld.X.(*ssa.FieldAddr); ok && keyFields[fa.Field] {
				if al, ok := fa.X.(*ssa.Alloc); ok {
					// parameter spilled to a local: its only whole-store is the parameter
					for _, r := range *al.Referrers() {
						if st, ok := r.(*ssa.Store); ok && st.Addr == al && st.Val == idx {
							return true
						}
					}
				}
			}
		}
		if ld, ok := v.(*ssa.UnOp); ok {
			if ia, ok := ld.X.(*ssa.IndexAddr); ok && ia.Index == idx {
				return true
			}
		}
		return false
	}
	direct := false
	for _, blk := range cmpFn.Blocks {
		for _, in := range blk.Instrs {
			switch x := in.(type) {
			case *ssa.BinOp:
				if (isElem(x.X, a) && isElem(x.Y, b)) || (isElem(x.X, b) && isElem(x.Y, a)) {
					direct = true
				}
			case *ssa.Call:
				n := core.CalleeFullName(x)
				if (strings.HasPrefix(n, "cmp.Compare") || n == "strings.Compare") && len(x.Call.Args) == 2 {
					if (isElem(x.Call.Args[0], a) && isElem(x.Call.Args[1], b)) || (isElem(x.Call.Args[0], b) && isElem(x.Call.Args[1], a)) {
						direct = true
					}
				}
			}
		}
	}
	return direct
}
