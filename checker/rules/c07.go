package rules

import (
	"fmt"
	"go/token"
	"strings"

	"golang.org/x/tools/go/ssa"

	"jklcheck/core"
)

const stPay = "storage/StoragePaymentInfo/value/"

func init() { registry["C07"] = c07 }

// storedFieldValue returns the value last assigned to field `name` of the local record passed (by load) as rec.
func recordAlloc(rec ssa.Value) *ssa.Alloc {
	if ld, ok := rec.(*ssa.UnOp); ok && ld.Op == token.MUL {
		if al, ok := ld.X.(*ssa.Alloc); ok {
			return al
		}
	}
	return nil
}

func fieldStores(al *ssa.Alloc, name string) []*ssa.Store {
	var out []*ssa.Store
	for _, ref := range *al.Referrers() {
		if fa, ok := ref.(*ssa.FieldAddr); ok && core.FieldName(fa.X.Type(), fa.Field) == name {
			for _, rr := range *fa.Referrers() {
				if st, ok := rr.(*ssa.Store); ok && st.Addr == fa {
					out = append(out, st)
				}
			}
		}
	}
	return out
}

func c07(r *core.Run) {
	p := r.Prog
	r.Explanation = "Static rules over the writers of the plan record (StoragePaymentInfo) and the removers of stored files: every function that deletes a file record from the primary index also, on the plan-paid branch (Expires==0), writes the owner's plan record with SpaceUsed decreased by a value depending on the file's size and replication; the charge in storage.MsgPostFile lies behind plan found, plan not expired and SpaceUsed' <= SpaceAvailable, is never performed on the pay-once branch, and is performed on every committing path of the plan-paid branch with a value depending on the loaded usage and the message's size and replication; the footprint operands are validated non-negative at the door; a plan purchase carries the loaded usage over and refuses plans smaller than it. These are the per-transition causes; the history-level equality usage = Σ footprints is not decided."
	r.Assumptions = []string{T1, T4}
	r.NotDecided = []string{"the history-level equality usage = Σ live footprints (needs induction over histories)", "accounting of files that enter the state through genesis import"}
	r.Rule("C07/R1", "removal returns the footprint: each function deleting a FilesByMerkle record writes StoragePaymentInfo of the file's owner with SpaceUsed := SpaceUsed − f(FileSize, MaxProofs) behind Expires==0, on every path that deletes")
	r.Rule("C07/R2", "charge is guarded: the plan write of storage.MsgPostFile is on committing paths only behind Found(plan)=true, Before(End, now)=false and the space comparison in its wrap-free form Cmp(footprint <= SpaceAvailable - SpaceUsed); the pay-once branch (msg.Expires>0) never writes the plan")
	r.Rule("C07/R3", "footprint operands validated: MsgPostFile.ValidateBasic rejects FileSize and MaxProofs below 1 (and an overflowing product); the wasm entry calls ValidateBasic (C11/R4)")
	r.Rule("C07/R4", "plan change keeps usage: in storage.MsgBuyStorage the new record's SpaceUsed ⊵ the loaded record's SpaceUsed only; when a plan is found committing paths pass Cmp(SpaceUsed <= msg.Bytes)")
	r.Rule("C07/R6", "one notion of 'paid from the plan': for every sign class of Expires (negative / zero / positive — the field is only ever compared with constants) that MsgPostFile.ValidateBasic accepts, posting charges the plan exactly when removal refunds it")
	r.Rule("C07/R8", "the footprint is returned once: a function that calls a file remover (which itself returns the footprint to the owner's plan) writes no plan record of its own on any path through that call")
	r.Rule("C07/R7", "a file record is created only where none exists under its key (merkle, owner, start height): the write of storage.MsgPostFile is behind Found(file under the written key)=false, so one live record is never charged to the plan twice")
	r.Rule("C07/R5", "the charge happens: every committing path of the plan-paid branch writes the signer's plan record with SpaceUsed ⊵ {loaded SpaceUsed, msg.FileSize, msg.MaxProofs}")
	hs, err := p.Handlers()
	if err != nil {
		r.Undecided("C07/R1", "handlers", "", err.Error())
		return
	}
	reach, _ := p.TxReachable()
	// ---- R1
	nRem := 0
	var removers []c07Remover
	for _, fn := range core.SortedFuncs(reach) {
		var del *core.Effect
		for _, e := range p.Effects(fn) {
			if performsDirectly(p, fn, e, "Delete", stFiles) {
				del = e
			}
		}
		if del == nil {
			continue
		}
		nRem++
		r.Analysed(core.FnName(fn))
		construct := core.FnName(fn) + ":no-spaceused-decrement"
		// the unit that writes the plan record directly: fn itself or a helper it calls (then hop is the call in fn)
		unit := fn
		var planCall, hop ssa.CallInstruction
		for _, e := range p.Effects(fn) {
			c, ok := e.Instr.(ssa.CallInstruction)
			if !ok || !effHas(e, "Set", stPay) {
				continue
			}
			if cal, _ := directOpCallee(p, c, "Set", stPay); cal != nil {
				unit, planCall, hop = fn, c, nil
				continue
			}
			if planCall != nil {
				continue
			}
			for _, g := range p.Callees(c) {
				allInstrs(g, func(in ssa.Instruction) {
					ic, isCall := in.(ssa.CallInstruction)
					if !isCall {
						return
					}
					if cal, _ := directOpCallee(p, ic, "Set", stPay); cal != nil && cal != g {
						unit, planCall, hop = g, ic, c
					}
				})
			}
		}
		if planCall == nil {
			r.Violation("C07/R1", construct, p.InstrPos(del.Instr), "a stored file is removed without returning its footprint to the owner's plan: the plan's used space only ever grows (post a plan-paid file, delete it, the space is still reported used)")
			continue
		}
		removers = append(removers, c07Remover{fn, unit, planCall, hop})
		res := func(pr core.Prov) core.Prov {
			if unit == fn {
				return pr
			}
			return p.ResolveToEntry(pr, fn)
		}
		args := dataArgs(planCall)
		rec := args[len(args)-1]
		up := res(p.ProvAt(rec, ".SpaceUsed", planCall))
		okDep := up.HasStore(stPay, ".SpaceUsed") && up.HasStore(stFiles, ".FileSize") && up.HasStore(stFiles, ".MaxProofs")
		// shape: a subtraction
		isSub := false
		if al := recordAlloc(rec); al != nil {
			for _, st := range fieldStores(al, "SpaceUsed") {
				var leaves []ssa.Value
				phiLeaves(st.Val, map[ssa.Value]bool{}, &leaves)
				// the clamp at zero may be written with the builtin: max(used - footprint, 0)
				for i := 0; i < len(leaves); i++ {
					if mc, ok := leaves[i].(*ssa.Call); ok {
						if b, isB := mc.Call.Value.(*ssa.Builtin); isB && (b.Name() == "max" || b.Name() == "min") {
							for _, a := range mc.Call.Args {
								phiLeaves(a, map[ssa.Value]bool{}, &leaves)
							}
						} else if isSelectHelper(p, mc) {
							// ... or with a helper that returns one of its arguments (atLeast(v, floor))
							for _, a := range mc.Call.Args {
								phiLeaves(a, map[ssa.Value]bool{}, &leaves)
							}
						}
					}
				}
				for _, lf := range leaves {
					if bo, ok := lf.(*ssa.BinOp); ok && bo.Op == token.SUB && p.ProvAt(bo.X, "", bo).HasStore(stPay, ".SpaceUsed") {
						isSub = true
					}
				}
			}
		}
		r.Check(okDep && isSub, "C07/R1", core.FnName(fn)+":footprint-returned", p.InstrPos(planCall), "SpaceUsed := loaded SpaceUsed − f(file.FileSize, file.MaxProofs)", "the plan record written on removal is not the loaded usage minus the file's footprint: "+up.String())
		// owner's plan
		ap := p.ProvAt(rec, ".Address", planCall).DataAtoms()
		okOwner := len(ap) == 1 && ap[0].Kind == "store" && ap[0].Name == stPay
		if okOwner {
			for _, a := range dataArgs(ap[0].Call) {
				kp := res(p.ProvAt(a, "", ap[0].Call)).DataAtoms()
				if !(len(kp) == 1 && kp[0].Kind == "store" && kp[0].Name == stFiles && kp[0].Path == ".Owner") {
					okOwner = false
				}
			}
		}
		r.Check(okOwner, "C07/R1", core.FnName(fn)+":footprint-to-owner", p.InstrPos(planCall), "plan record loaded by the removed file's Owner", "the footprint is returned to a plan other than the file owner's")
		// every deleting path on the plan-paid branch passes the plan write (given the plan exists)
		paidOnce := p.PassEdges(unit, func(ca *core.CondAtom, truth bool) bool {
			// edges on which the file is NOT plan-paid (Expires != 0) or the plan record is missing
			if ca.Kind == "found" && !truth && p.ProvAt(ca.X, "", ca.If).HasStore(stPay, "#found") {
				return true
			}
			// ... or an edge a plan-paid file (Expires zero) cannot take, however the comparison is spelled
			if signExcludes(p, func(v ssa.Value, at ssa.Instruction) bool {
				return res(p.ProvAt(v, "", at)).HasStore(stFiles, ".Expires")
			}, signZero)(ca, truth) {
				return true
			}
			return false
		})
		var bad bool
		if unit == fn {
			// is there a way entry -> delete -> return that avoids the plan write (before or after the delete) and
			// the not-plan-paid edges?
			if planCall.Block() != del.Instr.Block() {
				blocked := map[core.Edge]bool{}
				for e := range paidOnce {
					blocked[e] = true
				}
				for e := range edgesInto(fn, planCall) {
					blocked[e] = true
				}
				for _, ri := range p.Returns(fn) {
					if core.PathExists(fn, blocked, del.Instr, ri.Ret) {
						bad = true
					}
				}
			}
		} else {
			// the helper is called on every removing path, and inside it only the not-plan-paid edges skip the write
			bad = !pairedOnAllPaths(p, fn, del.Instr, hop) || p.BypassExistsAvoiding(unit, unit.Blocks[0].Instrs[0], planCall, true, paidOnce) != nil
		}
		r.Check(!bad, "C07/R1", core.FnName(fn)+":footprint-on-every-removal", p.InstrPos(del.Instr), "every plan-paid removal path returns the footprint", "a path removes a plan-paid file of an account with a plan without returning its footprint")
	}
	r.Floor("C07/R1", nRem, 1, "file removers on transaction/block paths")

	// ---- R2 / R5 PostFile
	if h := core.HandlerByKey(hs, "storage.MsgPostFile"); h == nil {
		r.Undecided("C07/R2", "storage.MsgPostFile:anchor-missing", "", "handler missing")
	} else {
		filter := storeWrites("storage", "StoragePaymentInfo/value/")
		guardRow(r, "C07/R2", h, "plan-found", filter, func(*ssa.Function) core.GuardMatch { return foundGuard(p, stPay, true) }, "Found(plan[signer])=true")
		guardRow(r, "C07/R2", h, "plan-not-expired", filter, func(*ssa.Function) core.GuardMatch {
			// plan.End >= now at full precision, however it is spelled (!End.Before(now), !now.After(End), ...)
			return timeGuard(p, func(pr core.Prov) bool { return pr.HasStore(stPay, ".End") }, ctxIs("BlockTime"), ">=", ">")
		}, "Before(plan.End, now)=false")
		// the comparison bounds the message's footprint by the remaining space (footprint <= available - used):
		// the other way round (used + footprint <= available) the sum wraps around for a huge footprint
		noStore := func(pr core.Prov) bool {
			return p.HasMsgField(pr, h, "FileSize") && !pr.Any(func(a core.Atom) bool { return a.Kind == "store" })
		}
		remaining := func(pr core.Prov) bool {
			return pr.HasStore(stPay, ".SpaceAvailable") && pr.HasStore(stPay, ".SpaceUsed") && len(p.MsgFields(pr, h)) == 0
		}
		if guardRow(r, "C07/R2", h, "within-purchased-space", filter, func(*ssa.Function) core.GuardMatch {
			return anyOf(cmpGuard(p, noStore, remaining, "<=", "<"),
				cmpGuard(p, func(pr core.Prov) bool { return pr.HasStore(stPay, ".SpaceUsed") && p.HasMsgField(pr, h, "FileSize") }, onlyStoreField(stPay, ".SpaceAvailable"), "<=", "<"))
		}, "Cmp(SpaceUsed' <= SpaceAvailable)") {
			guardRow(r, "C07/R2", h, "space-comparison-cannot-wrap", filter, func(*ssa.Function) core.GuardMatch {
				return cmpGuard(p, noStore, remaining, "<=", "<")
			}, "Cmp(footprint <= SpaceAvailable - SpaceUsed)")
		}
		guardRow(r, "C07/R2", h, "not-on-pay-once-branch", filter, func(*ssa.Function) core.GuardMatch {
			// an edge a pay-once file (positive Expires) cannot take, however the comparison is spelled
			return signExcludes(p, func(v ssa.Value, at ssa.Instruction) bool { return p.HasMsgField(p.ProvAt(v, "", at), h, "Expires") }, signPos)
		}, "Cmp(msg.Expires > 0)=false")
		// R5
		planUnit, planCall := findOpSite(p, h, "Set", stPay)
		if planCall == nil {
			r.Violation("C07/R5", h.Key()+":charge", p.Pos(h.Fn.Pos()), "posting a plan-paid file never charges the plan")
		} else {
			// in the handler: every committing plan-paid path reaches the charge (directly or through the helper that holds it)
			var topCall ssa.Instruction = planCall
			if planUnit != h.Fn {
				for _, e := range p.Effects(h.Fn) {
					if effHas(e, "Set", stPay) {
						topCall = e.Instr
					}
				}
			}
			// edges a plan-paid file (Expires zero) cannot take
			payOnce := p.PassEdges(h.Fn, signExcludes(p, func(v ssa.Value, at ssa.Instruction) bool { return p.HasMsgField(p.ProvAt(v, "", at), h, "Expires") }, signZero))
			ret := p.BypassExistsAvoiding(h.Fn, h.Fn.Blocks[0].Instrs[0], topCall, false, payOnce)
			if ret == nil && planUnit != h.Fn {
				ret = p.BypassExists(planUnit, planUnit.Blocks[0].Instrs[0], planCall, false)
			}
			r.Check(ret == nil, "C07/R5", h.Key()+":charge-on-every-plan-path", p.InstrPos(planCall), "every committing plan-paid path writes the plan record", "a committing path stores a plan-paid file without charging the plan")
			args := dataArgs(planCall)
			rec := args[len(args)-1]
			up := p.ProvAt(rec, ".SpaceUsed", planCall)
			okU := up.HasStore(stPay, ".SpaceUsed") && p.HasMsgField(up, h, "FileSize") && p.HasMsgField(up, h, "MaxProofs")
			r.Check(okU, "C07/R5", h.Key()+":charged-amount", p.InstrPos(planCall), "SpaceUsed' ⊵ {loaded SpaceUsed, msg.FileSize, msg.MaxProofs}", "the charged usage does not depend on the loaded usage and the file's size and replication: "+p.ResolveToEntry(up, h.Fn).String())
			ap := p.ProvAt(rec, ".Address", planCall).DataAtoms()
			okA := len(ap) == 1 && ap[0].Kind == "store" && ap[0].Name == stPay
			if okA {
				for _, a := range dataArgs(ap[0].Call) {
					if !p.OnlyMsgField(p.ProvAt(a, "", ap[0].Call), h, "Creator") {
						okA = false
					}
				}
			}
			r.Check(okA, "C07/R5", h.Key()+":charged-plan-is-signers", p.InstrPos(planCall), "charged plan loaded by the signer's key", "the plan charged is not the signer's")
			// the plan charged is keyed by exactly the string stored as the file's Owner: removal refunds the plan
			// found under file.Owner, so the two must be the same spelling of the account, not merely the same account
			if okA {
				tb := core.NewTermBuilder(p)
				ktb := tb
				if unit := ap[0].Call.Parent(); unit != h.Fn {
					// the lookup lives in a helper: express its key in the handler's values
					ktb = core.NewTermBuilder(p)
					ktb.Bind = map[*ssa.Parameter]core.BoundVal{}
					allInstrs(h.Fn, func(in ssa.Instruction) {
						cs, ok := in.(ssa.CallInstruction)
						if !ok {
							return
						}
						for _, cal := range p.Callees(cs) {
							if cal != unit {
								continue
							}
							c := cs.Common()
							var actuals []ssa.Value
							if c.IsInvoke() {
								actuals = append(actuals, c.Value)
							}
							actuals = append(actuals, c.Args...)
							for i, prm := range unit.Params {
								if i < len(actuals) {
									ktb.Bind[prm] = core.BoundVal{Val: actuals[i], TB: tb}
								}
							}
						}
					})
				}
				var keyTerms []string
				for _, a := range dataArgs(ap[0].Call) {
					keyTerms = append(keyTerms, ktb.Term(a))
				}
				ownerTerm := ""
				// the file record built by the handler
				allInstrs(h.Fn, func(in ssa.Instruction) {
					if al, ok := in.(*ssa.Alloc); ok && core.TypeName(al.Type()) == "x/storage/types.UnifiedFile" {
						if sts := fieldStores(al, "Owner"); len(sts) > 0 {
							ownerTerm = tb.Term(sts[len(sts)-1].Val)
						}
					}
				})
				if ownerTerm == "" {
					r.Undecided("C07/R5", h.Key()+":charge-key=stored-owner", p.InstrPos(planCall), "the stored file's Owner assignment was not found next to the plan lookup")
				} else {
					r.Check(len(keyTerms) == 1 && keyTerms[0] == ownerTerm, "C07/R5", h.Key()+":charge-key=stored-owner", p.InstrPos(planCall), "plan key ≡ stored Owner ("+ownerTerm+")", "the plan is charged under "+strings.Join(keyTerms, ",")+" but the file is stored with Owner "+ownerTerm+": removal refunds the plan found under file.Owner, so for a spelling where the two differ the footprint is never returned")
				}
			}
		}
	}
	// ---- R3 validation at the door
	vb := p.FuncByName("x/storage/types", "MsgPostFile", "ValidateBasic")
	if vb == nil {
		r.Undecided("C07/R3", "storage.MsgPostFile:ValidateBasic", "", "not found")
	} else {
		for _, f := range []string{"FileSize", "MaxProofs"} {
			ok := fieldLowerBounded(p, vb, f)
			r.Check(ok, "C07/R3", "postfile:unvalidated:"+f, p.Pos(vb.Pos()), "ValidateBasic rejects "+f+" < 1", "MsgPostFile.ValidateBasic accepts zero or negative "+f+": a negative footprint lowers the plan's usage below the files held (and feeds BeginBlock arithmetic)")
		}
	}
	if vb != nil {
		r.Check(productOverflowGuarded(p, vb, "FileSize", "MaxProofs"), "C07/R3", "postfile:product-overflow-checked", p.Pos(vb.Pos()), "ValidateBasic rejects FileSize > MaxInt64/MaxProofs", "MsgPostFile.ValidateBasic does not reject an overflowing FileSize*MaxProofs by the division form (a sign test of the wrapped product misses products that wrap past 2^64): the plan is charged the wrapped footprint")
	}
	wasmDoorValidated(r, "C07/R3", hs, "storage.MsgPostFile")
	c07PlanClass(r, hs, removers)
	c07SingleRefund(r, removers, reach)
	// ---- R4 BuyStorage
	if h := core.HandlerByKey(hs, "storage.MsgBuyStorage"); h == nil {
		r.Undecided("C07/R4", "storage.MsgBuyStorage:anchor-missing", "", "handler missing")
	} else {
		var planCall ssa.CallInstruction
		for _, e := range p.Effects(h.Fn) {
			if c, ok := e.Instr.(ssa.CallInstruction); ok && effHas(e, "Set", stPay) {
				planCall = c
			}
		}
		if planCall == nil {
			r.Violation("C07/R4", h.Key()+":plan-write", p.Pos(h.Fn.Pos()), "buying storage never writes the plan")
		} else {
			args := dataArgs(planCall)
			rec := args[len(args)-1]
			up := p.ProvAt(rec, ".SpaceUsed", planCall).DataAtoms()
			okU := len(up) == 1 && up[0].Kind == "store" && up[0].Name == stPay && up[0].Path == ".SpaceUsed"
			// and it is carried over unchanged: every definition is the constant 0 or the loaded field itself (no arithmetic)
			if al := recordAlloc(rec); al != nil {
				for _, st := range fieldStores(al, "SpaceUsed") {
					var leaves []ssa.Value
					phiLeaves(st.Val, map[ssa.Value]bool{}, &leaves)
					for _, lf := range leaves {
						if c, ok := lf.(*ssa.Const); ok && c.Value != nil && c.Value.ExactString() == "0" {
							continue
						}
						if _, isArith := lf.(*ssa.BinOp); isArith {
							okU = false
						}
					}
				}
			}
			r.Check(okU, "C07/R4", h.Key()+":usage-carried-over", p.InstrPos(planCall), "new SpaceUsed ⊵ loaded SpaceUsed only (0 when no plan)", fmt.Sprintf("the new plan's usage is not the loaded plan's usage: %v", up))
			// the plan loaded is the plan written: lookup key and stored Address are the same term
			var getter *ssa.Call
			allInstrs(h.Fn, func(in ssa.Instruction) {
				if c, ok := in.(*ssa.Call); ok {
					for _, cal := range p.Callees(c) {
						if gi := p.StoreGetter(cal); gi != nil && gi.Module+"/"+gi.Prefix == stPay {
							getter = c
						}
					}
				}
			})
			if getter == nil {
				r.Violation("C07/R4", h.Key()+":plan-lookup", p.Pos(h.Fn.Pos()), "buying storage never loads the existing plan")
			} else if al := recordAlloc(rec); al != nil {
				var addr ssa.Value
				for _, st := range fieldStores(al, "Address") {
					addr = st.Val
				}
				tb := core.NewTermBuilder(p)
				ga := dataArgs(getter)
				okKey := addr != nil && len(ga) == 1 && tb.Term(ga[0]) == tb.Term(addr)
				detail := ""
				if addr != nil && len(ga) == 1 {
					detail = "loaded " + tb.Term(ga[0]) + " vs written " + tb.Term(addr)
				}
				r.Check(okKey, "C07/R4", h.Key()+":loaded-plan=written-plan", p.InstrPos(getter), "the plan whose usage is carried over is the plan being replaced (same key term)", "the usage carried into the new plan is read from a different account's plan than the one written: "+detail)
			}
			// when found: commit paths pass SpaceUsed <= Bytes
			notFound := p.PassEdges(h.Fn, foundGuard(p, stPay, false))
			fits := p.PassEdges(h.Fn, cmpGuard(p, onlyStoreField(stPay, ".SpaceUsed"), msgField(p, h, "Bytes"), "<=", "<"))
			removed := map[core.Edge]bool{}
			for e := range notFound {
				removed[e] = true
			}
			for e := range fits {
				removed[e] = true
			}
			bad := false
			for _, ri := range p.Returns(h.Fn) {
				if ri.Class == core.RetCommit && core.PathExists(h.Fn, removed, planCall, ri.Ret) {
					bad = true
				}
			}
			r.Check(!bad, "C07/R4", h.Key()+":not-below-usage", p.InstrPos(planCall), "plan found ⇒ Cmp(SpaceUsed <= msg.Bytes)", "a plan smaller than the space already used can be bought: usage exceeds the space purchased")
		}
	}
	_ = strings.Join
}

// fieldLowerBounded: function fn (a ValidateBasic) returns a non-nil error on an edge asserting recv.<field> <= 0 / < 1.
func fieldLowerBounded(p *core.Program, fn *ssa.Function, field string) bool {
	rets := p.Returns(fn)
	for _, b := range fn.Blocks {
		ifi, ok := b.Instrs[len(b.Instrs)-1].(*ssa.If)
		if !ok {
			continue
		}
		ca := p.NormCond(ifi)
		if ca.Kind != "cmp" {
			continue
		}
		isField := func(pr core.Prov) bool {
			at := pr.DataAtoms()
			return len(at) == 1 && at[0].Kind == "param" && at[0].Idx == 0 && at[0].Path == "."+field
		}
		for succ := 0; succ < 2; succ++ {
			truth := !ca.Neg
			if succ == 1 {
				truth = ca.Neg
			}
			// relation field REL const
			var c *ssa.Const
			op := ca.Op
			switch {
			case isField(p.ProvAt(ca.X, "", ifi)):
				c, _ = ca.Y.(*ssa.Const)
			case isField(p.ProvAt(ca.Y, "", ifi)):
				c, _ = ca.X.(*ssa.Const)
				op = flip(op)
			default:
				continue
			}
			if c == nil || c.Value == nil {
				continue
			}
			if !truth {
				op = negate(op)
			}
			v := c.Value.ExactString()
			rejectsNonPositive := (op == token.LEQ && v == "0") || (op == token.LSS && v == "1")
			if !rejectsNonPositive {
				continue
			}
			// that successor leads only to failing returns
			s := b.Succs[succ]
			onlyFail := true
			any := false
			for _, ri := range rets {
				if core.PathExists(fn, nil, s.Instrs[0], ri.Ret) || ri.Ret.Block() == s {
					any = true
					if ri.Class != core.RetFail {
						onlyFail = false
					}
				}
			}
			if any && onlyFail {
				return true
			}
		}
	}
	return false
}

// isSelectHelper: the callee is a side-effect-free custom function every return of which is one of its own parameters
// or a constant (a clamp / min / max written out).
func isSelectHelper(p *core.Program, call *ssa.Call) bool {
	cs := p.Callees(call)
	if len(cs) != 1 || cs[0].Blocks == nil || call.Call.IsInvoke() {
		return false
	}
	fn := cs[0]
	n := 0
	for _, b := range fn.Blocks {
		for _, in := range b.Instrs {
			switch x := in.(type) {
			case ssa.CallInstruction:
				if _, isB := x.Common().Value.(*ssa.Builtin); !isB {
					return false
				}
			case *ssa.Store, *ssa.MapUpdate, *ssa.Send, *ssa.Go, *ssa.Defer:
				return false
			case *ssa.Return:
				n++
				for _, rv := range x.Results {
					var leaves []ssa.Value
					phiLeaves(rv, map[ssa.Value]bool{}, &leaves)
					for _, lf := range leaves {
						switch lf.(type) {
						case *ssa.Parameter, *ssa.Const:
						default:
							return false
						}
					}
				}
			}
		}
	}
	return n > 0
}

type c07Remover struct {
	fn, unit      *ssa.Function
	planCall, hop ssa.CallInstruction
}

// c07PlanClass: R6 (charge and refund agree on which files are plan-paid) and R7 (a post never overwrites a record).
func c07PlanClass(r *core.Run, hs []*core.Handler, removers []c07Remover) {
	p := r.Prog
	h := core.HandlerByKey(hs, "storage.MsgPostFile")
	vb := p.FuncByName("x/storage/types", "MsgPostFile", "ValidateBasic")
	if h == nil || vb == nil {
		r.Undecided("C07/R6", "storage.MsgPostFile:anchor-missing", "", "handler or ValidateBasic missing")
		return
	}
	// the unit of the handler that writes the plan record, and the one that writes the file record
	var chargeUnit, fileUnit *ssa.Function
	var chargeCall, fileCall ssa.CallInstruction
	for _, fn := range p.Summary(h.Fn).Funcs {
		if isAccessorFn(p, fn) {
			continue
		}
		for _, e := range p.Effects(fn) {
			c, ok := e.Instr.(ssa.CallInstruction)
			if !ok || e.Direct {
				continue
			}
			if performsDirectly(p, fn, e, "Set", stPay) {
				chargeUnit, chargeCall = fn, c
			}
			if effHas(e, "Set", stFiles) && !effHas(e, "Delete", stFiles) {
				direct := false
				for _, cal := range e.Callees {
					if isAccessorFn(p, cal) {
						direct = true
					}
					// the record setter writing both indexes through its two accessors
					for _, e2 := range p.Effects(cal) {
						if performsDirectly(p, cal, e2, "Set", stFiles) {
							direct = true
						}
					}
				}
				if direct {
					fileUnit, fileCall = fn, c
				}
			}
		}
	}
	// ---- R6
	if chargeCall == nil {
		r.Undecided("C07/R6", h.Key()+":plan-paid-classes", p.Pos(h.Fn.Pos()), "no plan write in the handler")
	} else {
		postField := func(v ssa.Value, at ssa.Instruction) bool {
			return p.OnlyMsgField(p.ProvAt(v, "", at), h, "Expires")
		}
		vbField := func(v ssa.Value, at ssa.Instruction) bool {
			atoms := p.ProvAt(v, "", at).DataAtoms()
			return len(atoms) == 1 && atoms[0].Kind == "param" && atoms[0].Fn == vb && atoms[0].Path == ".Expires"
		}
		var curRemover *ssa.Function
		fileField := func(v ssa.Value, at ssa.Instruction) bool {
			pr := p.ProvAt(v, "", at)
			return onlyStoreField(stFiles, ".Expires")(pr) || (curRemover != nil && onlyStoreField(stFiles, ".Expires")(p.ResolveToEntry(pr, curRemover)))
		}
		reachesFrom := func(fn *ssa.Function, removed map[core.Edge]bool, at ssa.Instruction) bool {
			return core.PathExists(fn, removed, at, nil)
		}
		// through the call chain handler -> ... -> chargeUnit: judged in the unit and, if it is a helper, in the handler
		chargeUnder := func(s signClass) (bool, int) {
			rm, n := signInfeasible(p, chargeUnit, postField, s)
			ok := reachesFrom(chargeUnit, rm, chargeCall)
			if chargeUnit != h.Fn {
				rm2, n2 := signInfeasible(p, h.Fn, postField, s)
				n += n2
				hopOK := false
				allInstrs(h.Fn, func(in ssa.Instruction) {
					if c, isCall := in.(ssa.CallInstruction); isCall {
						for _, cal := range p.Callees(c) {
							if cal == chargeUnit && reachesFrom(h.Fn, rm2, in) {
								hopOK = true
							}
						}
					}
				})
				ok = ok && hopOK
			}
			return ok, n
		}
		acceptedUnder := func(s signClass) bool {
			rm, _ := signInfeasible(p, vb, vbField, s)
			for _, ri := range p.Returns(vb) {
				if ri.Class == core.RetFail {
					continue
				}
				if core.PathExists(vb, rm, vb.Blocks[0].Instrs[0], ri.Ret) {
					return true
				}
			}
			return false
		}
		for _, rmv := range removers {
			curRemover = rmv.fn
			for _, s := range []signClass{signNeg, signZero, signPos} {
				construct := core.FnName(rmv.fn) + ":plan-paid-class:Expires-" + s.String()
				if !acceptedUnder(s) {
					r.Ok("C07/R6", construct, p.Pos(vb.Pos()), "ValidateBasic rejects a "+s.String()+" Expires")
					continue
				}
				charged, nPost := chargeUnder(s)
				rm, nRem := signInfeasible(p, rmv.unit, fileField, s)
				refunded := reachesFrom(rmv.unit, rm, rmv.planCall)
				if rmv.hop != nil {
					rm2, n2 := signInfeasible(p, rmv.fn, fileField, s)
					nRem += n2
					refunded = refunded && reachesFrom(rmv.fn, rm2, rmv.hop)
				} else if rmv.unit != rmv.fn {
					rm2, n2 := signInfeasible(p, rmv.fn, fileField, s)
					nRem += n2
					_ = rm2
				}
				r.Check(charged == refunded, "C07/R6", construct, p.InstrPos(rmv.planCall),
					fmt.Sprintf("Expires %s: charged on post=%v, refunded on removal=%v (%d + %d comparisons of Expires with constants)", s, charged, refunded, nPost, nRem),
					fmt.Sprintf("a file posted with a %s Expires is accepted by ValidateBasic; posting it charges the plan=%v but removing it refunds the plan=%v: the plan's usage no longer equals the footprint of the live plan-paid files (post such a file, delete it, the space stays used)", s, charged, refunded))
			}
		}
		if len(removers) == 0 {
			r.Undecided("C07/R6", h.Key()+":plan-paid-classes", "", "no remover of file records found")
		}
	}
	// ---- R7
	if fileCall == nil {
		r.Undecided("C07/R7", h.Key()+":file-write", p.Pos(h.Fn.Pos()), "no write of a file record in the handler")
		return
	}
	var getter *ssa.Call
	absent := func(ca *core.CondAtom, truth bool) bool {
		if ca.Kind != "found" || truth || ca.Call == nil {
			return false
		}
		for _, cal := range p.Callees(ca.Call) {
			if gi := p.StoreGetter(cal); gi != nil && gi.Module+"/"+gi.Prefix == stFiles {
				getter = ca.Call
				return true
			}
		}
		return false
	}
	guarded := guardedHereOrAtCallSites(p, fileUnit, fileCall, absent)
	r.Check(guarded, "C07/R7", h.Key()+":create-only-if-absent", p.InstrPos(fileCall), "the file record is written only behind Found(file)=false",
		"a post overwrites whatever file record exists under the same (merkle, owner, start height): two posts of one file in one block leave one live record (with an emptied prover list) while the plan is charged twice — usage exceeds the footprint of the live files and deleting the file returns only one of the charges")
	if guarded && getter != nil {
		args := dataArgs(fileCall)
		al := recordAlloc(args[len(args)-1])
		tb := core.NewTermBuilder(p)
		var want, got []string
		if al != nil {
			for _, f := range []string{"Merkle", "Owner", "Start"} {
				t := "?"
				for _, st := range fieldStores(al, f) {
					t = tb.Term(st.Val)
				}
				want = append(want, t)
			}
		}
		for _, a := range dataArgs(getter) {
			got = append(got, tb.Term(a))
		}
		r.Check(al != nil && strings.Join(want, " / ") == strings.Join(got, " / "), "C07/R7", h.Key()+":absent-check-key=written-key", p.InstrPos(getter),
			"existence tested under the key written: "+strings.Join(want, " / "),
			fmt.Sprintf("the existence test looks under %v but the record is written under %v", got, want))
	}
}

// c07SingleRefund: R8 — the removers return the footprint themselves (R1); a caller that also writes the plan record
// on a path through the removal returns it twice.
func c07SingleRefund(r *core.Run, removers []c07Remover, reach map[*ssa.Function]bool) {
	p := r.Prog
	isRemover := map[*ssa.Function]bool{}
	for _, rm := range removers {
		isRemover[rm.fn] = true
	}
	n := 0
	for _, fn := range core.SortedFuncs(reach) {
		if isRemover[fn] {
			continue
		}
		var calls []ssa.CallInstruction
		allInstrs(fn, func(in ssa.Instruction) {
			if c, ok := in.(ssa.CallInstruction); ok {
				for _, cal := range p.Callees(c) {
					if isRemover[cal] {
						calls = append(calls, c)
					}
				}
			}
		})
		if len(calls) == 0 {
			continue
		}
		n++
		r.Analysed(core.FnName(fn))
		bad := ""
		for _, e := range p.Effects(fn) {
			if !effHas(e, "Set", stPay) {
				continue
			}
			for _, c := range calls {
				if e.Instr == ssa.Instruction(c) {
					continue // the removal itself
				}
				if core.PathExists(fn, nil, e.Instr, c) || core.PathExists(fn, nil, c, e.Instr) {
					bad = p.InstrPos(e.Instr)
				}
			}
		}
		r.Check(bad == "", "C07/R8", core.FnName(fn)+":footprint-returned-once", p.InstrPos(calls[0]), "no plan write next to the removal", "the function writes the plan record ("+bad+") on a path that also removes the file through a remover that returns the footprint itself: the footprint is returned twice and the plan reports less than its live files hold")
	}
	r.Floor("C07/R8", n, 2, "callers of file removers")
}
