package rules

import (
	"fmt"
	"go/token"
	"sort"
	"strings"

	"golang.org/x/tools/go/ssa"

	"jklcheck/core"
)

const (
	rnsNames   = "rns/Names/value/"
	rnsForsale = "rns/Forsale/value/"
	rnsBids    = "rns/Bids/value/"
)

func init() { registry["C08"] = c08 }

// expiredEdge: edge on which the loaded name is decided expired (height > Expires or height >= Expires).
func expiredEdge(p *core.Program) core.GuardMatch {
	// expired means strictly past the expiry height: at height == Expires a name is live (the boundary every other
	// handler uses, C08/R2)
	return cmpGuard(p, ctxIs("BlockHeight"), storeField(rnsNames, ".Expires"), ">")
}

func c08(r *core.Run) {
	p := r.Prog
	r.Explanation = "Static rules over the rns handlers discovered from the Msg service: every committing path that writes a Names/Forsale record (or moves coins) in a handler must have passed the owner-consent comparison stated in the handler's policy row (CFG path search with the guard's pass-edges removed, interprocedural along the call chain); sale and bid payouts must go to the verified owner with the recorded price; all height-vs-expiry comparisons must agree on the boundary height. Decides the structural cause of 'owner changes only with the owner's consent, who is paid', not the history-level statement itself."
	r.Assumptions = []string{T1, T2, T3, T4}
	r.NotDecided = []string{"fairness of prices", "history-level reasoning is replaced by per-write guards (sound because every writer of Names/Forsale is covered by a row)"}
	r.Rule("C08/R1", "every write of rns Names/Forsale (and every coin move) in a handler lies, on all committing paths, behind the owner-consent guard of that handler's row; handlers writing those prefixes without a row are violations")
	r.Rule("C08/R2", "all comparisons between block height and Names.Expires classify the boundary height==Expires the same way (one liveness predicate)")
	r.Rule("C08/R4", "the rns store getters are faithful: each returns on every path the variable its single store read (under the key built from its parameters) was decoded into, otherwise untouched — the record the owner checks are applied to is the record stored under the requested name")
	r.Rule("C08/R3", "payment on ownership change: Buy pays Forsale.Owner the Forsale.Price; AcceptBid pays the signer (verified owner) the Bids.Price")

	r.Floor("C08/R4", gettersFaithful(r, "C08/R4", "rns"), 3, "rns store getters")
	r.Rule("C08/R5", "the rns store keys are injective: every key builder used by a store operation of the module writes each of its parameters into the key exactly once, as it is (a listing, a name and a bid of different names can never share a slot)")
	r.Floor("C08/R5", keyBuildersFaithful(r, "C08/R5", "rns"), 4, "rns key builders")
	hs, err := p.Handlers()
	if err != nil {
		r.Undecided("C08/R1", "handlers", "", err.Error())
		return
	}
	ownerRow := func(h *core.Handler) func(*ssa.Function) core.GuardMatch {
		return func(*ssa.Function) core.GuardMatch {
			return eqGuard(p, onlyStoreFieldH(p, h, rnsNames, ".Value"), signerOf(p, h), true)
		}
	}
	type row struct {
		what  string
		mk    func(h *core.Handler) func(*ssa.Function) core.GuardMatch
		text  string
		extra []row
	}
	listingOwner := func(h *core.Handler) func(*ssa.Function) core.GuardMatch {
		return func(*ssa.Function) core.GuardMatch {
			return eqGuard(p, onlyStoreFieldH(p, h, rnsForsale, ".Owner"), onlyStoreFieldH(p, h, rnsNames, ".Value"), true)
		}
	}
	rows := map[string][]row{
		"rns.MsgTransfer":  {{"owner-consent", ownerRow, "Eq(Names.Value, signer)=true", nil}},
		"rns.MsgAcceptBid": {{"owner-consent", ownerRow, "Eq(Names.Value, signer)=true", nil}},
		"rns.MsgUpdate":    {{"owner-consent", ownerRow, "Eq(Names.Value, signer)=true", nil}},
		"rns.MsgAddRecord": {{"owner-consent", ownerRow, "Eq(Names.Value, signer)=true", nil}},
		"rns.MsgDelRecord": {{"owner-consent", ownerRow, "Eq(Names.Value, signer)=true", nil}},
		"rns.MsgList":      {{"owner-consent", ownerRow, "Eq(Names.Value, signer)=true", nil}},
		"rns.MsgBuy":       {{"listing-by-current-owner", listingOwner, "Eq(Forsale.Owner, Names.Value)=true", nil}},
		"rns.MsgDelist": {
			{"listing-owner-is-signer", func(h *core.Handler) func(*ssa.Function) core.GuardMatch {
				return func(*ssa.Function) core.GuardMatch {
					return eqGuard(p, onlyStoreFieldH(p, h, rnsForsale, ".Owner"), signerOf(p, h), true)
				}
			}, "Eq(Forsale.Owner, signer)=true", nil},
			{"listing-by-current-owner", listingOwner, "Eq(Names.Value, Forsale.Owner)=true", nil},
		},
	}
	regRow := func(h *core.Handler) func(*ssa.Function) core.GuardMatch {
		return func(*ssa.Function) core.GuardMatch {
			return anyOf(
				foundGuard(p, rnsNames, false),
				eqGuard(p, onlyStoreFieldH(p, h, rnsNames, ".Value"), signerOf(p, h), true),
				expiredEdge(p),
			)
		}
	}
	initRow := func(h *core.Handler) func(*ssa.Function) core.GuardMatch {
		return func(*ssa.Function) core.GuardMatch {
			return anyOf(foundGuard(p, rnsNames, false), expiredEdge(p))
		}
	}
	rows["rns.MsgRegister"] = []row{{"new-own-or-expired", regRow, "{Found(Names)=false | Eq(Names.Value,signer)=true | expired}", nil}}
	rows["rns.MsgRegisterName"] = rows["rns.MsgRegister"]
	rows["rns.MsgInit"] = []row{{"new-or-expired", initRow, "{Found(Names)=false | expired}", nil}}

	nRows := 0
	for _, h := range hs {
		writes := hasStoreWrite(p, h.Fn, "rns", "Names/value/", "Forsale/value/")
		rs, ok := rows[h.Key()]
		if !ok {
			if writes {
				r.Violation("C08/R1", h.Key()+":no-row", p.Pos(h.Fn.Pos()), "handler writes rns Names/Forsale records but has no owner-consent policy row")
			}
			continue
		}
		for _, rw := range rs {
			nRows++
			filter := allEffects()
			if strings.HasPrefix(rw.what, "new-") {
				filter = storeWrites("rns", "Names/value/")
			}
			guardRow(r, "C08/R1", h, rw.what, filter, rw.mk(h), rw.text)
		}
	}
	for k := range rows {
		if core.HandlerByKey(hs, k) == nil {
			r.Undecided("C08/R1", k+":anchor-missing", "", "policy row for a message type that no longer exists")
		}
	}
	r.Floor("C08/R1", nRows, 12, "policy rows")

	// R2: one liveness predicate
	reach, err := p.TxReachable()
	if err != nil {
		r.Undecided("C08/R2", "reach", "", err.Error())
		return
	}
	type site struct {
		pos, fn string
		eqLive  bool
	}
	var sites []site
	for _, fn := range core.SortedFuncs(reach) {
		for _, b := range fn.Blocks {
			ifi, ok := b.Instrs[len(b.Instrs)-1].(*ssa.If)
			if !ok {
				continue
			}
			ca := p.NormCond(ifi)
			if ca.Alt != nil {
				ca = ca.Alt // the comparison sits in a tiny helper or record method (name.ExpiredAt(height))
			}
			rel := relOnEdge(p, ca, !ca.Neg, ctxIs("BlockHeight"), storeField(rnsNames, ".Expires"))
			if rel == "" && ca.Kind == "cmp" {
				// the difference kept in a variable first (remaining := Expires - height on one arm, 0 on the other):
				// judge the comparison over the arm that holds the difference
				for _, side := range []int{0, 1} {
					v := ca.X
					if side == 1 {
						v = ca.Y
					}
					ph, isPhi := v.(*ssa.Phi)
					if !isPhi || core.InCycle(ph.Block()) {
						continue
					}
					for _, e := range ph.Edges {
						bo, isBo := e.(*ssa.BinOp)
						if !isBo || bo.Op != token.SUB {
							continue
						}
						cb := *ca
						if side == 0 {
							cb.X = bo
						} else {
							cb.Y = bo
						}
						if r2 := relOnEdge(p, &cb, !ca.Neg, ctxIs("BlockHeight"), storeField(rnsNames, ".Expires")); r2 != "" {
							rel = r2
						}
					}
				}
			}
			if rel == "" {
				continue
			}
			if pureSelect(b) {
				continue // max/min of the two values: selects a number, decides nothing about liveness
			}
			r.Analysed(core.FnName(fn))
			// where does height==Expires go? to the edge whose relation includes equality.
			eqLive := rel == "<=" || rel == ">" // true edge is "<=" (live incl. equality) or false edge is "<="
			sites = append(sites, site{p.InstrPos(ifi), core.FnName(fn), eqLive})
		}
	}
	r.Floor("C08/R2", len(sites), 5, "height-vs-expiry comparisons")
	nLive := 0
	for _, s := range sites {
		if s.eqLive {
			nLive++
		}
	}
	var desc []string
	for _, s := range sites {
		d := "height==Expires => expired"
		if s.eqLive {
			d = "height==Expires => live"
		}
		desc = append(desc, fmt.Sprintf("%s %s: %s", s.pos, s.fn, d))
	}
	sort.Strings(desc)
	if nLive == 0 || nLive == len(sites) {
		r.Ok("C08/R2", "rns:liveness-boundary", "", fmt.Sprintf("%d comparisons agree on the boundary", len(sites)), desc...)
	} else {
		r.Violation("C08/R2", "rns:liveness-boundary", "", fmt.Sprintf("%d sites treat height==Expires as live, %d as expired: at that height the owner can still act on the name while a stranger can register it", nLive, len(sites)-nLive), desc...)
	}

	// R3: payouts
	payout := func(key string, recipient side, rtext string, amount side, atext string) {
		h := core.HandlerByKey(hs, key)
		if h == nil {
			r.Undecided("C08/R3", key+":anchor-missing", "", "handler missing")
			return
		}
		n := 0
		for _, bo := range p.Summary(h.Fn).Bank {
			if bo.Method != "SendCoinsFromModuleToAccount" {
				continue
			}
			n++
			rp := p.ResolveToEntry(p.ProvAt(bo.Args[1], "", bo.Instr), h.Fn)
			ap := p.ResolveToEntry(p.ProvAt(bo.Args[2], "", bo.Instr), h.Fn)
			ok1, ok2 := recipient(rp), amount(ap)
			r.Check(ok1 && ok2, "C08/R3", key+":payout", p.InstrPos(bo.Instr),
				fmt.Sprintf("recipient %s, amount %s", rtext, atext),
				fmt.Sprintf("payout recipient must be %s and amount %s; found recipient %s amount %s", rtext, atext, p.ResolveToEntry(rp, h.Fn), p.ResolveToEntry(ap, h.Fn)))
		}
		if n == 0 {
			r.Violation("C08/R3", key+":payout", p.Pos(h.Fn.Pos()), "no payout to the previous owner on this ownership change")
		}
	}
	if h := core.HandlerByKey(hs, "rns.MsgBuy"); h != nil {
		payout("rns.MsgBuy", onlyStoreField(rnsForsale, ".Owner"), "⊵ Forsale.Owner only", onlyStoreField(rnsForsale, ".Price"), "⊵ Forsale.Price only")
	}
	if h := core.HandlerByKey(hs, "rns.MsgAcceptBid"); h != nil {
		payout("rns.MsgAcceptBid", signerOf(p, h), "⊵ signer only", onlyStoreField(rnsBids, ".Price"), "⊵ Bids.Price only")
	}
}

// pureSelect: the branch only chooses between values (both arms fall straight into one join block, computing at most
// side-effect-free values on the way): x = max(a, b) and the like.
func pureSelect(b *ssa.BasicBlock) bool {
	if len(b.Succs) != 2 {
		return false
	}
	target := func(s *ssa.BasicBlock) *ssa.BasicBlock {
		if len(s.Preds) != 1 || len(s.Succs) != 1 {
			return s
		}
		for _, in := range s.Instrs {
			switch in.(type) {
			case *ssa.Jump, *ssa.Field, *ssa.FieldAddr, *ssa.UnOp, *ssa.BinOp, *ssa.Convert, *ssa.ChangeType, *ssa.DebugRef:
			default:
				return s
			}
		}
		return s.Succs[0]
	}
	t0, t1 := target(b.Succs[0]), target(b.Succs[1])
	return t0 == t1 && (t0 != b.Succs[0] || t1 != b.Succs[1])
}
