package rules

import (
	"fmt"
	"strings"

	"golang.org/x/tools/go/ssa"

	"jklcheck/core"
)

func init() { registry["C09"] = c09 }

// edgesInto returns all CFG edges entering the block of instruction in.
func edgesInto(fn *ssa.Function, in ssa.Instruction) map[core.Edge]bool {
	out := map[core.Edge]bool{}
	for _, b := range fn.Blocks {
		for i, s := range b.Succs {
			if s == in.Block() {
				out[core.Edge{From: b, Succ: i}] = true
			}
		}
	}
	return out
}

func bankOf(p *core.Program, h *core.Handler, method string) []*core.BankOp {
	var out []*core.BankOp
	for _, bo := range p.Summary(h.Fn).Bank {
		if bo.Method == method {
			out = append(out, bo)
		}
	}
	return out
}

func errorsPropagate(r *core.Run, rule string, h *core.Handler) {
	p := r.Prog
	for _, bo := range p.Summary(h.Fn).Bank {
		ok, why := p.ErrPropagated(bo.Instr)
		r.Check(ok, rule, h.Key()+":error-propagates:"+bo.Method+"@"+core.FnName(bo.Fn), p.InstrPos(bo.Instr), why, "bank error is dropped: "+why)
		// the unit's error must reach the handler's return
		if bo.Fn != h.Fn {
			for _, b := range h.Fn.Blocks {
				for _, ins := range b.Instrs {
					if call, ok := ins.(ssa.CallInstruction); ok {
						for _, cal := range p.Callees(call) {
							if cal == bo.Fn {
								ok, why := p.ErrPropagated(call)
								r.Check(ok, rule, h.Key()+":handler-returns-error", p.InstrPos(call), why, "handler swallows the error of the unit that moves coins: "+why)
							}
						}
					}
				}
			}
		}
	}
}

func c09(r *core.Run) {
	p := r.Prog
	r.Explanation = "Static rules over the rns handlers that touch the name-service module account (bank call sites discovered from the program: register x2, buy, bid, cancel, accept): pass-through handlers debit and credit the same SSA value and every committing path after the debit performs the credit; a bid's escrowed coins and its recorded price come from the single message field Bid, keyed and paid by the signer; a bid record is overwritten only if none existed or after a refund of the loaded old bid to its bidder; cancel/accept pay exactly the loaded record's price to the signer and every committing path afterwards deletes that bid; all bank errors propagate. These are the per-transition causes of 'module balance = sum of open bids'; the numeric invariant itself is not decided."
	r.Assumptions = []string{T1, T3, T4}
	r.NotDecided = []string{"the numeric invariant balance = Σ bids (follows from R1–R5 given T3)", "key-concatenation ambiguity bidder‖name"}
	r.Rule("C09/R1", "pass-through: in Register/RegisterName/Buy the account->module and module->account amounts are the same value and every committing path after the debit performs the credit")
	r.Rule("C09/R2", "escrow-in recorded: in Bid the escrowed coins and the stored Bids.Price depend only on msg.Bid; payer and key ⊵ signer")
	r.Rule("C09/R3", "no silent overwrite: the Bids write is on committing paths only under Found(bid)=false or after a module->account refund of the loaded bid's price to the signer")
	r.Rule("C09/R4", "escrow-out consumes: Cancel/Accept pay an amount ⊵ loaded Bids.Price only to the signer and every committing path after the send deletes the bid with the key it was loaded by")
	r.Rule("C09/R6", "every delete of a Bids record in an rns handler is preceded on all paths by a module->account send of that record's price")
	r.Rule("C09/R8", "what can be escrowed can be paid out: every stateless check MsgCancelBid / MsgAcceptBid apply to the name is also applied by MsgBid (a bid placed under a name that the closing messages reject can never be cancelled or accepted)")
	r.Rule("C09/R7", "a genesis import of the rns module writes every element of its lists (in particular every open bid): the module account keeps the escrow across the import, so a dropped bid record leaves coins nobody can claim")
	r.Rule("C09/R5", "bank errors propagate to a failing return of the handler")
	hs, err := p.Handlers()
	if err != nil {
		r.Undecided("C09/R1", "handlers", "", err.Error())
		return
	}
	// census of rns bank sites
	nSites := 0
	covered := map[string]bool{"rns.MsgRegister": true, "rns.MsgRegisterName": true, "rns.MsgBuy": true, "rns.MsgBid": true, "rns.MsgCancelBid": true, "rns.MsgAcceptBid": true}
	for _, h := range hs {
		if h.Module != "rns" {
			continue
		}
		ops := p.Summary(h.Fn).Bank
		if len(ops) > 0 && !covered[h.Key()] {
			r.Violation("C09/R1", h.Key()+":no-row", p.InstrPos(ops[0].Instr), "an rns handler moves coins but has no escrow policy row")
		}
		if covered[h.Key()] {
			nSites += len(ops)
			errorsPropagate(r, "C09/R5", h)
		}
	}
	r.Floor("C09/R1", nSites, 8, "rns bank call sites (per handler)")
	// R7: a genesis import keeps every open bid (the escrow itself lives in the bank module and survives the import)
	genesisImportsAll(r, "C09/R7", "rns")
	validatorsIncluded(r, "C09/R8", "x/rns/types", "Name", "MsgBid", []string{"MsgCancelBid", "MsgAcceptBid"})
	// R6: every delete of a bid record, in any rns handler, follows a payout of that record's price
	nDelB := 0
	for _, h := range hs {
		if h.Module != "rns" {
			continue
		}
		for _, fn := range p.Summary(h.Fn).Funcs {
			allInstrs(fn, func(in ssa.Instruction) {
				call, ok := in.(ssa.CallInstruction)
				if !ok {
					return
				}
				cal, _ := directOpCallee(p, call, "Delete", rnsBids)
				if cal == nil || cal == fn {
					return
				}
				nDelB++
				funcs := p.Summary(h.Fn).Funcs
				var paidBefore func(fn *ssa.Function, at ssa.Instruction, depth int) bool
				paidBefore = func(fn *ssa.Function, at ssa.Instruction, depth int) bool {
					for _, bo := range p.BankOps(fn) {
						if bo.Method == "SendCoinsFromModuleToAccount" && onlyStoreField(rnsBids, ".Price")(p.ProvAt(bo.Args[2], "", bo.Instr)) && precedesAlways(fn, bo.Instr, at) {
							return true
						}
					}
					// ... or the payout is made by a helper called here (releaseEscrow(bid, to))
					for _, e := range p.Effects(fn) {
						if e.Direct || e.Instr == at {
							continue
						}
						for _, bo := range e.Bank {
							if bo.Method == "SendCoinsFromModuleToAccount" && onlyStoreField(rnsBids, ".Price")(p.ResolveToEntry(p.ProvAt(bo.Args[2], "", bo.Instr), h.Fn)) && precedesAlways(fn, e.Instr, at) {
								return true
							}
						}
					}
					if fn == h.Fn || depth > 3 {
						return false
					}
					// the payout may precede the call of this helper in every caller
					n := 0
					all := true
					for _, caller := range funcs {
						allInstrs(caller, func(in2 ssa.Instruction) {
							cs, ok := in2.(ssa.CallInstruction)
							if !ok {
								return
							}
							for _, c := range p.Callees(cs) {
								if c == fn {
									n++
									if !paidBefore(caller, cs, depth+1) {
										all = false
									}
								}
							}
						})
					}
					return n > 0 && all
				}
				paid := paidBefore(fn, call, 0)
				r.Check(paid, "C09/R6", fmt.Sprintf("%s:%s:bid-deleted-only-after-payout", h.Key(), fn.Name()), p.InstrPos(call), "the bid is deleted only after its recorded price has been paid out", "a bid record is deleted on a path that has not paid its escrow out (to the bidder or the seller): the tokens stay in the module account with no bid left to claim them")
			})
		}
	}
	r.Floor("C09/R6", nDelB, 2, "bid deletions")
	// R1
	for _, key := range []string{"rns.MsgRegister", "rns.MsgRegisterName", "rns.MsgBuy"} {
		h := core.HandlerByKey(hs, key)
		if h == nil {
			r.Undecided("C09/R1", key+":anchor-missing", "", "handler missing")
			continue
		}
		in, out := bankOf(p, h, "SendCoinsFromAccountToModule"), bankOf(p, h, "SendCoinsFromModuleToAccount")
		if len(in) != 1 || len(out) != 1 {
			r.Violation("C09/R1", key+":pass-through", p.Pos(h.Fn.Pos()), fmt.Sprintf("expected one debit and one credit, found %d and %d", len(in), len(out)))
			continue
		}
		r.Check(core.SameValue(in[0].Args[2], out[0].Args[2]), "C09/R1", key+":same-value", p.InstrPos(out[0].Instr), "debit and credit are the same SSA value", "the amount paid out of the module account differs from the amount paid in: a residue stays in (or is drawn from) the bid escrow")
		same := in[0].Fn == out[0].Fn && p.BypassExists(in[0].Fn, in[0].Instr, out[0].Instr, false) == nil
		r.Check(same, "C09/R1", key+":credit-follows-debit", p.InstrPos(in[0].Instr), "every committing path after the debit performs the credit", "a committing path debits the payer into the module account without paying it out")
		r.Check(p.OnlyMsgField(p.ProvAt(in[0].Args[0], "", in[0].Instr), h, "Creator"), "C09/R1", key+":payer-is-signer", p.InstrPos(in[0].Instr), "payer ⊵ signer only", "payer is not the signer")
	}
	// R2 + R3
	if h := core.HandlerByKey(hs, "rns.MsgBid"); h == nil {
		r.Undecided("C09/R2", "rns.MsgBid:anchor-missing", "", "handler missing")
	} else {
		in := bankOf(p, h, "SendCoinsFromAccountToModule")
		if len(in) != 1 {
			r.Violation("C09/R2", h.Key()+":escrow-in", p.Pos(h.Fn.Pos()), fmt.Sprintf("expected exactly one escrow debit, found %d", len(in)))
		} else {
			ap := p.ProvAt(in[0].Args[2], "", in[0].Instr)
			r.Check(p.OnlyMsgField(ap, h, "Bid"), "C09/R2", h.Key()+":escrow-amount", p.InstrPos(in[0].Instr), "escrowed coins ⊵ msg.Bid only", "escrowed amount is not exactly the bid: "+p.ResolveToEntry(ap, h.Fn).String())
			r.Check(p.OnlyMsgField(p.ProvAt(in[0].Args[0], "", in[0].Instr), h, "Creator"), "C09/R2", h.Key()+":payer-is-signer", p.InstrPos(in[0].Instr), "payer ⊵ signer only", "payer is not the signer")
		}
		unit := h.Fn
		var setCall ssa.CallInstruction
		for _, fn := range p.Summary(h.Fn).Funcs {
			for _, e := range p.Effects(fn) {
				if call, ok := e.Instr.(ssa.CallInstruction); ok && !e.Direct && effHas(e, "Set", rnsBids) && fn != h.Fn {
					unit, setCall = fn, call
				}
			}
		}
		if setCall == nil {
			for _, e := range p.Effects(h.Fn) {
				if call, ok := e.Instr.(ssa.CallInstruction); ok && effHas(e, "Set", rnsBids) {
					setCall = call
				}
			}
		}
		if setCall == nil {
			r.Undecided("C09/R2", h.Key()+":bid-write", p.Pos(h.Fn.Pos()), "no write of a Bids record")
		} else {
			args := dataArgs(setCall)
			rec := args[len(args)-1]
			pp := p.ProvAt(rec, ".Price", setCall)
			r.Check(p.OnlyMsgField(pp, h, "Bid"), "C09/R2", h.Key()+":recorded-price", p.InstrPos(setCall), "Bids.Price ⊵ msg.Bid only", "recorded price differs from the escrowed bid: "+p.ResolveToEntry(pp, h.Fn).String())
			bp := p.ProvAt(rec, ".Bidder", setCall)
			r.Check(p.OnlyMsgField(bp, h, "Creator"), "C09/R2", h.Key()+":recorded-bidder", p.InstrPos(setCall), "Bids.Bidder ⊵ signer only", "recorded bidder is not the signer")
			ip := p.ProvAt(rec, ".Index", setCall)
			fs := strings.Join(p.MsgFields(ip, h), ",")
			r.Check(fs == "Creator,Name", "C09/R2", h.Key()+":bid-key", p.InstrPos(setCall), "key ⊵ {signer, msg.Name}", "bid key depends on {"+fs+"}")
			// R3
			removed := p.PassEdges(unit, foundGuard(p, rnsBids, false))
			// refund sends: module->account with amount ⊵ Store(Bids).Price and recipient ⊵ signer
			for _, bo := range p.BankOps(unit) {
				if bo.Method != "SendCoinsFromModuleToAccount" {
					continue
				}
				if onlyStoreField(rnsBids, ".Price")(p.ProvAt(bo.Args[2], "", bo.Instr)) && p.OnlyMsgField(p.ProvAt(bo.Args[1], "", bo.Instr), h, "Creator") {
					for e := range edgesInto(unit, bo.Instr) {
						removed[e] = true
					}
				}
			}
			// helpers of the unit that either find no open bid or refund it before returning nil
			isRefund := func(bo *core.BankOp) bool {
				return bo.Method == "SendCoinsFromModuleToAccount" && onlyStoreField(rnsBids, ".Price")(p.ProvAt(bo.Args[2], "", bo.Instr)) &&
					p.OnlyMsgField(p.ProvAt(bo.Args[1], "", bo.Instr), h, "Creator")
			}
			refundOrAbsent := func(hf *ssa.Function) bool {
				if hf.Blocks == nil || errResultIdx(hf) < 0 {
					return false
				}
				rm := p.PassEdges(hf, foundGuard(p, rnsBids, false))
				nRef := 0
				for _, bo := range p.BankOps(hf) {
					if isRefund(bo) {
						nRef++
						// a tail `return send(...)` returns nil only if the refund succeeded: treat the block as passed
						for e := range edgesInto(hf, bo.Instr) {
							rm[e] = true
						}
					}
				}
				if nRef == 0 {
					return false
				}
				for _, ri := range p.Returns(hf) {
					if ri.Class == core.RetFail {
						continue
					}
					if core.PathExists(hf, rm, hf.Blocks[0].Instrs[0], ri.Ret) {
						return false
					}
				}
				return true
			}
			helperEdges := p.PassEdges(unit, errNilGuard(p, func(c *ssa.Call) bool {
				cs := p.Callees(c)
				return len(cs) == 1 && refundOrAbsent(cs[0])
			}))
			for e := range helperEdges {
				removed[e] = true
			}
			// the lookup that decides "no open bid" must use the very key the record is written under
			var getter *ssa.Call
			var getterIn *ssa.Function
			var via *ssa.Call
			findGetter := func(funcs []*ssa.Function) {
				for _, fn2 := range funcs {
					allInstrs(fn2, func(in ssa.Instruction) {
						if c, ok := in.(*ssa.Call); ok {
							for _, cal := range p.Callees(c) {
								if gi := p.StoreGetter(cal); gi != nil && gi.Module+"/"+gi.Prefix == rnsBids && fn2 != cal {
									getter, getterIn = c, fn2
								}
							}
						}
					})
				}
			}
			findGetter(p.Summary(unit).Funcs)
			if getter == nil {
				findGetter(p.Summary(h.Fn).Funcs) // the lookup sits in a sibling helper (validate, then apply)
			}
			if getterIn != nil && getterIn != unit {
				allInstrs(unit, func(in ssa.Instruction) {
					if c, ok := in.(*ssa.Call); ok {
						for _, cal := range p.Callees(c) {
							if cal == getterIn {
								via = c
							}
						}
					}
				})
			}
			if getter == nil {
				r.Violation("C09/R3", h.Key()+":open-bid-lookup", p.InstrPos(setCall), "the bid handler never looks up an existing bid before writing")
			} else if al := recordAlloc(rec); al != nil {
				var idx ssa.Value
				for _, st := range fieldStores(al, "Index") {
					idx = st.Val
				}
				ga := dataArgs(getter)
				tb := core.NewTermBuilder(p)
				gtb := core.NewTermBuilder(p)
				if via != nil {
					// name the helper's parameters by the terms of the arguments at its call in the unit
					for i, prm := range getterIn.Params {
						if i < len(via.Call.Args) {
							gtb.Names[prm] = tb.Term(via.Call.Args[i])
						}
					}
				}
				okKey := idx != nil && len(ga) == 1 && gtb.Term(ga[0]) == tb.Term(idx)
				detail := ""
				if idx != nil && len(ga) == 1 {
					detail = "lookup " + gtb.Term(ga[0]) + " vs written " + tb.Term(idx)
				}
				r.Check(okKey, "C09/R3", h.Key()+":lookup-key=written-key", p.InstrPos(getter), "open-bid lookup key and written key are the same term", "the open bid is looked up under a different key than the new bid is written under, so an existing bid can be overwritten without being found and refunded: "+detail)
			}
			bad := core.PathExists(unit, removed, setCall, nil)
			if bad {
				// validate-then-apply shapes: the lookup and the write sit in sibling helpers and the verdict travels in a
				// record; judge the executions of the function that calls both, the helpers executed in line
				tops := []*ssa.Function{unit}
				for _, f := range p.Summary(h.Fn).Funcs {
					if f != unit && callsDirectly(p, f, unit) {
						tops = append(tops, f)
					}
				}
				absent := foundGuard(p, rnsBids, false)
				for _, top := range tops {
					execs, complete := p.AbstractExecutions(top)
					if !complete {
						continue
					}
					n, all := 0, true
					for i := range execs {
						e := &execs[i]
						when, performed := e.Calls[setCall]
						if !performed || !p.ExecCommits(top, e) {
							continue
						}
						n++
						ok := p.ExecSatisfies(e, absent, when)
						for in, at := range e.Calls {
							if ok || at > when {
								continue
							}
							if c, isCall := in.(ssa.CallInstruction); isCall {
								for _, bo := range p.BankOps(in.Parent()) {
									if bo.Instr == c && bo.Method == "SendCoinsFromModuleToAccount" &&
										onlyStoreField(rnsBids, ".Price")(p.ResolveToEntry(p.ProvAt(bo.Args[2], "", bo.Instr), h.Fn)) &&
										p.OnlyMsgField(p.ProvAt(bo.Args[1], "", bo.Instr), h, "Creator") {
										ok = true
									}
								}
							}
						}
						if !ok {
							all = false
						}
					}
					if n > 0 && all {
						bad = false
						break
					}
				}
			}
			r.Check(!bad, "C09/R3", h.Key()+":overwrite-without-refund", p.InstrPos(setCall), "bid written only if none existed or after refunding the old one", "a second bid by the same account on the same name overwrites the first without refunding it: the first escrow is stranded in the module account")
		}
	}
	// R4
	for _, key := range []string{"rns.MsgCancelBid", "rns.MsgAcceptBid"} {
		h := core.HandlerByKey(hs, key)
		if h == nil {
			r.Undecided("C09/R4", key+":anchor-missing", "", "handler missing")
			continue
		}
		out := bankOf(p, h, "SendCoinsFromModuleToAccount")
		if len(out) != 1 || len(bankOf(p, h, "SendCoinsFromAccountToModule")) != 0 {
			r.Violation("C09/R4", key+":escrow-out", p.Pos(h.Fn.Pos()), "expected exactly one payout and no debit")
			continue
		}
		bo := out[0]
		ap := p.ResolveToEntry(p.ProvAt(bo.Args[2], "", bo.Instr), h.Fn)
		r.Check(onlyStoreField(rnsBids, ".Price")(ap), "C09/R4", key+":amount-is-recorded-price", p.InstrPos(bo.Instr), "amount ⊵ loaded Bids.Price only", "payout is not exactly the recorded bid: "+ap.String())
		r.Check(p.OnlyMsgField(p.ProvAt(bo.Args[1], "", bo.Instr), h, "Creator"), "C09/R4", key+":recipient-is-signer", p.InstrPos(bo.Instr), "recipient ⊵ signer only", "escrow is paid to someone other than the signer (bidder on cancel, verified owner on accept)")
		// delete follows: in the function that pays out, or — when the payout sits in a helper — in the function of the
		// handler's reach that calls that helper and deletes the bid
		var del ssa.CallInstruction
		payFn, payInstr := bo.Fn, ssa.Instruction(bo.Instr)
		for _, e := range p.Effects(bo.Fn) {
			if c, ok := e.Instr.(ssa.CallInstruction); ok && effHas(e, "Delete", rnsBids) {
				del = c
			}
		}
		if del == nil {
			for _, f := range p.Summary(h.Fn).Funcs {
				var pe, de *core.Effect
				for _, e := range p.Effects(f) {
					for _, b := range e.Bank {
						if b == bo {
							pe = e
						}
					}
					if _, ok := e.Instr.(ssa.CallInstruction); ok && effHas(e, "Delete", rnsBids) {
						de = e
					}
				}
				if pe != nil && de != nil && pe != de {
					payFn, payInstr, del = f, pe.Instr, de.Instr.(ssa.CallInstruction)
				}
			}
		}
		if del == nil {
			r.Violation("C09/R4", key+":bid-consumed", p.InstrPos(bo.Instr), "the bid is paid out but never deleted: it can be cancelled/accepted again")
			continue
		}
		r.Check(p.BypassExists(payFn, payInstr, del, false) == nil, "C09/R4", key+":bid-consumed", p.InstrPos(del), "every committing path after the payout deletes the bid", "a committing path pays the escrow out without deleting the bid")
		// key equality with the getter
		var getter *ssa.Call
		for _, a := range ap.DataAtoms() {
			if c, ok := a.Call.(*ssa.Call); ok {
				getter = c
			}
		}
		if getter != nil {
			// the keys as the accessors build them (an accessor that rewrites its argument — lower-cases it, trims it —
			// reads or deletes another slot than the one its caller names): equal terms through the accessor bodies;
			// equal arguments only decide when those terms are not available
			keyTermsKeepRewrite = true
			gt, dt := keyTermsThrough(p, getter, "Get", rnsBids), keyTermsThrough(p, del, "Delete", rnsBids)
			keyTermsKeepRewrite = false
			same := false
			if len(gt) > 0 && len(dt) > 0 && !strings.Contains(strings.Join(gt, "|")+strings.Join(dt, "|"), "?") {
				same = strings.Join(gt, "|") == strings.Join(dt, "|")
			} else {
				same = sameArgs(p, getter, del)
			}
			r.Check(same, "C09/R4", key+":delete-key", p.InstrPos(del), "deleted key = loaded key", "the deleted bid is not the one that was paid out")
		}
	}
}
