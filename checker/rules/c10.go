package rules

import (
	"fmt"
	"go/token"
	"sort"
	"strings"

	"golang.org/x/tools/go/ssa"

	"jklcheck/core"
)

const ftFiles = "filetree/Files/value/"

func init() { registry["C10"] = c10 }

// dataArgs returns the arguments of a call without receiver and context.
func dataArgs(call ssa.CallInstruction) []ssa.Value {
	c := call.Common()
	args := c.Args
	if !c.IsInvoke() && c.Signature().Recv() != nil && len(args) > 0 {
		args = args[1:]
	}
	var out []ssa.Value
	for _, a := range args {
		if strings.HasSuffix(a.Type().String(), "types.Context") || a.Type().String() == "context.Context" {
			continue
		}
		out = append(out, a)
	}
	return out
}

// ownerPredicate recognises the owner predicate semantically: a custom bool function of (record, user) whose every
// return is an equality between record.Owner and a SHA-256 digest depending on record.Address and the user.
func ownerPredicate(p *core.Program, fn *ssa.Function) (bool, string) {
	if fn == nil || fn.Blocks == nil || len(fn.Params) != 2 || fn.Signature.Results().Len() != 1 {
		return false, "shape"
	}
	n := 0
	for _, b := range fn.Blocks {
		ret, ok := b.Instrs[len(b.Instrs)-1].(*ssa.Return)
		if !ok {
			continue
		}
		n++
		bo, ok := ret.Results[0].(*ssa.BinOp)
		if !ok || bo.Op != token.EQL {
			return false, "a return is not an equality"
		}
		px, py := p.ProvAt(bo.X, "", bo), p.ProvAt(bo.Y, "", bo)
		isOwnerField := func(pr core.Prov) bool {
			at := pr.DataAtoms()
			return len(at) == 1 && at[0].Kind == "param" && at[0].Idx == 0 && at[0].Path == ".Owner"
		}
		isDigest := func(pr core.Prov) bool {
			return pr.HasExt("sha256") && pr.HasParam(fn, 1, "") && pr.HasParam(fn, 0, ".Address") &&
				!pr.HasParam(fn, 0, ".Owner") && !pr.HasParam(fn, 0, ".EditAccess") && !pr.HasParam(fn, 0, ".ViewingAccess")
		}
		if !((isOwnerField(px) && isDigest(py)) || (isOwnerField(py) && isDigest(px))) {
			return false, fmt.Sprintf("equality is not Owner == H(Address, user): %s vs %s", px, py)
		}
	}
	return n > 0, "Eq(record.Owner, H('o'+record.Address+H(user)))"
}

// accessPredicate recognises an access-list membership predicate over the given record field:
// (record, user) -> (bool, error) with the bool depending on JSON-decoded record.<field>, record.TrackingNumber and user.
func accessPredicate(p *core.Program, fn *ssa.Function, field string, other ...string) (bool, string) {
	if fn == nil || fn.Blocks == nil || len(fn.Params) != 2 || fn.Signature.Results().Len() != 2 {
		return false, "shape"
	}
	n := 0
	for _, b := range fn.Blocks {
		ret, ok := b.Instrs[len(b.Instrs)-1].(*ssa.Return)
		if !ok {
			continue
		}
		if c, ok := ret.Results[0].(*ssa.Const); ok && c.Value != nil && c.Value.ExactString() == "false" {
			continue
		}
		n++
		ex, ok := ret.Results[0].(*ssa.Extract)
		if !ok {
			return false, "granting return is not a map membership test"
		}
		lk, ok := ex.Tuple.(*ssa.Lookup)
		if !ok || !lk.CommaOk {
			return false, "granting return is not a map membership test"
		}
		mp := p.ProvAt(lk.X, "", lk)
		kp := p.ProvAt(lk.Index, "", lk)
		if !(mp.HasParam(fn, 0, "."+field) && mp.HasExt("json.Unmarshal")) {
			return false, "access map is not decoded from record." + field
		}
		for _, o := range other {
			if mp.HasParam(fn, 0, "."+o) {
				return false, "access map depends on record." + o
			}
		}
		if !(kp.HasExt("sha256") && kp.HasParam(fn, 1, "") && kp.HasParam(fn, 0, ".TrackingNumber")) {
			return false, "membership key is not H(tracking number, user)"
		}
	}
	return n > 0, "Member(json(record." + field + "), H(prefix+record.TrackingNumber+user))"
}

func c10(r *core.Run) {
	p := r.Prog
	r.Explanation = "Static rules over the 11 filetree handlers discovered from the Msg service: every write/delete of a Files record in the eight owner-only handlers lies behind the owner predicate applied to the loaded record and the signer on all committing paths; PostFile's write lies behind the edit-access predicate applied to the parent record loaded by (HashParent, Account) and the signer; only the field named by the message is assigned between load and store; deletes use the loaded key; root provisioning writes a record owned by the signer only. Predicates are recognised by their shape (what they compare), not by name."
	r.Assumptions = []string{T1, T2, T4, "SHA-256 collision resistance"}
	r.NotDecided = []string{"hash collision resistance", "separator-crafting in key components (stored Address/Owner are hex digests)"}
	r.Rule("C10/R6", "an entry created behind 'no entry at that key' is written under the key whose absence was tested (same owner-address term on both sides): otherwise another owner's existing entry can be overwritten")
	r.Rule("C10/R1", "owner gate: every effect of DeleteFile/ChangeOwner/Add,Remove,ResetViewers/Add,Remove,ResetEditors is, on all committing paths, behind ownerPredicate(loaded record, signer)=true")
	r.Rule("C10/R2", "editor gate: PostFile's write is behind editAccessPredicate(parent record, signer)=true; parent loaded by key ⊵ {msg.HashParent, msg.Account}; new Owner ⊵ msg.Account and ⋫ msg.Creator")
	r.Rule("C10/R3", "only the named entry and field: the stored record is the loaded one with only the handler's field assigned; deletes use the key the record was loaded by")
	r.Rule("C10/R5", "the named change happens: every successful return of reset / change-owner / delete has performed the write or delete; a reset stores a fresh map with the single key H(prefix, record.TrackingNumber, signer)")
	r.Rule("C10/R4", "root provisioning writes exactly one Files record whose Owner ⊵ signer only and whose Address is constant")
	hs, err := p.Handlers()
	if err != nil {
		r.Undecided("C10/R1", "handlers", "", err.Error())
		return
	}
	var ftHs []*core.Handler
	for _, h := range hs {
		if h.Module == "filetree" {
			ftHs = append(ftHs, h)
		}
	}
	r.Floor("C10/R6", absentCheckKeyAgreement(r, "C10/R6", ftHs), 1, "create-if-absent pairs in filetree handlers")
	ownerOnly := map[string]string{ // handler -> field it may assign ("" = none, "-" delete only)
		"filetree.MsgDeleteFile":    "",
		"filetree.MsgChangeOwner":   "Owner",
		"filetree.MsgAddViewers":    "ViewingAccess",
		"filetree.MsgRemoveViewers": "ViewingAccess",
		"filetree.MsgResetViewers":  "ViewingAccess",
		"filetree.MsgAddEditors":    "EditAccess",
		"filetree.MsgRemoveEditors": "EditAccess",
		"filetree.MsgResetEditors":  "EditAccess",
	}
	known := map[string]bool{"filetree.MsgPostFile": true, "filetree.MsgProvisionFileTree": true}
	nOwner := 0
	for _, h := range hs {
		writes := hasStoreWrite(p, h.Fn, "filetree", "Files/value/")
		field, isOwnerOnly := ownerOnly[h.Key()]
		if !isOwnerOnly {
			if writes && !known[h.Key()] {
				r.Violation("C10/R1", h.Key()+":no-row", p.Pos(h.Fn.Pos()), "handler writes filetree Files records but has no authorization policy row")
			}
			continue
		}
		nOwner++
		mk := func(unit *ssa.Function) core.GuardMatch {
			return callBoolGuard(p, func(call *ssa.Call, callees []*ssa.Function) bool {
				if len(callees) != 1 {
					return false
				}
				if ok, _ := ownerPredicate(p, callees[0]); !ok {
					return false
				}
				args := dataArgs(call)
				if len(args) != 2 {
					return false
				}
				return p.ResolveToEntry(p.ProvAt(args[0], "", call), h.Fn).HasStore(ftFiles, "") && p.OnlyMsgField(p.ProvAt(args[1], "", call), h, "Creator")
			}, true)
		}
		guardRow(r, "C10/R1", h, "owner-gate", allEffects(), mk, "ownerPredicate(loaded record, signer)=true")
		c10Census(r, h, field)
	}
	r.Floor("C10/R1", nOwner, 8, "owner-only handlers")
	// ---- R7 a remove message only removes: the access list it stores gains no entry
	r.Rule("C10/R7", "a remove message alters nothing but the ids it names: in the remove-viewers / remove-editors handlers the access map receives no new entry (entries copied over from a range of the decoded list apart), it is only deleted from")
	nRemove := 0
	for _, key := range []string{"filetree.MsgRemoveViewers", "filetree.MsgRemoveEditors"} {
		h := core.HandlerByKey(hs, key)
		if h == nil {
			r.Undecided("C10/R7", key+":anchor-missing", "", "handler missing")
			continue
		}
		for _, fn := range p.Summary(h.Fn).Funcs {
			if core.ModuleOf(fn) != "filetree" {
				continue
			}
			allInstrs(fn, func(in ssa.Instruction) {
				switch x := in.(type) {
				case *ssa.Call:
					if b, ok := x.Call.Value.(*ssa.Builtin); ok && b.Name() == "delete" {
						nRemove++
					}
					if strings.HasPrefix(core.CalleeFullName(x), "maps.DeleteFunc") {
						nRemove++
					}
				case *ssa.MapUpdate:
					if x.Map.Type().Underlying().String() != "map[string]string" {
						return
					}
					// copying an entry of the decoded list into a fresh map (filtering) is not an insertion
					copied := false
					if ex, ok := x.Key.(*ssa.Extract); ok {
						if _, isNext := ex.Tuple.(*ssa.Next); isNext {
							copied = true
						}
					}
					nRemove++
					r.Check(copied, "C10/R7", key+":no-entry-added:"+fn.Name(), p.InstrPos(x), "entries are only copied over or deleted", "a remove message adds an entry to the access list it stores (an id the message did not name gains access)")
				}
			})
		}
	}
	r.Floor("C10/R7", nRemove, 2, "remove handlers' map operations")
	// ---- R5 the named change happens on every successful return (reset / change owner / delete)
	for _, key := range []string{"filetree.MsgResetViewers", "filetree.MsgResetEditors", "filetree.MsgChangeOwner", "filetree.MsgDeleteFile"} {
		h := core.HandlerByKey(hs, key)
		if h == nil {
			continue
		}
		for _, e := range p.Effects(h.Fn) {
			if len(e.Store) == 0 {
				continue
			}
			ret := p.BypassExists(h.Fn, h.Fn.Blocks[0].Instrs[0], e.Instr, false)
			r.Check(ret == nil, "C10/R5", key+":success-implies-change:"+effKinds(e), p.InstrPos(e.Instr), "every successful return has performed "+effKinds(e), "the handler can report success without having performed "+effKinds(e)+" (e.g. an early return): the entry keeps its old access list / owner although the message succeeded")
		}
		if !strings.Contains(key, "Reset") {
			continue
		}
		// the stored access list is a fresh map with exactly one entry keyed by H(prefix, tracking number, signer)
		field := ownerOnly[key]
		for _, e := range p.Effects(h.Fn) {
			call, ok := e.Instr.(ssa.CallInstruction)
			if !ok || !effHas(e, "Set", ftFiles) {
				continue
			}
			rec := dataArgs(call)[0]
			al := recordAlloc(rec)
			if al == nil {
				continue
			}
			okReset, detail := false, "stored value is not json.Marshal of a fresh map"
			type fieldAssign struct {
				Val ssa.Value
				ctx ssa.CallInstruction // the call of the record's setter method in which the assignment happens, if any
			}
			var assigns []fieldAssign
			for _, st := range fieldStores(al, field) {
				assigns = append(assigns, fieldAssign{st.Val, nil})
			}
			if len(assigns) == 0 {
				// assigned by a method of the record called with its address (file.SetViewerMap(m))
				for _, ref := range *al.Referrers() {
					cs, isCall := ref.(ssa.CallInstruction)
					if !isCall {
						continue
					}
					for _, cal := range p.Callees(cs) {
						for i, a := range cs.Common().Args {
							if a != ssa.Value(al) || i >= len(cal.Params) || !p.MayWriteField(cal, i, field) {
								continue
							}
							allInstrs(cal, func(in ssa.Instruction) {
								if st, ok := in.(*ssa.Store); ok {
									if fa, ok := st.Addr.(*ssa.FieldAddr); ok && fa.X == ssa.Value(cal.Params[i]) && core.FieldName(fa.X.Type(), fa.Field) == field {
										assigns = append(assigns, fieldAssign{st.Val, cs})
									}
								}
							})
						}
					}
				}
			}
			for _, st := range assigns {
				// value = string(json.Marshal(M)#0), possibly produced by a helper that returns the marshalled string
				// or the fresh map
				var m ssa.Value
				var helperCall *ssa.Call
				var find func(v ssa.Value, idx int, depth int, ctxs []ssa.CallInstruction)
				find = func(v ssa.Value, idx int, depth int, ctxs []ssa.CallInstruction) {
					for i := 0; i < 6 && v != nil && m == nil; i++ {
						switch x := v.(type) {
						case *ssa.Convert:
							v = x.X
						case *ssa.Extract:
							idx = x.Index
							v = x.Tuple
						case *ssa.MakeMap:
							m = x
							v = nil
						case *ssa.Parameter:
							// inside a setter method / encoding helper: the argument handed in at the call we came through
							v = nil
							for ci := len(ctxs) - 1; ci >= 0 && v == nil; ci-- {
								for _, cal := range p.Callees(ctxs[ci]) {
									if cal != x.Parent() {
										continue
									}
									for pi, q := range cal.Params {
										if q == x && pi < len(ctxs[ci].Common().Args) {
											v = ctxs[ci].Common().Args[pi]
											ctxs = ctxs[:ci]
										}
									}
								}
							}
						case *ssa.Call:
							if strings.HasSuffix(core.CalleeFullName(x), "encoding/json.Marshal") {
								v = nil
								if mi, ok := x.Call.Args[0].(*ssa.MakeInterface); ok {
									v = mi.X // the marshalled map: a make(...) here or the result of a helper
									idx = 0
								}
								continue
							}
							if cs := p.Callees(x); len(cs) == 1 && depth < 2 {
								if helperCall == nil {
									helperCall = x
								}
								for _, hb := range cs[0].Blocks {
									if ret, ok := hb.Instrs[len(hb.Instrs)-1].(*ssa.Return); ok && idx < len(ret.Results) {
										if c, isC := ret.Results[idx].(*ssa.Const); isC && c.Value != nil && c.Value.ExactString() == `""` {
											continue // the failing return
										}
										find(ret.Results[idx], 0, depth+1, append(append([]ssa.CallInstruction{}, ctxs...), x))
									}
								}
							}
							v = nil
						default:
							v = nil
						}
					}
				}
				var ctxs []ssa.CallInstruction
				if st.ctx != nil {
					ctxs = append(ctxs, st.ctx)
				}
				find(st.Val, 0, 0, ctxs)
				mm, isMake := m.(*ssa.MakeMap)
				if !isMake {
					helperCall = nil
				}
				if !isMake {
					continue
				}
				var ups []*ssa.MapUpdate
				for _, ref := range *mm.Referrers() {
					if mu, ok := ref.(*ssa.MapUpdate); ok {
						ups = append(ups, mu)
					}
					if c, ok := ref.(ssa.CallInstruction); ok && !strings.HasSuffix(core.CalleeFullName(c), "json.Marshal") && helperCall == nil {
						detail = "the fresh map is passed to " + short(core.CalleeFullName(c))
						ups = append(ups, nil, nil)
					}
				}
				if len(ups) != 1 || ups[0] == nil {
					detail = fmt.Sprintf("the stored map receives %d entries, expected exactly the owner's", len(ups))
					continue
				}
				kp := p.ProvAt(ups[0].Key, "", ups[0])
				if helperCall != nil {
					kp = p.ResolveAlong(kp, []ssa.CallInstruction{helperCall})
				}
				if p.OnlyMsgField(core.Prov(filterKinds(kp, "param")), h, "Creator") && kp.HasStore(ftFiles, ".TrackingNumber") && kp.HasExt("sha256") {
					okReset, detail = true, "fresh map with the single key H(prefix, record.TrackingNumber, signer)"
				} else {
					detail = "the single key is not H(prefix, record.TrackingNumber, signer): " + kp.String()
				}
			}
			r.Check(okReset, "C10/R5", key+":reset-leaves-owner-entry-only", p.InstrPos(call), detail, "a reset does not leave exactly the owner's own access entry: "+detail)
		}
	}
	for k := range ownerOnly {
		if core.HandlerByKey(hs, k) == nil {
			r.Undecided("C10/R1", k+":anchor-missing", "", "policy row for a message type that no longer exists")
		}
	}

	// R2 PostFile
	if h := core.HandlerByKey(hs, "filetree.MsgPostFile"); h == nil {
		r.Undecided("C10/R2", "filetree.MsgPostFile:anchor-missing", "", "handler missing")
	} else {
		var parentCall *ssa.Call
		mk := func(unit *ssa.Function) core.GuardMatch {
			return callBoolGuard(p, func(call *ssa.Call, callees []*ssa.Function) bool {
				if len(callees) != 1 {
					return false
				}
				if ok, _ := accessPredicate(p, callees[0], "EditAccess", "ViewingAccess"); !ok {
					return false
				}
				args := dataArgs(call)
				if len(args) != 2 {
					return false
				}
				pr := p.ResolveToEntry(p.ProvAt(args[0], "", call), h.Fn)
				if !pr.HasStore(ftFiles, "") || !p.OnlyMsgField(p.ProvAt(args[1], "", call), h, "Creator") {
					return false
				}
				for _, a := range pr {
					if a.Kind == "store" && a.Name == ftFiles {
						if c, ok := a.Call.(*ssa.Call); ok {
							parentCall = c
						}
					}
				}
				return true
			}, true)
		}
		if guardRow(r, "C10/R2", h, "editor-gate", allEffects(), mk, "editAccessPredicate(parent record, signer)=true") && parentCall != nil {
			// parent key provenance
			fields := map[string]bool{}
			for _, a := range dataArgs(parentCall) {
				for _, f := range p.MsgFields(p.ProvAt(a, "", parentCall), h) {
					fields[f] = true
				}
			}
			got := strings.Join(sortedKeys(fields), ",")
			r.Check(got == "Account,HashParent", "C10/R2", h.Key()+":parent-key", p.InstrPos(parentCall),
				"parent loaded by key ⊵ {msg.HashParent, msg.Account}", "parent folder is loaded by a key depending on {"+got+"}, expected {Account,HashParent}")
		}
		// stored record: the call of the record setter itself, in the handler or in a helper it delegates the write to
		type wsite struct {
			call ssa.CallInstruction
		}
		var wsites []wsite
		for _, wfn := range p.Summary(h.Fn).Funcs {
			if isAccessorFn(p, wfn) {
				continue
			}
			for _, e := range p.Effects(wfn) {
				call, ok := e.Instr.(ssa.CallInstruction)
				if !ok || e.Direct || !performsDirectly(p, wfn, e, "Set", ftFiles) {
					continue
				}
				wsites = append(wsites, wsite{call})
			}
		}
		for _, ws := range wsites {
			call := ws.call
			args := dataArgs(call)
			if len(args) != 1 {
				r.Undecided("C10/R2", h.Key()+":stored-record", p.InstrPos(call), "write of a Files record does not take the record as its single argument")
				continue
			}
			own := p.ProvAt(args[0], ".Owner", call)
			of := strings.Join(p.MsgFields(own, h), ",")
			r.Check(of == "Account,HashChild,HashParent", "C10/R2", h.Key()+":new-owner", p.InstrPos(call),
				"new entry's Owner ⊵ {msg.Account, msg.HashParent, msg.HashChild} (the folder's account), not the signer", "new entry's Owner depends on message fields {"+of+"}; it must be derived from the folder's account and the entry address only")
			ad := p.ProvAt(args[0], ".Address", call)
			af := strings.Join(p.MsgFields(ad, h), ",")
			r.Check(af == "HashChild,HashParent", "C10/R2", h.Key()+":new-address", p.InstrPos(call),
				"new entry's Address ⊵ {msg.HashParent, msg.HashChild}", "new entry's Address depends on message fields {"+af+"}")
		}
	}

	// R4 provisioning
	if h := core.HandlerByKey(hs, "filetree.MsgProvisionFileTree"); h == nil {
		r.Undecided("C10/R4", "filetree.MsgProvisionFileTree:anchor-missing", "", "handler missing")
	} else {
		nw := 0
		for _, fn := range p.Summary(h.Fn).Funcs {
			for _, e := range p.Effects(fn) {
				call, ok := e.Instr.(ssa.CallInstruction)
				if !ok || e.Direct || !performsDirectly(p, fn, e, "Set", ftFiles) {
					continue // only the call of the record setter itself, wherever it sits (handler or helper)
				}
				nw++
				args := dataArgs(call)
				if len(args) != 1 {
					r.Undecided("C10/R4", h.Key()+":stored-record", p.InstrPos(call), "unexpected setter shape")
					continue
				}
				own := p.ProvAt(args[0], ".Owner", call)
				r.Check(p.OnlyMsgField(own, h, "Creator") && own.HasExt("sha256"), "C10/R4", h.Key()+":root-owner", p.InstrPos(call),
					"root Owner ⊵ signer only (hashed)", fmt.Sprintf("root entry's Owner must derive from the signer only; found %s", p.ResolveToEntry(own, h.Fn)))
				ad := p.ProvAt(args[0], ".Address", call)
				r.Check(len(p.MsgFields(ad, h)) == 0, "C10/R4", h.Key()+":root-address", p.InstrPos(call),
					"root Address is constant-derived", "root entry's Address depends on message fields "+strings.Join(p.MsgFields(ad, h), ","))
			}
		}
		r.Check(nw == 1, "C10/R4", h.Key()+":single-write", p.Pos(h.Fn.Pos()), "exactly one Files write", fmt.Sprintf("provisioning performs %d Files writes, expected 1", nw))
	}
}

// c10Census: R3 field census for an owner-only handler.
func c10Census(r *core.Run, h *core.Handler, allowed string) {
	p := r.Prog
	var getCalls []*ssa.Call
	type site struct {
		fn *ssa.Function
		e  *core.Effect
	}
	var sites []site
	// the handler and the helpers it delegates to (validate / apply splits): getter calls and the calls of the record
	// setter / remover themselves, wherever they sit
	for _, fn := range p.Summary(h.Fn).Funcs {
		if isAccessorFn(p, fn) {
			continue
		}
		allInstrs(fn, func(in ssa.Instruction) {
			if c, ok := in.(*ssa.Call); ok {
				for _, cal := range p.Callees(c) {
					if gi := p.StoreGetter(cal); gi != nil && gi.Module+"/"+gi.Prefix == ftFiles {
						getCalls = append(getCalls, c)
					}
				}
			}
		})
		for _, e := range p.Effects(fn) {
			if _, ok := e.Instr.(ssa.CallInstruction); !ok || len(e.Store) == 0 || e.Direct {
				continue
			}
			if performsDirectly(p, fn, e, "Set", ftFiles) || performsDirectly(p, fn, e, "Delete", ftFiles) {
				sites = append(sites, site{fn, e})
			}
		}
	}
	for _, s := range sites {
		e := s.e
		call := e.Instr.(ssa.CallInstruction)
		isSet := false
		for _, o := range e.Store {
			if o.Kind == "Set" {
				isSet = true
			}
		}
		args := dataArgs(call)
		if isSet {
			if len(args) != 1 {
				r.Undecided("C10/R3", h.Key()+":stored-record", p.InstrPos(call), "setter does not take the record as single argument")
				continue
			}
			ld, ok := args[0].(*ssa.UnOp)
			var al *ssa.Alloc
			if ok {
				al, _ = ld.X.(*ssa.Alloc)
			}
			if al == nil {
				r.Undecided("C10/R3", h.Key()+":stored-record", p.InstrPos(call), "stored record is not a local loaded record")
				continue
			}
			fromGetter := false
			written := map[string]bool{}
			for _, ref := range *al.Referrers() {
				switch x := ref.(type) {
				case *ssa.Store:
					if x.Addr == al {
						if p.ResolveToEntry(p.ProvAt(x.Val, "", x), h.Fn).HasStore(ftFiles, "") {
							fromGetter = true
						} else {
							written["*"] = true
						}
					}
				case *ssa.FieldAddr:
					for _, rr := range *x.Referrers() {
						if st, ok := rr.(*ssa.Store); ok && st.Addr == x {
							written[core.FieldName(x.X.Type(), x.Field)] = true
						}
					}
				case ssa.CallInstruction:
					// the record's address handed to a function of the repository (a method of the record that sets one of
					// its fields): the fields that function may assign
					cc := x.Common()
					var actuals []ssa.Value
					if cc.IsInvoke() {
						actuals = append(actuals, cc.Value)
					}
					actuals = append(actuals, cc.Args...)
					for i, a := range actuals {
						if a != ssa.Value(al) {
							continue
						}
						for _, cal := range p.Callees(x) {
							if st, isStruct := derefStruct(al.Type()); isStruct {
								for fi := 0; fi < st.NumFields(); fi++ {
									if p.MayWriteField(cal, i, st.Field(fi).Name()) {
										written[st.Field(fi).Name()] = true
									}
								}
							}
						}
					}
				}
			}
			ws := sortedKeys(written)
			sort.Strings(ws)
			ok2 := fromGetter && len(ws) == 1 && ws[0] == allowed
			r.Check(ok2, "C10/R3", h.Key()+":field-census", p.InstrPos(call),
				"stored record = loaded record with only ."+allowed+" assigned",
				fmt.Sprintf("stored record must be the loaded one with only .%s assigned; loaded=%v assigned=%v", allowed, fromGetter, ws))
		} else {
			// delete: key args must equal the key args of a getter call
			match := false
			for _, g := range getCalls {
				ga := dataArgs(g)
				if len(ga) != len(args) {
					continue
				}
				same := true
				for i := range ga {
					if !(core.SameValue(ga[i], args[i]) || strings.Join(p.ResolveToEntry(p.ProvAt(ga[i], "", g), h.Fn).Strings(), "|") == strings.Join(p.ResolveToEntry(p.ProvAt(args[i], "", call), h.Fn).Strings(), "|")) {
						same = false
					}
				}
				if same {
					match = true
				}
			}
			r.Check(match, "C10/R3", h.Key()+":delete-key", p.InstrPos(call), "delete uses the key the record was loaded by", "delete key differs from the key of the loaded (authorized) record")
		}
	}
}

func filterKinds(pr core.Prov, kind string) map[string]core.Atom {
	out := map[string]core.Atom{}
	for k, a := range pr {
		if a.Kind == kind {
			out[k] = a
		}
	}
	return out
}
