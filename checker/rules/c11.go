package rules

import (
	"fmt"
	"go/types"
	"sort"
	"strings"

	"golang.org/x/tools/go/ssa"

	"jklcheck/core"
)

func init() { registry["C11"] = c11 }

// ownKey: resolved to the handler, every data atom is msg.Creator, or a field of a record that was itself
// loaded by a key made of msg.Creator only.
func ownKey(p *core.Program, pr core.Prov, h *core.Handler, depth int) (bool, string) {
	res := p.ResolveToEntry(pr, h.Fn)
	atoms := res.DataAtoms()
	if len(atoms) == 0 {
		return false, "no data dependence"
	}
	for _, a := range atoms {
		switch {
		case a.Kind == "param" && a.Fn == h.Fn && a.Idx == h.MsgIdx && a.Path == ".Creator":
		case a.Kind == "store" && a.Call != nil && depth < 2:
			for _, arg := range dataArgs(a.Call) {
				if ok, why := ownKey(p, p.ProvAt(arg, "", a.Call), h, depth+1); !ok {
					return false, "record " + a.String() + " loaded by a key that is not the signer's: " + why
				}
			}
		default:
			return false, "depends on " + a.String()
		}
	}
	return true, "⊵ signer only"
}

func c11(r *core.Run) {
	p := r.Prog
	r.Explanation = "Exhaustive static rules: every sdk.Msg type of the custom modules returns exactly one signer derived from its Creator field; every service-descriptor method has an implementation registered and every module is in the app's module manager; provider/feed/inbox/block-list/primary-name/file-deletion handlers key their writes by the signer (or by a record loaded with the signer's key, or behind an owner comparison); the wasm binding reaches the storage handler only behind creator==contract and ValidateBasic; the ante chain holds ValidateBasic, SetPubKey and SigVerification in that order."
	r.Assumptions = []string{T1, T2, T4}
	r.NotDecided = []string{"signature cryptography (T2)"}
	r.Rule("C11/R8", "store getters of all custom modules are faithful: each returns on every path the variable its single store read (under the key built from its parameters) was decoded into, otherwise untouched")
	r.Rule("C11/R1", "signer binding: every type in x/*/types with a GetSigners method returns a one-element slice whose element ⊵ exactly {receiver.Creator}; the set of such types covers all 45 request types of the service descriptors")
	r.Rule("C11/R2", "routable: every descriptor method has a handler body; each types.RegisterInterfaces registers the Msg service descriptor; each module is constructed in the app's module manager and RegisterServices registers the Msg server")
	r.Rule("C11/R3", "own-resource keying: provider, collateral, inbox, block-list, primary-name and file deletion writes are keyed by the signer; feed updates are behind Eq(Feed.Owner, signer); feed creation is behind Found=false with Owner:=signer")
	r.Rule("C11/R7", "load/write key agreement: in every unit that loads and writes records of one prefix, the written key terms equal the loaded key terms (declared re-keying handlers excepted)")
	r.Rule("C11/R6", "create-if-absent consistency: wherever a record is written behind Found(getter)=false on the same prefix, the getter's key and the written key are the same terms")
	r.Rule("C11/R4", "wasm path: every path from the custom messenger to a storage handler passes Eq(msg.Creator, contract address)=true and ErrNil(ValidateBasic)")
	r.Rule("C11/R5", "ante chain contains ValidateBasic, SetPubKey and SigVerification decorators in that relative order")

	hs, err := p.Handlers()
	if err != nil {
		r.Undecided("C11/R2", "handlers", "", err.Error())
		return
	}
	// ---- R1
	msgTypes := map[string]bool{}
	for _, m := range core.CustomModules {
		pk := p.ByPath[core.ModPath+"/x/"+m+"/types"]
		if pk == nil {
			continue
		}
		sc := pk.Types.Scope()
		for _, n := range sc.Names() {
			tn, ok := sc.Lookup(n).(*types.TypeName)
			if !ok {
				continue
			}
			fn := p.FuncByName("x/"+m+"/types", n, "GetSigners")
			if fn == nil || fn.Blocks == nil || fn.Synthetic != "" {
				continue
			}
			key := m + "." + tn.Name()
			msgTypes[key] = true
			r.Analysed(core.FnName(fn))
			nret := 0
			okAll := true
			detail := ""
			for _, b := range fn.Blocks {
				ret, ok := b.Instrs[len(b.Instrs)-1].(*ssa.Return)
				if !ok {
					continue
				}
				nret++
				// the one-element slice literal, built here or by a helper the message is handed to
				lit, lfn := ret.Results[0], fn
				for hop := 0; hop < 2; hop++ {
					c, isCall := lit.(*ssa.Call)
					if !isCall {
						break
					}
					cs := p.Callees(c)
					if len(cs) != 1 || cs[0].Blocks == nil {
						break
					}
					var hret *ssa.Return
					n := 0
					for _, hb := range cs[0].Blocks {
						if rr, isRet := hb.Instrs[len(hb.Instrs)-1].(*ssa.Return); isRet {
							hret, n = rr, n+1
						}
					}
					if n != 1 || len(hret.Results) != 1 {
						break
					}
					lit, lfn = hret.Results[0], cs[0]
				}
				sl, ok := lit.(*ssa.Slice)
				if !ok {
					okAll, detail = false, "result is not a slice literal"
					continue
				}
				al, ok := sl.X.(*ssa.Alloc)
				if !ok {
					okAll, detail = false, "result is not a slice literal"
					continue
				}
				arr, ok := al.Type().Underlying().(*types.Pointer).Elem().Underlying().(*types.Array)
				if !ok || arr.Len() != 1 {
					okAll, detail = false, fmt.Sprintf("signer slice has %v elements, expected 1", arrLen(al))
					continue
				}
				_ = lfn
				pr := p.ProvAt(ret.Results[0], "", ret)
				atoms := pr.DataAtoms()
				if !(len(atoms) == 1 && atoms[0].Kind == "param" && atoms[0].Idx == 0 && atoms[0].Path == ".Creator") {
					okAll, detail = false, "signer derives from "+pr.String()+", expected receiver.Creator only"
				}
			}
			if nret == 0 {
				okAll, detail = false, "no return"
			}
			r.Check(okAll, "C11/R1", key+":signer", p.Pos(fn.Pos()), "GetSigners = [Creator]", detail)
		}
	}
	r.Floor("C11/R1", len(msgTypes), 45, "message types with GetSigners")
	for _, h := range hs {
		if !msgTypes[h.Key()] {
			r.Violation("C11/R1", h.Key()+":signer", p.Pos(h.Fn.Pos()), "request type of a registered handler has no GetSigners implementation in its types package")
		}
	}
	// ---- R2
	r.Floor("C11/R2", len(hs), 45, "descriptor methods with handler bodies")
	for _, h := range hs {
		r.Trivial("C11/R2", h.Key()+":routable", p.Pos(h.Fn.Pos()), "descriptor method has a handler body on the registered server type")
	}
	for _, m := range core.CustomModules {
		ri := p.FuncByName("x/"+m+"/types", "", "RegisterInterfaces")
		found := false
		if ri != nil {
			allInstrs(ri, func(in ssa.Instruction) {
				if c, ok := in.(ssa.CallInstruction); ok && strings.HasSuffix(core.CalleeFullName(c), "msgservice.RegisterMsgServiceDesc") {
					found = true
				}
			})
		}
		r.Check(found, "C11/R2", m+":service-desc-registered", posOf(p, ri), "RegisterInterfaces registers _Msg_serviceDesc", "RegisterInterfaces does not register the Msg service descriptor: messages of this module are not routable")
		rs := p.FuncByName("x/"+m, "AppModule", "RegisterServices")
		found = false
		if rs != nil {
			allInstrs(rs, func(in ssa.Instruction) {
				if c, ok := in.(ssa.CallInstruction); ok && strings.HasSuffix(core.CalleeFullName(c), "x/"+m+"/types.RegisterMsgServer") {
					found = true
				}
			})
		}
		r.Check(found, "C11/R2", m+":msg-server-registered", posOf(p, rs), "RegisterServices registers the Msg server", "AppModule.RegisterServices does not register the Msg server")
	}
	// module manager membership
	inMgr := map[string]bool{}
	regServices := false
	for _, fn := range p.Funcs {
		if core.RelPkg(core.FnPkgPath(fn)) != "app" {
			continue
		}
		allInstrs(fn, func(in ssa.Instruction) {
			c, ok := in.(ssa.CallInstruction)
			if !ok {
				return
			}
			name := core.CalleeFullName(c)
			if strings.HasSuffix(name, "types/module.NewManager") && len(c.Common().Args) == 1 {
				for _, a := range core.VarArgs(c.Common().Args[0]) {
					if a == nil {
						continue
					}
					if mi, ok := a.(*ssa.MakeInterface); ok {
						inMgr[core.TypeName(mi.X.Type())] = true
					}
				}
			}
			if strings.HasSuffix(name, "module.Manager).RegisterServices") {
				regServices = true
			}
		})
	}
	for _, m := range core.CustomModules {
		r.Check(inMgr["x/"+m+".AppModule"], "C11/R2", m+":in-module-manager", "app/app.go", "module is in module.NewManager", "module is not constructed in the app's module manager: its messages are not routed")
	}
	r.Check(regServices, "C11/R2", "app:register-services", "app/app.go", "module manager RegisterServices is invoked", "the app never calls module.Manager.RegisterServices")

	// ---- R3
	type keyRow struct{ module, prefix string }
	keyed := map[string][]keyRow{
		"storage.MsgSetProviderIP":            {{"storage", "Providers/value/"}},
		"storage.MsgSetProviderKeybase":       {{"storage", "Providers/value/"}},
		"storage.MsgSetProviderTotalSpace":    {{"storage", "Providers/value/"}},
		"storage.MsgAddClaimer":               {{"storage", "Providers/value/"}},
		"storage.MsgRemoveClaimer":            {{"storage", "Providers/value/"}},
		"storage.MsgInitProvider":             {{"storage", "Providers/value/"}, {"storage", "Collateral/value/"}},
		"storage.MsgShutdownProvider":         {{"storage", "Providers/value/"}, {"storage", "Collateral/value/"}},
		"rns.MsgMakePrimary":                  {{"rns", "PrimaryName/value/"}},
		"notifications.MsgBlockSenders":       {{"notifications", "Notification/"}},
		"notifications.MsgDeleteNotification": {{"notifications", "Notification/"}},
		"storage.MsgDeleteFile":               {{"storage", "FilesByMerkle/value/"}, {"storage", "FilesByOwner/value/"}},
		"filetree.MsgPostKey":                 {{"filetree", "Pubkey/value/"}},
		"rns.MsgInit":                         {{"rns", "Init/value/"}},
	}
	nKeyed := 0
	for _, key := range sortedKeysOf(keyed) {
		h := core.HandlerByKey(hs, key)
		if h == nil {
			r.Undecided("C11/R3", key+":anchor-missing", "", "policy row for a message type that no longer exists")
			continue
		}
		for _, kr := range keyed[key] {
			n := 0
			for _, o := range p.Summary(h.Fn).Store {
				if !o.IsWrite() || o.Module != kr.module || o.Prefix != kr.prefix {
					continue
				}
				n++
				nKeyed++
				comps := p.KeyComponents(o.Key, o.Instr)
				construct := fmt.Sprintf("%s:own-key:%s%s", key, kr.module+"/", kr.prefix)
				// the signer must own the key: every component of a single-owner key, or the owner component
				// (leading string component for inbox keys; the %s component for file keys) of a composite key
				var okc bool
				var why string
				switch {
				case len(comps) == 1:
					okc, why = ownKey(p, p.ProvAt(comps[0].Val, "", comps[0].At), h, 0)
				case key == "storage.MsgDeleteFile":
					// the owner component of a file key (merkle, owner, start): one of its text components is the signer
					okc = false
					for _, c := range comps {
						if c.Verb == "%s" && !okc {
							okc, why = ownKey(p, p.ProvAt(c.Val, "", c.At), h, 0)
						}
					}
				default:
					okc, why = ownKey(p, p.ProvAt(comps[0].Val, "", comps[0].At), h, 0)
				}
				r.Check(okc, "C11/R3", construct, p.InstrPos(o.Instr), fmt.Sprintf("%s key owner component ⊵ signer only (%d components)", o.Kind, len(comps)), "the record written/deleted is not keyed by the signer: "+why)
			}
			if n == 0 {
				r.Undecided("C11/R3", fmt.Sprintf("%s:own-key:%s/%s", key, kr.module, kr.prefix), p.Pos(h.Fn.Pos()), "handler has no write on this prefix (anchor missing)")
			}
		}
	}
	r.Floor("C11/R3", nKeyed, 16, "signer-keyed writes")
	// handlers with writes on these resource prefixes but no row
	resource := map[string]bool{"storage/Providers/value/": true, "storage/Collateral/value/": true, "rns/PrimaryName/value/": true, "filetree/Pubkey/value/": true, "oracle/Feed/value/": true}
	rowed := map[string]bool{"oracle.MsgCreateFeed": true, "oracle.MsgUpdateFeed": true, "rns.MsgRegister": true, "rns.MsgRegisterName": true}
	for _, h := range hs {
		if _, ok := keyed[h.Key()]; ok || rowed[h.Key()] {
			continue
		}
		for _, o := range p.Summary(h.Fn).Store {
			if o.IsWrite() && resource[o.Module+"/"+o.Prefix] {
				r.Violation("C11/R3", h.Key()+":no-row:"+o.Module+"/"+o.Prefix, p.InstrPos(o.Instr), "handler writes a per-account resource but has no own-resource policy row")
				break
			}
		}
	}
	// registration sets the primary name of the signer
	for _, key := range []string{"rns.MsgRegister", "rns.MsgRegisterName"} {
		if h := core.HandlerByKey(hs, key); h != nil {
			for _, o := range p.Summary(h.Fn).Store {
				if o.IsWrite() && o.Module == "rns" && o.Prefix == "PrimaryName/value/" {
					comps := p.KeyComponents(o.Key, o.Instr)
					okc, why := ownKey(p, p.ProvAt(comps[0].Val, "", comps[0].At), h, 0)
					r.Check(okc, "C11/R3", key+":own-key:rns/PrimaryName/value/", p.InstrPos(o.Instr), "primary name key ⊵ signer only", "primary name written for another account: "+why)
				}
			}
		}
	}
	// oracle feeds
	if h := core.HandlerByKey(hs, "oracle.MsgUpdateFeed"); h == nil {
		r.Undecided("C11/R3", "oracle.MsgUpdateFeed:anchor-missing", "", "handler missing")
	} else {
		guardRow(r, "C11/R3", h, "feed-owner", allEffects(), func(*ssa.Function) core.GuardMatch {
			return eqGuard(p, onlyStoreFieldH(p, h, "oracle/Feed/value/", ".Owner"), signerOf(p, h), true)
		}, "Eq(Feed.Owner, signer)=true")
	}
	if h := core.HandlerByKey(hs, "oracle.MsgCreateFeed"); h == nil {
		r.Undecided("C11/R3", "oracle.MsgCreateFeed:anchor-missing", "", "handler missing")
	} else {
		guardRow(r, "C11/R3", h, "feed-new", storeWrites("oracle", "Feed/value/"), func(*ssa.Function) core.GuardMatch {
			return foundGuard(p, "oracle/Feed/value/", false)
		}, "Found(Feed[msg.Name])=false")
		for _, e := range p.Effects(h.Fn) {
			call, ok := e.Instr.(ssa.CallInstruction)
			if !ok || len(e.Store) == 0 {
				continue
			}
			args := dataArgs(call)
			if len(args) == 1 {
				own := p.ProvAt(args[0], ".Owner", call)
				r.Check(p.OnlyMsgField(own, h, "Creator"), "C11/R3", h.Key()+":feed-owner-is-signer", p.InstrPos(call), "new Feed.Owner ⊵ signer only", "new feed's Owner is not the signer: "+p.ResolveToEntry(own, h.Fn).String())
			}
		}
	}

	// ---- R6 create-if-absent consistency (all modules): the key whose absence is tested is the key written
	nAbs := absentCheckKeyAgreement(r, "C11/R6", hs)
	r.Floor("C11/R6", nAbs, 5, "create-if-absent pairs")

	// ---- R7 load/write key agreement: a unit that loads a record of a prefix (getter with found flag) and writes a
	// record of the same prefix built or loaded there, uses the same key terms for both — unless the handler is a
	// declared re-keying operation.
	rekey := map[string]string{
		"filetree.MsgChangeOwner": "moves the entry to the new owner's key by design (old key deleted, C10/R3)",
		"filetree.MsgPostFile":    "reads the parent folder and writes the child entry (different keys by design, C10/R2)",
		"storage.MsgAttest":       "keeper unit reads the form and the file, writes the proof (different kinds)",
	}
	nLW := loadWriteKeyAgreement(r, "C11/R7", hs, rekey)
	r.Floor("C11/R7", nLW, 15, "load/write pairs")

	// ---- R8 store getters are faithful (the ownership rules above judge "the loaded record")
	nG := 0
	for _, m := range core.CustomModules {
		nG += gettersFaithful(r, "C11/R8", m)
	}
	r.Floor("C11/R8", nG, 12, "decoding store getters")
	// ---- R4 wasm
	c11Wasm(r, hs)
	// ---- R5 ante
	c11Ante(r)
}

func arrLen(al *ssa.Alloc) interface{} {
	if pt, ok := al.Type().Underlying().(*types.Pointer); ok {
		if a, ok := pt.Elem().Underlying().(*types.Array); ok {
			return a.Len()
		}
	}
	return "?"
}

func posOf(p *core.Program, fn *ssa.Function) string {
	if fn == nil {
		return ""
	}
	return p.Pos(fn.Pos())
}

func sortedKeysOf[T any](m map[string]T) []string {
	var out []string
	for k := range m {
		out = append(out, k)
	}
	sort.Strings(out)
	return out
}

func c11Wasm(r *core.Run, hs []*core.Handler) {
	p := r.Prog
	// every function in wasmbinding that (transitively) calls a storage handler
	handlerFns := map[*ssa.Function]*core.Handler{}
	for _, h := range hs {
		handlerFns[h.Fn] = h
	}
	n := 0
	for _, fn := range p.Funcs {
		if !strings.HasPrefix(core.RelPkg(core.FnPkgPath(fn)), "wasmbinding") {
			continue
		}
		for _, b := range fn.Blocks {
			for _, in := range b.Instrs {
				call, ok := in.(ssa.CallInstruction)
				if !ok {
					continue
				}
				var target *core.Handler
				for _, cal := range p.Callees(call) {
					if h, ok := handlerFns[cal]; ok {
						target = h
					}
				}
				if target == nil {
					continue
				}
				n++
				r.Analysed(core.FnName(fn))
				args := dataArgs(call)
				msgArg := args[len(args)-1]
				eff := &core.Effect{Instr: call}
				// guard 1: Eq(msg.Creator, contract address)=true
				g1 := func(ca *core.CondAtom, truth bool) bool {
					if ca.Kind != "eq" || !truth {
						return false
					}
					px, py := p.ProvAt(ca.X, "", ca.If), p.ProvAt(ca.Y, "", ca.If)
					isCreator := func(pr core.Prov) bool {
						at := pr.DataAtoms()
						mp := p.ProvAt(msgArg, ".Creator", call)
						return len(at) == 1 && len(mp.DataAtoms()) == 1 && at[0].Key() == mp.DataAtoms()[0].Key()
					}
					isContract := func(pr core.Prov) bool {
						for _, a := range pr.DataAtoms() {
							if a.Kind == "param" && a.Fn == fn && strings.Contains(strings.ToLower(a.Fn.Params[a.Idx].Type().String()), "accaddress") {
								return true
							}
						}
						return false
					}
					return (isCreator(px) && isContract(py)) || (isCreator(py) && isContract(px))
				}
				u1 := p.FindUnguarded(fn, []*core.Effect{eff}, g1, true)
				r.Check(len(u1) == 0, "C11/R4", "wasm:"+target.Key()+":creator-is-contract", p.InstrPos(call), "handler call behind Eq(msg.Creator, contractAddr)=true", "a contract can reach the storage handler with a Creator other than its own address")
				g2 := errNilGuard(p, func(c *ssa.Call) bool {
					n := core.CalleeFullName(c)
					return strings.HasSuffix(n, ".ValidateBasic")
				})
				u2 := p.FindUnguarded(fn, []*core.Effect{eff}, g2, true)
				r.Check(len(u2) == 0, "C11/R4", "wasm:"+target.Key()+":validate-basic", p.InstrPos(call), "handler call behind ErrNil(ValidateBasic)", "the wasm binding reaches the handler without stateless validation")
			}
		}
	}
	r.Floor("C11/R4", n, 1, "wasm handler call sites")
}

func c11Ante(r *core.Run) {
	p := r.Prog
	fn := p.FuncByName("app", "", "NewAnteHandler")
	if fn == nil {
		r.Undecided("C11/R5", "ante:anchor-missing", "", "app.NewAnteHandler not found")
		return
	}
	r.Analysed(core.FnName(fn))
	// find the call to ChainAnteDecorators and recover the ordered constructor calls
	var order []string
	allInstrs(fn, func(in ssa.Instruction) {
		c, ok := in.(ssa.CallInstruction)
		if !ok || !strings.HasSuffix(core.CalleeFullName(c), "types.ChainAnteDecorators") {
			return
		}
		for _, a := range core.VarArgs(c.Common().Args[0]) {
			if a == nil {
				order = append(order, "?")
				continue
			}
			if mi, ok := a.(*ssa.MakeInterface); ok {
				order = append(order, core.TypeName(mi.X.Type()))
			} else {
				order = append(order, a.Type().String())
			}
		}
	})
	idx := func(sub string) int {
		for i, o := range order {
			if strings.HasSuffix(o, sub) {
				return i
			}
		}
		return -1
	}
	vb, pk, sv := idx("ante.ValidateBasicDecorator"), idx("ante.SetPubKeyDecorator"), idx("ante.SigVerificationDecorator")
	ok := vb >= 0 && pk > vb && sv > pk
	r.Check(ok, "C11/R5", "ante:order", p.Pos(fn.Pos()), fmt.Sprintf("ValidateBasic@%d < SetPubKey@%d < SigVerification@%d of %d decorators", vb, pk, sv, len(order)),
		fmt.Sprintf("ante chain must contain ValidateBasic, SetPubKey, SigVerification in that order; found positions %d,%d,%d in %v", vb, pk, sv, order))
}
