package rules

import (
	"fmt"
	"sort"
	"strings"

	"golang.org/x/tools/go/ssa"

	"jklcheck/core"
)

const stGauge = "storage/PaymentGauge/value/"

func init() { registry["C12"] = c12 }

// extBool matches CallBool(<external method name suffix>)(args satisfying preds)=want.
func extBool(p *core.Program, suffix string, want bool, preds ...side) core.GuardMatch {
	return func(ca *core.CondAtom, truth bool) bool {
		if ca.Kind != "callbool" || truth != want || ca.Call == nil {
			return false
		}
		if !strings.HasSuffix(core.CalleeFullName(ca.Call), suffix) {
			return false
		}
		args := ca.Call.Call.Args
		if ca.Call.Call.IsInvoke() {
			args = append([]ssa.Value{ca.Call.Call.Value}, args...)
		}
		for i, pr := range preds {
			if i >= len(args) || pr == nil {
				continue
			}
			if !pr(p.ProvAt(args[i], "", ca.Call)) {
				return false
			}
		}
		return true
	}
}

// timeRel: the relation between two time values a and b established on the edge where atom ca has the given
// truth value: Before(a,b) ≡ a<b, After(a,b) ≡ a>b, Equal(a,b) ≡ a==b (full time.Time precision only; a
// comparison of truncated values such as Unix seconds establishes nothing). Helpers that forward such a call
// are followed one level.
func timeRel(p *core.Program, ca *core.CondAtom, truth bool, a, b side) string {
	if ca.Kind != "callbool" || ca.Call == nil {
		return ""
	}
	call := ca.Call
	if cs := p.Callees(call); len(cs) == 1 {
		// custom helper with a single return forwarding a time predicate over its parameters
		cal := cs[0]
		var ret *ssa.Return
		n := 0
		for _, blk := range cal.Blocks {
			if r, ok := blk.Instrs[len(blk.Instrs)-1].(*ssa.Return); ok {
				ret, n = r, n+1
			}
		}
		if n != 1 || len(ret.Results) != 1 {
			return ""
		}
		inner := p.NormCondValue(ret.Results[0])
		if inner == nil || inner.Kind != "callbool" || inner.Call == nil || len(p.Callees(inner.Call)) != 0 {
			return ""
		}
		t := truth
		if inner.Neg {
			t = !t
		}
		// operands resolved to the caller: substitute parameters by the call's arguments
		return timeRelExt(p, inner.Call, t, func(v ssa.Value) core.Prov {
			return p.ResolveAlong(p.ProvAt(v, "", inner.Call), []ssa.CallInstruction{call})
		}, a, b)
	}
	return timeRelExt(p, call, truth, func(v ssa.Value) core.Prov { return p.ProvAt(v, "", call) }, a, b)
}

func timeRelExt(p *core.Program, call *ssa.Call, truth bool, prov func(ssa.Value) core.Prov, a, b side) string {
	name := core.CalleeFullName(call)
	var rel string
	switch {
	case strings.HasSuffix(name, "time.Time).Before"):
		rel = "<"
	case strings.HasSuffix(name, "time.Time).After"):
		rel = ">"
	case strings.HasSuffix(name, "time.Time).Equal"):
		rel = "=="
	default:
		return ""
	}
	if len(call.Call.Args) != 2 {
		return ""
	}
	px, py := prov(call.Call.Args[0]), prov(call.Call.Args[1])
	switch {
	case a(px) && b(py):
	case a(py) && b(px):
		rel = map[string]string{"<": ">", ">": "<", "==": "=="}[rel]
	default:
		return ""
	}
	if !truth {
		rel = map[string]string{"<": ">=", ">": "<=", "==": "!="}[rel]
	}
	return rel
}

// timeGuard: edges establishing one of the given relations between a and b.
func timeGuard(p *core.Program, a, b side, rels ...string) core.GuardMatch {
	return func(ca *core.CondAtom, truth bool) bool {
		r := timeRel(p, ca, truth, a, b)
		for _, x := range rels {
			if r == x {
				return true
			}
		}
		return false
	}
}

func hasPathSuffix(suffix string) side {
	return func(pr core.Prov) bool {
		return pr.Any(func(a core.Atom) bool { return strings.HasSuffix(a.Path, suffix) })
	}
}

func c12(r *core.Run) {
	p := r.Prog
	r.Explanation = "Static rules over the gauge pull on the reward path and the gauge constructor: the amount moved gauge->module depends on the gauge's Start, End and Coins, the block time and the gauge account's balance (dropping any of these makes linear, cumulative-aware release impossible) and is the value added to the distribution pool; every pull lies behind End>=now, End>Start and a non-empty balance; a gauge record is deleted only behind an empty balance (or after sweeping it); the gauge identity either depends on a per-creation source or creation handles an existing id. The linear formula, monotonicity and rounding are numeric and not decided."
	r.Assumptions = []string{T1, T3, T4}
	r.NotDecided = []string{"the linear release formula itself", "monotonicity of cumulative release", "rounding within one base unit"}
	r.Rule("C12/R1", "release depends on the right things: the gauge->module amount ⊵ {gauge.Start, gauge.End, gauge.Coins, Ctx.BlockTime, balance of the gauge account}; the coin sent is the coin added to the distribution pool")
	r.Rule("C12/R2", "gauge identity cannot collide silently: the constructor's key depends on a per-creation source beyond {height, end, coins}, or creation is preceded by a lookup of the id")
	r.Rule("C12/R3", "removed only when drained: each gauge delete on the reward path is behind Empty(balance)=true or follows a transfer of the whole remaining balance")
	r.Rule("C12/R5", "the release runs on every reward block: each call on the chain block entry -> gauge iteration is control-dependent only on decisions over block height, parameters and constants")
	r.Rule("C12/R6", "records decoded on the reward path go into a variable local to the iteration: a decode target shared across gauges accumulates the Coins of every gauge visited before, so later gauges release several tranches at once")
	r.Rule("C12/R7", "the tranche released from a gauge is converted to whole units by truncation only: cumulative release never runs ahead of the elapsed fraction of the deposit")
	r.Rule("C12/R9", "the gauge record written is the gauge as it stands after a merge: no assignment to a local record between its marshalling and the store write")
	r.Rule("C12/R8", "the coins moved into a gauge account are the value handed to the gauge constructor, in the constructing unit or in a helper given the gauge: the record (which the release formula reads) and the account agree")
	r.Rule("C12/R4", "interval: every gauge->module send is behind Before(End, now)=false, Before(End, Start)=false, Equal(End, Start)=false and Empty(balance)=false")
	marshalIsFresh(r, "C12/R9", "storage")
	bb, _ := p.BlockEntries()
	var entry *ssa.Function
	for _, fn := range bb {
		if core.ModuleOf(fn) == "storage" {
			entry = fn
		}
	}
	if entry == nil {
		r.Undecided("C12/R1", "storage:BeginBlock:anchor-missing", "", "storage BeginBlock calls nothing")
		return
	}
	var pulls []*core.BankOp
	for _, bo := range p.Summary(entry).Bank {
		if bo.Method == "SendCoinsFromAccountToModule" {
			pulls = append(pulls, bo)
		}
	}
	if len(pulls) == 0 {
		r.Violation("C12/R1", "gauge:pull", p.Pos(entry.Pos()), "no gauge->module transfer on the reward path")
		return
	}
	isEnd, isStart, isNow := hasPathSuffix(".End"), hasPathSuffix(".Start"), ctxIs("BlockTime")
	isBal := func(pr core.Prov) bool { return pr.HasExt("GetAllBalances") }
	for _, bo := range pulls {
		fn := bo.Fn
		r.Analysed(core.FnName(fn))
		ap := p.ProvAt(bo.Args[2], "", bo.Instr)
		need := map[string]bool{
			"gauge.Start": hasPathSuffix(".Start")(ap), "gauge.End": hasPathSuffix(".End")(ap),
			"gauge.Coins":   ap.Any(func(a core.Atom) bool { return strings.Contains(a.Path, ".Coins") }),
			"Ctx.BlockTime": ap.HasCtx("BlockTime"), "balance(gauge)": ap.HasExt("GetAllBalances"),
		}
		var missing []string
		for k, v := range need {
			if !v {
				missing = append(missing, k)
			}
		}
		sort.Strings(missing)
		r.Check(len(missing) == 0, "C12/R1", "gauge:release-dependence", p.InstrPos(bo.Instr), "amount ⊵ {Start, End, Coins, BlockTime, balance}", "the released amount does not depend on "+strings.Join(missing, ", ")+": linear, cumulative-aware streaming is impossible")
		// sender is the gauge's own account
		sp := p.ProvAt(bo.Args[0], "", bo.Instr)
		// the gauge being processed: the root the amount takes the gauge's Coins / End from (the callback's parameter, or
		// the record decoded from the iterator in a plain loop); the sender is a hash of that same root
		root := func(a core.Atom) string {
			k := a.Kind + ":" + a.Name
			if a.Kind == "param" {
				k = "param:" + a.Fn.String() + "#" + fmt.Sprint(a.Idx)
			}
			return k
		}
		gaugeRoots := map[string]bool{}
		for _, a := range ap {
			if strings.Contains(a.Path, ".Coins") || strings.HasSuffix(a.Path, ".End") || strings.HasSuffix(a.Path, ".Start") {
				gaugeRoots[root(a)] = true
			}
		}
		own := sp.Any(func(a core.Atom) bool { return gaugeRoots[root(a)] && a.Kind != "const" && a.Kind != "zero" })
		r.Check(own && sp.HasExt("sha256"), "C12/R1", "gauge:release-from-own-account", p.InstrPos(bo.Instr), "sender = account derived from the iterated gauge", "coins are pulled from an account that is not derived from the gauge being processed: sender "+sp.String())
		// coin sent = coin added to the pool
		var sent ssa.Value
		if c, ok := bo.Args[2].(*ssa.Call); ok && strings.HasSuffix(core.CalleeFullName(c), "types.NewCoins") {
			va := core.VarArgs(c.Call.Args[0])
			if len(va) == 1 {
				sent = va[0]
			}
		}
		pooled := false
		allInstrs(fn, func(in ssa.Instruction) {
			c, ok := in.(*ssa.Call)
			if !ok || !strings.HasSuffix(core.CalleeFullName(c), "types.Coins).Add") {
				return
			}
			for _, a := range core.VarArgs(c.Call.Args[1]) {
				if a != nil && sent != nil && core.SameValue(a, sent) {
					pooled = true
				}
			}
		})
		roundsDown(r, "C12/R7", "gauge:release-rounds-down", bo.Args[2], p.InstrPos(bo.Instr))
		r.Check(sent != nil && pooled, "C12/R1", "gauge:released=pooled", p.InstrPos(bo.Instr), "the coin sent is the coin added to the distribution pool", "the amount added to the distribution pool is not the amount pulled from the gauge")
		// R4
		eff := &core.Effect{Instr: bo.Instr}
		emptyFalse := func(ca *core.CondAtom, truth bool) bool {
			return extBool(p, "types.Coins).Empty", false, isBal)(ca, truth)
		}
		for _, g := range []struct {
			name string
			m    core.GuardMatch
		}{
			{"end-not-before-now", timeGuard(p, isEnd, isNow, ">=", ">", "==")},
			{"end-not-before-start", timeGuard(p, isEnd, isStart, ">=", ">")},
			{"end-not-equal-start", timeGuard(p, isEnd, isStart, "!=", ">", "<")},
			{"balance-not-empty", emptyFalse},
		} {
			u := p.FindUnguarded(fn, []*core.Effect{eff}, g.m, true)
			r.Check(len(u) == 0, "C12/R4", "gauge:pull-guard:"+g.name, p.InstrPos(bo.Instr), "pull behind "+g.name, "coins can be pulled from a gauge without passing the "+g.name+" test at full time precision (release outside the start–end interval or division by a zero duration)")
		}
	}
	// R8 what goes into a gauge account is what its record says
	if hs8, err := p.Handlers(); err == nil {
		depositEqualsRecord(r, "C12/R8", hs8)
	}
	// R6 gauges (and everything else on the reward path) are decoded into fresh variables
	staleDecodeTargets(r, "C12/R6", p.Summary(entry).Funcs)
	// R5 the release runs on every reward block: along the call chain from the block entry to the function that
	// iterates the gauges, the next call can be skipped only by decisions on the block height and parameters
	{
		chain := p.CallPath(entry, pulls[0].Fn)
		for len(chain) > 0 && chain[len(chain)-1].Parent() != nil {
			chain = chain[:len(chain)-1] // iterator callbacks: the pull's own guards are R4
		}
		nHop := 0
		for i := 0; i+1 < len(chain); i++ {
			f, g := chain[i], chain[i+1]
			if g.Parent() != nil {
				continue
			}
			nHop++
			bad := ""
			found := false
			allInstrs(f, func(in ssa.Instruction) {
				cs, ok := in.(ssa.CallInstruction)
				if !ok {
					return
				}
				hit := false
				for _, c := range p.Callees(cs) {
					if c == g {
						hit = true
					}
				}
				if !hit {
					return
				}
				found = true
				for _, b := range f.Blocks {
					ifi, ok := b.Instrs[len(b.Instrs)-1].(*ssa.If)
					if !ok {
						continue
					}
					skips, reaches := false, false
					for _, sc := range b.Succs {
						if blockReachesOrIs(sc, cs.Block()) {
							reaches = true
						} else {
							skips = true
						}
					}
					if !skips || !reaches {
						continue
					}
					for _, a := range p.ProvAt(ifi.Cond, "", ifi).DataAtoms() {
						if a.Kind != "ctx" && a.Kind != "params" && a.Kind != "const" {
							bad = p.InstrPos(ifi) + " depends on " + a.String()
						}
					}
				}
			})
			if !found {
				continue
			}
			r.Check(bad == "", "C12/R5", "gauge:release-every-reward-block:"+f.Name()+"->"+g.Name(), p.Pos(f.Pos()), "the call is skipped only by schedule decisions (block height, parameters)", "the gauge release can be skipped by a decision on state other than the schedule ("+bad+"): on such reward blocks no tranche is released and expired gauges are dropped undrained later")
		}
		r.Floor("C12/R5", nHop, 3, "calls between the block entry and the gauge iteration")
	}
	// R3 deletes on the reward path: judged in the function that calls the record deleter directly
	nDel := 0
	degenerate := timeGuard(p, isEnd, isStart, "<", "==", "<=")
	for _, fn := range p.Summary(entry).Funcs {
		for _, e := range p.Effects(fn) {
			if !effHas(e, "Delete", stGauge) || e.Direct {
				continue
			}
			directDeleter := false
			for _, c := range e.Callees {
				for _, o := range p.StoreOps(c) {
					if o.Kind == "Delete" && o.Module+"/"+o.Prefix == stGauge {
						directDeleter = true
					}
				}
			}
			if !directDeleter {
				continue
			}
			nDel++
			r.Analysed(core.FnName(fn))
			empty := extBool(p, "types.Coins).Empty", true, isBal)
			// sweep: a transfer of the whole balance of the gauge account precedes the delete on every path
			swept := false
			for _, bo := range p.BankOps(fn) {
				if bo.Method != "SendCoinsFromAccountToModule" {
					continue
				}
				if c, ok := bo.Args[2].(*ssa.Call); ok && strings.HasSuffix(core.CalleeFullName(c), "GetAllBalances") && precedesAlways(fn, bo.Instr, e.Instr) {
					swept = true
				}
			}
			// The executions that perform the delete, each judged by the conditions it has evaluated: the classes do not
			// depend on how the decision reaches the delete (separate ifs, one merged condition, a flag and one exit).
			execsOf := func() ([]core.AbsExec, bool) {
				if h := loopHeaderOf(fn, e.Instr.Block()); h != nil {
					return p.LoopBodyExecutions(fn, h) // one iteration of the gauge loop
				}
				return p.AbstractExecutions(fn)
			}
			if execs, complete := execsOf(); complete {
				type verdict struct {
					ok  string
					key string
				}
				seenV := map[string]bool{}
				for i := range execs {
					ex := &execs[i]
					when, performed := ex.Calls[e.Instr]
					if !performed {
						continue
					}
					var keyParts []string
					isEmpty, isDegenerate := false, false
					for _, c := range p.ExecConditions(ex, when) {
						if rel := timeRel(p, c.Atom, c.Truth, isEnd, isNow); rel != "" {
							keyParts = append(keyParts, "End"+rel+"now")
						}
						if rel := timeRel(p, c.Atom, c.Truth, isEnd, isStart); rel != "" {
							keyParts = append(keyParts, "End"+rel+"Start")
						}
						if empty(c.Atom, c.Truth) {
							isEmpty = true
						}
						if degenerate(c.Atom, c.Truth) {
							isDegenerate = true
						}
					}
					sort.Strings(keyParts)
					keyParts = uniq(keyParts)
					v := verdict{}
					switch {
					case swept:
						v.ok = "gauge:delete-after-sweep:" + strings.Join(keyParts, "&")
					case isEmpty:
						v.ok = "gauge:delete-behind-empty-balance"
					case isDegenerate:
						v.ok = "gauge:delete-degenerate-interval"
					default:
						// only the relations that make the class what it is: those of the deleting decision (drop what
						// earlier, failed alternatives established in the negative)
						var pos []string
						for _, k := range keyParts {
							if !strings.Contains(k, ">=") && !strings.Contains(k, ">") || strings.Contains(k, "<") {
								pos = append(pos, k)
							}
						}
						v.key = "gauge:removed-undrained:" + strings.Join(pos, "&")
					}
					id := v.ok + "|" + v.key
					if seenV[id] {
						continue
					}
					seenV[id] = true
					if v.ok != "" {
						r.Ok("C12/R3", v.ok, p.InstrPos(e.Instr), "delete of a drained or degenerate gauge")
					} else {
						r.Violation("C12/R3", v.key, p.InstrPos(e.Instr), "a gauge record is deleted without checking that its account is empty and without sweeping it: the remainder accrued since the last reward block is stranded and can never be paid out")
					}
				}
				continue
			}
			// A delete reached through several decisions (if A || B { delete }) is judged once per way in: each
			// incoming decision edge of the deleting block is a class of its own, so that merging or splitting the
			// conditions does not change what is reported.
			db := e.Instr.Block()
			var classes []map[core.Edge]bool // per class: the OTHER incoming edges (to be avoided)
			var inEdges []core.Edge
			for _, pb := range db.Preds {
				if _, isIf := pb.Instrs[len(pb.Instrs)-1].(*ssa.If); !isIf {
					continue
				}
				for i, sc := range pb.Succs {
					if sc == db {
						inEdges = append(inEdges, core.Edge{From: pb, Succ: i})
					}
				}
			}
			if len(inEdges) >= 2 && len(inEdges) == len(db.Preds) {
				for i := range inEdges {
					av := map[core.Edge]bool{}
					for j, ed := range inEdges {
						if j != i {
							av[ed] = true
						}
					}
					classes = append(classes, av)
				}
			} else {
				classes = []map[core.Edge]bool{{}}
			}
			for _, avoid := range classes {
				with := func(m map[core.Edge]bool) map[core.Edge]bool {
					out := map[core.Edge]bool{}
					for k := range m {
						out[k] = true
					}
					for k := range avoid {
						out[k] = true
					}
					return out
				}
				// the relations every path of this class has established (single-edge cuts): the semantic key
				var keyParts []string
				for _, b := range fn.Blocks {
					ifi, ok := b.Instrs[len(b.Instrs)-1].(*ssa.If)
					if !ok {
						continue
					}
					ca := p.NormCond(ifi)
					for succ := 0; succ < 2; succ++ {
						if avoid[core.Edge{From: b, Succ: succ}] {
							continue
						}
						if core.PathExists(fn, with(map[core.Edge]bool{{From: b, Succ: succ}: true}), e.Instr, nil) {
							continue
						}
						truth := !ca.Neg
						if succ == 1 {
							truth = ca.Neg
						}
						if rel := timeRel(p, ca, truth, isEnd, isNow); rel != "" {
							keyParts = append(keyParts, "End"+rel+"now")
						}
						if rel := timeRel(p, ca, truth, isEnd, isStart); rel != "" {
							keyParts = append(keyParts, "End"+rel+"Start")
						}
						if extBool(p, "types.Coins).Empty", true, isBal)(ca, truth) {
							keyParts = append(keyParts, "balance-empty")
						}
					}
				}
				sort.Strings(keyParts)
				keyParts = uniq(keyParts)
				construct := "gauge:removed-undrained:" + strings.Join(keyParts, "&")
				behind := func(g core.GuardMatch) bool {
					return !core.PathExists(fn, with(p.PassEdges(fn, g)), e.Instr, nil)
				}
				switch {
				case swept:
					r.Ok("C12/R3", "gauge:delete-after-sweep:"+strings.Join(keyParts, "&"), p.InstrPos(e.Instr), "delete follows a transfer of the whole remaining balance")
				case behind(empty):
					r.Ok("C12/R3", "gauge:delete-behind-empty-balance", p.InstrPos(e.Instr), "delete behind Empty(balance)=true")
				case behind(degenerate):
					r.Ok("C12/R3", "gauge:delete-degenerate-interval", p.InstrPos(e.Instr), "exception (reviewed): delete of a gauge with End <= Start; constructors add a positive duration to the block time (checked below), so no transaction creates one")
				default:
					r.Violation("C12/R3", construct, p.InstrPos(e.Instr), "a gauge record is deleted without checking that its account is empty and without sweeping it: the remainder accrued since the last reward block is stranded and never released; reached under "+strings.Join(keyParts, " & "))
				}
			}
		}
	}
	r.Floor("C12/R3", nDel, 1, "gauge deletes on the reward path")
	// constructor call sites: end ⊵ Ctx.BlockTime through time.Add / AddDate (supports the degenerate-interval exception)
	hs, _ := p.Handlers()
	nCall := 0
	for _, h := range hs {
		for _, fn := range p.Summary(h.Fn).Funcs {
			allInstrs(fn, func(in ssa.Instruction) {
				c, ok := in.(*ssa.Call)
				if !ok {
					return
				}
				isCtor := false
				for _, cal := range p.Callees(c) {
					if isGaugeCtor(p, cal) {
						isCtor = true
					}
				}
				if !isCtor {
					return
				}
				nCall++
				for _, a := range dataArgs(c) {
					if !strings.HasSuffix(a.Type().String(), "time.Time") {
						continue
					}
					ep := p.ProvAt(a, "", c)
					if fn != h.Fn {
						ep = p.ResolveToEntry(ep, h.Fn) // the constructor is called from a helper of the handler
					}
					okE := ep.HasCtx("BlockTime") && (ep.HasExt("time.Time).Add") || ep.HasExt("time.Time).AddDate"))
					r.Check(okE, "C12/R3", h.Key()+":gauge-end=blocktime+duration", p.InstrPos(c), "gauge End ⊵ Ctx.BlockTime advanced by a duration", "a gauge is created whose End is not the block time plus a duration: "+ep.String())
				}
			})
		}
	}
	r.Floor("C12/R3", nCall, 2, "gauge constructor call sites in handlers")
	// R2 constructor identity
	nCtor := 0
	for _, fn := range consensusFuncs(p) {
		if strings.Contains(core.FnPkgPath(fn), "/upgrades") || strings.Contains(core.FnPkgPath(fn), "/legacy") {
			continue
		}
		if !isGaugeCtor(p, fn) {
			continue // plain setter (genesis) is keyed by the record's own id
		}
		set := gaugeSetOps(p, fn)[0]
		lookup := false
		for _, o := range p.StoreOps(fn) {
			if o.Module+"/"+o.Prefix == stGauge && (o.Kind == "Has" || o.Kind == "Get") {
				lookup = true
			}
		}
		nCtor++
		kp := p.ProvAt(set.Key, "", set.Instr)
		if set.Instr.Parent() != fn {
			// stored through the record setter: the key is the Id the constructor gives the record
			allInstrs(fn, func(in ssa.Instruction) {
				if al, ok := in.(*ssa.Alloc); ok && core.TypeName(al.Type()) == "x/storage/types.PaymentGauge" {
					kp = p.ProvAt(al, ".Id", fn.Blocks[len(fn.Blocks)-1].Instrs[0])
				}
			})
		}
		var srcs []string
		perCreation := false
		for _, a := range kp.DataAtoms() {
			srcs = append(srcs, a.String())
			switch {
			case a.Kind == "ctx" && (a.Name == "BlockHeight" || a.Name == "BlockTime"):
			case a.Kind == "param":
			default:
				perCreation = true
			}
		}
		sort.Strings(srcs)
		r.Check(perCreation || lookup, "C12/R2", "gauge:id-collision", p.InstrPos(set.Instr), "id has a per-creation source or creation handles an existing id",
			fmt.Sprintf("the gauge id depends only on %v and creation never looks the id up: two creations in one block with equal end and coins share one record while the account is funded twice, so the gauge holds twice its recorded coins and over-releases early", srcs))
	}
	r.Floor("C12/R2", nCtor, 1, "gauge constructors")
}

func hasIfs(fn *ssa.Function) bool {
	for _, b := range fn.Blocks {
		if _, ok := b.Instrs[len(b.Instrs)-1].(*ssa.If); ok {
			return true
		}
	}
	return false
}

func blockReachesOrIs(from, to *ssa.BasicBlock) bool {
	return from == to || blockReaches(from, to)
}

// depositEqualsRecord: the coins moved into a gauge's account are the very value handed to the gauge constructor
// (which records it, or adds it to the record of an existing gauge with the same id) — in the unit that calls the
// constructor or in a helper that is given the gauge. Anything else (e.g. the returned record's Coins) makes the
// account hold more or less than the record says, and the linear release formula is computed from the record.
func depositEqualsRecord(r *core.Run, rule string, hs []*core.Handler) {
	p := r.Prog
	n := 0
	for _, key := range []string{"storage.MsgBuyStorage", "storage.MsgPostFile"} {
		if core.HandlerByKey(hs, key) == nil {
			r.Undecided(rule, key+":anchor-missing", "", "handler missing")
		}
	}
	// every function of the repository that constructs a gauge: the handlers, their helpers, and upgrade code
	{
		for _, fn := range p.Funcs {
			if p.IsGenerated(fn) || core.IsTestSupportPkg(core.FnPkgPath(fn)) || fn.Blocks == nil {
				continue
			}
			key := core.FnName(fn)
			allInstrs(fn, func(in ssa.Instruction) {
				ctor, ok := in.(*ssa.Call)
				if !ok {
					return
				}
				isCtor := false
				for _, cal := range p.Callees(ctor) {
					if isGaugeCtor(p, cal) {
						isCtor = true
					}
				}
				if !isCtor {
					return
				}
				var coinsArg ssa.Value
				for _, a := range dataArgs(ctor) {
					if strings.HasSuffix(a.Type().String(), "types.Coins") {
						coinsArg = a
					}
				}
				usesGauge := func(v ssa.Value, at ssa.Instruction) bool {
					return dependsOnValue(v, ctor)
				}
				var amounts []ssa.Value
				var poss []string
				for _, bo := range p.BankOps(fn) {
					if bo.Method == "SendCoinsFromModuleToAccount" && usesGauge(bo.Args[1], bo.Instr) {
						amounts = append(amounts, bo.Args[2])
						poss = append(poss, p.InstrPos(bo.Instr))
					}
				}
				allInstrs(fn, func(in2 ssa.Instruction) {
					hop, ok := in2.(ssa.CallInstruction)
					if !ok || hop == ssa.CallInstruction(ctor) {
						return
					}
					for _, g := range p.Callees(hop) {
						passes := false
						for _, a := range hop.Common().Args {
							if a == ssa.Value(ctor) || usesGauge(a, hop) && strings.HasSuffix(a.Type().String(), "PaymentGauge") {
								passes = true
							}
						}
						if !passes {
							continue
						}
						for _, bo := range p.BankOps(g) {
							if bo.Method != "SendCoinsFromModuleToAccount" {
								continue
							}
							amt := bo.Args[2]
							if prm, isParam := amt.(*ssa.Parameter); isParam {
								hc := hop.Common()
								var actuals []ssa.Value
								if hc.IsInvoke() {
									actuals = append(actuals, hc.Value)
								}
								actuals = append(actuals, hc.Args...)
								for i, q := range g.Params {
									if q == prm && i < len(actuals) {
										amt = actuals[i]
									}
								}
							}
							amounts = append(amounts, amt)
							poss = append(poss, p.InstrPos(bo.Instr))
						}
					}
				})
				if len(amounts) == 0 && !isGaugeCtor(p, fn) {
					n++
					r.Violation(rule, key+":gauge-funded", p.InstrPos(ctor), "a gauge is constructed here but no transfer in this function (or a helper given the gauge) goes to the account derived from it: the record promises coins its account never receives")
				}
				for i, amt := range amounts {
					n++
					r.Analysed(core.FnName(fn))
					r.Check(coinsArg != nil && core.SameValue(amt, coinsArg), rule, key+":deposit=constructor-argument", poss[i], "the gauge account receives the value handed to the gauge constructor", "the gauge account receives a value other than the one handed to the gauge constructor (for instance the returned record's Coins, which is the total of all deposits sharing the id): the account and the record disagree and the release computed from the record over- or under-releases")
				}
			})
		}
	}
	r.Floor(rule, n, 2, "gauge deposits")
}

// dependsOnValue: target is reachable from v by walking operands backwards (same function).
func dependsOnValue(v ssa.Value, target ssa.Value) bool {
	seen := map[ssa.Value]bool{}
	var walk func(x ssa.Value, d int) bool
	walk = func(x ssa.Value, d int) bool {
		if x == nil || seen[x] || d > 30 {
			return false
		}
		if x == target {
			return true
		}
		seen[x] = true
		in, ok := x.(ssa.Instruction)
		if !ok {
			return false
		}
		var ops []*ssa.Value
		for _, op := range in.Operands(ops) {
			if op != nil && *op != nil && walk(*op, d+1) {
				return true
			}
		}
		if u, ok := x.(*ssa.UnOp); ok {
			if al, ok := u.X.(*ssa.Alloc); ok {
				for _, ref := range *al.Referrers() {
					if st, ok := ref.(*ssa.Store); ok && st.Addr == al && walk(st.Val, d+1) {
						return true
					}
				}
			}
		}
		return false
	}
	return walk(v, 0)
}
