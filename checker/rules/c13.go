package rules

import (
	"fmt"
	"go/token"
	"strings"

	"golang.org/x/tools/go/ssa"

	"jklcheck/core"
)

const mintPrefix = "jklmint/last_block_minted"

func init() { registry["C13"] = c13 }

// nonNegByGuard: v is non-negative by construction: a non-negative constant, or a phi each of whose
// incoming values is either a non-negative constant or reaches the phi only on an edge where `value >= 0`
// (false edge of `value < 0`, true edge of `value >= 0` / `value > 0`) was established.
func nonNegByGuard(p *core.Program, v ssa.Value) (bool, string) {
	switch x := v.(type) {
	case *ssa.Const:
		if x.Value != nil && !strings.HasPrefix(x.Value.ExactString(), "-") {
			return true, "non-negative constant"
		}
		return false, "negative constant"
	case *ssa.Phi:
		for i, e := range x.Edges {
			if c, ok := e.(*ssa.Const); ok {
				if c.Value == nil || strings.HasPrefix(c.Value.ExactString(), "-") {
					return false, "negative constant"
				}
				continue
			}
			pred := x.Block().Preds[i]
			if !edgeEstablishesNonNeg(e, pred, x.Block()) {
				return false, "an incoming value is not established non-negative on its edge"
			}
		}
		return true, "every incoming value is a non-negative constant or guarded by a sign test"
	case *ssa.Call:
		// max(..., c) with a non-negative constant c is non-negative whatever the other operands are
		if isClampAtZero(x) {
			return true, "max(·, non-negative constant)"
		}
		// a custom single-valued helper whose every return is itself non-negative by guard
		if callee := x.Call.StaticCallee(); callee != nil && callee.Blocks != nil {
			n := 0
			for _, b := range callee.Blocks {
				ret, ok := b.Instrs[len(b.Instrs)-1].(*ssa.Return)
				if !ok || len(ret.Results) != 1 {
					continue
				}
				n++
				rv := ret.Results[0]
				if ok2, _ := nonNegByGuard(p, rv); ok2 {
					continue
				}
				// return of a value inside the non-negative branch of a test on it
				if !blockUnderNonNeg(rv, b) {
					return false, "a return of " + callee.Name() + " is not established non-negative"
				}
			}
			if n > 0 {
				return true, "every return of " + callee.Name() + " is non-negative by guard"
			}
		}
	}
	return false, "value is not a guarded phi"
}

// blockUnderNonNeg: block b is dominated by an edge establishing v >= 0.
func blockUnderNonNeg(v ssa.Value, b *ssa.BasicBlock) bool {
	refs := v.Referrers()
	if refs == nil {
		return false
	}
	for _, r := range *refs {
		bo, ok := r.(*ssa.BinOp)
		if !ok {
			continue
		}
		for _, rr := range *bo.Referrers() {
			ifi, ok := rr.(*ssa.If)
			if !ok {
				continue
			}
			for succ := 0; succ < 2; succ++ {
				if edgeRelNonNeg(bo, v, succ == 0) {
					s := ifi.Block().Succs[succ]
					if len(s.Preds) == 1 && s.Dominates(b) {
						return true
					}
				}
			}
		}
	}
	return false
}

// edgeRelNonNeg: the comparison bo (v op const0), taken with truth value t, implies v >= 0.
func edgeRelNonNeg(bo *ssa.BinOp, v ssa.Value, t bool) bool {
	op := bo.Op
	var other ssa.Value
	switch {
	case bo.X == v:
		other = bo.Y
	case bo.Y == v:
		other = bo.X
		op = flip(op)
	default:
		return false
	}
	c, ok := other.(*ssa.Const)
	if !ok || c.Value == nil {
		return false
	}
	zero := c.Value.ExactString() == "0"
	if !t {
		op = negate(op)
	}
	switch op {
	case token.GEQ:
		return zero || !strings.HasPrefix(c.Value.ExactString(), "-")
	case token.GTR:
		return !strings.HasPrefix(c.Value.ExactString(), "-") || c.Value.ExactString() == "-1"
	}
	return false
}

func edgeEstablishesNonNeg(v ssa.Value, pred, to *ssa.BasicBlock) bool {
	// pred (or a dominator chain of single-pred blocks) ends with If on a comparison of v
	for b := pred; b != nil; {
		if ifi, ok := b.Instrs[len(b.Instrs)-1].(*ssa.If); ok {
			if bo, ok := ifi.Cond.(*ssa.BinOp); ok {
				for succ := 0; succ < 2; succ++ {
					if edgeRelNonNeg(bo, v, succ == 0) {
						s := b.Succs[succ]
						if s == to && b == pred {
							return true
						}
						if len(s.Preds) == 1 && s.Dominates(pred) {
							return true
						}
					}
				}
			}
		}
		if len(b.Preds) != 1 {
			break
		}
		b = b.Preds[0]
	}
	return false
}

func c13(r *core.Run) {
	p := r.Prog
	r.Explanation = "Static rules over the block-emission path (functions reachable from the jklmint BeginBlock): the value minted, the value recorded as MintedBlock.Minted and the base handed to the three split functions are one SSA value; that value is the result of the recurrence function whose shape is trunc(prev − decrease/blocksPerYear) with prev read from the record keyed height−1 and the new record keyed height; the value is non-negative by an explicit sign guard; each split transfer depends on its own ratio parameter and the base, with recipients {fee collector, constant dev-grants account, Param(StorageStipendAddress)} and no other bank call from the mint module; every path after a successful mint reaches the record write."
	r.Assumptions = []string{T1, T3, T6}
	r.NotDecided = []string{"'fewer than three base units remain' (numeric)", "numeric non-increase beyond the shape/sign argument"}
	r.Rule("C13/R10", "the distribution is not cut short by a computed condition: in every jklmint function on the BeginBlock path that moves coins, a branch leading only to failing returns is decided by the error of a call (a transfer, an address parse), never by an amount")
	r.Rule("C13/R9", "the mint parameters used are the governance-set ones: GetParams of the mint module is a faithful read of the parameter store and each key of its ParamSetPairs is bound to the Params field confirmed for it")
	r.Rule("C13/R8", "every share of the block emission is converted to whole units by truncation only: the shares cannot add up to more than was minted")
	r.Rule("C13/R7", "emission records are visited/deleted only through point keys, prefix iterators or ranges with text-safe bounds: no range bound built from a variable-width decimal (the previous block's record must still exist at the next block)")
	r.Rule("C13/R1", "minted = recorded = split base: one SSA value feeds the mint coin, MintedBlock.Minted and all three split calls")
	r.Rule("C13/R2", "recurrence shape: emission = TruncateInt64(Sub(prev, Quo(decrease, blocksPerYear))) with prev ⊵ previous emission only and decrease ⊵ Param(MintDecrease) only")
	r.Rule("C13/R3", "non-negative: the emission value is established non-negative by a sign guard before it reaches the coin constructor")
	r.Rule("C13/R4", "splits: each transfer's amount ⊵ its own ratio parameter and the base and no other ratio; recipients = {fee collector, constant dev-grants account, Param(StorageStipendAddress)}; no other bank call on the path; exactly one MintCoins")
	r.Rule("C13/R5", "recorded on every minting path: every path after the mint call reaches the MintedBlock write")
	r.Rule("C13/R6", "recurrence link: previous record read with key Ctx.BlockHeight−1, new record written with Height = Ctx.BlockHeight, same prefix")
	iteratorHygiene(r, "C13/R7", moduleFuncs(p, "jklmint"))
	paramsGetterFaithful(r, "C13/R9", "jklmint")
	paramPairsConsistent(r, "C13/R9", "jklmint")
	bb, _ := p.BlockEntries()
	var entry *ssa.Function
	for _, fn := range bb {
		if core.ModuleOf(fn) == "jklmint" {
			entry = fn
		}
	}
	if entry == nil {
		r.Undecided("C13/R1", "jklmint:BeginBlock:anchor-missing", "", "jklmint BeginBlock calls nothing")
		return
	}
	// R10: the distribution steps fail only on errors of what they call
	{
		var steps []*ssa.Function
		for _, fn := range p.Summary(entry).Funcs {
			if core.ModuleOf(fn) == "jklmint" && len(p.Summary(fn).Bank) > 0 {
				steps = append(steps, fn)
			}
		}
		r.Floor("C13/R10", failsOnlyOnErrors(r, "C13/R10", steps), 3, "failing branches of the distribution steps")
	}
	// the emission call: a call on the path whose callee has the recurrence shape; its function is the unit
	var unit *ssa.Function
	var emission *ssa.Call
	for _, fn := range p.Summary(entry).Funcs {
		allInstrs(fn, func(in ssa.Instruction) {
			if c, ok := in.(*ssa.Call); ok && emission == nil {
				for _, cal := range p.Callees(c) {
					if ok2, _ := recurrenceShape(p, cal); ok2 {
						unit, emission = fn, c
					}
				}
			}
		})
	}
	if emission == nil {
		r.Violation("C13/R2", "blockmint:recurrence-call", p.Pos(entry.Pos()), "no call on the block-emission path computes trunc(prev − decrease/blocksPerYear)")
		return
	}
	r.Analysed(core.FnName(unit))
	// the lookup of the previous record (in the unit or in a helper it calls)
	var getCall *ssa.Call
	var getFn *ssa.Function
	for _, fn := range p.Summary(entry).Funcs {
		allInstrs(fn, func(in ssa.Instruction) {
			if c, ok := in.(*ssa.Call); ok {
				for _, cal := range p.Callees(c) {
					if gi := p.StoreGetter(cal); gi != nil && gi.Module+"/"+gi.Prefix == mintPrefix && fn != cal {
						getCall, getFn = c, fn
					}
				}
			}
		})
	}
	if getCall == nil {
		r.Violation("C13/R6", "blockmint:previous-record-read", p.Pos(entry.Pos()), "the block-emission path never reads the previous block's emission record")
		return
	}
	// the fallback to Param(TokensPerBlock) is taken only when no previous record exists
	{
		notFound := p.PassEdges(getFn, foundGuard(p, mintPrefix, false))
		isFallback := func(v ssa.Value, at ssa.Instruction) bool {
			pr := p.ResolveToEntry(p.ProvAt(v, "", at), entry)
			return pr.HasParams("jklmint", ".TokensPerBlock") && !pr.HasStore(mintPrefix, ".Minted")
		}
		bad := ""
		for _, b := range getFn.Blocks {
			for _, in := range b.Instrs {
				switch x := in.(type) {
				case *ssa.Phi:
					for i, e := range x.Edges {
						if !isFallback(e, x) {
							continue
						}
						pred := b.Preds[i]
						// the edge pred->b must be a not-found edge, or pred reachable only through one
						edgeIsNF := false
						for si, sb := range pred.Succs {
							if sb == b && notFound[core.Edge{From: pred, Succ: si}] {
								edgeIsNF = true
							}
						}
						if !edgeIsNF && core.PathExists(getFn, notFound, pred.Instrs[len(pred.Instrs)-1], nil) {
							bad = p.InstrPos(pred.Instrs[len(pred.Instrs)-1])
						}
					}
				case *ssa.Return:
					if getFn == unit || len(x.Results) == 0 {
						continue
					}
					if isFallback(x.Results[0], x) && core.PathExists(getFn, notFound, x, nil) {
						bad = p.InstrPos(x)
					}
				}
			}
		}
		r.Check(bad == "", "C13/R2", "recurrence:fallback-only-when-no-record", p.InstrPos(getCall), "Param(TokensPerBlock) replaces the previous emission only on Found(previous record)=false", "the recurrence restarts from Param(TokensPerBlock) although a previous record exists (e.g. when its value is 0): the emission jumps back up @"+bad)
	}
	isEmission := func(v ssa.Value) bool {
		// the emission call itself or a sign-guarded phi of it with constants
		if core.SameValue(v, emission) {
			return true
		}
		if ph, ok := v.(*ssa.Phi); ok {
			n := 0
			for _, e := range ph.Edges {
				if _, isC := e.(*ssa.Const); isC {
					continue
				}
				if !core.SameValue(e, emission) {
					return false
				}
				n++
			}
			return n > 0
		}
		return false
	}
	// ---- R1 / R3
	insts := p.BankInstances(entry)
	var mintInst *core.BankInstance
	nMint := 0
	for i := range insts {
		if insts[i].Op.Method == "MintCoins" {
			nMint++
			mintInst = &insts[i]
		}
	}
	r.Check(nMint == 1, "C13/R4", "blockmint:single-mint", p.Pos(unit.Pos()), "exactly one MintCoins on the block path", fmt.Sprintf("%d MintCoins call paths on the block-emission path", nMint))
	var mintCall ssa.CallInstruction
	var mintedVal ssa.Value
	if mintInst != nil {
		// the coin constructor feeding the mint: find NewInt64Coin/NewCoin call in unit whose result flows to the mint
		allInstrs(unit, func(in ssa.Instruction) {
			c, ok := in.(*ssa.Call)
			if !ok {
				return
			}
			n := core.CalleeFullName(c)
			if strings.HasSuffix(n, "types.NewInt64Coin") || strings.HasSuffix(n, "types.NewCoin") {
				mintedVal = c.Call.Args[1]
			}
		})
		if len(mintInst.Stack) > 0 {
			mintCall = mintInst.Stack[0]
			for _, s := range mintInst.Stack {
				if s.Parent() == unit {
					mintCall = s
				}
			}
		} else {
			mintCall = mintInst.Op.Instr
		}
	}
	if mintedVal == nil {
		r.Violation("C13/R1", "blockmint:minted-value", p.Pos(unit.Pos()), "no coin is constructed from the emission value in the emission unit")
	} else {
		r.Check(isEmission(mintedVal), "C13/R1", "blockmint:minted=emission", p.Pos(unit.Pos()), "minted amount is the emission value", "the amount minted is not the recurrence's emission value")
		ok, why := nonNegByGuard(p, mintedVal)
		r.Check(ok, "C13/R3", "blockmint:coin:negative-emission", p.Pos(unit.Pos()), why, "the emission reaches the coin constructor without a sign guard: once MintDecrease/blocksPerYear exceeds the previous emission it turns negative and NewInt64Coin panics in BeginBlock ("+why+")")
	}
	// recorded value
	var setCall ssa.CallInstruction
	for _, e := range p.Effects(unit) {
		if c, ok := e.Instr.(ssa.CallInstruction); ok && effHas(e, "Set", mintPrefix) {
			setCall = c
		}
	}
	if setCall == nil {
		r.Violation("C13/R5", "blockmint:mint-without-record", p.Pos(unit.Pos()), "the emission is never recorded")
	} else {
		args := dataArgs(setCall)
		rec := args[len(args)-1]
		// stored Minted value
		var stored ssa.Value
		if ld, ok := rec.(*ssa.UnOp); ok {
			if al, ok := ld.X.(*ssa.Alloc); ok {
				for _, ref := range *al.Referrers() {
					if fa, ok := ref.(*ssa.FieldAddr); ok && core.FieldName(fa.X.Type(), fa.Field) == "Minted" {
						for _, rr := range *fa.Referrers() {
							if st, ok := rr.(*ssa.Store); ok {
								stored = st.Val
							}
						}
					}
				}
			}
		}
		r.Check(stored != nil && mintedVal != nil && (core.SameValue(stored, mintedVal) || (isEmission(stored) && isEmission(mintedVal))), "C13/R1", "blockmint:recorded=minted", p.InstrPos(setCall), "MintedBlock.Minted is the minted value", "the recorded emission differs from the amount minted: the next block's recurrence starts from a wrong value")
		hp := p.ProvAt(rec, ".Height", setCall)
		r.Check(hp.HasCtx("BlockHeight") && len(hp.DataAtoms()) == 1 && !strings.Contains(strings.Join(hp.Strings(), " "), "Const(1)"), "C13/R6", "blockmint:record-key=height", p.InstrPos(setCall), "record keyed by Ctx.BlockHeight", "the emission record is not keyed by the current height: "+hp.String())
		if mintCall != nil {
			// paths on which the mint call itself failed are not minting paths
			failed := p.PassEdges(unit, func(ca *core.CondAtom, truth bool) bool {
				return ca.Kind == "errnil" && !truth && ca.Call != nil && ssa.CallInstruction(ca.Call) == mintCall
			})
			ret := p.BypassExistsAvoiding(unit, mintCall, setCall, true, failed)
			r.Check(ret == nil, "C13/R5", "blockmint:mint-without-record", p.InstrPos(mintCall), "every path after the mint reaches the record write", "a path mints the block emission but returns without recording it: the next block restarts the recurrence from Params.TokensPerBlock (emission jumps back up)")
		}
	}
	// ---- R6 previous key
	ga := dataArgs(getCall)
	okPrev := false
	if len(ga) == 1 {
		if bo, ok := ga[0].(*ssa.BinOp); ok && bo.Op == token.SUB {
			c, isC := bo.Y.(*ssa.Const)
			okPrev = isC && c.Value != nil && c.Value.ExactString() == "1" && p.ProvAt(bo.X, "", bo).HasCtx("BlockHeight") && len(p.ProvAt(bo.X, "", bo).DataAtoms()) == 1
		}
	}
	r.Check(okPrev, "C13/R6", "blockmint:previous-key=height-1", p.InstrPos(getCall), "previous record read at Ctx.BlockHeight − 1", "the previous emission is not read from the record of height−1: the chain of emissions is cut")
	// ---- R2 recurrence shape
	rc := p.Callees(emission)[0]
	okShape, why := recurrenceShape(p, rc)
	r.Check(okShape, "C13/R2", "recurrence:shape", p.Pos(rc.Pos()), why, "the recurrence is not trunc(prev − decrease/blocksPerYear): "+why)
	// arguments: prev ⊵ {record.Minted, Param(TokensPerBlock)}, decrease ⊵ Param(MintDecrease)
	ea := dataArgs(emission)
	if len(ea) == 3 {
		pp := p.ProvAt(ea[0], "", emission)
		okp := pp.HasStore(mintPrefix, ".Minted") && pp.HasParams("jklmint", ".TokensPerBlock") && len(pp.DataAtoms()) <= 3
		r.Check(okp, "C13/R2", "recurrence:prev-argument", p.InstrPos(emission), "prev ⊵ {previous record's Minted (if found), Param(TokensPerBlock)}", "the recurrence is not fed the previous block's emission: "+pp.String())
		dp := p.ProvAt(ea[2], "", emission).DataAtoms()
		r.Check(len(dp) == 1 && dp[0].Kind == "params" && dp[0].Path == ".MintDecrease", "C13/R2", "recurrence:decrease-argument", p.InstrPos(emission), "decrease ⊵ Param(MintDecrease) only", "the yearly decrease is not the MintDecrease parameter")
		bp := p.ProvAt(ea[1], "", emission).DataAtoms()
		r.Check(len(bp) == 0, "C13/R2", "recurrence:blocks-per-year-constant", p.InstrPos(emission), "blocksPerYear is a positive constant", "blocksPerYear is not a constant")
	}
	// ---- R4 splits
	ratios := []string{"StakerRatio", "DevGrantsRatio", "StorageProviderRatio"}
	seen := map[string]bool{}
	for _, bi := range insts {
		if bi.Op.Method == "MintCoins" {
			continue
		}
		ap := p.ResolveAlong(p.ProvAt(bi.Op.Args[len(bi.Op.Args)-1], "", bi.Op.Instr), bi.Stack)
		var own []string
		for _, f := range ratios {
			if ap.HasParams("jklmint", "."+f) {
				own = append(own, f)
			}
		}
		rp := p.ResolveAlong(p.ProvAt(bi.Op.Args[1], "", bi.Op.Instr), bi.Stack)
		class := "unknown"
		switch {
		case bi.Op.Method == "SendCoinsFromModuleToModule" && rp.Any(func(a core.Atom) bool { return strings.HasSuffix(a.Path, ".feeCollectorName") }):
			class = "fee-collector"
		case bi.Op.Method == "SendCoinsFromModuleToAccount" && rp.HasParams("jklmint", ".StorageStipendAddress") && len(rp.DataAtoms()) == 1:
			class = "stipend"
		case bi.Op.Method == "SendCoinsFromModuleToAccount" && len(rp.DataAtoms()) == 0 && rp.HasExt("sha256"):
			class = "dev-grants"
		}
		want := map[string]string{"fee-collector": "StakerRatio", "dev-grants": "DevGrantsRatio", "stipend": "StorageProviderRatio"}[class]
		construct := "split:" + class
		if class == "unknown" {
			r.Violation("C13/R4", construct+":"+bi.Op.Method, p.InstrPos(bi.Op.Instr), "a bank call on the emission path whose recipient is none of {fee collector, dev grants, stipend address}: "+rp.String())
			continue
		}
		seen[class] = true
		baseOK := ap.HasStore(mintPrefix, ".Minted") || ap.HasParams("jklmint", ".TokensPerBlock")
		roundsDown(r, "C13/R8", construct+":rounds-down", bi.Op.Args[len(bi.Op.Args)-1], p.InstrPos(bi.Op.Instr))
		r.Check(len(own) == 1 && own[0] == want && baseOK, "C13/R4", construct, p.InstrPos(bi.Op.Instr), "amount ⊵ {"+want+", emission}", fmt.Sprintf("the %s transfer depends on ratios %v (expected only %s) base=%v", class, own, want, baseOK))
	}
	for _, c := range []string{"fee-collector", "dev-grants", "stipend"} {
		if !seen[c] {
			r.Violation("C13/R4", "split:"+c+":missing", p.Pos(unit.Pos()), "the emission is not distributed to "+c)
		}
	}
	// the base passed to each split function is the emission value (followed through a dispatching helper that is
	// handed the base and calls the split functions itself)
	nSplit := 0
	var checkSplits func(fn *ssa.Function, isBase func(ssa.Value) bool, depth int)
	checkSplits = func(fn *ssa.Function, isBase func(ssa.Value) bool, depth int) {
		allInstrs(fn, func(in ssa.Instruction) {
			c, ok := in.(*ssa.Call)
			if !ok || c == emission || c == getCall || c == mintCall {
				return
			}
			cals := p.Callees(c)
			if len(cals) == 0 {
				return
			}
			if len(cals) > 1 {
				// one call site dispatching over a table of split functions: every entry is a split
				for _, one := range cals {
					if len(p.Summary(one).Bank) == 0 {
						return
					}
				}
			} else if len(p.Summary(cals[0]).Bank) == 0 {
				return
			}
			for _, one := range cals {
				cal := []*ssa.Function{one}
				baseIdx := -1
				args := c.Call.Args
				off := 0
				if c.Call.IsInvoke() {
					off = 1
				}
				for i, a := range args {
					if a.Type().String() == "int64" && isBase(a) {
						baseIdx = i + off
					}
					// the base handed over as the coin built from it (NewInt64Coin(denom, minted))
					if cc, isCall := a.(*ssa.Call); isCall && strings.HasSuffix(core.CalleeFullName(cc), "types.NewInt64Coin") && len(cc.Call.Args) == 2 && isBase(cc.Call.Args[1]) {
						baseIdx = i + off
					}
				}
				// a dispatcher: a callee that itself calls several functions moving coins
				sub := 0
				allInstrs(cal[0], func(in2 ssa.Instruction) {
					if c2, ok := in2.(*ssa.Call); ok {
						if cc := p.Callees(c2); len(cc) == 1 && len(p.Summary(cc[0]).Bank) > 0 {
							sub++
						}
					}
				})
				if sub >= 2 && depth < 2 {
					if baseIdx < 0 || baseIdx >= len(cal[0].Params) {
						r.Violation("C13/R1", "blockmint:split-base:"+cal[0].Name(), p.InstrPos(c), "the distributing helper is not handed the amount minted")
						continue
					}
					prm := cal[0].Params[baseIdx]
					checkSplits(cal[0], func(v ssa.Value) bool { return v == ssa.Value(prm) }, depth+1)
					continue
				}
				nSplit++
				r.Check(baseIdx >= 0, "C13/R1", "blockmint:split-base:"+cal[0].Name(), p.InstrPos(c), "split base is the minted value", "a split is computed from a base other than the amount minted")
			}
		})
	}
	checkSplits(unit, func(a ssa.Value) bool {
		return mintedVal != nil && (core.SameValue(a, mintedVal) || isEmission(a))
	}, 0)
	r.Floor("C13/R1", nSplit, 3, "split calls")
}

// recurrenceShape checks fn(prev, bpy, decrease) = [guarded] TruncateInt64(Sub(dec(prev), Quo(dec(decrease), dec(bpy)))).
func recurrenceShape(p *core.Program, fn *ssa.Function) (bool, string) {
	if fn == nil || fn.Blocks == nil || len(fn.Params) != 3 {
		return false, "not a 3-argument function"
	}
	var trunc *ssa.Call
	allInstrs(fn, func(in ssa.Instruction) {
		if c, ok := in.(*ssa.Call); ok && strings.HasSuffix(core.CalleeFullName(c), "types.Dec).TruncateInt64") {
			trunc = c
		}
	})
	if trunc == nil {
		return false, "no TruncateInt64"
	}
	sub, ok := trunc.Call.Args[0].(*ssa.Call)
	if !ok || !strings.HasSuffix(core.CalleeFullName(sub), "types.Dec).Sub") {
		return false, "truncated value is not a Dec.Sub"
	}
	quo, ok := sub.Call.Args[1].(*ssa.Call)
	if !ok || !strings.HasSuffix(core.CalleeFullName(quo), "types.Dec).Quo") {
		return false, "subtrahend is not a Dec.Quo"
	}
	only := func(v ssa.Value, idx int) bool {
		at := p.ProvAt(v, "", trunc).DataAtoms()
		return len(at) == 1 && at[0].Kind == "param" && at[0].Idx == idx
	}
	if !only(sub.Call.Args[0], 0) {
		return false, "minuend does not derive from the previous emission only"
	}
	if !only(quo.Call.Args[0], 2) || !only(quo.Call.Args[1], 1) {
		return false, "subtrahend is not decrease/blocksPerYear"
	}
	// every return is the truncated value or a non-negative constant
	for _, b := range fn.Blocks {
		ret, ok := b.Instrs[len(b.Instrs)-1].(*ssa.Return)
		if !ok {
			continue
		}
		var leaves []ssa.Value
		phiLeaves(ret.Results[0], map[ssa.Value]bool{}, &leaves)
		for _, lf := range leaves {
			if lf == ssa.Value(trunc) {
				continue
			}
			// max(trunc, 0): the clamp written with the builtin
			if mc, ok := lf.(*ssa.Call); ok && isClampAtZero(mc) {
				onlyTrunc := true
				for _, a := range mc.Call.Args {
					if _, isC := a.(*ssa.Const); !isC && a != ssa.Value(trunc) {
						onlyTrunc = false
					}
				}
				if onlyTrunc {
					continue
				}
			}
			if c, ok := lf.(*ssa.Const); ok && c.Value != nil && c.Value.ExactString() == "0" {
				continue
			}
			return false, "a return is neither the truncated difference nor the constant 0"
		}
	}
	return true, "trunc(prev − decrease/blocksPerYear)"
}

// isClampAtZero: a call of the builtin max one of whose operands is a non-negative constant.
func isClampAtZero(c *ssa.Call) bool {
	b, ok := c.Call.Value.(*ssa.Builtin)
	if !ok || b.Name() != "max" {
		return false
	}
	for _, a := range c.Call.Args {
		if k, isC := a.(*ssa.Const); isC && k.Value != nil && !strings.HasPrefix(k.Value.ExactString(), "-") {
			return true
		}
	}
	return false
}
