package rules

import (
	"fmt"
	"go/token"
	"strings"

	"golang.org/x/tools/go/ssa"

	"jklcheck/core"
)

func init() { registry["C14"] = c14 }

// quorumUnit finds, below handler h, the function that contains the quorum comparison against AttestMinToPass.
func quorumUnit(p *core.Program, h *core.Handler) (*ssa.Function, *core.CondAtom) {
	for _, fn := range p.Summary(h.Fn).Funcs {
		for _, b := range fn.Blocks {
			ifi, ok := b.Instrs[len(b.Instrs)-1].(*ssa.If)
			if !ok {
				continue
			}
			ca := p.NormCond(ifi)
			if ca.Kind != "cmp" {
				continue
			}
			if p.ProvAt(ca.X, "", ifi).HasParams("storage", ".AttestMinToPass") || p.ProvAt(ca.Y, "", ifi).HasParams("storage", ".AttestMinToPass") {
				return fn, ca
			}
		}
	}
	// the comparison computed into a value (a verdict field, a flag) and branched on elsewhere
	for _, fn := range p.Summary(h.Fn).Funcs {
		var found *core.CondAtom
		allInstrs(fn, func(in ssa.Instruction) {
			bo, ok := in.(*ssa.BinOp)
			if !ok || found != nil {
				return
			}
			switch bo.Op {
			case token.LSS, token.LEQ, token.GTR, token.GEQ:
			default:
				return
			}
			if p.ProvAt(bo.X, "", bo).HasParams("storage", ".AttestMinToPass") || p.ProvAt(bo.Y, "", bo).HasParams("storage", ".AttestMinToPass") {
				ca := p.NormCondValue(bo)
				ca.If = bo
				found = ca
			}
		})
		if found != nil {
			return fn, found
		}
	}
	return nil, nil
}

func c14(r *core.Run) {
	p := r.Prog
	r.Explanation = "Static rules over the attestation and report units (the keeper functions holding the quorum comparison, found from storage.MsgAttest / storage.MsgReport): the proof refresh / prover removal and the form deletion lie on every path behind the direct comparison count >= Param(AttestMinToPass) and behind the signer-matched flag; the counter is incremented by one only under the element's Complete flag inside the form loop; the flag and Complete:=true are set only under Eq(element.Provider, signer); acting paths always delete the loaded form; forms are built from the filtered active-provider list behind the size check."
	r.Assumptions = []string{T1, T4, T6}
	r.NotDecided = []string{"distinctness of the named providers among themselves (the stored active-provider list is trusted to hold one entry per provider)", "shuffle quality"}
	r.Rule("C14/R9", "a form is found only under the deal it was opened for: every store-key builder of the storage module (attestation and report forms among them) writes each of its parameters — prover, merkle, owner, start — into the key exactly once, as it is or hex / decimal formatted")
	r.Rule("C14/R8", "the quorum and form-size parameters are the governance-set ones: each key of the storage ParamSetPairs is bound to the Params field it names (a swapped binding makes a by-key change of AttestMinToPass alter the form size and leave the quorum unchanged)")
	r.Rule("C14/R7", "the proof-holding test of form candidates (and every other store scan in the storage module) uses prefix iterators or text-safe ranges: no open-ended range used as an existence test, no decimal range bounds")
	r.Rule("C14/R1", "quorum gate: every acting effect (proof refresh, prover removal, form deletion) is on all paths behind Cmp(count >= Param(AttestMinToPass)) with direct operands and behind Flag(signer matched)=true; all effects behind Found(form)=true")
	r.Rule("C14/R2", "counting: count is a phi incremented by the constant 1 only under the element's Complete flag; the matched flag and Complete:=true are set only under Eq(element.Provider, signer)=true")
	r.Rule("C14/R3", "consumed: every path through an acting effect deletes the form, with the key arguments it was loaded by")
	r.Rule("C14/R5", "the acting effect concerns the prover named on the form: the proof refreshed / the prover removed is selected by msg.Prover or form.Prover and never by the signer")
	r.Rule("C14/R6", "a form never names the prover it concerns: each component of the exclusion key is extracted from the candidate's address by the same term as from the requesting prover's address, and every candidate that reaches the comparison has passed the shape tests under which the prover's key is set (the filter is reflexive); at every call the filter is handed the requesting prover's stored field of the kind the candidates' keys are cut from")
	r.Rule("C14/R4", "form construction: the form write is behind Found(form)=false, ErrNil(prover lookup), Found(provider) and Cmp(len(candidates) >= Param(AttestFormSize)); entries ⊵ the filtered active-provider list and no message field; inside the loop of the function that writes the form, the candidate list is read at a position computed from loop counters, constants and lengths only (a drawn position can name one provider twice)")
	hs, err := p.Handlers()
	if err != nil {
		r.Undecided("C14/R1", "handlers", "", err.Error())
		return
	}
	type unitSpec struct {
		key, formPrefix string
		swallow         bool
	}
	n := 0
	for _, us := range []unitSpec{{"storage.MsgAttest", "storage/Attestation/value/", true}, {"storage.MsgReport", "storage/Report/value/", false}} {
		h := core.HandlerByKey(hs, us.key)
		if h == nil {
			r.Undecided("C14/R1", us.key+":anchor-missing", "", "handler missing")
			continue
		}
		fn, qa := quorumUnit(p, h)
		if fn == nil {
			r.Violation("C14/R1", us.key+":quorum-comparison", p.Pos(h.Fn.Pos()), "no comparison against Param(AttestMinToPass) on this handler's path")
			continue
		}
		n++
		r.Analysed(core.FnName(fn))
		// identify count side / min side
		countV, minV := qa.X, qa.Y
		if p.ProvAt(qa.X, "", qa.If).HasParams("storage", ".AttestMinToPass") {
			countV, minV = qa.Y, qa.X
		}
		countPhi, isPhi := countV.(*ssa.Phi)
		countFn := fn
		var tallyCall *ssa.Call
		if !isPhi {
			// the tally may live in a helper returning (count[, matched]): judge the helper's loop
			if tf, tp, tc := tallyHelper(p, countV); tf != nil {
				countFn, countPhi, tallyCall, isPhi = tf, tp, tc, true
			}
		}
		mp := p.ProvAt(minV, "", qa.If).DataAtoms()
		_, minArith := minV.(*ssa.BinOp)
		direct := isPhi && !minArith && len(mp) == 1 && mp[0].Kind == "params"
		r.Check(direct, "C14/R1", us.key+":quorum-operands-direct", p.InstrPos(qa.If), "count phi compared directly with Param(AttestMinToPass)", "the quorum comparison applies arithmetic to its operands or does not compare the loop counter with the parameter directly")
		isCount := func(pr core.Prov) bool { return true }
		_ = isCount
		quorum := func(ca *core.CondAtom, truth bool) bool {
			if !(ca.If == qa.If || (ca.Kind == "cmp" && ca.X == qa.X && ca.Y == qa.Y && ca.Op == qa.Op)) {
				return false
			}
			op := ca.Op
			if ca.X != countV {
				op = flip(op)
			}
			if !truth {
				op = negate(op)
			}
			return op == token.GEQ || op == token.GTR
		}
		flagG := func(ca *core.CondAtom, truth bool) bool {
			if ca.Kind == "flag" && truth {
				return true
			}
			// the matched flag returned by the tally helper
			if tallyCall != nil && (ca.Kind == "bool" || ca.Kind == "callbool") && truth {
				if ex, ok := ca.X.(*ssa.Extract); ok && ex.Tuple == ssa.Value(tallyCall) && isBoolType(ex) {
					return true
				}
			}
			return false
		}
		foundForm := foundGuard(p, us.formPrefix, true)
		// the function holding the acting effects: the one with the comparison, or — when that one only decides — the
		// sibling that acts on its verdict; `top` is the function whose executions contain both
		isActing := func(e *core.Effect) bool {
			for _, o := range e.Store {
				if !(o.Kind == "Set" && o.Module+"/"+o.Prefix == us.formPrefix) {
					return true
				}
			}
			return len(e.Bank) > 0
		}
		cmpFn := fn
		top := fn
		nAct := 0
		for _, e := range p.Effects(fn) {
			if isActing(e) {
				nAct++
			}
		}
		if nAct == 0 {
			for _, cand := range p.Summary(h.Fn).Funcs {
				if cand == fn || !callsDirectly(p, cand, fn) {
					continue
				}
				// cand calls the deciding function; the acting sibling is another callee of cand
				for _, sib := range p.Summary(h.Fn).Funcs {
					if sib == fn || sib == cand || !callsDirectly(p, cand, sib) || isAccessorFn(p, sib) {
						continue
					}
					k := 0
					for _, e := range p.Effects(sib) {
						if isActing(e) {
							k++
						}
					}
					if k >= 2 {
						fn, top = sib, cand
					}
				}
			}
		}
		_ = cmpFn
		guardedFromTop := func(e *core.Effect, g core.GuardMatch) bool {
			if top == fn {
				return len(p.FindUnguarded(fn, []*core.Effect{e}, g, true)) == 0
			}
			if len(p.FindUnguarded(fn, []*core.Effect{e}, g, true)) == 0 {
				return true
			}
			guarded, ok := p.AbsGuarded(top, e.Instr, g, core.AbsBefore)
			return ok && guarded
		}
		var acting, all []*core.Effect
		for _, e := range p.Effects(fn) {
			all = append(all, e)
			act := false
			for _, o := range e.Store {
				if !(o.Kind == "Set" && o.Module+"/"+o.Prefix == us.formPrefix) {
					act = true
				}
			}
			if len(e.Bank) > 0 {
				act = true
			}
			if act {
				acting = append(acting, e)
			}
		}
		r.CallSites(len(all))
		actOps := map[string]bool{}
		for _, e := range acting {
			for _, o := range e.Store {
				if !(o.Kind == "Set" && o.Module+"/"+o.Prefix == us.formPrefix) {
					actOps[o.Kind+" "+o.Module+"/"+o.Prefix] = true
				}
			}
			if len(e.Bank) > 0 {
				actOps["bank"] = true
			}
		}
		if len(actOps) < 2 {
			r.Undecided("C14/R1", us.key+":acting-effects", p.Pos(fn.Pos()), fmt.Sprintf("expected at least two acting operations (act + consume form), found %d", len(actOps)))
		}
		for _, g := range []struct {
			name string
			m    core.GuardMatch
			effs []*core.Effect
		}{{"quorum-gate", quorum, acting}, {"signer-matched-flag", flagG, all}, {"form-found", foundForm, all}} {
			var bad *core.Effect
			for _, e := range g.effs {
				if !guardedFromTop(e, g.m) {
					bad = e
					break
				}
			}
			if bad == nil {
				r.Ok("C14/R1", us.key+":"+g.name, p.Pos(fn.Pos()), fmt.Sprintf("%d effects behind %s on all paths", len(g.effs), g.name))
			} else {
				r.Violation("C14/R1", us.key+":"+g.name, p.InstrPos(bad.Instr), "an effect is reachable without passing "+g.name+": "+p.DescribeEffect(bad))
			}
		}
		// ---- R5 the acting effect concerns the form's prover, never the signer
		for _, e := range acting {
			call, ok := e.Instr.(ssa.CallInstruction)
			if !ok || effHas(e, "Delete", us.formPrefix) {
				continue
			}
			// string-typed inputs that select whose proof is touched: arguments of this call, and of the lookup whose
			// result is written (proof, err := deal.GetProver(ctx, k, <who>))
			var who []ssa.Value
			var visit func(v ssa.Value, depth int)
			seenV := map[ssa.Value]bool{}
			visit = func(v ssa.Value, depth int) {
				if v == nil || seenV[v] || depth > 4 {
					return
				}
				seenV[v] = true
				switch x := v.(type) {
				case *ssa.UnOp:
					visit(x.X, depth+1)
				case *ssa.Extract:
					visit(x.Tuple, depth+1)
				case *ssa.Call:
					for _, a := range dataArgs(x) {
						if a.Type().String() == "string" {
							who = append(who, a)
						}
					}
				}
			}
			for _, a := range dataArgs(call) {
				if a.Type().String() == "string" {
					who = append(who, a)
				} else {
					visit(a, 0)
				}
			}
			okWho := len(who) > 0
			detail := ""
			for _, w := range who {
				wp := p.ResolveToEntry(p.ProvAt(w, "", call), h.Fn)
				fs := p.MsgFields(wp, h)
				fromForm := wp.HasStore(us.formPrefix, ".Prover")
				if !(fromForm || (len(fs) == 1 && fs[0] == "Prover")) || p.HasMsgField(wp, h, "Creator") {
					okWho = false
					detail = wp.String()
				}
			}
			r.Check(okWho, "C14/R5", us.key+":acts-on-form-prover:"+effKinds(e), p.InstrPos(call), "the proof touched is selected by the form's Prover (msg.Prover / form.Prover), not by the signer", "the quorum acts on a proof record selected by something other than the form's prover (e.g. the attesting signer): "+detail)
		}
		// ---- R2 counting
		if isPhi {
			c14Counting(r, us.key, countFn, countPhi, h)
		}
		// ---- R3 consumed
		var del *core.Effect
		for _, e := range acting {
			for _, o := range e.Store {
				if o.Kind == "Delete" && o.Module+"/"+o.Prefix == us.formPrefix {
					del = e
				}
			}
		}
		if del == nil {
			r.Violation("C14/R3", us.key+":form-consumed", p.Pos(fn.Pos()), "the acting path never deletes the form: the same quorum can be replayed")
		} else {
			bad := ""
			for _, e := range acting {
				if e == del {
					continue
				}
				if ret := p.BypassExists(fn, e.Instr, del.Instr, true); ret != nil {
					// also allowed: delete precedes the effect on every path to it
					if !precedesAlways(fn, del.Instr, e.Instr) {
						bad = p.DescribeEffect(e)
					}
				}
			}
			r.Check(bad == "", "C14/R3", us.key+":form-consumed", p.InstrPos(del.Instr), "every acting path deletes the form", "an acting effect can complete without the form being deleted: "+bad)
			// key args equal to the getter's
			var getter *ssa.Call
			for _, gf := range []*ssa.Function{fn, cmpFn} {
				allInstrs(gf, func(in ssa.Instruction) {
					if c, ok := in.(*ssa.Call); ok {
						for _, cal := range p.Callees(c) {
							if gi := p.StoreGetter(cal); gi != nil && gi.Module+"/"+gi.Prefix == us.formPrefix {
								getter = c
							}
						}
					}
				})
			}
			if dc, ok := del.Instr.(ssa.CallInstruction); ok && getter != nil {
				ga, da := dataArgs(getter), dataArgs(dc)
				// a delete performed on the store itself: its key is the key builder's call, compare that call's arguments
				if len(da) == 1 && len(ga) > 1 {
					kv := da[0]
					for {
						if cv, isCv := kv.(*ssa.Convert); isCv {
							kv = cv.X
							continue
						}
						break
					}
					if kc, isCall := kv.(*ssa.Call); isCall && len(p.Callees(kc)) == 1 {
						da = dataArgs(kc)
					}
				}
				same := len(ga) == len(da)
				for i := 0; same && i < len(ga); i++ {
					a := strings.Join(p.ResolveToEntry(p.ProvAt(ga[i], "", getter), h.Fn).Strings(), "|")
					b := strings.Join(p.ResolveToEntry(p.ProvAt(da[i], "", dc), h.Fn).Strings(), "|")
					// the delete may use the loaded form's own key fields
					fb := p.ResolveToEntry(p.ProvAt(da[i], "", dc), h.Fn)
					if a != b && !(len(fb.DataAtoms()) == 1 && fb.DataAtoms()[0].Kind == "store" && fb.DataAtoms()[0].Name == us.formPrefix) {
						same = false
					}
				}
				r.Check(same, "C14/R3", us.key+":form-delete-key", p.InstrPos(dc), "form deleted by the key it was loaded with", "the form is deleted with a different key than it was loaded by")
			}
		}
	}
	r.Floor("C14/R1", n, 2, "quorum units")

	// ---- R8 parameter keys address the fields they name
	paramPairsConsistent(r, "C14/R8", "storage")
	r.Floor("C14/R9", keyBuildersFaithful(r, "C14/R9", "storage"), 8, "storage key builders")
	// ---- R7 store scans behind the candidate list
	iteratorHygiene(r, "C14/R7", moduleFuncs(p, "storage"))
	// ---- R6 a form never names the prover it concerns: the candidate filter is reflexive
	if hr := core.HandlerByKey(hs, "storage.MsgRequestAttestationForm"); hr != nil {
		nExcl := 0
		filterArgSeen := map[ssa.CallInstruction]bool{}
		for _, fn := range p.Summary(hr.Fn).Funcs {
			if len(fn.Params) == 0 || fn.Blocks == nil {
				continue
			}
			tb := core.NewTermBuilder(p)
			tb.Bounds = true
			// both URL sources are named U: the terms then speak about "the same extraction of a URL"
			allInstrs(fn, func(in ssa.Instruction) {
				if c, ok := in.(*ssa.Call); ok && strings.HasSuffix(core.CalleeFullName(c), "net/url.Parse") && len(c.Call.Args) == 1 {
					tb.Names[c.Call.Args[0]] = "U"
				}
				// ... or handed to a helper of the repository that parses its parameter as a URL
				if c, ok := in.(*ssa.Call); ok && !c.Call.IsInvoke() {
					for _, cal := range p.Callees(c) {
						allInstrs(cal, func(in2 ssa.Instruction) {
							c2, ok := in2.(*ssa.Call)
							if !ok || !strings.HasSuffix(core.CalleeFullName(c2), "net/url.Parse") || len(c2.Call.Args) != 1 {
								return
							}
							if prm, isP := c2.Call.Args[0].(*ssa.Parameter); isP {
								for i, q := range cal.Params {
									if q == prm && i < len(c.Call.Args) {
										tb.Names[c.Call.Args[i]] = "U"
									}
								}
							}
						})
					}
				}
			})
			isFilterSide := func(v ssa.Value) bool {
				ph, ok := v.(*ssa.Phi)
				return ok && !core.InCycle(ph.Block())
			}
			mustGuards := func(target *ssa.BasicBlock) map[string]bool {
				out := map[string]bool{}
				for _, b := range fn.Blocks {
					ifi, ok := b.Instrs[len(b.Instrs)-1].(*ssa.If)
					if !ok {
						continue
					}
					for succ := 0; succ < 2; succ++ {
						if core.PathExists(fn, map[core.Edge]bool{{From: b, Succ: succ}: true}, target.Instrs[0], nil) {
							continue
						}
						// every path to target leaves b through the OTHER edge
						ca := p.NormCond(ifi)
						if ca.Kind != "cmp" {
							continue
						}
						truth := !ca.Neg
						if succ == 0 {
							truth = ca.Neg
						}
						op := ca.Op
						if !truth {
							op = negate(op)
						}
						x, y := tb.Term(ca.X), tb.Term(ca.Y)
						if op == token.LSS || op == token.LEQ {
							x, y, op = y, x, flip(op)
						}
						if !strings.Contains(x+y, "U") || x == "len(U)" || y == "len(U)" {
							continue
						}
						out[x+op.String()+y] = true
					}
				}
				return out
			}
			for _, b := range fn.Blocks {
				ifi, ok := b.Instrs[len(b.Instrs)-1].(*ssa.If)
				if !ok || !core.InCycle(b) {
					continue
				}
				ca := p.NormCond(ifi)
				if ca.Kind != "eq" {
					continue
				}
				var fside, cside ssa.Value
				switch {
				case isFilterSide(ca.X) && !isFilterSide(ca.Y):
					fside, cside = ca.X, ca.Y
				case isFilterSide(ca.Y) && !isFilterSide(ca.X):
					fside, cside = ca.Y, ca.X
				default:
					continue
				}
				if !p.ProvAt(fside, "", ifi).Any(func(a core.Atom) bool { return a.Kind == "param" && a.Fn == fn }) {
					continue
				}
				nExcl++
				r.Analysed(core.FnName(fn))
				ct := tb.Term(cside)
				fphi := fside.(*ssa.Phi)
				okTerm := false
				var fGuards map[string]bool
				var alts []string
				for i, e := range fphi.Edges {
					et := tb.Term(e)
					alts = append(alts, et)
					if et == ct {
						okTerm = true
						fGuards = mustGuards(fphi.Block().Preds[i])
					}
				}
				construct := "form-candidates:prover-excluded:" + core.FnName(fn) + ":" + fphi.Comment
				if !okTerm {
					r.Violation("C14/R6", construct, p.InstrPos(ifi), "the candidate's key ("+ct+") is not extracted the way the requesting prover's key is ("+strings.Join(alts, " | ")+"): a provider compared against its own address is not recognised, so a form can name the prover it concerns")
					continue
				}
				cGuards := mustGuards(b)
				missing := ""
				for g := range fGuards {
					if !cGuards[g] {
						missing = g
					}
				}
				// the filter compares like with like only if it is handed the same kind of value the candidates' keys are cut
				// from: at every call the filter argument is the requesting prover's own record field of that name
				var candField *core.Atom
				for _, a := range p.ProvAt(cside, "", ifi).DataAtoms() {
					if a.Kind == "store" {
						a := a
						candField = &a
					}
				}
				fIdx, fPath := -1, ""
				for _, a := range p.ProvAt(fside, "", ifi).DataAtoms() {
					if a.Kind == "param" && a.Fn == fn {
						fIdx, fPath = a.Idx, a.Path // the parameter may be the field itself or the prover's record (then .Ip of it)
					}
				}
				if candField != nil && fIdx >= 0 {
					for _, caller := range p.CG().In[fn] {
						allInstrs(caller, func(in ssa.Instruction) {
							cs, isCall := in.(ssa.CallInstruction)
							if !isCall || filterArgSeen[cs] {
								return
							}
							hit := false
							for _, cal := range p.Callees(cs) {
								if cal == fn {
									hit = true
								}
							}
							if !hit {
								return
							}
							filterArgSeen[cs] = true
							var actuals []ssa.Value
							if cs.Common().IsInvoke() {
								actuals = append(actuals, cs.Common().Value)
							}
							actuals = append(actuals, cs.Common().Args...)
							if fIdx >= len(actuals) {
								return
							}
							// what the argument is, seen from the request handlers (a helper between the handler and the
							// filter hands its own parameter on)
							pr := p.ProvAt(actuals[fIdx], fPath, cs)
							okArg, onFormPath := false, false
							for _, key := range []string{"storage.MsgRequestAttestationForm", "storage.MsgRequestReportForm"} {
								hh := core.HandlerByKey(hs, key)
								if hh == nil {
									continue
								}
								reaches := hh.Fn == caller
								for _, f := range p.Summary(hh.Fn).Funcs {
									if f == caller {
										reaches = true
									}
								}
								if !reaches {
									continue
								}
								onFormPath = true
								atoms := p.ResolveToEntry(pr, hh.Fn).DataAtoms()
								okH := len(atoms) > 0
								for _, a := range atoms {
									if !(a.Kind == "store" && a.Name == candField.Name && a.Path == candField.Path) {
										okH = false
									}
								}
								if !okH {
									okArg = false
									break
								}
								okArg = true
							}
							if !onFormPath {
								return // a call no form request reaches (a query, a wrapper kept for other callers)
							}
							r.Check(okArg, "C14/R6", "form-candidates:filter-argument:"+caller.Name(), p.InstrPos(cs), "the filter is handed "+candField.String()+" of the prover, the field the candidates' keys are cut from", "the candidate filter is handed something other than the requesting prover's "+candField.String()+" (an account address, say): nothing is extracted from it, no candidate is excluded and a form can name the prover it concerns")
						})
					}
				}
				r.Check(missing == "", "C14/R6", construct, p.InstrPos(ifi), "same extraction on both sides; every candidate compared has passed the shape tests under which the prover's key is set", "the prover's key is only set when "+missing+", but a candidate can reach the comparison without that test: for such an address the prover is not excluded from its own form")
			}
		}
		r.Floor("C14/R6", nExcl, 2, "prover-exclusion comparisons")
	}
	// ---- R4 form construction
	for _, fs := range []struct{ key, prefix string }{{"storage.MsgRequestAttestationForm", "storage/Attestation/value/"}, {"storage.MsgRequestReportForm", "storage/Report/value/"}} {
		h := core.HandlerByKey(hs, fs.key)
		if h == nil {
			r.Undecided("C14/R4", fs.key+":anchor-missing", "", "handler missing")
			continue
		}
		parts := strings.SplitN(fs.prefix, "/", 2)
		filter := storeWrites(parts[0], parts[1])
		guardRowAll(r, "C14/R4", h, "form-new", filter, func(*ssa.Function) core.GuardMatch { return foundGuard(p, fs.prefix, false) }, "Found(form)=false")
		guardRowAll(r, "C14/R4", h, "provider-registered", filter, func(*ssa.Function) core.GuardMatch { return foundGuard(p, "storage/Providers/value/", true) }, "Found(Providers[prover])=true")
		guardRowAll(r, "C14/R4", h, "prover-holds-proof", filter, func(*ssa.Function) core.GuardMatch {
			return errNilGuard(p, func(c *ssa.Call) bool {
				// the lookup of the prover's proof on the file: callee reads FileProof records
				for _, cal := range p.Callees(c) {
					for _, o := range p.Summary(cal).Store {
						if o.Kind == "Get" && o.Module+"/"+o.Prefix == stProof {
							return true
						}
					}
				}
				return false
			})
		}, "ErrNil(prover's proof lookup)")
		guardRowAll(r, "C14/R4", h, "enough-candidates", filter, func(*ssa.Function) core.GuardMatch {
			return func(ca *core.CondAtom, truth bool) bool {
				rel := relOnEdge(p, ca, truth, func(pr core.Prov) bool {
					return pr.HasStore("storage/ActiveProviders/value/", "") || pr.HasExt("KVStorePrefixIterator") || pr.HasStore("storage/Providers/value/", "")
				},
					func(pr core.Prov) bool { return pr.HasParams("storage", ".AttestFormSize") })
				return rel == ">=" || rel == ">"
			}
		}, "Cmp(len(candidates) >= Param(AttestFormSize))")
		// entries are distinct candidates: inside the form-filling loop the candidate list is read at the loop's own
		// position (an induction variable or the ranged element), never at a computed index that can repeat
		nPick := 0
		for _, ff := range p.Summary(h.Fn).Funcs {
			if isAccessorFn(p, ff) || core.ModuleOf(ff) != "storage" {
				continue
			}
			// the function that fills and stores the form
			buildsForm := false
			for _, e := range p.Effects(ff) {
				if performsDirectly(p, ff, e, "Set", fs.prefix) {
					buildsForm = true
				}
			}
			if !buildsForm {
				continue
			}
			allInstrs(ff, func(in ssa.Instruction) {
				var base, idx ssa.Value
				switch x := in.(type) {
				case *ssa.IndexAddr:
					base, idx = x.X, x.Index
				case *ssa.Index:
					base, idx = x.X, x.Index
				default:
					return
				}
				if !core.InCycle(in.Block()) || !strings.Contains(base.Type().String(), "Providers") {
					return
				}
				for {
					if cv, ok := idx.(*ssa.Convert); ok {
						idx = cv.X
						continue
					}
					break
				}
				nPick++
				// the position is a function of the loop's own counters, constants and lengths only; a value drawn
				// from a call (a random source) or loaded from elsewhere can repeat
				okIdx := true
				seen := map[ssa.Value]bool{}
				var walk func(v ssa.Value)
				walk = func(v ssa.Value) {
					if seen[v] || !okIdx {
						return
					}
					seen[v] = true
					switch y := v.(type) {
					case *ssa.Phi:
						for _, e := range y.Edges {
							walk(e)
						}
					case *ssa.BinOp:
						walk(y.X)
						walk(y.Y)
					case *ssa.Convert:
						walk(y.X)
					case *ssa.Const, *ssa.Parameter:
					case *ssa.Extract:
						if _, isNext := y.Tuple.(*ssa.Next); !isNext {
							okIdx = false
						}
					case *ssa.Call:
						if b, isB := y.Call.Value.(*ssa.Builtin); !isB || b.Name() != "len" {
							okIdx = false
						}
					default:
						okIdx = false
					}
				}
				walk(idx)
				r.Check(okIdx, "C14/R4", fs.key+":candidate-picked-at-loop-position:"+ff.Name(), p.InstrPos(in), "the candidate list is read at the loop's own position", "a candidate is picked at a computed position (a random draw, say) inside the loop that fills the form: the same provider can be picked twice, one signature then counts twice and fewer distinct providers than the minimum reach the quorum")
			})
		}
		_ = nPick
		// entries provenance
		for _, fn := range p.Summary(h.Fn).Funcs {
			for _, e := range p.Effects(fn) {
				call, ok := e.Instr.(ssa.CallInstruction)
				if !ok || e.Direct || !filter.Store(firstStore(e)) {
					continue
				}
				args := dataArgs(call)
				if len(args) != 1 {
					continue
				}
				ep := p.ResolveToEntry(p.ProvAt(args[0], ".Attestations[].Provider", call), h.Fn)
				okp := len(p.MsgFields(ep, h)) == 0 && (ep.HasExt("MustUnmarshal") || ep.HasStore("storage/ActiveProviders/value/", ""))
				r.Check(okp, "C14/R4", fs.key+":entries-from-provider-list", p.InstrPos(call), "form entries ⊵ stored active-provider list, no message field", "form entries do not come from the active provider list only: "+ep.String())
			}
		}
	}
}

func firstStore(e *core.Effect) *core.StoreOp {
	if len(e.Store) > 0 {
		return e.Store[0]
	}
	return &core.StoreOp{}
}

// guardRowAll is guardRow with every return of the top unit treated as committing (handlers that swallow errors).
func guardRowAll(r *core.Run, rule string, h *core.Handler, what string, filter core.OpFilter, mk func(unit *ssa.Function) core.GuardMatch, guardText string) bool {
	p := r.Prog
	st := &core.ChainStats{}
	fails := p.CheckGuarded(h.Fn, filter, p.LiftGuard(mk, 2), false, st)
	construct := h.Key() + ":" + what
	r.Analysed(core.FnName(h.Fn))
	if st.Effects == 0 {
		r.Undecided(rule, construct, p.Pos(h.Fn.Pos()), "row matches no effect in this handler (anchor missing)")
		return false
	}
	if len(fails) == 0 {
		r.Ok(rule, construct, p.Pos(h.Fn.Pos()), fmt.Sprintf("%d effect sites in %d units, every path passes %s", st.Effects, st.Units, guardText))
		return true
	}
	f := fails[0]
	r.Violation(rule, construct, p.InstrPos(f.Final.Instr), fmt.Sprintf("a path performs %s without passing %s", p.DescribeEffect(f.Final), guardText), f.Chain...)
	return false
}

// precedesAlways: every path from entry to w executes d first.
func precedesAlways(fn *ssa.Function, d, w ssa.Instruction) bool {
	db, wb := d.Block(), w.Block()
	if db == wb {
		for _, in := range db.Instrs {
			if in == d {
				return true
			}
			if in == w {
				return false
			}
		}
	}
	return db.Dominates(wb)
}

func c14Counting(r *core.Run, key string, fn *ssa.Function, count *ssa.Phi, h *core.Handler) {
	p := r.Prog
	completeGuard := func(ca *core.CondAtom, truth bool) bool {
		if !truth || ca.Kind != "bool" {
			return false
		}
		u, ok := ca.X.(*ssa.UnOp)
		if !ok {
			return false
		}
		fa, ok := u.X.(*ssa.FieldAddr)
		return ok && core.FieldName(fa.X.Type(), fa.Field) == "Complete"
	}
	matchGuard := func(ca *core.CondAtom, truth bool) bool {
		if ca.Kind != "eq" || !truth {
			return false
		}
		isProv := func(v ssa.Value) bool {
			u, ok := v.(*ssa.UnOp)
			if !ok {
				return false
			}
			fa, ok := u.X.(*ssa.FieldAddr)
			return ok && core.FieldName(fa.X.Type(), fa.Field) == "Provider"
		}
		isSigner := func(v ssa.Value) bool { return p.OnlyMsgField(p.ProvAt(v, "", ca.If), h, "Creator") }
		return (isProv(ca.X) && isSigner(ca.Y)) || (isProv(ca.Y) && isSigner(ca.X))
	}
	// increments of the count phi web
	web := map[*ssa.Phi]bool{}
	var incs []*ssa.BinOp
	var walk func(v ssa.Value)
	okShape := true
	walk = func(v ssa.Value) {
		switch x := v.(type) {
		case *ssa.Phi:
			if web[x] {
				return
			}
			web[x] = true
			for _, e := range x.Edges {
				walk(e)
			}
		case *ssa.BinOp:
			c, isC := x.Y.(*ssa.Const)
			if x.Op == token.ADD && isC && c.Value != nil && c.Value.ExactString() == "1" {
				incs = append(incs, x)
				walk(x.X)
			} else {
				okShape = false
			}
		case *ssa.Const:
			if x.Value != nil && x.Value.ExactString() != "0" {
				okShape = false
			}
		default:
			okShape = false
		}
	}
	walk(count)
	r.Check(okShape && len(incs) > 0, "C14/R2", key+":count-shape", p.InstrPos(count), fmt.Sprintf("count = 0 then +1 at %d site(s)", len(incs)), "the quorum counter is not a zero-initialised variable incremented by one")
	removed := p.PassEdges(fn, completeGuard)
	for _, inc := range incs {
		bad := core.PathExists(fn, removed, inc, nil)
		r.Check(!bad, "C14/R2", key+":count-only-complete", p.InstrPos(inc), "increment only under element.Complete", "the counter is incremented for entries that are not complete")
	}
	// flag true definitions and Complete:=true stores
	mremoved := p.PassEdges(fn, matchGuard)
	nTrue := 0
	for _, b := range fn.Blocks {
		for _, in := range b.Instrs {
			switch x := in.(type) {
			case *ssa.Phi:
				if !isBoolType(x) {
					continue
				}
				for i, e := range x.Edges {
					c, ok := e.(*ssa.Const)
					if !ok || c.Value == nil || c.Value.ExactString() != "true" {
						continue
					}
					nTrue++
					pred := b.Preds[i]
					bad := core.PathExists(fn, mremoved, pred.Instrs[len(pred.Instrs)-1], nil)
					r.Check(!bad, "C14/R2", key+":flag-set-only-on-match", p.InstrPos(pred.Instrs[len(pred.Instrs)-1]), "flag := true only under Eq(element.Provider, signer)", "the signer-matched flag can become true without the signer being named on the form")
				}
			case *ssa.Store:
				fa, ok := x.Addr.(*ssa.FieldAddr)
				if !ok || core.FieldName(fa.X.Type(), fa.Field) != "Complete" {
					continue
				}
				nTrue++
				bad := core.PathExists(fn, mremoved, x, nil)
				r.Check(!bad, "C14/R2", key+":complete-set-only-on-match", p.InstrPos(x), "Complete := true only under Eq(element.Provider, signer)", "an entry can be marked complete by an account it does not name")
			}
		}
	}
	if nTrue < 2 {
		r.Undecided("C14/R2", key+":flag-definitions", p.Pos(fn.Pos()), "expected a matched flag and a Complete store in the form loop")
	}
}

func isBoolType(v ssa.Value) bool { return v.Type().String() == "bool" }

func effKinds(e *core.Effect) string {
	set := map[string]bool{}
	for _, o := range e.Store {
		set[o.Kind+" "+o.Prefix] = true
	}
	return strings.Join(sortedKeys(set), "+")
}

// tallyHelper: v is (a component of) the result of a call to a single custom helper whose corresponding result is,
// at every return, one phi (the loop counter).
func tallyHelper(p *core.Program, v ssa.Value) (*ssa.Function, *ssa.Phi, *ssa.Call) {
	idx := 0
	var call *ssa.Call
	switch x := v.(type) {
	case *ssa.Extract:
		c, ok := x.Tuple.(*ssa.Call)
		if !ok {
			return nil, nil, nil
		}
		call, idx = c, x.Index
	case *ssa.Call:
		call = x
	default:
		return nil, nil, nil
	}
	cs := p.Callees(call)
	if len(cs) != 1 {
		return nil, nil, nil
	}
	var phi *ssa.Phi
	failing := map[*ssa.Return]bool{}
	if p.FailResultsDead(call, idx, cs[0]) {
		for _, ri := range p.Returns(cs[0]) {
			if ri.Class == core.RetFail {
				failing[ri.Ret] = true // what is returned next to a non-nil error is not the tally, and is never used
			}
		}
	}
	for _, b := range cs[0].Blocks {
		ret, ok := b.Instrs[len(b.Instrs)-1].(*ssa.Return)
		if !ok || failing[ret] {
			continue
		}
		if idx >= len(ret.Results) {
			return nil, nil, nil
		}
		ph, ok := ret.Results[idx].(*ssa.Phi)
		if !ok || (phi != nil && phi != ph) {
			return nil, nil, nil
		}
		phi = ph
	}
	if phi == nil {
		return nil, nil, nil
	}
	return cs[0], phi, call
}
