package rules

import (
	"fmt"
	"go/ast"
	"regexp"
	"sort"
	"strings"

	"golang.org/x/tools/go/ssa"

	"jklcheck/core"
)

const (
	stCollateral = "storage/Collateral/value/"
	stProviders  = "storage/Providers/value/"
)

func init() { registry["C15"] = c15 }

func c15(r *core.Run) {
	p := r.Prog
	r.Explanation = "Static rules over storage.MsgInitProvider / MsgShutdownProvider and a closed-world census: the locked coins and the recorded Collateral.Amount come from the single source Param(CollateralPrice), paid by and keyed by the signer, only when no provider record exists; the refund is exactly the loaded record's amount (never the current price), paid to the signer, and every committing path after it deletes the collateral record and the provider; no other handler or block path writes collateral records or names the collateral module account in a bank call; the account is registered in the app's module-account permissions; bank errors propagate."
	r.Assumptions = []string{T1, T3, T4, T6}
	r.NotDecided = []string{"the numeric invariant escrow balance = Σ collaterals (follows from R1–R4 given T3)"}
	r.Rule("C15/R8", "a recorded collateral stays findable: the storage key builders (collateral and provider keys among them) still produce the on-disk layout recorded for the pinned tree — a changed layout without a migration makes shutdown find no record and refund nothing")
	r.Rule("C15/R7", "nothing else pays into the escrow: the account name the application wires into the storage keeper as its fee collector is the chain's fee collector, not the collateral account (the staker share of a storage purchase is sent to that name)")
	r.Rule("C15/R6", "collateral records are enumerated exhaustively wherever they are listed (genesis export): no pagination helper, no iterator loop left early — a record dropped from the export leaves its collateral in the escrow with nobody entitled to it after a restart from genesis")
	r.Rule("C15/R1", "lock = record: in InitProvider the coin amount and Collateral.Amount depend only on Param(CollateralPrice); payer and keys ⊵ signer; all effects behind Found(provider)=false")
	r.Rule("C15/R2", "refund = record: in ShutdownProvider amount ⊵ loaded Collateral.Amount only (⋫ Param(CollateralPrice)); recipient ⊵ signer; every committing path after the send deletes the collateral record and the provider; all effects behind Found(provider)=true")
	r.Rule("C15/R3", "closed world: only these two handlers write Collateral records or name the collateral module account in bank calls; the account is in maccPerms")
	r.Rule("C15/R4", "bank errors propagate")
	r.Rule("C15/R5", "key agreement: every Get/Set/Delete of provider and collateral records in the two handlers uses the same key term")
	// R6 every function that iterates the collateral records does so exhaustively
	var collFns []*ssa.Function
	for _, fn := range moduleFuncs(p, "storage") {
		isQuery := false
		for _, prm := range fn.Params {
			if strings.Contains(prm.Type().String(), "types.Query") {
				isQuery = true // a paginated gRPC query is meant to return one page
			}
		}
		if isQuery {
			continue
		}
		for _, o := range p.StoreOps(fn) {
			if (o.Kind == "Iterate") && o.Module+"/"+o.Prefix == stCollateral {
				collFns = append(collFns, fn)
			}
		}
	}
	r.Floor("C15/R6", exhaustiveEnumeration(r, "C15/R6", "storage-collateral", collFns)+len(collFns), 1, "collateral enumerations")
	if v, where, ok := keeperFieldWiring(p, "storage", "feeCollectorName"); !ok {
		r.Undecided("C15/R7", "app:storage-keeper:fee-collector-name", "", "the constructor argument bound to Keeper.feeCollectorName was not resolved to one constant in package app")
	} else {
		r.Check(v == "fee_collector", "C15/R7", "app:storage-keeper:fee-collector-name", where, "storage keeper's fee collector = \"fee_collector\"", "the application wires the account \""+v+"\" into the storage keeper as its fee collector: the staker share of every unreferred storage purchase is paid into that account instead of the chain's fee collector (into the collateral escrow if it is that account, which then holds more than the recorded collaterals)")
	}
	r.Floor("C15/R8", keyLayoutFrozen(r, "C15/R8", "storage"), 8, "storage key builders with a comparable layout")
	hs, err := p.Handlers()
	if err != nil {
		r.Undecided("C15/R1", "handlers", "", err.Error())
		return
	}
	hi := core.HandlerByKey(hs, "storage.MsgInitProvider")
	hd := core.HandlerByKey(hs, "storage.MsgShutdownProvider")
	if hi == nil || hd == nil {
		r.Undecided("C15/R1", "handlers:anchor-missing", "", "init/shutdown handler missing")
		return
	}
	// the escrow account is the module the registration handler locks the collateral in
	collName := ""
	if in := bankOf(p, hi, "SendCoinsFromAccountToModule"); len(in) == 1 {
		if s, complete, ok := p.ConstPrefix(in[0].Args[1]); ok && complete {
			collName = s
		} else {
			for _, a := range p.ResolveToEntry(p.ProvAt(in[0].Args[1], "", in[0].Instr), hi.Fn) {
				if a.Kind == "const" {
					collName = strings.Trim(a.Name, "\"")
				}
			}
		}
	}
	isCollateralAcct := func(v ssa.Value, at ssa.Instruction) bool {
		pr := p.ProvAt(v, "", at)
		return pr.Any(func(a core.Atom) bool { return a.Kind == "const" && strings.Trim(a.Name, "\"") == collName }) && collName != ""
	}
	if collName == "" {
		r.Undecided("C15/R3", "collateral-account-name", "", "constant naming the collateral module account not found")
	}
	// R1
	guardRow(r, "C15/R1", hi, "provider-absent", allEffects(), func(*ssa.Function) core.GuardMatch { return foundGuard(p, stProviders, false) }, "Found(Providers[signer])=false")
	in := bankOf(p, hi, "SendCoinsFromAccountToModule")
	if len(in) != 1 || len(p.Summary(hi.Fn).Bank) != 1 {
		r.Violation("C15/R1", hi.Key()+":lock", p.Pos(hi.Fn.Pos()), "expected exactly one bank call (the collateral lock)")
	} else {
		bo := in[0]
		ap := p.ResolveToEntry(p.ProvAt(bo.Args[2], "", bo.Instr), hi.Fn).DataAtoms()
		okA := len(ap) == 1 && ap[0].Kind == "params" && ap[0].Name == "storage" && ap[0].Path == ".CollateralPrice"
		r.Check(okA, "C15/R1", hi.Key()+":lock-amount", p.InstrPos(bo.Instr), "locked coins ⊵ Param(CollateralPrice) only", "locked amount is not exactly the collateral price parameter")
		r.Check(p.OnlyMsgField(p.ProvAt(bo.Args[0], "", bo.Instr), hi, "Creator"), "C15/R1", hi.Key()+":payer-is-signer", p.InstrPos(bo.Instr), "payer ⊵ signer only", "collateral is taken from an account other than the signer")
		r.Check(collName != "" && collName != "storage", "C15/R1", hi.Key()+":escrow-account", p.InstrPos(bo.Instr), "collateral locked in a dedicated constant module account ("+collName+")", "collateral is locked in the general storage module account (or a non-constant account), mixing it with payment funds")
	}
	nRec := 0
	// the call of the record setter itself, in the handler or in a helper it delegates the writes to
	for _, wfn := range p.Summary(hi.Fn).Funcs {
		if isAccessorFn(p, wfn) {
			continue
		}
		for _, e := range p.Effects(wfn) {
			call, ok := e.Instr.(ssa.CallInstruction)
			if !ok || e.Direct || !performsDirectly(p, wfn, e, "Set", stCollateral) {
				continue
			}
			nRec++
			args := dataArgs(call)
			rec := args[len(args)-1]
			am := p.ResolveToEntry(p.ProvAt(rec, ".Amount", call), hi.Fn).DataAtoms()
			okA := len(am) == 1 && am[0].Kind == "params" && am[0].Path == ".CollateralPrice"
			r.Check(okA, "C15/R1", hi.Key()+":recorded-amount", p.InstrPos(call), "Collateral.Amount ⊵ Param(CollateralPrice) only", "recorded collateral differs from the amount locked")
			r.Check(p.OnlyMsgField(p.ProvAt(rec, ".Address", call), hi, "Creator"), "C15/R1", hi.Key()+":recorded-owner", p.InstrPos(call), "Collateral.Address ⊵ signer only", "collateral recorded for an account other than the payer")
			// lock precedes or follows on all committing paths
			if len(in) == 1 && in[0].Fn == wfn {
				r.Check(p.BypassExists(wfn, in[0].Instr, call, false) == nil, "C15/R1", hi.Key()+":lock-recorded", p.InstrPos(call), "every committing path after the lock records it", "a committing path locks collateral without recording it")
			} else if len(in) == 1 {
				// the lock and the record write sit in different functions: judge in the handler, each represented by
				// the call that leads to it
				siteIn := func(f *ssa.Function, at ssa.Instruction) ssa.Instruction {
					if f == hi.Fn {
						return at
					}
					var site ssa.Instruction
					allInstrs(hi.Fn, func(in2 ssa.Instruction) {
						if c2, isCall := in2.(ssa.CallInstruction); isCall {
							for _, cal := range p.Callees(c2) {
								if cal == f {
									site = in2
								}
							}
						}
					})
					return site
				}
				ls, ws := siteIn(in[0].Fn, in[0].Instr), siteIn(wfn, call)
				if ls == nil || ws == nil {
					r.Undecided("C15/R1", hi.Key()+":lock-recorded", p.InstrPos(call), "the lock and the record write sit in functions the handler does not call directly")
				} else {
					r.Check(ls == ws || p.BypassExists(hi.Fn, ls, ws, false) == nil, "C15/R1", hi.Key()+":lock-recorded", p.InstrPos(call), "every committing path after the lock records it", "a committing path locks collateral without recording it")
				}
			}
		}
	}
	if nRec != 1 {
		r.Violation("C15/R1", hi.Key()+":record", p.Pos(hi.Fn.Pos()), fmt.Sprintf("expected exactly one Collateral record write, found %d", nRec))
	}
	// R2
	guardRow(r, "C15/R2", hd, "provider-present", allEffects(), func(*ssa.Function) core.GuardMatch { return foundGuard(p, stProviders, true) }, "Found(Providers[signer])=true")
	out := bankOf(p, hd, "SendCoinsFromModuleToAccount")
	if len(out) != 1 || len(p.Summary(hd.Fn).Bank) != 1 {
		r.Violation("C15/R2", hd.Key()+":refund", p.Pos(hd.Fn.Pos()), "expected exactly one bank call (the collateral refund)")
	} else {
		bo := out[0]
		ap := p.ProvAt(bo.Args[2], "", bo.Instr)
		r.Check(onlyStoreField(stCollateral, ".Amount")(ap), "C15/R2", hd.Key()+":refund-amount", p.InstrPos(bo.Instr), "refund ⊵ loaded Collateral.Amount only", "refund is not exactly the recorded collateral (e.g. the current price): "+ap.String())
		r.Check(p.OnlyMsgField(p.ProvAt(bo.Args[1], "", bo.Instr), hd, "Creator"), "C15/R2", hd.Key()+":recipient-is-signer", p.InstrPos(bo.Instr), "recipient ⊵ signer only", "collateral is refunded to an account other than the signer")
		r.Check(isCollateralAcct(bo.Args[0], bo.Instr), "C15/R2", hd.Key()+":escrow-account", p.InstrPos(bo.Instr), "sender module = collateral escrow", "refund is not drawn from the collateral escrow account")
		// record loaded by signer key
		for _, a := range ap.DataAtoms() {
			if a.Call != nil {
				okk := true
				for _, arg := range dataArgs(a.Call) {
					if !p.OnlyMsgField(p.ProvAt(arg, "", a.Call), hd, "Creator") {
						okk = false
					}
				}
				r.Check(okk, "C15/R2", hd.Key()+":record-of-signer", p.InstrPos(a.Call), "collateral record loaded by the signer's key", "the refunded record is not the signer's")
			}
		}
		for _, pre := range []string{stCollateral, stProviders} {
			var del ssa.Instruction
			for _, e := range p.Effects(hd.Fn) {
				if effHas(e, "Delete", pre) {
					del = e.Instr
				}
			}
			if del == nil {
				r.Violation("C15/R2", hd.Key()+":consumed:"+pre, p.InstrPos(bo.Instr), "collateral is refunded but "+pre+" is never deleted: it can be claimed again")
				continue
			}
			r.Check(p.BypassExists(hd.Fn, bo.Instr, del, false) == nil, "C15/R2", hd.Key()+":consumed:"+pre, p.InstrPos(del), "every committing path after the refund deletes the record", "a committing path refunds the collateral without deleting "+pre)
		}
	}
	// R3
	for _, h := range hs {
		for _, o := range p.Summary(h.Fn).Store {
			if o.IsWrite() && o.Module+"/"+o.Prefix == stCollateral && h != hi && h != hd {
				r.Violation("C15/R3", h.Key()+":writes-collateral", p.InstrPos(o.Instr), "a handler other than init/shutdown writes collateral records")
			}
		}
	}
	nAcct := 0
	for _, fn := range consensusFuncs(p) {
		if strings.Contains(core.FnPkgPath(fn), "/upgrades") || strings.Contains(core.FnPkgPath(fn), "/legacy") {
			continue
		}
		for _, bo := range p.BankOps(fn) {
			named := false
			for i, a := range bo.Args {
				if i < 2 && isCollateralAcct(a, bo.Instr) {
					named = true
				}
			}
			if !named {
				continue
			}
			nAcct++
			// the function may be the handler itself or a helper reachable only from the two handlers
			okw := fn == hi.Fn || fn == hd.Fn
			if !okw {
				okw = true
				inOwn := false
				for _, h2 := range hs {
					reachable := false
					for _, f2 := range p.Summary(h2.Fn).Funcs {
						if f2 == fn {
							reachable = true
						}
					}
					if reachable && (h2 == hi || h2 == hd) {
						inOwn = true
					}
					if reachable && h2 != hi && h2 != hd {
						okw = false
					}
				}
				bbs, ebs := p.BlockEntries()
				for _, be := range append(bbs, ebs...) {
					for _, f2 := range p.Summary(be).Funcs {
						if f2 == fn {
							okw = false
						}
					}
				}
				okw = okw && inOwn
			}
			r.Check(okw, "C15/R3", core.FnName(fn)+":touches-escrow:"+bo.Method, p.InstrPos(bo.Instr), "collateral escrow touched only on the init/shutdown paths", "a function reachable from outside the init/shutdown handlers moves coins of the collateral escrow account")
		}
	}
	r.Floor("C15/R3", nAcct, 2, "bank calls naming the collateral escrow")
	// maccPerms
	inPerms := false
	if ap := p.ByPath[core.ModPath+"/app"]; ap != nil {
		for _, f := range ap.Syntax {
			ast.Inspect(f, func(n ast.Node) bool {
				vs, ok := n.(*ast.ValueSpec)
				if !ok || len(vs.Names) != 1 || vs.Names[0].Name != "maccPerms" || len(vs.Values) != 1 {
					return true
				}
				if cl, ok := vs.Values[0].(*ast.CompositeLit); ok {
					for _, el := range cl.Elts {
						if kv, ok := el.(*ast.KeyValueExpr); ok {
							if tv, ok := ap.TypesInfo.Types[kv.Key]; ok && tv.Value != nil && strings.Trim(tv.Value.ExactString(), "\"") == collName {
								inPerms = true
							}
						}
					}
				}
				return true
			})
		}
	}
	r.Check(inPerms, "C15/R3", "app:maccPerms:collateral-escrow", "app/app.go", "collateral escrow is a registered module account", "the collateral escrow account is not in the app's module account permissions: sends to it fail or it is not blocked")
	// R5 key agreement: every provider / collateral record touched by the two handlers is keyed by the same term
	terms := map[string][]string{}
	for _, h := range []*core.Handler{hi, hd} {
		var walk func(fn *ssa.Function, tb *core.TermBuilder, depth int)
		walk = func(fn *ssa.Function, tb *core.TermBuilder, depth int) {
			// store operations performed by this function itself (an accessor inlined into it)
			if !isAccessorFn(p, fn) {
				for _, o := range p.StoreOps(fn) {
					name := o.Module + "/" + o.Prefix
					if (name != stCollateral && name != stProviders) || (o.Kind != "Get" && o.Kind != "Set" && o.Kind != "Delete") {
						continue
					}
					var ts []string
					for _, comp := range p.KeyComponents(o.Key, o.Instr) {
						if _, isC := comp.Val.(*ssa.Const); isC {
							continue
						}
						ts = append(ts, stripKeySeparators(tb.Term(comp.Val)))
					}
					t := strings.Join(ts, "/")
					terms[t] = append(terms[t], h.Key()+" "+o.Kind+" "+name+" @"+p.InstrPos(o.Instr))
				}
			}
			allInstrs(fn, func(in ssa.Instruction) {
				call, ok := in.(ssa.CallInstruction)
				if !ok {
					return
				}
				handled := false
				for _, pre := range []string{stCollateral, stProviders} {
					for _, kind := range []string{"Get", "Set", "Delete"} {
						if cal, op := directOpCallee(p, call, kind, pre); cal != nil && isAccessorFn(p, cal) || cal != nil && p.StoreGetter(cal) != nil {
							t := strings.Join(keyTermsAtCallTB(p, tb, call, cal, op), "/")
							terms[t] = append(terms[t], h.Key()+" "+kind+" "+pre+" @"+p.InstrPos(call))
							handled = true
						}
					}
				}
				if handled || depth >= 2 {
					return
				}
				// a helper of the handler: its accesses count, expressed in the handler's values
				for _, cal := range p.Callees(call) {
					if core.ModuleOf(cal) != "storage" || cal.Blocks == nil {
						continue
					}
					touches := false
					for _, o := range p.Summary(cal).Store {
						if n := o.Module + "/" + o.Prefix; n == stCollateral || n == stProviders {
							touches = true
						}
					}
					if !touches {
						continue
					}
					sub := core.NewTermBuilder(p)
					sub.Bind = map[*ssa.Parameter]core.BoundVal{}
					c := call.Common()
					var actuals []ssa.Value
					if c.IsInvoke() {
						actuals = append(actuals, c.Value)
					}
					actuals = append(actuals, c.Args...)
					for i, prm := range cal.Params {
						if i < len(actuals) {
							sub.Bind[prm] = core.BoundVal{Val: actuals[i], TB: tb}
						}
					}
					walk(cal, sub, depth+1)
				}
			})
		}
		walk(h.Fn, core.NewTermBuilder(p), 0)
	}
	var ks []string
	for k := range terms {
		ks = append(ks, k)
	}
	sort.Strings(ks)
	nSites := 0
	for _, v := range terms {
		nSites += len(v)
	}
	if len(ks) == 1 && nSites >= 5 {
		r.Ok("C15/R5", "provider-and-collateral-keys-agree", "", fmt.Sprintf("%d accesses all keyed by %s", nSites, ks[0]))
	} else {
		var where []string
		for _, k := range ks {
			where = append(where, k+": "+strings.Join(terms[k], "; "))
		}
		r.Violation("C15/R5", "provider-and-collateral-keys-agree", "", fmt.Sprintf("registration and shutdown key the provider and collateral records by %d different terms %v (%d sites): a collateral recorded under one spelling of the address is not found (and not refunded) under another", len(ks), ks, nSites), where...)
	}
	// R4
	errorsPropagate(r, "C15/R4", hi)
	errorsPropagate(r, "C15/R4", hd)
}

var keySepRe = regexp.MustCompile(`^concat\((.*),(alloc|"[^"]*")\)$`)

// stripKeySeparators: concat(X, <separator literal>) -> X (a key written out by hand as address + "/").
func stripKeySeparators(t string) string {
	for i := 0; i < 4; i++ {
		m := keySepRe.FindStringSubmatch(t)
		if m == nil {
			return t
		}
		t = m[1]
	}
	return t
}
