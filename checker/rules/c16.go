package rules

import (
	"fmt"
	"go/constant"
	"go/token"
	"go/types"
	"math"
	"regexp/syntax"
	"strings"

	"golang.org/x/tools/go/ssa"

	"jklcheck/core"
)

func init() { registry["C16"] = c16 }

// bankUnits returns the distinct functions holding the bank ops reachable from a handler.
func bankOpsOf(p *core.Program, h *core.Handler) []*core.BankOp { return p.Summary(h.Fn).Bank }

func c16(r *core.Run) {
	p := r.Prog
	r.Explanation = "Static rules over the two registration handlers (rns.MsgRegister, rns.MsgRegisterName): the debit and the POL credit are one SSA value that depends on the TLD cost table and the requested years; bank errors propagate to a failing return; every reaching definition of the stored Names.Expires adds a base (current height, or the old expiry only under a live comparison); a found record owned by someone else is overwritten only behind an expired comparison. Decides the structural causes of 'charges the listed price and yields a live name for the term', not the numeric '>= Y years'."
	r.Assumptions = []string{T1, T3, T4}
	r.NotDecided = []string{"the numeric bound 'unexpired for at least Y years'", "exact price tiers (control dependence on name length)"}
	r.Rule("C16/R10", "the price tier is selected by the name's length in characters: where the pricing function measures the name with the byte-length builtin len, every regular expression a registration's ValidateBasic accepts names by admits single-byte (ASCII) characters only, so byte length = character count")
	r.Rule("C16/R9", "no dead price tier: wherever the rns module looks a value up in a package-level table, the interval the dominating guards leave for the index covers every written entry of the table (an entry no admitted index selects is a listed price that is never charged)")
	r.Rule("C16/R8", "the price (cost x years) and the term (years x blocks-per-year + base height) are computed only behind division-form overflow tests on the message's year count (or on paths where it is not positive)")
	r.Rule("C16/R7", "the TLD of a requested name is recognised by a suffix test (name[len(name)-len(tld):] == tld or strings.HasSuffix) in the keeper's parser and in the validation copy: the recognised TLD is what is cut off, priced and stored")
	r.Rule("C16/R6", "block-height arithmetic is dimensionally consistent: absolute heights (Ctx.BlockHeight and fields assigned from it) are compared only with absolute heights, intervals/offsets/parameters only with each other (point - point = span, point ± span = point), followed through helper calls with the dimensions of the actual arguments")
	r.Rule("C16/R1", "registration: account->module debit and module->POL credit carry the same value, which depends on msg.Years and the TLD cost table; recipient is the constant POL account; bank errors propagate")
	r.Rule("C16/R2", "every reaching definition of the stored Names.Expires is years*const plus a base: Ctx.BlockHeight, or Store(Names).Expires only on paths that passed a live comparison for that record")
	r.Rule("C16/R4", "success implies the effect: every committing return of a registration has debited the registrant and written the name record")
	r.Rule("C16/R5", "the name record loaded for the liveness/ownership decision and the name record written are keyed by the same terms (same normalisation of the requested name on both sides)")
	r.Rule("C16/R3", "a found name owned by another account is overwritten only behind an expired comparison (same guard row as C08/R1 for registration)")
	priceLengthIsCharacterCount(r, "C16/R10")
	heightDimensions(r, "C16/R6", moduleFuncs(p, "rns"), 3)
	tldRecognisers(r, "C16/R7")
	r.Extra["guarded_table_lookups"] = tableEntriesReachable(r, "C16/R9", moduleFuncs(p, "rns"))
	hs, err := p.Handlers()
	if err != nil {
		r.Undecided("C16/R1", "handlers", "", err.Error())
		return
	}
	// R5 the record whose liveness/ownership is tested is the record written
	var regs []*core.Handler
	for _, key := range []string{"rns.MsgRegister", "rns.MsgRegisterName"} {
		if h := core.HandlerByKey(hs, key); h != nil {
			regs = append(regs, h)
		}
	}
	r.Floor("C16/R5", loadWriteKeyAgreement(r, "C16/R5", regs, nil), 2, "load/write pairs in the registration unit")
	for _, hh := range regs {
		yearArithmeticGuarded(r, "C16/R8", hh)
	}
	n := 0
	for _, key := range []string{"rns.MsgRegister", "rns.MsgRegisterName"} {
		h := core.HandlerByKey(hs, key)
		if h == nil {
			r.Undecided("C16/R1", key+":anchor-missing", "", "handler missing")
			continue
		}
		n++
		r.Analysed(core.FnName(h.Fn))
		var in, out *core.BankOp
		ops := bankOpsOf(p, h)
		for _, bo := range ops {
			switch bo.Method {
			case "SendCoinsFromAccountToModule":
				if in != nil {
					r.Violation("C16/R1", key+":debit", p.InstrPos(bo.Instr), "more than one debit on the registration path")
				}
				in = bo
			case "SendCoinsFromModuleToAccount":
				if out != nil {
					r.Violation("C16/R1", key+":credit", p.InstrPos(bo.Instr), "more than one credit on the registration path")
				}
				out = bo
			default:
				r.Violation("C16/R1", key+":bank", p.InstrPos(bo.Instr), "unexpected bank operation "+bo.Method+" on the registration path")
			}
		}
		if in == nil || out == nil {
			r.Violation("C16/R1", key+":pass-through", p.Pos(h.Fn.Pos()), "registration must debit the registrant and credit the POL account")
			continue
		}
		r.CallSites(len(ops))
		// same value
		r.Check(core.SameValue(in.Args[2], out.Args[2]), "C16/R1", key+":debit=credit", p.InstrPos(out.Instr),
			"debit and POL credit are the same SSA value", "the amount credited to the POL account is not the value debited from the registrant")
		ap := p.ResolveToEntry(p.ProvAt(in.Args[2], "", in.Instr), h.Fn) // the transfer may sit in a helper
		okYears := p.HasMsgField(ap, h, "Years")
		okCost := ap.Any(func(a core.Atom) bool { return a.Kind == "global" && a.Name == "x/rns/types.TLDCost" })
		okNoOther := true
		for _, f := range p.MsgFields(ap, h) {
			if f != "Years" && f != "Name" {
				okNoOther = false
			}
		}
		r.Check(okYears && okCost && okNoOther, "C16/R1", key+":price-dependence", p.InstrPos(in.Instr),
			"debit ⊵ {msg.Years, TLD cost table}", fmt.Sprintf("debit must depend on msg.Years and the TLD cost table and on no other message field; found %s", p.ResolveToEntry(ap, h.Fn)))
		// payer is the signer, recipient is constant
		r.Check(p.OnlyMsgField(p.ProvAt(in.Args[0], "", in.Instr), h, "Creator"), "C16/R1", key+":payer", p.InstrPos(in.Instr),
			"payer ⊵ signer only", "payer of the registration is not the signer")
		rp := p.ProvAt(out.Args[1], "", out.Instr)
		r.Check(len(p.ResolveToEntry(rp, h.Fn).DataAtoms()) == 0, "C16/R1", key+":pol-recipient", p.InstrPos(out.Instr),
			"recipient is a constant-derived account (POL)", fmt.Sprintf("recipient of the registration fee depends on %s", p.ResolveToEntry(rp, h.Fn)))
		for _, bo := range []*core.BankOp{in, out} {
			ok, why := p.ErrPropagated(bo.Instr)
			r.Check(ok, "C16/R1", key+":error-propagates:"+bo.Method, p.InstrPos(bo.Instr), why, "bank error is dropped: "+why)
		}
		// the unit's error must reach the handler's return
		if in.Fn != h.Fn {
			for _, b := range h.Fn.Blocks {
				for _, ins := range b.Instrs {
					if call, ok := ins.(ssa.CallInstruction); ok {
						for _, cal := range p.Callees(call) {
							if cal == in.Fn {
								ok, why := p.ErrPropagated(call)
								r.Check(ok, "C16/R1", key+":handler-returns-error", p.InstrPos(call), why, "handler swallows the registration error: "+why)
							}
						}
					}
				}
			}
		}

		// R2: expiry definitions
		checkExpiryDefs(r, h)

		// R3: same guard as C08/R1 registration row
		guardRow(r, "C16/R3", h, "live-name-protected", storeWrites("rns", "Names/value/"), func(*ssa.Function) core.GuardMatch {
			return anyOf(
				foundGuard(p, rnsNames, false),
				eqGuard(p, onlyStoreFieldH(p, h, rnsNames, ".Value"), signerOf(p, h), true),
				expiredEdge(p),
			)
		}, "{Found(Names)=false | Eq(Names.Value,signer)=true | expired}")
	}
	// R3 also for the free-name handler: it writes Names records too
	if hi := core.HandlerByKey(hs, "rns.MsgInit"); hi != nil {
		guardRow(r, "C16/R3", hi, "live-name-protected", storeWrites("rns", "Names/value/"), func(*ssa.Function) core.GuardMatch {
			return anyOf(foundGuard(p, rnsNames, false), expiredEdge(p))
		}, "{Found(Names)=false | expired}")
	} else {
		r.Undecided("C16/R3", "rns.MsgInit:anchor-missing", "", "handler missing")
	}
	for _, key := range []string{"rns.MsgRegister", "rns.MsgRegisterName"} {
		if h := core.HandlerByKey(hs, key); h != nil {
			successImplies(r, "C16/R4", h, "write of the name record", storeWrites("rns", "Names/value/"))
			successImplies(r, "C16/R4", h, "debit of the registrant", core.OpFilter{Bank: func(b *core.BankOp) bool { return b.Method == "SendCoinsFromAccountToModule" }})
		}
	}
	r.Floor("C16/R1", n, 2, "registration handlers")
}

// phiLeaves expands a value through phis into its alternative definitions.
func phiLeaves(v ssa.Value, seen map[ssa.Value]bool, out *[]ssa.Value) {
	if seen[v] {
		return
	}
	seen[v] = true
	if ph, ok := v.(*ssa.Phi); ok {
		for _, e := range ph.Edges {
			phiLeaves(e, seen, out)
		}
		return
	}
	*out = append(*out, v)
}

func checkExpiryDefs(r *core.Run, h *core.Handler) {
	p := r.Prog
	key := h.Key()
	found := 0
	for _, fn := range p.Summary(h.Fn).Funcs {
		// find Names records built in fn and passed to a callee writing rns Names: look at stores into field Expires of allocs of type Names
		for _, b := range fn.Blocks {
			for _, in := range b.Instrs {
				st, ok := in.(*ssa.Store)
				if !ok {
					continue
				}
				fa, ok := st.Addr.(*ssa.FieldAddr)
				if !ok {
					continue
				}
				if core.RelPkg(typeNameOfPtr(fa.X)) != "x/rns/types.Names" || fieldNameOf(fa) != "Expires" {
					continue
				}
				found++
				// the reaching definitions of the stored expiry; a definition that is a field of a record handed in by
				// a sibling (validate, then apply) is followed to the place where that field was assigned
				type def struct {
					fn    *ssa.Function
					v     ssa.Value
					at    ssa.Instruction
					extra []ssa.Value     // operands added to the base after the join (base + term)
					where ssa.Instruction // the place where this alternative is chosen (end of the phi's predecessor)
				}
				var defs []def
				var collect func(dfn *ssa.Function, v ssa.Value, at ssa.Instruction, depth int)
				collect = func(dfn *ssa.Function, v ssa.Value, at ssa.Instruction, depth int) {
					type leafT struct {
						v     ssa.Value
						extra []ssa.Value
						where ssa.Instruction
					}
					var leaves []leafT
					seenPhi := map[ssa.Value]bool{}
					var expand func(x ssa.Value, extra []ssa.Value, where ssa.Instruction)
					expand = func(x ssa.Value, extra []ssa.Value, where ssa.Instruction) {
						switch y := x.(type) {
						case *ssa.Phi:
							if seenPhi[y] {
								return
							}
							seenPhi[y] = true
							for i, e := range y.Edges {
								pb := y.Block().Preds[i]
								expand(e, extra, pb.Instrs[len(pb.Instrs)-1])
							}
							return
						case *ssa.BinOp:
							// base + term with the base chosen by a join: one definition per alternative
							if y.Op == token.ADD {
								if _, isPhi := y.X.(*ssa.Phi); isPhi {
									expand(y.X, append(append([]ssa.Value{}, extra...), y.Y), where)
									return
								}
								if _, isPhi := y.Y.(*ssa.Phi); isPhi {
									expand(y.Y, append(append([]ssa.Value{}, extra...), y.X), where)
									return
								}
							}
						}
						leaves = append(leaves, leafT{x, extra, where})
					}
					expand(v, nil, nil)
					for _, leaf := range leaves {
						lf := leaf.v
						atoms := p.ProvAt(lf, "", at).DataAtoms()
						if depth < 2 && len(atoms) == 1 && atoms[0].Kind == "param" && atoms[0].Fn == dfn && atoms[0].Path != "" && !strings.Contains(atoms[0].Path[1:], ".") {
							pt := dfn.Params[atoms[0].Idx].Type()
							field := strings.TrimPrefix(atoms[0].Path, ".")
							n := 0
							for _, g := range p.Summary(h.Fn).Funcs {
								var stores []*ssa.Store
								allInstrs(g, func(in2 ssa.Instruction) {
									st2, ok := in2.(*ssa.Store)
									if !ok {
										return
									}
									fa2, ok := st2.Addr.(*ssa.FieldAddr)
									if !ok || fieldNameOf(fa2) != field || core.TypeName(fa2.X.Type()) != core.TypeName(pt) {
										return
									}
									stores = append(stores, st2)
								})
								// only an assignment that can be the last one before the record is handed on counts
								for _, st2 := range stores {
									if !lastAssignment(p, g, st2, stores) {
										continue
									}
									n++
									collect(g, st2.Val, st2, depth+1)
								}
							}
							if n > 0 {
								continue
							}
						}
						defs = append(defs, def{dfn, lf, at, leaf.extra, leaf.where})
					}
				}
				collect(fn, st.Val, st, 0)
				for i, d := range defs {
					lf := d.v
					pr := p.ProvAt(lf, "", d.at)
					for _, ex := range d.extra {
						for k, a := range p.ProvAt(ex, "", d.at) {
							pr[k] = a
						}
					}
					hasH := pr.HasCtx("BlockHeight")
					hasE := pr.HasStore(rnsNames, ".Expires")
					c := fmt.Sprintf("%s:expiry-def#%d", key, i)
					pos := p.InstrPos(d.at)
					if vi, ok := lf.(ssa.Instruction); ok {
						pos = p.InstrPos(vi)
					}
					switch {
					case !hasH && !hasE:
						r.Violation("C16/R2", key+":expiry-base", pos, fmt.Sprintf("a reaching definition of the stored Names.Expires has no base (neither current height nor a live old expiry): %s — the name would expire immediately", pr))
					case hasE:
						// must be under a live comparison
						vi, ok := lf.(ssa.Instruction)
						if d.where != nil {
							vi, ok = d.where, true // the alternative is chosen at the end of the join's predecessor
						}
						if !ok {
							r.Undecided("C16/R2", c, pos, "definition is not an instruction")
							continue
						}
						if p.ReachesUnguarded(d.fn, vi, cmpGuard(p, ctxIs("BlockHeight"), storeField(rnsNames, ".Expires"), "<", "<=")) {
							r.Violation("C16/R2", key+":expiry-extends-stale", pos, "the new expiry is based on the stored expiry on a path that never checked the name is still live: renewing an expired name yields a term shorter than paid for (possibly already expired)")
						} else {
							r.Ok("C16/R2", c, pos, "base = old expiry, only under a live comparison")
						}
					default:
						r.Ok("C16/R2", c, pos, "base = current height")
					}
				}
			}
		}
	}
	if found == 0 {
		r.Undecided("C16/R2", key+":expiry-store", "", "no store into Names.Expires found on the registration path")
	}
}

func typeNameOfPtr(v ssa.Value) string {
	t := v.Type()
	return core.TypeName(t)
}

func fieldNameOf(fa *ssa.FieldAddr) string { return core.FieldName(fa.X.Type(), fa.Field) }

// tldRecognisers: functions of the rns module that range over a package-level list and return the element that
// "matches" a string parameter. The match must be a suffix test of that parameter (the element is later cut off the
// end of the name by its length): name[len(name)-len(tld):] == tld, or strings.HasSuffix(name, tld).
func tldRecognisers(r *core.Run, rule string) {
	p := r.Prog
	n := 0
	for _, fn := range moduleFuncs(p, "rns") {
		if len(fn.Params) != 1 || fn.Params[0].Type().String() != "string" || fn.Signature.Results().Len() != 2 {
			continue
		}
		for _, b := range fn.Blocks {
			ret, ok := b.Instrs[len(b.Instrs)-1].(*ssa.Return)
			if !ok || !core.InCycle(b) && !returnsLoopElement(ret) {
				continue
			}
			if !returnsLoopElement(ret) {
				continue
			}
			elem := ret.Results[0]
			n++
			r.Analysed(core.FnName(fn))
			tb := core.NewTermBuilder(p)
			tb.Bounds = true
			tb.Names[elem] = "T"
			okGuard := false
			seen := ""
			for _, gb := range fn.Blocks {
				ifi, isIf := gb.Instrs[len(gb.Instrs)-1].(*ssa.If)
				if !isIf {
					continue
				}
				for succ := 0; succ < 2; succ++ {
					// the edge must be the only way into the returning block
					if core.PathExists(fn, map[core.Edge]bool{{From: gb, Succ: succ}: true}, ret, nil) {
						continue
					}
					ca := p.NormCond(ifi)
					truth := !ca.Neg
					if succ == 1 {
						truth = ca.Neg
					}
					switch ca.Kind {
					case "eq":
						if !truth {
							continue
						}
						other := ca.X
						if ca.X == elem {
							other = ca.Y
						} else if ca.Y != elem {
							continue
						}
						t := tb.Term(other)
						seen = t
						if t == "slice(P0,(len(P0)-len(T)),)" {
							okGuard = true
						}
					case "callbool":
						if ca.Call != nil && truth {
							t := tb.Term(ca.Call)
							seen = t
							if t == "strings.HasSuffix(P0,T)" || t == `strings.HasSuffix(P0,concat(".",T))` {
								okGuard = true
							}
						}
					}
				}
			}
			r.Check(okGuard, rule, core.FnName(fn)+":tld-recognised-by-suffix", p.InstrPos(ret), "the list element is returned only if it is the suffix of the name", "the list element is returned on a test that is not a suffix test of the name ("+seen+"): the wrong TLD can be recognised (first list entry wins), and the name is then cut, priced and stored under that TLD")
		}
	}
	r.Floor(rule, n, 2, "TLD recognisers (keeper and validation copy)")
}

// returnsLoopElement: the first result is an element of a package-level slice being ranged over.
func returnsLoopElement(ret *ssa.Return) bool {
	if len(ret.Results) == 0 {
		return false
	}
	var base ssa.Value
	switch x := ret.Results[0].(type) {
	case *ssa.UnOp:
		if ia, ok := x.X.(*ssa.IndexAddr); ok {
			base = ia.X
		}
	case *ssa.Index:
		base = x.X
	case *ssa.Extract:
		if nx, ok := x.Tuple.(*ssa.Next); ok {
			if rg, ok := nx.Iter.(*ssa.Range); ok {
				base = rg.X
			}
		}
	}
	if base == nil {
		return false
	}
	if u, ok := base.(*ssa.UnOp); ok {
		_, isGlobal := u.X.(*ssa.Global)
		return isGlobal
	}
	return false
}

// yearArithmeticGuarded: every multiplication by the message's year count, and every addition of such a product to a
// height, is reached only behind a division-form overflow test (a <= K/b, resp. years <= (K-base)/c with K >= 2^62).
func yearArithmeticGuarded(r *core.Run, rule string, h *core.Handler) {
	p := r.Prog
	bigConst := func(v ssa.Value) bool {
		c, ok := v.(*ssa.Const)
		return ok && c.Value != nil && isInt64(c.Type()) && c.Int64() >= 1<<62
	}
	n := 0
	for _, fn := range p.Summary(h.Fn).Funcs {
		tb := core.NewTermBuilder(p)
		hasYears := func(v ssa.Value, at ssa.Instruction) bool {
			return p.HasMsgField(p.ProvAt(v, "", at), h, "Years")
		}
		allInstrs(fn, func(in ssa.Instruction) {
			bo, ok := in.(*ssa.BinOp)
			if !ok || !isInt64(bo.Type()) || (bo.Op != token.MUL && bo.Op != token.ADD) {
				return
			}
			if !hasYears(bo.X, bo) && !hasYears(bo.Y, bo) {
				return
			}
			n++
			r.Analysed(core.FnName(fn))
			a, b := tb.Term(bo.X), tb.Term(bo.Y)
			var guard core.GuardMatch
			if bo.Op == token.MUL {
				guard = func(ca *core.CondAtom, truth bool) bool {
					if ca.Kind != "cmp" {
						return false
					}
					op := ca.Op
					if !truth {
						op = negate(op)
					}
					x, y := ca.X, ca.Y
					if _, isQ := x.(*ssa.BinOp); isQ {
						if q := x.(*ssa.BinOp); q.Op == token.QUO {
							x, y, op = y, x, flip(op)
						}
					}
					// multiplication by a constant c: a constant bound K with K*c <= MaxInt64 is the folded division form
					if kc, isK := y.(*ssa.Const); isK && kc.Value != nil && (op == token.LEQ || op == token.LSS) {
						var cc *ssa.Const
						var other ssa.Value
						if c1, ok := bo.X.(*ssa.Const); ok {
							cc, other = c1, bo.Y
						} else if c2, ok := bo.Y.(*ssa.Const); ok {
							cc, other = c2, bo.X
						}
						if cc != nil && cc.Int64() > 0 && kc.Int64() > 0 && kc.Int64() <= math.MaxInt64/cc.Int64() && tb.Term(x) == tb.Term(other) {
							return true
						}
					}
					q, ok := y.(*ssa.BinOp)
					if !ok || q.Op != token.QUO || (op != token.LEQ && op != token.LSS) {
						return false
					}
					k := q.X
					if s, isSub := k.(*ssa.BinOp); isSub && s.Op == token.SUB {
						k = s.X
					}
					if !bigConst(k) {
						return false
					}
					tx, ty := tb.Term(x), tb.Term(q.Y)
					return (tx == a && ty == b) || (tx == b && ty == a)
				}
			} else {
				// product + base: some guard bounds the year count by (K - T)/c where T covers this base
				base := bo.Y
				if hasYears(bo.Y, bo) {
					base = bo.X
				}
				baseAtoms := p.ProvAt(base, "", bo).DataAtoms()
				guard = func(ca *core.CondAtom, truth bool) bool {
					if ca.Kind != "cmp" {
						return false
					}
					for _, side := range []ssa.Value{ca.X, ca.Y} {
						q, ok := side.(*ssa.BinOp)
						if !ok || q.Op != token.QUO {
							continue
						}
						s, isSub := q.X.(*ssa.BinOp)
						if !isSub || s.Op != token.SUB || !bigConst(s.X) {
							continue
						}
						tp := p.ProvAt(s.Y, "", ca.If)
						covers := true
						for _, ba := range baseAtoms {
							if !tp.Any(func(x core.Atom) bool { return x.Key() == ba.Key() }) {
								covers = false
							}
						}
						other := ca.X
						op := ca.Op
						if side == ca.X {
							other = ca.Y
							op = flip(op)
						}
						if !truth {
							op = negate(op)
						}
						if covers && hasYears(other, ca.If) && (op == token.LEQ || op == token.LSS) {
							return true
						}
					}
					return false
				}
			}
			// years <= 0 needs no guard (a non-positive count cannot overflow upwards): accept paths that passed years<=0
			nonPos := func(ca *core.CondAtom, truth bool) bool {
				if ca.Kind != "cmp" {
					return false
				}
				if !isZero(ca.X) && !isZero(ca.Y) {
					return false
				}
				rel := relOnEdge(p, ca, truth, func(pr core.Prov) bool { return p.HasMsgField(pr, h, "Years") }, func(pr core.Prov) bool { return len(pr.DataAtoms()) == 0 })
				return rel == "<="
			}
			u := p.FindUnguarded(fn, []*core.Effect{{Instr: bo}}, anyOf(guard, nonPos), true)
			what := "multiplication by the year count"
			if bo.Op == token.ADD {
				what = "addition of the term to the base height"
			}
			kind := "price"
			if bo.Op == token.MUL {
				if _, isC := bo.Y.(*ssa.Const); isC {
					kind = "term"
				} else if _, isC := bo.X.(*ssa.Const); isC {
					kind = "term"
				}
			} else {
				kind = "expiry-from-old-expiry"
				if p.ProvAt(bo.X, "", bo).HasCtx("BlockHeight") || p.ProvAt(bo.Y, "", bo).HasCtx("BlockHeight") {
					kind = "expiry-from-height"
				}
			}
			r.Check(len(u) == 0, rule, h.Key()+":year-arithmetic-cannot-wrap:"+kind, p.InstrPos(bo), what+" behind a division-form overflow test", "the "+what+" ("+a+" "+bo.Op.String()+" "+b+") is not behind a division-form overflow test: for a huge year count the price / expiry wraps around, so the registrant is not charged Y times the yearly price and the name is not live for Y years")
		})
	}
	r.Floor(rule, n, 3, "arithmetic sites on the year count")
}

// lastAssignment: some path from st to a commit return of fn performs none of the other stores (to the same field).
func lastAssignment(p *core.Program, fn *ssa.Function, st *ssa.Store, all []*ssa.Store) bool {
	blocked := map[core.Edge]bool{}
	for _, o := range all {
		if o == st {
			continue
		}
		if o.Block() == st.Block() {
			// a later store in the same block overwrites this one
			after := false
			for _, in := range st.Block().Instrs {
				if in == ssa.Instruction(st) {
					after = true
				} else if in == ssa.Instruction(o) && after {
					return false
				}
			}
			continue
		}
		for e := range blockEdgesInto(fn, o) {
			blocked[e] = true
		}
	}
	for _, ri := range p.Returns(fn) {
		if ri.Class == core.RetFail {
			continue
		}
		// from the store onwards (how the store was reached does not matter)
		seen := map[*ssa.BasicBlock]bool{st.Block(): true}
		work := []*ssa.BasicBlock{st.Block()}
		for len(work) > 0 {
			b := work[len(work)-1]
			work = work[:len(work)-1]
			if b == ri.Ret.Block() {
				return true
			}
			for i, sc := range b.Succs {
				if !blocked[core.Edge{From: b, Succ: i}] && !seen[sc] {
					seen[sc] = true
					work = append(work, sc)
				}
			}
		}
	}
	return false
}

// priceLengthIsCharacterCount: the listed price is per length in characters. The pricing function measures with
// len(string) (bytes); that is the character count only while validation admits nothing but ASCII. The rule parses
// the constant patterns compiled in the rns types package (regexp/syntax) and requires every character class, literal
// and wildcard to stay below 0x80 — unless no pricing function measures bytes (then nothing is demanded).
func priceLengthIsCharacterCount(r *core.Run, rule string) {
	p := r.Prog
	// 1. pricing functions: rns keeper functions that apply builtin len to a string and read the TLD cost table
	//    (directly or through one call)
	readsTable := func(fn *ssa.Function) bool {
		hit := false
		allInstrs(fn, func(in ssa.Instruction) {
			for _, op := range in.Operands(nil) {
				if op == nil || *op == nil {
					continue
				}
				if g, ok := (*op).(*ssa.Global); ok && g.Name() == "TLDCost" {
					hit = true
				}
			}
		})
		return hit
	}
	var pricing []*ssa.Function
	byteLenAt := ""
	for _, fn := range moduleFuncs(p, "rns") {
		if !strings.HasSuffix(core.FnPkgPath(fn), "x/rns/keeper") {
			continue
		}
		table := readsTable(fn)
		lenPos := ""
		allInstrs(fn, func(in ssa.Instruction) {
			c, ok := in.(ssa.CallInstruction)
			if !ok {
				return
			}
			if b, ok := c.Common().Value.(*ssa.Builtin); ok && b.Name() == "len" && len(c.Common().Args) == 1 {
				if bt, ok := c.Common().Args[0].Type().Underlying().(*types.Basic); ok && bt.Info()&types.IsString != 0 {
					if _, isParam := c.Common().Args[0].(*ssa.Parameter); isParam {
						lenPos = p.InstrPos(in)
					}
				}
			}
			if !table {
				for _, cal := range p.Callees(c) {
					if readsTable(cal) {
						table = true
					}
				}
			}
		})
		if table && lenPos != "" && fn.Signature.Results().Len() > 0 {
			if bt, ok := fn.Signature.Results().At(0).Type().Underlying().(*types.Basic); ok && bt.Info()&types.IsInteger != 0 {
				pricing = append(pricing, fn)
				byteLenAt = lenPos
			}
		}
	}
	// 2. constant patterns compiled in x/rns/types
	type pat struct{ src, pos string }
	var pats []pat
	for _, fn := range p.Funcs {
		if !strings.HasSuffix(core.FnPkgPath(fn), "x/rns/types") {
			continue
		}
		allInstrs(fn, func(in ssa.Instruction) {
			c, ok := in.(ssa.CallInstruction)
			if !ok {
				return
			}
			name := core.CalleeFullName(c)
			if name == "regexp.MustCompile" || name == "regexp.Compile" || name == "regexp.MatchString" {
				if k, ok := c.Common().Args[0].(*ssa.Const); ok && k.Value != nil {
					pats = append(pats, pat{constant.StringVal(k.Value), p.InstrPos(in)})
				} else {
					r.Undecided(rule, "rns:name-pattern:not-constant", p.InstrPos(in), "a name pattern is not a constant string")
				}
			}
		})
	}
	if sp := p.SSAPkg[core.ModPath+"/x/rns/types"]; sp != nil {
		if ini := sp.Func("init"); ini != nil {
			allInstrs(ini, func(in ssa.Instruction) {
				c, ok := in.(ssa.CallInstruction)
				if !ok {
					return
				}
				if name := core.CalleeFullName(c); name == "regexp.MustCompile" {
					if k, ok := c.Common().Args[0].(*ssa.Const); ok && k.Value != nil {
						for _, q := range pats {
							if q.pos == p.InstrPos(in) {
								return
							}
						}
						pats = append(pats, pat{constant.StringVal(k.Value), p.InstrPos(in)})
					}
				}
			})
		}
	}
	r.Floor(rule, len(pats), 1, "constant name patterns compiled in x/rns/types")
	if len(pricing) == 0 {
		r.Ok(rule, "rns:price-length", "", "no pricing function measures the name with the byte-length builtin: nothing is demanded of the validation patterns")
		return
	}
	for _, q := range pats {
		re, err := syntax.Parse(q.src, syntax.Perl)
		if err != nil {
			r.Undecided(rule, "rns:name-pattern:unparsable", q.pos, err.Error())
			continue
		}
		wide := ""
		var walk func(x *syntax.Regexp)
		walk = func(x *syntax.Regexp) {
			switch x.Op {
			case syntax.OpAnyChar, syntax.OpAnyCharNotNL:
				wide = "a wildcard"
			case syntax.OpLiteral:
				for _, c := range x.Rune {
					if c >= 0x80 {
						wide = fmt.Sprintf("the literal %q", c)
					}
				}
			case syntax.OpCharClass:
				for i := 0; i+1 < len(x.Rune); i += 2 {
					if x.Rune[i+1] >= 0x80 {
						wide = fmt.Sprintf("the class range %q-%q", x.Rune[i], x.Rune[i+1])
						break
					}
				}
			}
			for _, s := range x.Sub {
				walk(s)
			}
		}
		walk(re)
		r.Check(wide == "", rule, "rns:name-pattern-single-byte", q.pos, "pattern "+q.src+" admits ASCII only; "+core.FnName(pricing[0])+" measures bytes at "+byteLenAt, "the name pattern "+q.src+" admits multi-byte characters ("+wide+") while "+core.FnName(pricing[0])+" selects the price tier by byte length (len at "+byteLenAt+"): a short name in a multi-byte script is charged the tier of a longer name")
	}
}
