package rules

import (
	"fmt"
	"go/token"
	"sort"
	"strings"

	"golang.org/x/tools/go/ssa"

	"jklcheck/core"
)

func init() { registry["C17"] = c17 }

func effHas(e *core.Effect, kind, name string) bool {
	for _, o := range e.Store {
		if o.Kind == kind && o.Module+"/"+o.Prefix == name {
			return true
		}
	}
	return false
}

func consensusFuncs(p *core.Program) []*ssa.Function {
	var out []*ssa.Function
	for _, fn := range p.Funcs {
		pp := core.FnPkgPath(fn)
		if core.IsTestSupportPkg(pp) || fn.Synthetic != "" || strings.HasSuffix(p.Pos(fn.Pos()), "test_helpers.go") || strings.Contains(p.Pos(fn.Pos()), "_test.go") {
			continue
		}
		out = append(out, fn)
	}
	return out
}

// pairedOnAllPaths: every path through a also executes b (before or after).
func pairedOnAllPaths(p *core.Program, fn *ssa.Function, a, b ssa.Instruction) bool {
	if precedesAlways(fn, b, a) {
		return true
	}
	return p.BypassExists(fn, a, b, true) == nil
}

func sameArgs(p *core.Program, a, b ssa.CallInstruction) bool {
	x, y := dataArgs(a), dataArgs(b)
	if len(x) != len(y) {
		return false
	}
	for i := range x {
		if core.SameValue(x[i], y[i]) {
			continue
		}
		if strings.Join(p.ProvAt(x[i], "", a).Strings(), "|") != strings.Join(p.ProvAt(y[i], "", b).Strings(), "|") {
			return false
		}
	}
	return true
}

func c17(r *core.Run) {
	p := r.Prog
	r.Explanation = "Static rules over every non-test function of the repository: a write (or delete) reaching only one of the two file indexes is always paired, on every path of the same function, with the matching operation on the other index carrying the same arguments; every assignment to a stored file's prover list is followed on all paths by the matching proof-record write/delete and by saving the file; the prover appender is reached only behind the not-yet-listed test and appends only below the replication limit; proof records built for a file copy the file's key fields; file removal deletes the listed proof records."
	r.Assumptions = []string{T1, T4}
	r.NotDecided = []string{"'identical contents' beyond same value at write time", "history-level consistency (follows from the per-transition rules given T4)"}
	r.Rule("C17/R1", "dual index: in every function, a Set (Delete) that reaches FilesByMerkle but not FilesByOwner (or vice versa) is paired on all paths with a Set (Delete) on the other index with identical arguments")
	r.Rule("C17/R2", "list and record move together: each assignment to UnifiedFile.Proofs of a stored file is followed on all paths by a FileProof Set/Delete and a file save; file removal deletes a FileProof per listed key; conversely a FileProof record is deleted only by a function that also assigns the list or removes the file")
	r.Rule("C17/R4", "records decoded on transaction/block paths go into a variable local to the invocation (never a captured variable with repeated fields): a reused decode target accumulates the prover lists of earlier files, and saving it stores provers that belong to other files")
	r.Rule("C17/R3", "uniqueness and bound: appender calls on transaction paths are behind containsProver(...)=false; the append is behind Cmp(len(Proofs) < MaxProofs); FileProof records built for a file take Merkle/Owner/Start from the file")
	r.Rule("C17/R5", "the two indexes name a file by the same fields: every storage key builder is an injective formatter of its parameters (each parameter once, as it is or hex/decimal formatted), so two files that are distinct in one index never share a slot in the other")
	funcs := consensusFuncs(p)
	// ---- R5 key builders of both indexes are injective in the file's identifying fields
	r.Floor("C17/R5", keyBuildersFaithful(r, "C17/R5", "storage"), 8, "storage key builders")
	// ---- R4 a file that may be saved back is decoded into a fresh variable
	staleDecodeTargets(r, "C17/R4", funcs)
	// ---- R1
	n1 := 0
	singleSite := map[string]map[*ssa.Function]bool{"Set": {}, "Delete": {}}
	for _, kind := range []string{"Set", "Delete"} {
		for _, fn := range funcs {
			for _, e := range p.Effects(fn) {
				if (!e.Direct || !isAccessorFn(p, fn)) && effHas(e, kind, stFiles) != effHas(e, kind, stFilesO) {
					singleSite[kind][fn] = true
				}
			}
		}
	}
	for _, kind := range []string{"Set", "Delete"} {
		for _, fn := range funcs {
			effs := p.Effects(fn)
			var onlyA, onlyB, candA, candB []*core.Effect
			for _, e := range effs {
				a, b := effHas(e, kind, stFiles), effHas(e, kind, stFilesO)
				if e.Direct && isAccessorFn(p, fn) {
					continue // the index-level helper itself; its callers are judged
				}
				if a && !b {
					candA = append(candA, e)
				}
				if b && !a {
					candB = append(candB, e)
				}
				// report at the deepest function only
				deeper := false
				if a != b {
					for _, c := range e.Callees {
						for _, g := range p.Summary(c).Funcs {
							if g != fn && singleSite[kind][g] {
								deeper = true
							}
						}
					}
				}
				if deeper {
					continue
				}
				if a && !b {
					onlyA = append(onlyA, e)
				}
				if b && !a {
					onlyB = append(onlyB, e)
				}
			}
			other := func(name string) string {
				if name == stFiles {
					return stFilesO
				}
				return stFiles
			}
			sameKeys := func(xc ssa.CallInstruction, xname string, yc ssa.CallInstruction) bool {
				xt, yt := indexKeyTerms(p, xc, kind, xname), indexKeyTerms(p, yc, kind, other(xname))
				return len(xt) > 0 && strings.Join(xt, "|") == strings.Join(yt, "|") && !strings.Contains(strings.Join(xt, "|"), "?")
			}
			// mustPerform: call performs the op directly, or through a helper on every path of that helper
			mustPerform := func(call ssa.CallInstruction, name string) bool {
				if cal, _ := directOpCallee(p, call, kind, name); cal != nil {
					return true
				}
				for _, o := range p.StoreOps(fn) {
					if o.Instr == call && o.Kind == kind && o.Module+"/"+o.Prefix == name {
						return true // the store operation itself
					}
				}
				cs := p.Callees(call)
				if len(cs) != 1 {
					return false
				}
				g := cs[0]
				okAll := false
				allInstrs(g, func(in ssa.Instruction) {
					ic, isCall := in.(ssa.CallInstruction)
					if !isCall {
						return
					}
					if cal, _ := directOpCallee(p, ic, kind, name); cal != nil && cal != g {
						if p.BypassExists(g, g.Blocks[0].Instrs[0], ic, true) == nil {
							okAll = true
						}
					}
				})
				return okAll
			}
			partnered := func(f *ssa.Function, x ssa.CallInstruction, xname string, ys []*core.Effect) bool {
				if !mustPerform(x, xname) {
					return false
				}
				for _, y := range ys {
					yc, isCall := y.Instr.(ssa.CallInstruction)
					if !isCall || yc == x {
						continue
					}
					if !mustPerform(yc, other(xname)) {
						continue
					}
					if pairedOnAllPaths(p, f, x, yc) && pairedOnAllPaths(p, f, yc, x) && (sameArgs(p, x, yc) || sameKeys(x, xname, yc)) {
						return true
					}
				}
				return false
			}
			check := func(xs, ys []*core.Effect, xname, missing string) {
				for _, x := range xs {
					n1++
					r.Analysed(core.FnName(fn))
					xc := x.Instr.(ssa.CallInstruction)
					ok := partnered(fn, xc, xname, ys)
					if !ok {
						// the partner may live in every caller of this helper: judge each call site there
						nCallers, all := 0, true
						for _, f := range funcs {
							allInstrs(f, func(in ssa.Instruction) {
								cs, isCall := in.(ssa.CallInstruction)
								if !isCall {
									return
								}
								for _, cal := range p.Callees(cs) {
									if cal != fn || f == fn {
										continue
									}
									nCallers++
									var partners []*core.Effect
									for _, e := range p.Effects(f) {
										if !e.Direct && effHas(e, kind, other(xname)) && !effHas(e, kind, xname) {
											partners = append(partners, e)
										}
									}
									if !partnered(f, cs, xname, partners) {
										all = false
									}
								}
							})
						}
						ok = nCallers > 0 && all
					}
					r.Check(ok, "C17/R1", fmt.Sprintf("%s:%s-pairs-%s", core.FnName(fn), kind, missing), p.InstrPos(x.Instr),
						"paired on all paths with the other index, same key", "a file "+kind+" reaches only one index: the "+missing+" listing is not updated on every path (or with a different key)")
				}
			}
			check(onlyA, candB, stFiles, "by-owner")
			check(onlyB, candA, stFilesO, "by-merkle")
		}
	}
	r.Floor("C17/R1", n1, 4, "single-index call sites")
	// direct index helpers are only called from pairing functions: any caller with a single-index effect was judged above.

	// ---- R2 / R3
	nList := 0
	var appenders []*ssa.Function
	for _, fn := range funcs {
		for _, b := range fn.Blocks {
			for _, in := range b.Instrs {
				st, ok := in.(*ssa.Store)
				if !ok {
					continue
				}
				fa, ok := st.Addr.(*ssa.FieldAddr)
				if !ok || core.FieldName(fa.X.Type(), fa.Field) != "Proofs" || core.TypeName(fa.X.Type()) != "x/storage/types.UnifiedFile" {
					continue
				}
				// skip initialisation of a fresh literal
				if al, ok := fa.X.(*ssa.Alloc); ok && al.Comment == "complit" {
					continue
				}
				if p.IsGenerated(fn) || strings.Contains(core.FnPkgPath(fn), "/legacy") || strings.Contains(core.FnPkgPath(fn), "/upgrades") {
					continue // generated decoders; genesis/upgrade code is out of scope (T7)
				}
				if len(p.ProvAt(st.Val, "", st).DataAtoms()) == 0 {
					continue // initialisation with a fresh empty list
				}
				nList++
				r.Analysed(core.FnName(fn))
				var proofW, fileW *core.Effect
				for _, e := range p.Effects(fn) {
					if (effHas(e, "Set", stProof) || effHas(e, "Delete", stProof)) && p.BypassExists(fn, st, e.Instr, true) == nil {
						proofW = e
					}
					if effHas(e, "Set", stFiles) && p.BypassExists(fn, st, e.Instr, true) == nil {
						fileW = e
					}
				}
				c := core.FnName(fn) + ":proofs-list-update"
				r.Check(proofW != nil && fileW != nil, "C17/R2", c, p.InstrPos(st), "list update followed on all paths by proof-record write/delete and file save",
					fmt.Sprintf("the prover list is changed without the matching proof record update (%v) or without saving the file (%v) on some path", proofW != nil, fileW != nil))
				// appender?
				if call, ok := st.Val.(*ssa.Call); ok {
					if bi, ok := call.Call.Value.(*ssa.Builtin); ok && bi.Name() == "append" {
						if _, isSlice := call.Call.Args[0].(*ssa.Slice); !isSlice {
							appenders = append(appenders, fn)
							// bound
							g := func(ca *core.CondAtom, truth bool) bool {
								rel := relOnEdge(p, ca, truth,
									func(pr core.Prov) bool {
										return pr.Any(func(a core.Atom) bool { return strings.HasSuffix(a.Path, ".Proofs") })
									},
									func(pr core.Prov) bool {
										return pr.Any(func(a core.Atom) bool { return strings.HasSuffix(a.Path, ".MaxProofs") })
									})
								return rel == "<"
							}
							bad := p.ReachesUnguarded(fn, st, g)
							r.Check(!bad, "C17/R3", core.FnName(fn)+":append-below-limit", p.InstrPos(st), "append behind Cmp(len(Proofs) < MaxProofs)", "a prover can be appended beyond the file's replication limit")
						}
					}
				}
			}
		}
	}
	r.Floor("C17/R2", nList, 2, "prover-list assignments")
	// ... and the converse: a proof record is deleted only together with its entry in the file's list (the function
	// assigns the list) or together with the file itself (the function deletes the file record)
	nDel := 0
	inScope := map[*ssa.Function]bool{}
	for _, fn := range funcs {
		inScope[fn] = true
	}
	entrySet := map[*ssa.Function]bool{}
	if ehs, err := p.Handlers(); err == nil {
		for _, h := range ehs {
			entrySet[h.Fn] = true
		}
	}
	bbE, ebE := p.BlockEntries()
	for _, f := range append(bbE, ebE...) {
		entrySet[f] = true
	}
	// goesWith: the function assigns a file's prover list or deletes a file record; a helper that does neither (a loop
	// deleting the records of a list it is handed, a wrapper around the record remover) is judged by its callers
	var goesWith func(fn *ssa.Function, depth int) (ok, reached bool)
	goesWith = func(fn *ssa.Function, depth int) (bool, bool) {
		found := false
		allInstrs(fn, func(in ssa.Instruction) {
			if st, ok := in.(*ssa.Store); ok {
				if fa, ok := st.Addr.(*ssa.FieldAddr); ok && core.FieldName(fa.X.Type(), fa.Field) == "Proofs" && core.TypeName(fa.X.Type()) == "x/storage/types.UnifiedFile" {
					found = true
				}
			}
		})
		for _, e2 := range p.Effects(fn) {
			if effHas(e2, "Delete", stFiles) {
				found = true
			}
		}
		if found {
			return true, true
		}
		if depth >= 2 {
			return false, true
		}
		n, all := 0, true
		for _, caller := range p.CG().In[fn] {
			if !inScope[caller] || caller == fn {
				continue
			}
			okc, reached := goesWith(caller, depth+1)
			if !reached {
				continue
			}
			n++
			if !okc {
				all = false
			}
		}
		if n == 0 {
			// no caller on a transaction / block path: an entry point of its own would have to do it itself
			_, isEntry := entrySet[fn]
			return false, isEntry
		}
		return all, true
	}
	for _, fn := range funcs {
		if isAccessorFn(p, fn) || p.IsGenerated(fn) {
			continue
		}
		for _, e := range p.Effects(fn) {
			call, isCall := e.Instr.(ssa.CallInstruction)
			if !isCall || e.Direct {
				continue
			}
			if cal, _ := directOpCallee(p, call, "Delete", stProof); cal == nil {
				continue
			}
			okG, reached := goesWith(fn, 0)
			if !reached {
				continue // a wrapper nobody calls on a transaction / block path
			}
			nDel++
			r.Check(okG, "C17/R2", core.FnName(fn)+":proof-record-deleted-with-its-list-entry", p.InstrPos(call), "the function that deletes a proof record (or each of its callers) also updates the file's prover list or removes the file", "a proof record is deleted while the files that list it keep the entry: a listed prover without a retrievable proof record, holding one of the file's replication slots")
		}
	}
	r.Floor("C17/R2", nDel, 1, "proof-record delete sites")
	// appender call sites on tx paths behind contains=false
	reach, err := p.TxReachable()
	if err != nil {
		r.Undecided("C17/R3", "reach", "", err.Error())
		return
	}
	nApp := 0
	for _, ap := range appenders {
		for _, caller := range p.CG().In[ap] {
			if !reach[caller] {
				continue
			}
			for _, b := range caller.Blocks {
				for _, in := range b.Instrs {
					call, ok := in.(ssa.CallInstruction)
					if !ok {
						continue
					}
					isAp := false
					for _, c := range p.Callees(call) {
						if c == ap {
							isAp = true
						}
					}
					if !isAp {
						continue
					}
					nApp++
					g := callBoolGuard(p, func(c *ssa.Call, callees []*ssa.Function) bool {
						for _, cal := range callees {
							if containsPredicate(p, cal) {
								return true
							}
						}
						return false
					}, false)
					// the key tested for membership is the key appended (as terms over the call arguments)
					if ct, at := containsKeyTerm(p, caller, call, ap); ct != "" || at != "" {
						r.Check(ct == at && ct != "", "C17/R3", core.FnName(caller)+":contains-key=appended-key", p.InstrPos(call), "membership test and append use the same key term", "the prover list is tested for one key ("+ct+") but another ("+at+") is appended: the same prover can be listed twice under two spellings")
					}
					lifted := p.LiftGuard(func(*ssa.Function) core.GuardMatch { return g }, 2)(caller)
					bad := p.ReachesUnguarded(caller, call, anyOf(g, p.FlagImplies(caller, anyOf(g, lifted)), lifted))
					r.Check(!bad, "C17/R3", core.FnName(caller)+":append-only-if-absent", p.InstrPos(call), "appender call behind containsProver(...)=false", "a prover can be appended to a file that already lists it (duplicate entry)")
				}
			}
		}
	}
	r.Floor("C17/R3", nApp, 1, "appender call sites on transaction paths")

	// FileProof records built in tx-reachable code take their key fields from the file
	nRec := 0
	for _, fn := range core.SortedFuncs(reach) {
		if strings.HasSuffix(p.Pos(fn.Pos()), ".pb.go") {
			continue
		}
		for _, b := range fn.Blocks {
			for _, in := range b.Instrs {
				al, ok := in.(*ssa.Alloc)
				if !ok || core.TypeName(al.Type()) != "x/storage/types.FileProof" {
					continue
				}
				built := false
				for _, ref := range *al.Referrers() {
					if fa, ok := ref.(*ssa.FieldAddr); ok {
						for _, rr := range *fa.Referrers() {
							if st, ok := rr.(*ssa.Store); ok && st.Addr == fa {
								built = true
							}
						}
					}
				}
				if !built {
					continue
				}
				nRec++
				for _, f := range []string{"Merkle", "Owner", "Start"} {
					pr := p.ProvOf(al, "."+f)
					ok := pr.Any(func(a core.Atom) bool {
						return strings.HasSuffix(a.Path, "."+f) && (a.Kind == "store" && a.Name == stFiles || a.Kind == "param")
					})
					only := true
					for _, a := range pr.DataAtoms() {
						if !strings.HasSuffix(a.Path, "."+f) {
							only = false
						}
					}
					r.Check(ok && only, "C17/R3", core.FnName(fn)+":proof-record-refers-to-file:"+f, p.InstrPos(al), "FileProof."+f+" ⊵ file."+f+" only", "a proof record is built whose "+f+" does not come from the file it is listed on: "+pr.String())
				}
			}
		}
	}
	r.Floor("C17/R3", nRec, 1, "proof records built on transaction paths")

	// file removal deletes listed proofs
	for _, fn := range funcs {
		var delFile *core.Effect
		for _, e := range p.Effects(fn) {
			if performsDirectly(p, fn, e, "Delete", stFiles) {
				delFile = e
			}
		}
		if delFile == nil {
			continue
		}
		if !reach[fn] {
			continue
		}
		// (delFile is the delete of the file record itself: performed here, or through a thin index accessor)
		okDel := false
		for _, e := range p.Effects(fn) {
			if !effHas(e, "Delete", stProof) {
				continue
			}
			if call, ok := e.Instr.(ssa.CallInstruction); ok {
				for _, a := range dataArgs(call) {
					if p.ProvAt(a, "", call).Any(func(at core.Atom) bool { return strings.Contains(at.Path, ".Proofs[]") }) {
						okDel = true
					}
				}
			}
		}
		r.Check(okDel, "C17/R2", core.FnName(fn)+":removal-deletes-listed-proofs", p.InstrPos(delFile.Instr), "file removal deletes a proof record per listed key", "a file is removed without deleting the proof records it lists (orphan proofs keep earning / block re-posting)")
	}
	_ = token.ADD
}

// containsPredicate: bool function over (file, prover) that returns true only under an equality between an element
// of file.Proofs and a value depending on the prover argument.
func containsPredicate(p *core.Program, fn *ssa.Function) bool {
	if fn == nil || fn.Blocks == nil || fn.Signature.Results().Len() != 1 || len(fn.Params) != 2 {
		return false
	}
	g := func(ca *core.CondAtom, truth bool) bool {
		if ca.Kind != "eq" || !truth {
			return false
		}
		px, py := p.ProvAt(ca.X, "", ca.If), p.ProvAt(ca.Y, "", ca.If)
		el := func(pr core.Prov) bool { return pr.HasParam(fn, 0, ".Proofs") }
		ky := func(pr core.Prov) bool { return pr.HasParam(fn, 1, "") }
		return (el(px) && ky(py)) || (el(py) && ky(px))
	}
	removed := p.PassEdges(fn, g)
	nTrue := 0
	if c, _ := containsViaLibrary(p, fn); c != nil {
		return true
	}
	for _, b := range fn.Blocks {
		ret, ok := b.Instrs[len(b.Instrs)-1].(*ssa.Return)
		if !ok {
			continue
		}
		c, ok := ret.Results[0].(*ssa.Const)
		if !ok || c.Value == nil {
			return false
		}
		if c.Value.ExactString() == "true" {
			nTrue++
			if core.PathExists(fn, removed, ret, nil) {
				return false
			}
		}
	}
	return nTrue > 0
}

// containsKeyTerm: term of the key compared by the contains predicate called in `caller`, and term of the element the
// appender appends, both expressed over the caller's values (callee parameters named by the call arguments).
func containsKeyTerm(p *core.Program, caller *ssa.Function, appendCall ssa.CallInstruction, appender *ssa.Function) (string, string) {
	tb := core.NewTermBuilder(p)
	bindTo := func(cal *ssa.Function, call ssa.CallInstruction, outer *core.TermBuilder) *core.TermBuilder {
		sub := core.NewTermBuilder(p)
		sub.Bind = map[*ssa.Parameter]core.BoundVal{}
		c := call.Common()
		var actuals []ssa.Value
		if c.IsInvoke() {
			actuals = append(actuals, c.Value)
		}
		actuals = append(actuals, c.Args...)
		for i, prm := range cal.Params {
			if i < len(actuals) {
				sub.Bind[prm] = core.BoundVal{Val: actuals[i], TB: outer}
			}
		}
		return sub
	}
	bind := func(cal *ssa.Function, call ssa.CallInstruction) *core.TermBuilder { return bindTo(cal, call, tb) }
	containsTerm := ""
	// the membership test: in the caller itself or in a helper it calls (one level)
	var scan func(fn *ssa.Function, ftb *core.TermBuilder, depth int)
	scan = func(fn *ssa.Function, ftb *core.TermBuilder, depth int) {
		allInstrs(fn, func(in ssa.Instruction) {
			c, ok := in.(*ssa.Call)
			if !ok {
				return
			}
			for _, cal := range p.Callees(c) {
				if !containsPredicate(p, cal) {
					if depth == 0 && cal != appender && cal.Blocks != nil && core.ModuleOf(cal) == core.ModuleOf(caller) {
						scan(cal, bindTo(cal, c, ftb), 1)
					}
					continue
				}
				sub := bindTo(cal, c, ftb)
				if lc, key := containsViaLibrary(p, cal); lc != nil {
					containsTerm = sub.Term(key)
					continue
				}
				// the value compared with the list elements
				for _, b := range cal.Blocks {
					ifi, ok := b.Instrs[len(b.Instrs)-1].(*ssa.If)
					if !ok {
						continue
					}
					ca := p.NormCond(ifi)
					if ca.Kind != "eq" {
						continue
					}
					for _, side := range []ssa.Value{ca.X, ca.Y} {
						if !p.ProvAt(side, "", ifi).HasParam(cal, 0, ".Proofs") {
							containsTerm = sub.Term(side)
						}
					}
				}
			}
		})
	}
	scan(caller, tb, 0)
	appendTerm := ""
	sub := bind(appender, appendCall)
	allInstrs(appender, func(in ssa.Instruction) {
		st, ok := in.(*ssa.Store)
		if !ok {
			return
		}
		fa, ok := st.Addr.(*ssa.FieldAddr)
		if !ok || core.FieldName(fa.X.Type(), fa.Field) != "Proofs" {
			return
		}
		if call, ok := st.Val.(*ssa.Call); ok {
			if bi, ok := call.Call.Value.(*ssa.Builtin); ok && bi.Name() == "append" {
				for _, el := range core.VarArgs(call.Call.Args[1]) {
					if el != nil {
						appendTerm = sub.Term(el)
					}
				}
			}
		}
	})
	return containsTerm, appendTerm
}

// indexKeyTerms: the sorted key terms of the op (kind on store name) that call performs directly or one helper level
// down, expressed in the caller's values; a key field of a record loaded by a getter counts as the key it was loaded by.
func indexKeyTerms(p *core.Program, call ssa.CallInstruction, kind, name string) []string {
	outer := core.NewTermBuilder(p)
	outer.Loaded = true
	var out []string
	var own *core.StoreOp
	if pf := call.Parent(); pf != nil {
		for _, o := range p.StoreOps(pf) {
			if o.Instr == call && o.Kind == kind && o.Module+"/"+o.Prefix == name {
				own = o
			}
		}
	}
	if own != nil {
		// the store operation itself: its key components are already values of this function
		for _, comp := range p.KeyComponents(own.Key, own.Instr) {
			out = append(out, outer.Term(comp.Val))
		}
	} else if cal, op := directOpCallee(p, call, kind, name); cal != nil {
		out = keyTermsAtCallTB(p, outer, call, cal, op)
	} else if cs := p.Callees(call); len(cs) == 1 {
		c := call.Common()
		var actuals []ssa.Value
		if c.IsInvoke() {
			actuals = append(actuals, c.Value)
		}
		actuals = append(actuals, c.Args...)
		sub := core.NewTermBuilder(p)
		sub.Loaded = true
		sub.Bind = map[*ssa.Parameter]core.BoundVal{}
		for i, prm := range cs[0].Params {
			if i < len(actuals) {
				sub.Bind[prm] = core.BoundVal{Val: actuals[i], TB: outer}
			}
		}
		allInstrs(cs[0], func(in ssa.Instruction) {
			ic, ok := in.(ssa.CallInstruction)
			if !ok || out != nil {
				return
			}
			if cal, op := directOpCallee(p, ic, kind, name); cal != nil && cal != cs[0] {
				out = keyTermsAtCallTB(p, sub, ic, cal, op)
			}
		})
	}
	out = append([]string{}, out...)
	sort.Strings(out)
	return out
}

// containsViaLibrary: fn(list-holder, key) returns slices.Contains(holder.Proofs, f(key)); yields the call and the
// value searched for.
func containsViaLibrary(p *core.Program, fn *ssa.Function) (*ssa.Call, ssa.Value) {
	if fn == nil || len(fn.Blocks) != 1 || len(fn.Params) != 2 {
		return nil, nil
	}
	ret, ok := fn.Blocks[0].Instrs[len(fn.Blocks[0].Instrs)-1].(*ssa.Return)
	if !ok || len(ret.Results) != 1 {
		return nil, nil
	}
	c, ok := ret.Results[0].(*ssa.Call)
	if !ok || !strings.HasPrefix(core.CalleeFullName(c), "slices.Contains") || len(c.Call.Args) != 2 {
		return nil, nil
	}
	if !p.ProvAt(c.Call.Args[0], "", c).HasParam(fn, 0, ".Proofs") || !p.ProvAt(c.Call.Args[1], "", c).HasParam(fn, 1, "") {
		return nil, nil
	}
	return c, c.Call.Args[1]
}
