package rules

import (
	"fmt"
	"sort"
	"strings"

	"golang.org/x/tools/go/ssa"

	"jklcheck/core"
)

const ntfPrefix = "notifications/Notification/"

func init() { registry["C18"] = c18 }

// prefixTyping implements C18/R1 (also used by C19/R2 and C05/R4).
func prefixTyping(r *core.Run, rule string) map[string]map[string][]string {
	p := r.Prog
	pt := p.PrefixTypes(consensusFuncs(p))
	names := sortedKeysOf(pt)
	for _, name := range names {
		ts := sortedKeysOf(pt[name])
		if len(ts) <= 1 {
			r.Ok(rule, "prefix-types:"+name, "", fmt.Sprintf("one type: %v", ts))
			continue
		}
		var where []string
		for _, t := range ts {
			where = append(where, t+" @ "+strings.Join(uniq(pt[name][t]), ", "))
		}
		r.Violation(rule, "prefix-types:"+name, "", fmt.Sprintf("store prefix %q holds %d different types %v: a record written as one type is decoded as another by readers of the prefix", name, len(ts), ts), where...)
	}
	// no prefix is a proper prefix of another within a module
	for _, a := range names {
		for _, b := range names {
			ma, mb := strings.SplitN(a, "/", 2), strings.SplitN(b, "/", 2)
			if a != b && ma[0] == mb[0] && ma[1] != "" && strings.HasPrefix(mb[1], ma[1]) {
				r.Violation(rule, "prefix-overlap:"+a+"<"+b, "", "one store prefix is a proper prefix of another under the same store key: iterating the shorter one yields the other's records")
			}
		}
	}
	r.Floor(rule, len(names), 20, "store prefixes")
	return pt
}

func uniq(xs []string) []string {
	m := map[string]bool{}
	for _, x := range xs {
		m[x] = true
	}
	out := sortedKeys(m)
	sort.Strings(out)
	return out
}

// blockPredicate: keeper bool function that only tests presence (Has) of a key in the notifications store built from its two arguments.
func blockPredicate(p *core.Program, fn *ssa.Function) bool {
	if fn == nil || fn.Blocks == nil || fn.Signature.Results().Len() != 1 {
		return false
	}
	ops := p.StoreOps(fn)
	if len(ops) != 1 || ops[0].Kind != "Has" || ops[0].Module+"/"+ops[0].Prefix != ntfPrefix {
		return false
	}
	comps := p.KeyComponents(ops[0].Key, ops[0].Instr)
	if len(comps) != 2 {
		return false
	}
	// components are the two string parameters in order
	n := len(fn.Params)
	a := p.ResolveToEntry(p.ProvAt(comps[0].Val, "", comps[0].At), fn).HasParam(fn, n-2, "")
	b := p.ResolveToEntry(p.ProvAt(comps[1].Val, "", comps[1].At), fn).HasParam(fn, n-1, "")
	// result is the Has result
	for _, blk := range fn.Blocks {
		if ret, ok := blk.Instrs[len(blk.Instrs)-1].(*ssa.Return); ok {
			if ret.Results[0] != ops[0].Instr.(ssa.Value) {
				return false
			}
		}
	}
	return a && b
}

func c18(r *core.Run) {
	p := r.Prog
	r.Explanation = "Static rules: (R1) for every store prefix of every module the set of types marshalled into it or decoded out of it is a singleton and no prefix is a proper prefix of another — the structural cause of 'blocking never makes an entry appear in an inbox'; (R2) the notification write lies behind blockPredicate(resolved recipient, signer)=false and the stored record's To/From/Time/Contents have exactly the provenance the property states; (R3) inbox deletion is keyed by the signer as inbox component; (R4) the only handler writing Notification-typed records is CreateNotification; (R5) the inbox listing iterates the key's leading component."
	r.Assumptions = []string{T1, T2, T4}
	r.NotDecided = []string{"value-level equality of listed entries over histories (follows from R1-R5 given T4)"}
	r.Rule("C18/R1", "prefix typing: one proto type per (store key, prefix); no prefix is a proper prefix of another under one store key")
	r.Rule("C18/R2", "send gate: the notification write is behind blockPredicate(recipient, signer)=false; To = the value tested; From ⊵ signer only; Time ⊵ Ctx.BlockTime only; Contents ⊵ msg.Contents only")
	r.Rule("C18/R3", "delete is recipient-only: the inbox (leading) component of the deleted key ⊵ signer only")
	r.Rule("C18/R4", "the only handler that writes Notification-typed records is notifications.MsgCreateNotification")
	r.Rule("C18/R6", "success implies the effect: a successful create has written the notification, a successful delete has deleted it")
	r.Rule("C18/R9", "blocking acts when a notification is sent, never afterwards: the block list is consulted (the block predicate, or a Has on a block key) only on the CreateNotification path and in the handlers that write the block list itself — no query, listing or deletion filters what is already in an inbox by the recipient's current block list")
	r.Rule("C18/R8", "what is stored is what was sent: the notifications record setters marshal their parameter unmodified and write on every path, and the module's key builders write each parameter into the key exactly once")
	r.Rule("C18/R7", "every listed sender is blocked: the loop over msg.ToBlock that writes the block entries is left only when the list is exhausted or by a failing return")
	r.Rule("C18/R5", "the inbox listing iterates the prefix '<address>/' and notification keys start with '<to>/'")
	prefixTyping(r, "C18/R1")
	r.Floor("C18/R8", settersFaithful(r, "C18/R8", "notifications")+keyBuildersFaithful(r, "C18/R8", "notifications"), 3, "notifications setters and key builders")
	hs, err := p.Handlers()
	if err != nil {
		r.Undecided("C18/R2", "handlers", "", err.Error())
		return
	}
	// R9: who may consult the block list
	{
		allowed := map[*ssa.Function]bool{}
		if hc := core.HandlerByKey(hs, "notifications.MsgCreateNotification"); hc != nil {
			for _, f := range p.Summary(hc.Fn).Funcs {
				allowed[f] = true
			}
		}
		// ... and the handlers that maintain the block list itself may read it (skip an entry that is already there)
		for _, h := range hs {
			if h.Module != "notifications" {
				continue
			}
			writesBlocks := false
			for _, o := range p.Summary(h.Fn).Store {
				if o.IsWrite() && o.Module+"/"+o.Prefix == ntfPrefix && len(p.KeyComponents(o.Key, o.Instr)) == 2 {
					writesBlocks = true
				}
			}
			if writesBlocks {
				for _, f := range p.Summary(h.Fn).Funcs {
					allowed[f] = true
				}
			}
		}
		nUse := 0
		for _, fn := range moduleFuncs(p, "notifications") {
			if p.IsGenerated(fn) || blockPredicate(p, fn) {
				continue
			}
			uses := ""
			allInstrs(fn, func(in ssa.Instruction) {
				if c, ok := in.(ssa.CallInstruction); ok {
					for _, cal := range p.Callees(c) {
						if blockPredicate(p, cal) {
							uses = p.InstrPos(in)
						}
					}
				}
			})
			for _, o := range p.StoreOps(fn) {
				// a Has on a block key (owner/blocked: two components; notification keys have three)
				if o.Kind == "Has" && o.Module+"/"+o.Prefix == ntfPrefix && len(p.KeyComponents(o.Key, o.Instr)) == 2 {
					uses = p.InstrPos(o.Instr)
				}
			}
			if uses == "" {
				continue
			}
			nUse++
			r.Check(allowed[fn], "C18/R9", core.FnName(fn)+":block-list-consulted-only-when-sending", uses, "on the CreateNotification path", "the recipient's block list is consulted outside the sending of a notification: a listing, query or deletion that looks at the current block list hides (or treats differently) entries that were delivered before the sender was blocked")
		}
		r.Floor("C18/R9", nUse, 1, "uses of the block predicate")
	}
	h := core.HandlerByKey(hs, "notifications.MsgCreateNotification")
	if h == nil {
		r.Undecided("C18/R2", "notifications.MsgCreateNotification:anchor-missing", "", "handler missing")
	} else {
		var tested ssa.Value
		var testedAt ssa.Instruction
		mk := func(unit *ssa.Function) core.GuardMatch {
			return callBoolGuard(p, func(call *ssa.Call, callees []*ssa.Function) bool {
				if len(callees) == 0 {
					// the block test written out in place: Has on the block key (recipient, signer)
					for _, o := range p.StoreOps(unit) {
						if o.Instr != ssa.Instruction(call) || o.Kind != "Has" || o.Module+"/"+o.Prefix != ntfPrefix {
							continue
						}
						comps := p.KeyComponents(o.Key, o.Instr)
						if len(comps) == 2 && p.OnlyMsgField(p.ProvAt(comps[1].Val, "", comps[1].At), h, "Creator") {
							tested, testedAt = comps[0].Val, call
							return true
						}
					}
					return false
				}
				if len(callees) != 1 || !blockPredicate(p, callees[0]) {
					return false
				}
				args := dataArgs(call)
				if len(args) != 2 || !p.OnlyMsgField(p.ProvAt(args[1], "", call), h, "Creator") {
					return false
				}
				tested, testedAt = args[0], call
				return true
			}, false)
		}
		guardRow(r, "C18/R2", h, "not-blocked", storeWrites("notifications", "Notification/"), mk, "blockPredicate(recipient, signer)=false")
		for _, e := range p.Effects(h.Fn) {
			call, ok := e.Instr.(ssa.CallInstruction)
			if !ok || len(e.Store) == 0 {
				continue
			}
			args := dataArgs(call)
			if len(args) != 1 {
				continue
			}
			rec := args[0]
			to := p.ResolveToEntry(p.ProvAt(rec, ".To", call), h.Fn)
			if tested != nil {
				tp := p.ResolveToEntry(p.ProvAt(tested, "", testedAt), h.Fn) // the test may sit in a helper
				dataKey := func(pr core.Prov) string {
					var ks []string
					for _, a := range pr.DataAtoms() {
						ks = append(ks, a.Key())
					}
					sort.Strings(ks)
					return strings.Join(ks, "|")
				}
				r.Check(dataKey(to) == dataKey(tp) && p.HasMsgField(to, h, "To"), "C18/R2", h.Key()+":to-is-tested-recipient", p.InstrPos(call), "To = resolved recipient tested against the block list", "the stored recipient differs from the address tested against the block list: "+to.String()+" vs "+tp.String())
			}
			r.Check(p.OnlyMsgField(p.ProvAt(rec, ".From", call), h, "Creator"), "C18/R2", h.Key()+":from-is-signer", p.InstrPos(call), "From ⊵ signer only", "stored sender is not the signer: "+p.ProvAt(rec, ".From", call).String())
			tm := p.ProvAt(rec, ".Time", call)
			r.Check(tm.HasCtx("BlockTime") && len(tm.DataAtoms()) == 1, "C18/R2", h.Key()+":time-is-blocktime", p.InstrPos(call), "Time ⊵ Ctx.BlockTime only", "stored time does not come from the block time only: "+tm.String())
			r.Check(p.OnlyMsgField(p.ProvAt(rec, ".Contents", call), h, "Contents"), "C18/R2", h.Key()+":contents", p.InstrPos(call), "Contents ⊵ msg.Contents only", "stored contents differ from the message contents: "+p.ProvAt(rec, ".Contents", call).String())
		}
	}
	if h != nil {
		successImplies(r, "C18/R6", h, "write of the notification", storeWrites("notifications", "Notification/"))
	}
	if hb := core.HandlerByKey(hs, "notifications.MsgBlockSenders"); hb != nil {
		loopNotLeftEarly(r, "C18/R7", hb, "the block entry write", storeWrites("notifications", "Notification/"))
	} else {
		r.Undecided("C18/R7", "notifications.MsgBlockSenders:anchor-missing", "", "handler missing")
	}
	if hd := core.HandlerByKey(hs, "notifications.MsgDeleteNotification"); hd != nil {
		successImplies(r, "C18/R6", hd, "delete of the notification", storeWrites("notifications", "Notification/"))
	}
	// R3
	if hd := core.HandlerByKey(hs, "notifications.MsgDeleteNotification"); hd == nil {
		r.Undecided("C18/R3", "notifications.MsgDeleteNotification:anchor-missing", "", "handler missing")
	} else {
		n := 0
		for _, o := range p.Summary(hd.Fn).Store {
			if o.Kind != "Delete" || o.Module+"/"+o.Prefix != ntfPrefix {
				continue
			}
			n++
			comps := p.KeyComponents(o.Key, o.Instr)
			ok, why := ownKey(p, p.ProvAt(comps[0].Val, "", comps[0].At), hd, 0)
			r.Check(ok && len(comps) == 3, "C18/R3", hd.Key()+":inbox-component-is-signer", p.InstrPos(o.Instr), "deleted key = signer/from/time", "a notification can be deleted from an inbox that is not the signer's: "+why)
		}
		if n == 0 {
			r.Undecided("C18/R3", hd.Key()+":delete", p.Pos(hd.Fn.Pos()), "no delete on the notifications prefix")
		}
	}
	// R4
	nw := 0
	for _, hh := range hs {
		for _, o := range p.Summary(hh.Fn).Store {
			if o.Kind != "Set" || o.Module+"/"+o.Prefix != ntfPrefix {
				continue
			}
			isNotif := false
			for _, t := range o.Types {
				if t == "x/notifications/types.Notification" {
					isNotif = true
				}
			}
			if !isNotif {
				continue
			}
			nw++
			r.Check(hh.Key() == "notifications.MsgCreateNotification", "C18/R4", hh.Key()+":writes-notification", p.InstrPos(o.Instr), "only the create handler writes notifications", "a handler other than CreateNotification can make a notification appear in an inbox")
		}
	}
	r.Floor("C18/R4", nw, 1, "notification writers")
	// R5
	var setKeyLead string
	for _, fn := range consensusFuncs(p) {
		for _, o := range p.StoreOps(fn) {
			if o.Module+"/"+o.Prefix != ntfPrefix {
				continue
			}
			if o.Kind == "Set" && len(o.Types) == 1 && o.Types[0] == "x/notifications/types.Notification" {
				comps := p.KeyComponents(o.Key, o.Instr)
				if len(comps) == 3 && comps[0].Verb == "%s" {
					setKeyLead = "%s/"
				}
			}
		}
	}
	nIt := 0
	for _, fn := range consensusFuncs(p) {
		for _, o := range p.StoreOps(fn) {
			if o.Module+"/"+o.Prefix != ntfPrefix || o.Kind != "Iterate" {
				continue
			}
			args := o.Instr.Common().Args
			if len(args) < 2 {
				continue
			}
			pre, complete, ok := p.ConstPrefix(args[1])
			if ok && complete && pre == "" {
				continue // whole-store iteration (genesis export)
			}
			// every partial scan of the notification prefix is an inbox listing: its prefix must be one whole leading
			// key component, i.e. "<address>/" (without the separator the scan also returns the entries of every
			// address that merely starts with the same characters)
			if !strings.Contains(core.CalleeFullName(o.Instr), "PrefixIterator") {
				continue // pagination helper over the whole store
			}
			// the prefix, or — when the scan sits in a shared helper that is handed the prefix — the prefixes handed in
			var prefixes []string
			if prm, isPrm := args[1].(*ssa.Parameter); isPrm {
				pi := -1
				for i, q := range fn.Params {
					if q == prm {
						pi = i
					}
				}
				for _, caller := range p.CG().In[fn] {
					allInstrs(caller, func(in ssa.Instruction) {
						c, isCall := in.(ssa.CallInstruction)
						if !isCall {
							return
						}
						for _, cal := range p.Callees(c) {
							if cal != fn {
								continue
							}
							cc := c.Common()
							var actuals []ssa.Value
							if cc.IsInvoke() {
								actuals = append(actuals, cc.Value)
							}
							actuals = append(actuals, cc.Args...)
							if pi >= 0 && pi < len(actuals) {
								prefixes = append(prefixes, core.NewTermBuilder(p).Term(actuals[pi]))
							}
						}
					})
				}
			} else {
				prefixes = []string{core.NewTermBuilder(p).Term(args[1])}
			}
			for _, t := range prefixes {
				if t == "alloc" || t == `""` || t == "nil" {
					continue // []byte{}: whole-store iteration
				}
				nIt++
				okPrefix := strings.HasPrefix(t, "concat(") && strings.HasSuffix(t, `,"/")`) && strings.Count(t, `"/"`) == 1
				r.Check(okPrefix && setKeyLead == "%s/", "C18/R5", core.FnName(fn)+":inbox-prefix", p.InstrPos(o.Instr), "inbox iteration prefix '<address>/' = leading key component", fmt.Sprintf("inbox listing prefix %s is not '<address>/' (the notification key's leading component is %q): entries of other inboxes are listed", t, setKeyLead))
			}
		}
	}
	r.Floor("C18/R5", nIt, 1, "inbox listings")
}

// formatOf returns the constant format of a Sprintf-built value ("" if not of that shape).
func formatOf(p *core.Program, v ssa.Value) string {
	for i := 0; i < 6; i++ {
		switch x := v.(type) {
		case *ssa.Convert:
			v = x.X
			continue
		case *ssa.Call:
			if c := x.Call.StaticCallee(); c != nil && c.String() == "fmt.Sprintf" {
				f, complete, ok := p.ConstPrefix(x.Call.Args[0])
				if ok && complete {
					return f
				}
			}
		}
		break
	}
	return ""
}
