package rules

import (
	"fmt"
	"go/types"
	"strings"

	"golang.org/x/tools/go/ssa"

	"jklcheck/core"
)

func init() { registry["C19"] = c19 }

func c19(r *core.Run) {
	p := r.Prog
	r.Explanation = "Static rules per custom module: W = store prefixes written (Set) on transaction / block paths, E = prefixes read under ExportGenesis, I = prefixes written under InitGenesis, all computed from the store-effect model over the call graph. Every record kind in W must be imported and exported (or be a derived index always co-written with an exported one); for every exported prefix the exported element type equals the type stored under it and the prefix holds a single type; every GenesisState field is both assigned by Export and consumed by Init. These are necessary conditions for a round trip to preserve state; value-level equality after a real round trip is not decided."
	r.Assumptions = []string{T4, T7}
	r.NotDecided = []string{"value-level equality of every record after a real export/import", "bank/auth module state (SDK)"}
	r.Rule("C19/R1", "completeness: every prefix written by transactions or block processing is written by InitGenesis and read by ExportGenesis, or is a derived index co-written with an exported prefix at every write site")
	r.Rule("C19/R2", "typed round trip: a prefix read by ExportGenesis and written by InitGenesis holds exactly one type (C18/R1 for that prefix)")
	r.Rule("C19/R4", "genesis validation: each duplicate-index map of GenesisState.Validate is used for exactly one record kind")
	r.Rule("C19/R5", "exhaustive export: no function reachable from ExportGenesis uses the SDK pagination helpers (bounded by a default page size), and every iterator loop there is left only when the iterator is exhausted (or by a panic)")
	r.Rule("C19/R6", "records read for export are decoded into a variable local to the iteration: the generated decoder does not reset its target, so a shared target exports records polluted with the previous record's repeated and empty-on-the-wire fields")
	r.Rule("C19/R7", "InitGenesis writes every element of every imported list: import loops are left only when the list is exhausted and no path through a loop body skips the write")
	r.Rule("C19/R8", "InitGenesis hands the genesis file's parameter set to SetParams as it is (no completion with defaults: proto3 cannot tell an absent field from an explicit zero)")
	r.Rule("C19/R9", "the record setters that InitGenesis (and every handler) writes through store exactly what they are handed, always: the parameter is marshalled unmodified and every path performs the write — a derived index that is skipped when its slot is occupied keeps a stale copy that a restart from genesis replaces")
	r.Rule("C19/R10", "the on-disk key layout of every module is the recorded one (canonical terms of the key builders): state written before a change of layout is not read back after it")
	r.Rule("C19/R11", "genesis validation accepts every parameter set governance can reach: Params.Validate of each module rejects only what one of the validators it calls rejects (the per-key validators of ParamSetPairs) — a cross-field or otherwise computed condition of its own makes an exported state unimportable")
	r.Rule("C19/R3", "field pairing: every GenesisState field is assigned in ExportGenesis and read in InitGenesis")
	nPV := 0
	for _, m := range core.CustomModules {
		if pv := p.FuncByName("x/"+m+"/types", "Params", "Validate"); pv != nil && pv.Blocks != nil {
			nPV++
			failsOnlyOnErrors(r, "C19/R11", []*ssa.Function{pv})
		}
	}
	r.Floor("C19/R11", nPV, 3, "Params.Validate functions")
	nLayouts := 0
	for _, m := range core.CustomModules {
		nLayouts += keyLayoutFrozen(r, "C19/R10", m)
	}
	r.Floor("C19/R10", nLayouts, 20, "key builders with a comparable layout")
	nSetters := 0
	for _, m := range core.CustomModules {
		nSetters += settersFaithful(r, "C19/R9", m)
	}
	r.Floor("C19/R9", nSetters, 12, "record setters")
	hs, err := p.Handlers()
	if err != nil {
		r.Undecided("C19/R1", "handlers", "", err.Error())
		return
	}
	bb, eb := p.BlockEntries()
	pt := p.PrefixTypes(consensusFuncs(p))
	nW := 0
	nIter := 0
	for _, m := range core.CustomModules {
		initFn, expFn := p.GenesisEntries(m)
		if initFn == nil || expFn == nil {
			r.Undecided("C19/R1", m+":genesis-anchor-missing", "", "InitGenesis/ExportGenesis not found")
			continue
		}
		r.Analysed(core.FnName(initFn), core.FnName(expFn))
		W := map[string][]string{}
		addW := func(fn *ssa.Function, who string) {
			for _, o := range p.Summary(fn).Store {
				if o.Kind == "Set" && o.Module == m {
					W[o.Prefix] = append(W[o.Prefix], who)
				}
			}
		}
		for _, h := range hs {
			addW(h.Fn, h.Key())
		}
		for _, fn := range append(bb, eb...) {
			addW(fn, core.FnName(fn))
		}
		E, I := map[string]bool{}, map[string]bool{}
		for _, o := range p.Summary(expFn).Store {
			if o.Module == m && (o.Kind == "Iterate" || o.Kind == "Get") {
				E[o.Prefix] = true
			}
		}
		for _, o := range p.Summary(initFn).Store {
			if o.Module == m && o.Kind == "Set" {
				I[o.Prefix] = true
			}
		}
		for _, pre := range sortedKeysOf(W) {
			nW++
			name := m + "/" + pre
			writers := strings.Join(uniq(W[pre]), ", ")
			switch {
			case I[pre] && E[pre]:
				r.Ok("C19/R1", "genesis-covers:"+name, "", "written by {"+writers+"}; exported and imported")
			case I[pre] && !E[pre] && derivedIndex(p, m, pre, E):
				r.Ok("C19/R1", "genesis-covers:"+name, "", "derived index: co-written with an exported prefix at every write site; rebuilt by InitGenesis")
			default:
				miss := []string{}
				if !E[pre] {
					miss = append(miss, "ExportGenesis never reads it")
				}
				if !I[pre] {
					miss = append(miss, "InitGenesis never writes it")
				}
				r.Violation("C19/R1", "genesis-omits:"+name, p.Pos(expFn.Pos()), fmt.Sprintf("records under %q are written by {%s} but %s: export followed by import loses them", name, writers, strings.Join(miss, " and ")))
			}
		}
		// R5 exhaustive enumeration on the export path
		nIter += exhaustiveEnumeration(r, "C19/R5", m, p.Summary(expFn).Funcs)
		// R2
		for _, pre := range sortedKeys(E) {
			if !I[pre] {
				continue
			}
			name := m + "/" + pre
			ts := sortedKeysOf(pt[name])
			if len(ts) > 1 {
				r.Violation("C19/R2", "genesis-mistyped:"+name, p.Pos(expFn.Pos()), fmt.Sprintf("prefix %q is exported and imported as one type but holds %v: the other kind is exported mangled or lost", name, ts))
			} else {
				r.Ok("C19/R2", "genesis-typed:"+name, "", fmt.Sprintf("single type %v", ts))
			}
		}
		// R3
		gs := p.NamedType("x/"+m+"/types", "GenesisState")
		if gs == nil {
			r.Undecided("C19/R3", m+":GenesisState", "", "type not found")
			continue
		}
		st := gs.Underlying().(*types.Struct)
		assigned, read := map[string]bool{}, map[string]bool{}
		// only assignments made by ExportGenesis itself from keeper reads count (DefaultGenesis fills constants)
		assignIn := func(in ssa.Instruction) {
			if s, ok := in.(*ssa.Store); ok {
				if fa, ok := s.Addr.(*ssa.FieldAddr); ok && core.TypeName(fa.X.Type()) == "x/"+m+"/types.GenesisState" {
					if _, isCall := s.Val.(*ssa.Call); isCall {
						assigned[core.FieldName(fa.X.Type(), fa.Field)] = true
					}
				}
			}
		}
		allInstrs(expFn, assignIn)
		// ... or by a helper ExportGenesis delegates to and whose result it returns
		for _, f := range p.Summary(expFn).Funcs {
			if f != expFn && core.ModuleOf(f) == m && f.Signature.Results().Len() == 1 && core.TypeName(f.Signature.Results().At(0).Type()) == "x/"+m+"/types.GenesisState" {
				allInstrs(f, assignIn)
			}
		}
		readIn := func(in ssa.Instruction) {
			switch x := in.(type) {
			case *ssa.FieldAddr:
				if core.TypeName(x.X.Type()) == "x/"+m+"/types.GenesisState" {
					read[core.FieldName(x.X.Type(), x.Field)] = true
				}
			case *ssa.Field:
				if core.TypeName(x.X.Type()) == "x/"+m+"/types.GenesisState" {
					read[core.FieldName(x.X.Type(), x.Field)] = true
				}
			}
		}
		// InitGenesis itself and the helpers it hands the genesis state to
		for _, f := range p.Summary(initFn).Funcs {
			allInstrs(f, readIn)
		}
		allInstrs(initFn, readIn)
		for i := 0; i < st.NumFields(); i++ {
			f := st.Field(i).Name()
			if strings.HasPrefix(f, "XXX_") {
				continue
			}
			ok := assigned[f] && read[f]
			r.Check(ok, "C19/R3", m+":GenesisState."+f, p.Pos(expFn.Pos()), "assigned by Export and consumed by Init",
				fmt.Sprintf("genesis field %s.%s: assigned by ExportGenesis=%v, consumed by InitGenesis=%v", m, f, assigned[f], read[f]))
		}
	}
	r.Floor("C19/R1", nW, 18, "record kinds written by transactions")
	// R8 the imported parameter set is stored verbatim
	for _, m := range core.CustomModules {
		initFn, _ := p.GenesisEntries(m)
		if initFn == nil {
			continue
		}
		nSet := 0
		for _, fn := range p.Summary(initFn).Funcs {
			allInstrs(fn, func(in ssa.Instruction) {
				c, ok := in.(ssa.CallInstruction)
				if !ok {
					return
				}
				// InitGenesis itself, or a helper it hands its genesis state to unchanged
				gsParam := func(f *ssa.Function) (*ssa.Parameter, int) {
					for i, prm := range f.Params {
						if core.TypeName(prm.Type()) == "x/"+m+"/types.GenesisState" {
							return prm, i
						}
					}
					return nil, -1
				}
				if fn != initFn {
					hp, hi := gsParam(fn)
					ip, _ := gsParam(initFn)
					if hp == nil || ip == nil {
						return
					}
					handed := false
					allInstrs(initFn, func(in2 ssa.Instruction) {
						c2, isCall := in2.(ssa.CallInstruction)
						if !isCall {
							return
						}
						for _, cal := range p.Callees(c2) {
							if cal != fn {
								continue
							}
							cc := c2.Common()
							var actuals []ssa.Value
							if cc.IsInvoke() {
								actuals = append(actuals, cc.Value)
							}
							actuals = append(actuals, cc.Args...)
							if hi < len(actuals) {
								a := actuals[hi]
								if ld, isLd := a.(*ssa.UnOp); isLd {
									if al, isAl := ld.X.(*ssa.Alloc); isAl {
										for _, ref := range *al.Referrers() {
											if st, isSt := ref.(*ssa.Store); isSt && st.Addr == al {
												a = st.Val
											}
										}
									}
								}
								if a == ssa.Value(ip) {
									handed = true
								}
							}
						}
					})
					if !handed {
						return
					}
				}
				for _, cal := range p.Callees(c) {
					if cal.Name() != "SetParams" || core.ModuleOf(cal) != m {
						continue
					}
					nSet++
					args := dataArgs(c)
					t := core.NewTermBuilder(p).Term(args[len(args)-1])
					okV := false
					var base ssa.Value
					switch x := args[len(args)-1].(type) {
					case *ssa.Field:
						if core.FieldName(x.X.Type(), x.Field) == "Params" {
							base = x.X
						}
					case *ssa.UnOp:
						if fa, ok := x.X.(*ssa.FieldAddr); ok && core.FieldName(fa.X.Type(), fa.Field) == "Params" {
							base = fa.X
						}
					}
					if al, ok := base.(*ssa.Alloc); ok {
						// the by-value genesis parameter spilled to a local
						n := 0
						for _, ref := range *al.Referrers() {
							if st, ok := ref.(*ssa.Store); ok && st.Addr == al {
								n++
								base = st.Val
							}
						}
						if n != 1 {
							base = nil
						}
					}
					if prm, ok := base.(*ssa.Parameter); ok && prm.Parent() == fn {
						okV = true
					}
					r.Check(okV, "C19/R8", m+":import-params-verbatim", p.InstrPos(c), "SetParams(genState.Params)", "InitGenesis stores "+t+" instead of the genesis file's parameter set as it is: a parameter that is legitimately 0 / empty comes back as a default after export and import")
				}
			})
		}
		if nSet == 0 {
			r.Undecided("C19/R8", m+":import-params-verbatim", p.Pos(initFn.Pos()), "InitGenesis does not call the module's SetParams directly")
		}
	}
	// R7 import writes every element
	nImp := 0
	for _, m := range core.CustomModules {
		nImp += genesisImportsAll(r, "C19/R7", m)
	}
	r.Floor("C19/R7", nImp, 15, "import loops")
	// R6 exported records are decoded into fresh variables
	var expFuncs []*ssa.Function
	seenF := map[*ssa.Function]bool{}
	for _, m := range core.CustomModules {
		if _, expFn := p.GenesisEntries(m); expFn != nil {
			for _, fn := range p.Summary(expFn).Funcs {
				if !seenF[fn] {
					seenF[fn] = true
					expFuncs = append(expFuncs, fn)
				}
			}
		}
	}
	staleDecodeTargets(r, "C19/R6", expFuncs)
	r.Floor("C19/R5", nIter, 10, "iterator loops on export paths")
	// ---- R4 genesis validation keeps one duplicate-index map per record kind
	nMaps := 0
	for _, m := range core.CustomModules {
		vf := p.FuncByName("x/"+m+"/types", "GenesisState", "Validate")
		if vf == nil || vf.Blocks == nil {
			continue
		}
		r.Analysed(core.FnName(vf))
		uses := map[*ssa.MakeMap]map[string]bool{}
		note := func(mv ssa.Value, key ssa.Value, at ssa.Instruction) {
			mm, ok := mv.(*ssa.MakeMap)
			if !ok {
				return
			}
			if uses[mm] == nil {
				uses[mm] = map[string]bool{}
			}
			for _, a := range p.ProvAt(key, "", at).DataAtoms() {
				if a.Kind == "param" && a.Idx == 0 {
					f := strings.TrimPrefix(a.Path, ".")
					if i := strings.Index(f, "["); i >= 0 {
						f = f[:i]
					}
					uses[mm][f] = true
				}
			}
		}
		allInstrs(vf, func(in ssa.Instruction) {
			switch x := in.(type) {
			case *ssa.Lookup:
				note(x.X, x.Index, x)
			case *ssa.MapUpdate:
				note(x.Map, x.Key, x)
			case ssa.CallInstruction:
				// a duplicate-check helper that keeps its own map (hasDuplicateKey(list, keyOf)): the map lives for one
				// call, so it serves the record kinds handed in at this call
				for _, cal := range p.Callees(x) {
					if cal.Blocks == nil || !core.IsCustomFn(cal) {
						continue
					}
					ownMap := false
					allInstrs(cal, func(hin ssa.Instruction) {
						if lk, ok := hin.(*ssa.Lookup); ok {
							if _, isMk := lk.X.(*ssa.MakeMap); isMk && lk.CommaOk {
								ownMap = true
							}
						}
					})
					if !ownMap {
						continue
					}
					fs := map[string]bool{}
					for _, a := range x.Common().Args {
						for _, at := range p.ProvAt(a, "", x).DataAtoms() {
							if at.Kind == "param" && at.Fn == vf && at.Idx == 0 {
								f := strings.TrimPrefix(at.Path, ".")
								if j := strings.Index(f, "["); j >= 0 {
									f = f[:j]
								}
								fs[f] = true
							}
						}
					}
					if len(fs) == 0 {
						continue
					}
					nMaps++
					r.Check(len(fs) == 1, "C19/R4", fmt.Sprintf("%s:validate:index-map-per-kind:%s", m, strings.Join(sortedKeys(fs), "+")), p.InstrPos(x),
						"duplicate-index map (local to the helper called here) used for one record kind", "GenesisState.Validate checks duplicates of different record kinds ("+strings.Join(sortedKeys(fs), ", ")+") in one shared map")
				}
				// a duplicate-check helper taking (map, key): attribute its map operations to this call site
				for _, cal := range p.Callees(x) {
					allInstrs(cal, func(hin ssa.Instruction) {
						var mv, kv ssa.Value
						switch y := hin.(type) {
						case *ssa.Lookup:
							mv, kv = y.X, y.Index
						case *ssa.MapUpdate:
							mv, kv = y.Map, y.Key
						default:
							return
						}
						prm, ok := mv.(*ssa.Parameter)
						if !ok {
							return
						}
						for i, pp := range cal.Params {
							if pp == prm && i < len(x.Common().Args) {
								mm, isMk := x.Common().Args[i].(*ssa.MakeMap)
								if !isMk {
									continue
								}
								if uses[mm] == nil {
									uses[mm] = map[string]bool{}
								}
								for _, a := range p.ResolveAlong(p.ProvAt(kv, "", hin), []ssa.CallInstruction{x}).DataAtoms() {
									if a.Kind == "param" && a.Fn == vf && a.Idx == 0 {
										f := strings.TrimPrefix(a.Path, ".")
										if j := strings.Index(f, "["); j >= 0 {
											f = f[:j]
										}
										uses[mm][f] = true
									}
								}
							}
						}
					})
				}
			}
		})
		for mm, fs := range uses {
			nMaps++
			r.Check(len(fs) == 1, "C19/R4", fmt.Sprintf("%s:validate:index-map-per-kind:%s", m, strings.Join(sortedKeys(fs), "+")), p.InstrPos(mm),
				"duplicate-index map used for one record kind", "GenesisState.Validate checks duplicates of different record kinds ("+strings.Join(sortedKeys(fs), ", ")+") in one shared map: an exported genesis in which two kinds share a key (e.g. a provider that also owns a storage plan) is rejected, so export->validate->import fails")
		}
	}
	r.Floor("C19/R4", nMaps, 6, "duplicate-index maps in genesis validation")
}

// derivedIndex: every call site that Sets module/prefix also Sets, at the same site, some exported prefix of the module.
func derivedIndex(p *core.Program, m, pre string, exported map[string]bool) bool {
	ok := false
	for _, fn := range consensusFuncs(p) {
		for _, e := range p.Effects(fn) {
			if !effHas(e, "Set", m+"/"+pre) {
				continue
			}
			if e.Direct {
				continue
			}
			co := false
			for q := range exported {
				if q != pre && effHas(e, "Set", m+"/"+q) {
					co = true
				}
			}
			if !co {
				// a single-index site: acceptable only if paired in the same function (C17/R1 judges the pairing)
				paired := false
				for _, e2 := range p.Effects(fn) {
					for q := range exported {
						if e2 != e && effHas(e2, "Set", m+"/"+q) && pairedOnAllPaths(p, fn, e.Instr, e2.Instr) {
							paired = true
						}
					}
				}
				if !paired {
					return false
				}
			}
			ok = true
		}
	}
	return ok
}

// endsInPanicOrFailure: control entering b runs straight into a panic or a failing return (non-nil error).
func endsInPanicOrFailure(p *core.Program, fn *ssa.Function, b *ssa.BasicBlock) bool {
	for hops := 0; hops < 8; hops++ {
		switch last := b.Instrs[len(b.Instrs)-1].(type) {
		case *ssa.Panic:
			return true
		case *ssa.Return:
			for _, ri := range p.Returns(fn) {
				if ri.Ret == last {
					return ri.Class == core.RetFail
				}
			}
			return false
		case *ssa.Jump:
			b = b.Succs[0]
		default:
			return false
		}
	}
	return false
}
