package rules

import (
	"fmt"
	"regexp"
	"strings"

	"golang.org/x/tools/go/ssa"

	"jklcheck/core"
)

func init() { registry["C20"] = c20 }

var plainUserArg = regexp.MustCompile(`^(P\d+|elem\(P\d+(,[^()]*)?\)|[^()]*Flags\(\)[^()]*\.GetString\([^()]*\)(#0)?|[^(]*GetString\(.*\)(#0)?)$`)

const foldStepTerm = "hex(sha256.New(concat(P0,P1)))"

// isFoldStep: fn(a, b) = hex(SHA256(a ‖ b)).
func isFoldStep(p *core.Program, fn *ssa.Function) (string, bool) {
	if fn == nil || fn.Blocks == nil || len(fn.Params) != 2 {
		return "", false
	}
	var ret *ssa.Return
	n := 0
	for _, b := range fn.Blocks {
		if r, ok := b.Instrs[len(b.Instrs)-1].(*ssa.Return); ok {
			ret, n = r, n+1
		}
	}
	if n != 1 || len(ret.Results) != 1 {
		return "", false
	}
	t := core.NewTermBuilder(p).Term(ret.Results[0])
	return t, t == foldStepTerm
}

func c20(r *core.Run) {
	p := r.Prog
	r.Explanation = "Expression-DAG equivalence (value numbering of pure string/byte builders into canonical terms; fmt.Sprintf split by its constant format, %x ≡ hex, hash objects folded New→Write*→Sum into H(concat ...)); the update term of the loop-carried value of the path hasher equals the one-step combiner applied to the accumulator and the hex SHA-256 of the segment, the fold starts from the empty string and iterates Split(TrimSuffix(path,\"/\"),\"/\"); the file-tree post handler stores, returns and hashes the owner with one value produced by that combiner from (msg.HashParent, msg.HashChild); the root folder uses the path hasher on a constant. No path enumeration, no solver. Injectivity (collision resistance) is not decided."
	r.Assumptions = []string{"SHA-256 collision resistance", T5}
	r.NotDecided = []string{"distinct segment sequences give distinct addresses (collision resistance / separator injectivity)"}
	r.Rule("C20/R1", "fold-step agreement: step(total, seg) of the path hasher's loop ≡ combiner(total, hex(SHA256(seg))) as terms; the fold starts from \"\" and iterates Split(TrimSuffix(path, \"/\"), \"/\")")
	r.Rule("C20/R4", "client commands hash the path they are given: every call of the path hasher in x/filetree/client is handed the user's argument, cut at most by a trailing \"/\" (no re-encoding, no other rewriting)")
	r.Rule("C20/R3", "client-side splitters (string -> parent address, child hash) in x/filetree derive both parts from the hasher's own segmentation: only segment-preserving primitives (TrimSuffix, Split, Join, index/slice, len, SHA-256, hex) and, in the Split/Join idiom, exactly segments[:n-1] and segments[n-1]; or they delegate to another checked splitter")
	r.Rule("C20/R2", "posting uses that step: the stored Address, the returned Path and the owner-hash input are one value = combiner(msg.HashParent, msg.HashChild); the root address is the path hasher of a constant")
	// find combiner and path hasher in x/filetree/types by shape
	var combiner, hasher *ssa.Function
	var hasherPhi *ssa.Phi
	for _, fn := range p.Funcs {
		if core.RelPkg(core.FnPkgPath(fn)) != "x/filetree/types" || p.IsGenerated(fn) || fn.Synthetic != "" {
			continue
		}
		if _, ok := isFoldStep(p, fn); ok {
			combiner = fn
		}
		// path hasher: one string param, returns a loop-carried string phi
		if len(fn.Params) == 1 && fn.Signature.Results().Len() == 1 && fn.Signature.Results().At(0).Type().String() == "string" {
			for _, b := range fn.Blocks {
				if ret, ok := b.Instrs[len(b.Instrs)-1].(*ssa.Return); ok {
					if ph, ok := ret.Results[0].(*ssa.Phi); ok && core.InCycle(ph.Block()) {
						hasher, hasherPhi = fn, ph
					}
				}
			}
		}
	}
	// the fold may be delegated to a higher-order helper: fold(items, initial, step) with a loop acc = step(acc, item)
	var foldUpdate, foldInit string
	if hasher == nil {
		for _, fn := range p.Funcs {
			if core.RelPkg(core.FnPkgPath(fn)) != "x/filetree/types" || p.IsGenerated(fn) || fn.Synthetic != "" {
				continue
			}
			if len(fn.Params) != 1 || fn.Params[0].Type().String() != "string" || fn.Signature.Results().Len() != 1 || fn.Signature.Results().At(0).Type().String() != "string" {
				continue
			}
			for _, b := range fn.Blocks {
				ret, ok := b.Instrs[len(b.Instrs)-1].(*ssa.Return)
				if !ok {
					continue
				}
				call, ok := ret.Results[0].(*ssa.Call)
				if !ok {
					continue
				}
				if ut, it, ok := foldThroughHelper(p, call); ok {
					hasher, foldUpdate, foldInit = fn, ut, it
				}
			}
		}
	}
	if combiner == nil {
		r.Violation("C20/R1", "filetree:combiner", "", "no function of shape hex(SHA256(a ‖ b)) in x/filetree/types (one fold step)")
		return
	}
	r.Analysed(core.FnName(combiner))
	r.Ok("C20/R1", "filetree:combiner", p.Pos(combiner.Pos()), "combiner(a,b) = "+foldStepTerm)
	if hasher == nil {
		r.Violation("C20/R1", "filetree:path-hasher", "", "no path hasher (string -> loop-carried string) in x/filetree/types")
	} else if hasherPhi == nil {
		r.Analysed(core.FnName(hasher))
		segTerm := `elem(strings.Split(strings.TrimSuffix(P0,"/"),"/"))`
		want := strings.Replace(strings.Replace(foldStepTerm, "P0", "ACC", 1), "P1", "hex(sha256.New("+segTerm+"))", 1)
		r.Check(foldUpdate == want, "C20/R1", "filetree:fold-step≡combiner", p.Pos(hasher.Pos()), "update term = "+foldUpdate, "the path hasher's fold step is not combiner(total, hex(SHA256(segment))) over Split(TrimSuffix(path,\"/\"),\"/\"): got "+foldUpdate+" want "+want)
		r.Check(foldInit == `""`, "C20/R1", "filetree:fold-start", p.Pos(hasher.Pos()), "fold starts from the empty string", "the fold does not start from the empty string: "+foldInit)
	} else {
		r.Analysed(core.FnName(hasher))
		var init, update ssa.Value
		for i, e := range hasherPhi.Edges {
			pred := hasherPhi.Block().Preds[i]
			if core.SameLoop(pred, hasherPhi.Block()) {
				update = e
			} else {
				init = e
			}
		}
		tb := core.NewTermBuilder(p)
		tb.Names[hasherPhi] = "ACC"
		ut := tb.Term(update)
		segTerm := `elem(strings.Split(strings.TrimSuffix(P0,"/"),"/"))`
		want := strings.Replace(strings.Replace(foldStepTerm, "P0", "ACC", 1), "P1", "hex(sha256.New("+segTerm+"))", 1)
		r.Check(ut == want, "C20/R1", "filetree:fold-step≡combiner", p.Pos(hasher.Pos()), "update term = "+ut, "the path hasher's fold step is not combiner(total, hex(SHA256(segment))) over Split(TrimSuffix(path,\"/\"),\"/\"): got "+ut+" want "+want)
		it := core.NewTermBuilder(p).Term(init)
		r.Check(it == `""`, "C20/R1", "filetree:fold-start", p.Pos(hasher.Pos()), "fold starts from the empty string", "the fold does not start from the empty string: "+it)
	}
	// R4 client-side callers of the hasher hand it the user's path
	if hasher != nil {
		nCalls := 0
		for _, fn := range p.Funcs {
			if !strings.HasPrefix(core.RelPkg(core.FnPkgPath(fn)), "x/filetree/client") || p.IsGenerated(fn) {
				continue
			}
			allInstrs(fn, func(in ssa.Instruction) {
				c, ok := in.(*ssa.Call)
				if !ok || len(c.Call.Args) != 1 {
					return
				}
				isHasher := false
				for _, cal := range p.Callees(c) {
					if cal == hasher {
						isHasher = true
					}
					// ... or a splitter: a filetree function of one readable path that hashes it (merkleHelper)
					if cal != fn && len(cal.Params) == 1 && cal.Params[0].Type().String() == "string" && strings.HasPrefix(core.RelPkg(core.FnPkgPath(cal)), "x/filetree") {
						for _, g := range p.Summary(cal).Funcs {
							if g == hasher || (combiner != nil && g == combiner) {
								isHasher = true
							}
						}
					}
				}
				if !isHasher {
					return
				}
				nCalls++
				tb := core.NewTermBuilder(p)
				term := tb.Term(c.Call.Args[0])
				rest := term
				for strings.HasPrefix(rest, "strings.TrimSuffix(") && strings.HasSuffix(rest, `,"/")`) {
					rest = rest[len("strings.TrimSuffix(") : len(rest)-len(`,"/")`)]
				}
				// what remains is the user's argument: a parameter, an element of the argument list, a flag value
				plain := !strings.Contains(rest, "runes(") && !strings.Contains(rest, "strings.") && !strings.Contains(rest, "concat(") && !strings.Contains(rest, "alt(") && !strings.Contains(rest, "⊤")
				// positively: a parameter, an element of the argument list, or a flag value — not the result of any other call
				if plain && !plainUserArg.MatchString(rest) {
					plain = false
				}
				r.Check(plain, "C20/R4", core.FnName(fn)+":hashes-the-given-path", p.InstrPos(c), "MerklePath("+term+")",
					"a client command hashes "+term+" instead of the path it was given (cut at most by one trailing \"/\"): for paths where the two differ the address it puts into the message is not the one the chain stores the entry under")
			})
		}
		r.Floor("C20/R4", nCalls, 1, "client-side calls of the path hasher")
	}
	// R3 client-side splitters: (parent address, child hash) derived from one readable path
	if hasher != nil {
		nSplit := 0
		S := `strings.Split(strings.TrimSuffix(P0,"/"),"/")`
		last := "(len(" + S + ")-1)"
		splitters := map[*ssa.Function]bool{}
		for _, fn := range p.Funcs {
			if !strings.HasPrefix(core.RelPkg(core.FnPkgPath(fn)), "x/filetree") || core.IsTestSupportPkg(core.FnPkgPath(fn)) || p.IsGenerated(fn) || fn.Synthetic != "" {
				continue
			}
			res := fn.Signature.Results()
			if len(fn.Params) != 1 || fn.Params[0].Type().String() != "string" || res.Len() != 2 || res.At(0).Type().String() != "string" || res.At(1).Type().String() != "string" {
				continue
			}
			splitters[fn] = true
		}
		for _, fn := range core.SortedFuncs(splitters) {
			for _, b := range fn.Blocks {
				ret, ok := b.Instrs[len(b.Instrs)-1].(*ssa.Return)
				if !ok {
					continue
				}
				nSplit++
				r.Analysed(core.FnName(fn))
				construct := "filetree:splitter:" + core.FnName(fn)
				// delegation to another splitter with the unchanged path
				if e0, ok := ret.Results[0].(*ssa.Extract); ok {
					if e1, ok := ret.Results[1].(*ssa.Extract); ok && e0.Tuple == e1.Tuple && e0.Index == 0 && e1.Index == 1 {
						if c, ok := e0.Tuple.(*ssa.Call); ok && len(p.Callees(c)) == 1 && splitters[p.Callees(c)[0]] && len(c.Call.Args) == 1 && c.Call.Args[0] == ssa.Value(fn.Params[0]) {
							r.Ok("C20/R3", construct, p.Pos(fn.Pos()), "delegates to "+core.FnName(p.Callees(c)[0])+" with the unchanged path")
							continue
						}
					}
				}
				tb := core.NewTermBuilder(p)
				tb.Bounds = true
				child := tb.Term(ret.Results[1])
				wantChild := "hex(sha256.New(elem(" + S + "," + last + ")))"
				// parent: the hasher's fold over all segments but the last
				ph, isPhi := ret.Results[0].(*ssa.Phi)
				if fc, isCall := ret.Results[0].(*ssa.Call); isCall {
					// the fold delegated to a higher-order helper: fold(segments[:n-1], "", step)
					if ut, it, okF := foldThroughHelperB(p, fc, true); okF {
						okParent := false
						for _, lo := range []string{"0", ""} {
							seg := "hex(sha256.New(elem(slice(" + S + "," + lo + "," + last + "))))"
							if ut == strings.Replace(strings.Replace(foldStepTerm, "P0", "ACC", 1), "P1", seg, 1) {
								okParent = true
							}
						}
						r.Check(okParent && it == `""` && child == wantChild, "C20/R3", construct, p.Pos(fn.Pos()),
							"parent = fold of combiner over segments[:n-1] starting from \"\", child = hex(SHA256(segments[n-1])), over the hasher's own segmentation",
							"the splitter does not cut the hasher's segmentation into (fold of all but the last segment, hash of the last segment): parent step="+ut+" start="+it+" child="+child)
						continue
					}
				}
				if !isPhi || !core.InCycle(ph.Block()) {
					reparsed := ""
					allInstrs(fn, func(in ssa.Instruction) {
						if c, ok := in.(*ssa.Call); ok {
							for _, cal := range p.Callees(c) {
								if cal == hasher {
									reparsed = tb.Term(c.Call.Args[0])
								}
							}
						}
					})
					if reparsed != "" {
						r.Violation("C20/R3", construct, p.Pos(fn.Pos()), "the parent address is the path hasher applied to a re-assembled parent string ("+reparsed+"): the hasher trims a trailing '/' and never sees zero segments, so an empty last parent segment (\"a//c\") is dropped and a one-segment path (\"s\") gets the one-empty-segment parent — AddToMerkle(parent, child) differs from the address of the plain path")
					} else {
						r.Violation("C20/R3", construct, p.Pos(fn.Pos()), "the parent address is not the hasher's fold over the leading segments: "+tb.Term(ret.Results[0]))
					}
					continue
				}
				var init, update ssa.Value
				for i, e := range ph.Edges {
					if core.SameLoop(ph.Block().Preds[i], ph.Block()) {
						update = e
					} else {
						init = e
					}
				}
				tb.Names[ph] = "ACC"
				ut, it := tb.Term(update), tb.Term(init)
				okParent := false
				for _, lo := range []string{"0", ""} {
					seg := "hex(sha256.New(elem(slice(" + S + "," + lo + "," + last + "))))"
					if ut == strings.Replace(strings.Replace(foldStepTerm, "P0", "ACC", 1), "P1", seg, 1) {
						okParent = true
					}
				}
				r.Check(okParent && it == `""` && child == wantChild, "C20/R3", construct, p.Pos(fn.Pos()),
					"parent = fold of combiner over segments[:n-1] starting from \"\", child = hex(SHA256(segments[n-1])), over the hasher's own segmentation",
					"the splitter does not cut the hasher's segmentation into (fold of all but the last segment, hash of the last segment): parent step="+ut+" start="+it+" child="+child)
			}
		}
		r.Floor("C20/R3", nSplit, 2, "path splitters")
	}
	// R2
	hs, err := p.Handlers()
	if err != nil {
		r.Undecided("C20/R2", "handlers", "", err.Error())
		return
	}
	if h := core.HandlerByKey(hs, "filetree.MsgPostFile"); h == nil {
		r.Undecided("C20/R2", "filetree.MsgPostFile:anchor-missing", "", "handler missing")
	} else {
		// the unit that applies the combiner: the handler itself or a helper it calls (then hop is that call)
		var step, hop *ssa.Call
		unit := h.Fn
		allInstrs(h.Fn, func(in ssa.Instruction) {
			c, ok := in.(*ssa.Call)
			if !ok {
				return
			}
			for _, cal := range p.Callees(c) {
				if cal == combiner {
					step, unit, hop = c, h.Fn, nil
				}
			}
		})
		if step == nil {
			allInstrs(h.Fn, func(in ssa.Instruction) {
				c, ok := in.(*ssa.Call)
				if !ok || step != nil {
					return
				}
				for _, g := range p.Callees(c) {
					if g == combiner || g.Blocks == nil || core.ModuleOf(g) != "filetree" {
						continue
					}
					allInstrs(g, func(in2 ssa.Instruction) {
						if c2, ok := in2.(*ssa.Call); ok {
							for _, cal := range p.Callees(c2) {
								if cal == combiner {
									step, unit, hop = c2, g, c
								}
							}
						}
					})
				}
			})
		}
		if step == nil {
			r.Violation("C20/R2", h.Key()+":uses-combiner", p.Pos(h.Fn.Pos()), "the post handler does not derive the entry address with the one-step combiner")
		} else {
			a := dataArgs(step)
			// the message fields themselves: not a value chosen between the field and something else (a default parent)
			outer := core.NewTermBuilder(p)
			tbc := outer
			if hop != nil {
				tbc = core.NewTermBuilder(p)
				tbc.Bind = map[*ssa.Parameter]core.BoundVal{}
				hc := hop.Common()
				var actuals []ssa.Value
				if hc.IsInvoke() {
					actuals = append(actuals, hc.Value)
				}
				actuals = append(actuals, hc.Args...)
				for i, prm := range unit.Params {
					if i < len(actuals) {
						tbc.Bind[prm] = core.BoundVal{Val: actuals[i], TB: outer}
					}
				}
			}
			mp := fmt.Sprintf("P%d", h.MsgIdx)
			ok := len(a) == 2 && p.OnlyMsgField(p.ProvAt(a[0], "", step), h, "HashParent") && p.OnlyMsgField(p.ProvAt(a[1], "", step), h, "HashChild") &&
				tbc.Term(a[0]) == mp+".HashParent" && tbc.Term(a[1]) == mp+".HashChild"
			r.Check(ok, "C20/R2", h.Key()+":combiner-arguments", p.InstrPos(step), "combiner(msg.HashParent, msg.HashChild)", "the entry address is not combiner(msg.HashParent, msg.HashChild), the two message fields as they are, in that order (a substituted parent — e.g. the root folder for an empty HashParent — files a one-segment path under another path's address)")
			// isStep: v is the combiner's result, in the unit or (in the handler) the unit's result that carries it
			stepTerm := tbc.Term(step)
			isStep := func(v ssa.Value) bool {
				if core.SameValue(v, step) {
					return true
				}
				// the same value carried in a field of a local record or of the record a helper returns: equal terms
				tb := outer
				if vi, isIn := v.(ssa.Instruction); isIn && hop != nil && vi.Parent() == unit {
					tb = tbc
				}
				if t := tb.Term(v); t == stepTerm && !strings.Contains(t, "⊤") && !strings.Contains(t, "φ") {
					return true
				}
				if hop != nil {
					// the unit's single result, when every return of the unit hands back the combiner's result
					if core.SameValue(v, hop) && unit.Signature.Results().Len() == 1 {
						for _, b := range unit.Blocks {
							if ret, ok := b.Instrs[len(b.Instrs)-1].(*ssa.Return); ok && !core.SameValue(ret.Results[0], step) {
								return false
							}
						}
						return true
					}
					if ex, ok := v.(*ssa.Extract); ok && ex.Tuple == ssa.Value(hop) {
						for _, b := range unit.Blocks {
							if ret, ok := b.Instrs[len(b.Instrs)-1].(*ssa.Return); ok && ex.Index < len(ret.Results) && !core.SameValue(ret.Results[ex.Index], step) {
								return false
							}
						}
						return true
					}
				}
				return false
			}
			// stored Address: the record handed to the setter carries the combiner's result
			nSet := 0
			for _, fn := range []*ssa.Function{h.Fn, unit} {
				if fn == unit && unit == h.Fn && nSet > 0 {
					break
				}
				for _, e := range p.Effects(fn) {
					call, isCall := e.Instr.(ssa.CallInstruction)
					if !isCall || !performsDirectly(p, fn, e, "Set", "filetree/Files/value/") || e.Direct {
						continue
					}
					nSet++
					rec := dataArgs(call)[0]
					al := recordAlloc(rec)
					if al != nil && len(fieldStores(al, "Address")) == 0 {
						// a local that merely holds a record produced elsewhere: look at what was stored into it
						for _, ref := range *al.Referrers() {
							if st, ok := ref.(*ssa.Store); ok && st.Addr == al {
								rec, al = st.Val, recordAlloc(st.Val)
							}
						}
					}
					if al == nil && hop != nil {
						// the record built by the unit and returned to the handler
						if ex, ok := rec.(*ssa.Extract); ok && ex.Tuple == ssa.Value(hop) {
							for _, b := range unit.Blocks {
								if ret, ok := b.Instrs[len(b.Instrs)-1].(*ssa.Return); ok && ex.Index < len(ret.Results) {
									al = recordAlloc(ret.Results[ex.Index])
								}
							}
						}
					}
					okA := false
					if al != nil {
						for _, st := range fieldStores(al, "Address") {
							okA = isStep(st.Val)
						}
					}
					r.Check(okA, "C20/R2", h.Key()+":stored-address", p.InstrPos(call), "stored Address is the combiner's result", "the stored Address is not the value computed by the combiner")
				}
				if unit == h.Fn {
					break
				}
			}
			if nSet == 0 {
				r.Undecided("C20/R2", h.Key()+":stored-address", p.Pos(h.Fn.Pos()), "no call of the record setter found in the handler or the unit applying the combiner")
			}
			okPath := false
			allInstrs(h.Fn, func(in ssa.Instruction) {
				if st, ok := in.(*ssa.Store); ok {
					if fa, ok := st.Addr.(*ssa.FieldAddr); ok && core.FieldName(fa.X.Type(), fa.Field) == "Path" && strings.HasSuffix(core.TypeName(fa.X.Type()), "MsgPostFileResponse") {
						okPath = isStep(st.Val)
					}
				}
			})
			r.Check(okPath, "C20/R2", h.Key()+":returned-path", p.Pos(h.Fn.Pos()), "returned Path is the combiner's result", "the address returned to the client differs from the stored one")
			// owner computed from that address
			okOwner := false
			for _, fn := range []*ssa.Function{unit, h.Fn} {
				allInstrs(fn, func(in ssa.Instruction) {
					if c, ok := in.(*ssa.Call); ok && c != step && c != hop {
						for _, a := range c.Call.Args {
							if isStep(a) && len(p.Callees(c)) == 1 && p.Callees(c)[0] != combiner && p.Callees(c)[0] != unit && c.Type().String() == "string" {
								okOwner = true
							}
						}
					}
				})
			}
			r.Check(okOwner, "C20/R2", h.Key()+":owner-from-address", p.Pos(h.Fn.Pos()), "the owner hash is computed from the combiner's result", "the new entry's owner hash is not derived from its address")
		}
	}
	if h := core.HandlerByKey(hs, "filetree.MsgProvisionFileTree"); h != nil && hasher != nil {
		found := false
		for _, fn := range p.Summary(h.Fn).Funcs {
			allInstrs(fn, func(in ssa.Instruction) {
				if c, ok := in.(*ssa.Call); ok {
					for _, cal := range p.Callees(c) {
						if cal == hasher {
							_, complete, okc := p.ConstPrefix(c.Call.Args[0])
							if okc && complete {
								found = true
							}
						}
					}
				}
			})
		}
		r.Check(found, "C20/R2", h.Key()+":root-address", p.Pos(h.Fn.Pos()), "root address = pathHasher(constant)", "the root folder's address is not the path hasher applied to a constant path")
	}
}

// foldThroughHelper: call is fold(items, initial, step) where the callee loops acc = step(acc, item) over all items
// from an accumulator that starts as `initial` and returns it. Returns the update term (step applied to ACC and an
// element of the items argument, the step function executed in line) and the term of the initial value.
func foldThroughHelper(p *core.Program, call *ssa.Call) (update, init string, ok bool) {
	return foldThroughHelperB(p, call, false)
}

// foldThroughHelperB: with bounds, slice bounds of the items argument are kept in the terms.
func foldThroughHelperB(p *core.Program, call *ssa.Call, bounds bool) (update, init string, ok bool) {
	cs := p.Callees(call)
	if len(cs) != 1 || cs[0].Blocks == nil {
		return "", "", false
	}
	g := cs[0]
	var ph *ssa.Phi
	for _, b := range g.Blocks {
		if ret, isRet := b.Instrs[len(b.Instrs)-1].(*ssa.Return); isRet && len(ret.Results) == 1 {
			if q, isPhi := ret.Results[0].(*ssa.Phi); isPhi && core.InCycle(q.Block()) && len(q.Edges) == 2 {
				ph = q
			}
		}
	}
	if ph == nil {
		return "", "", false
	}
	var initV, updV ssa.Value
	for i, e := range ph.Edges {
		if core.SameLoop(ph.Block().Preds[i], ph.Block()) {
			updV = e
		} else {
			initV = e
		}
	}
	initP, isP := initV.(*ssa.Parameter)
	step, isCall := updV.(*ssa.Call)
	if !isP || !isCall || len(step.Call.Args) != 2 || step.Call.Args[0] != ssa.Value(ph) {
		return "", "", false
	}
	stepP, isP := step.Call.Value.(*ssa.Parameter)
	if !isP {
		return "", "", false
	}
	// the second argument is the element of a range over a parameter
	gtb := core.NewTermBuilder(p)
	et := gtb.Term(step.Call.Args[1])
	itemsIdx := -1
	for i := range g.Params {
		if et == fmt.Sprintf("elem(P%d)", i) {
			itemsIdx = i
		}
	}
	idxOf := func(q *ssa.Parameter) int {
		for i, x := range g.Params {
			if x == q {
				return i
			}
		}
		return -1
	}
	ii, si := idxOf(initP), idxOf(stepP)
	args := call.Call.Args
	if itemsIdx < 0 || ii < 0 || si < 0 || itemsIdx >= len(args) || ii >= len(args) || si >= len(args) {
		return "", "", false
	}
	var stepFn *ssa.Function
	switch a := args[si].(type) {
	case *ssa.Function:
		stepFn = a
	case *ssa.MakeClosure:
		stepFn, _ = a.Fn.(*ssa.Function)
	case *ssa.ChangeType:
		if f, isF := a.X.(*ssa.Function); isF {
			stepFn = f
		}
	}
	if stepFn == nil || stepFn.Blocks == nil || len(stepFn.Params) != 2 {
		return "", "", false
	}
	var sret *ssa.Return
	n := 0
	for _, b := range stepFn.Blocks {
		if rr, isRet := b.Instrs[len(b.Instrs)-1].(*ssa.Return); isRet {
			sret, n = rr, n+1
		}
	}
	if n != 1 || len(sret.Results) != 1 {
		return "", "", false
	}
	outer := core.NewTermBuilder(p)
	outer.Bounds = bounds
	sub := core.NewTermBuilder(p)
	sub.Bounds = bounds
	sub.Names[stepFn.Params[0]] = "ACC"
	sub.Names[stepFn.Params[1]] = "elem(" + outer.Term(args[itemsIdx]) + ")"
	return sub.Term(sret.Results[0]), outer.Term(args[ii]), true
}
