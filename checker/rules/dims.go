package rules

import (
	"fmt"
	"go/token"
	"go/types"
	"sort"
	"strings"

	"golang.org/x/tools/go/ssa"

	"jklcheck/core"
)

// Point/span dimension analysis of block-height arithmetic (engine E11).
//
// A block height is a *point* on the chain's time line (Ctx.BlockHeight and every record field that is assigned
// from it); intervals, windows, counts, parameters and constants are *spans*. The arithmetic of the two is affine:
//
//	point - point = span     point ± span = point     span ± span = span     x % span = span     span */ span = span
//
// and a comparison is meaningful only between two points or two spans. A helper that is supposed to return a window
// boundary (a point) but returns an offset (a span) type-checks in Go — both are int64 — and passes every test that
// posts its files at height 0; here it is a dimension error at the comparison that consumes it.
type dimKind int

const (
	dUnknown dimKind = iota
	dPoint
	dSpan
	dConst
)

func (d dimKind) String() string {
	return [...]string{"?", "point", "span", "const"}[d]
}

type dimEngine struct {
	p      *core.Program
	field  map[string]dimKind
	busy   map[string]bool
	checks int
	seen   map[string]bool
	out    []dimFinding
}

type dimFinding struct {
	fn   *ssa.Function
	at   ssa.Instruction
	what string
	path []string
}

func isInt64(t types.Type) bool {
	b, ok := t.Underlying().(*types.Basic)
	return ok && (b.Kind() == types.Int64 || b.Kind() == types.Int || b.Kind() == types.Uint64)
}

func fieldKey(t types.Type, idx int) string {
	for i := 0; i < 3; i++ {
		if pt, ok := t.Underlying().(*types.Pointer); ok {
			t = pt.Elem()
			continue
		}
		break
	}
	return core.TypeName(t) + "." + core.FieldName(t, idx)
}

func isParamsType(t types.Type) bool {
	for i := 0; i < 3; i++ {
		if pt, ok := t.Underlying().(*types.Pointer); ok {
			t = pt.Elem()
			continue
		}
		break
	}
	return strings.HasSuffix(core.TypeName(t), "types.Params")
}

func joinDim(a, b dimKind) dimKind {
	if a == b {
		return a
	}
	return dUnknown
}

// of computes the dimension of v under the parameter environment env.
func (e *dimEngine) of(v ssa.Value, env map[*ssa.Parameter]dimKind, depth int) dimKind {
	if v == nil || depth > 40 || !isInt64(v.Type()) {
		return dUnknown
	}
	switch x := v.(type) {
	case *ssa.Const:
		return dConst
	case *ssa.Parameter:
		return env[x]
	case *ssa.Convert:
		return e.of(x.X, env, depth+1)
	case *ssa.ChangeType:
		return e.of(x.X, env, depth+1)
	case *ssa.Field:
		if isParamsType(x.X.Type()) {
			return dSpan
		}
		return e.field[fieldKey(x.X.Type(), x.Field)]
	case *ssa.UnOp:
		if x.Op == token.SUB {
			return e.of(x.X, env, depth+1)
		}
		if x.Op != token.MUL {
			return dUnknown
		}
		switch a := x.X.(type) {
		case *ssa.FieldAddr:
			if isParamsType(a.X.Type()) {
				return dSpan
			}
			return e.field[fieldKey(a.X.Type(), a.Field)]
		case *ssa.Alloc:
			// a local variable: join of everything stored into it
			d, n := dUnknown, 0
			for _, ref := range *a.Referrers() {
				if st, ok := ref.(*ssa.Store); ok && st.Addr == a {
					sd := e.of(st.Val, env, depth+1)
					if n == 0 {
						d = sd
					} else {
						d = joinDim(d, sd)
					}
					n++
				}
			}
			return d
		}
		return dUnknown
	case *ssa.Phi:
		d := dUnknown
		for i, ed := range x.Edges {
			if ed == ssa.Value(x) {
				continue
			}
			sd := e.of(ed, env, depth+8)
			if i == 0 {
				d = sd
			} else {
				d = joinDim(d, sd)
			}
		}
		return d
	case *ssa.BinOp:
		a, b := e.of(x.X, env, depth+1), e.of(x.Y, env, depth+1)
		span := func(d dimKind) bool { return d == dSpan || d == dConst }
		switch x.Op {
		case token.SUB:
			switch {
			case a == dPoint && b == dPoint:
				return dSpan
			case a == dPoint && span(b):
				return dPoint
			case span(a) && span(b):
				return dSpan
			}
		case token.ADD:
			switch {
			case a == dPoint && span(b), span(a) && b == dPoint:
				return dPoint
			case span(a) && span(b):
				if a == dConst && b == dConst {
					return dConst
				}
				return dSpan
			}
		case token.REM:
			if (a == dPoint || span(a)) && span(b) {
				return dSpan
			}
		case token.MUL, token.QUO:
			if span(a) && span(b) {
				if a == dConst && b == dConst {
					return dConst
				}
				return dSpan
			}
			if x.Op == token.QUO && a == dPoint && span(b) {
				return dSpan // window index
			}
		}
		return dUnknown
	case *ssa.Call:
		name := core.CalleeFullName(x)
		if strings.HasSuffix(name, "types.Context).BlockHeight") {
			return dPoint
		}
		if b, ok := x.Call.Value.(*ssa.Builtin); ok && (b.Name() == "len" || b.Name() == "cap") {
			return dSpan
		}
		cs := e.p.Callees(x)
		if len(cs) != 1 || x.Call.IsInvoke() {
			return dUnknown
		}
		cal := cs[0]
		if cal.Signature.Results().Len() != 1 {
			return dUnknown
		}
		env2 := e.bind(cal, x, env, depth)
		key := cal.String() + envSig(cal, env2)
		if e.busy[key] {
			return dUnknown
		}
		e.busy[key] = true
		defer delete(e.busy, key)
		d, n := dUnknown, 0
		for _, bl := range cal.Blocks {
			if ret, ok := bl.Instrs[len(bl.Instrs)-1].(*ssa.Return); ok && len(ret.Results) == 1 {
				rd := e.of(ret.Results[0], env2, depth+4)
				if n == 0 {
					d = rd
				} else {
					d = joinDim(d, rd)
				}
				n++
			}
		}
		return d
	}
	return dUnknown
}

func (e *dimEngine) bind(cal *ssa.Function, call ssa.CallInstruction, env map[*ssa.Parameter]dimKind, depth int) map[*ssa.Parameter]dimKind {
	c := call.Common()
	var actuals []ssa.Value
	if c.IsInvoke() {
		actuals = append(actuals, c.Value)
	}
	actuals = append(actuals, c.Args...)
	env2 := map[*ssa.Parameter]dimKind{}
	for i, prm := range cal.Params {
		if i < len(actuals) && isInt64(prm.Type()) {
			env2[prm] = e.of(actuals[i], env, depth+1)
		}
	}
	return env2
}

func envSig(fn *ssa.Function, env map[*ssa.Parameter]dimKind) string {
	var sb strings.Builder
	for _, p := range fn.Params {
		sb.WriteString(fmt.Sprintf("|%d", env[p]))
	}
	return sb.String()
}

// inferFields: a record field is a point if some assignment stores a point into it and none stores a span
// (constants such as the zero value do not count); a span symmetrically.
func (e *dimEngine) inferFields(funcs []*ssa.Function) {
	for round := 0; round < 4; round++ {
		pts, sps := map[string]bool{}, map[string]bool{}
		for _, fn := range funcs {
			if e.p.IsGenerated(fn) {
				continue
			}
			allInstrs(fn, func(in ssa.Instruction) {
				st, ok := in.(*ssa.Store)
				if !ok {
					return
				}
				fa, ok := st.Addr.(*ssa.FieldAddr)
				if !ok || !isInt64(st.Val.Type()) {
					return
				}
				switch e.of(st.Val, nil, 0) {
				case dPoint:
					pts[fieldKey(fa.X.Type(), fa.Field)] = true
				case dSpan:
					sps[fieldKey(fa.X.Type(), fa.Field)] = true
				}
			})
		}
		changed := false
		set := func(k string, d dimKind) {
			if e.field[k] != d {
				e.field[k] = d
				changed = true
			}
		}
		for k := range pts {
			if !sps[k] {
				set(k, dPoint)
			}
		}
		for k := range sps {
			if !pts[k] {
				set(k, dSpan)
			}
		}
		if !changed {
			break
		}
	}
}

// walk checks every int64 comparison and addition of fn under env and descends into custom callees whose
// arguments carry a known dimension.
func (e *dimEngine) walk(fn *ssa.Function, env map[*ssa.Parameter]dimKind, path []string, depth int) {
	key := fn.String() + envSig(fn, env)
	if e.seen[key] || depth > 6 || fn.Blocks == nil || e.p.IsGenerated(fn) {
		return
	}
	e.seen[key] = true
	allInstrs(fn, func(in ssa.Instruction) {
		switch x := in.(type) {
		case *ssa.BinOp:
			if !isInt64(x.X.Type()) {
				return
			}
			a, b := e.of(x.X, env, 0), e.of(x.Y, env, 0)
			switch x.Op {
			case token.EQL, token.NEQ, token.LSS, token.LEQ, token.GTR, token.GEQ:
				if a == dUnknown || b == dUnknown {
					return
				}
				e.checks++
				if (a == dPoint && b == dSpan) || (a == dSpan && b == dPoint) {
					e.out = append(e.out, dimFinding{fn, x, fmt.Sprintf("compares a %s with a %s", a, b), path})
				}
			case token.ADD:
				if a == dPoint && b == dPoint {
					e.checks++
					e.out = append(e.out, dimFinding{fn, x, "adds two block heights", path})
				}
			}
		case ssa.CallInstruction:
			for _, cal := range e.p.Callees(x) {
				if x.Common().IsInvoke() || cal.Blocks == nil {
					continue
				}
				env2 := e.bind(cal, x, env, 0)
				known := false
				for _, d := range env2 {
					if d == dPoint || d == dSpan {
						known = true
					}
				}
				if known {
					e.walk(cal, env2, append(append([]string{}, path...), core.FnName(fn)+" @"+e.p.InstrPos(x)), depth+1)
				}
			}
		}
	})
}

// heightDimensions runs the analysis over funcs (roots analysed with unknown parameters) and reports under rule.
func heightDimensions(r *core.Run, rule string, funcs []*ssa.Function, floor int) {
	p := r.Prog
	e := &dimEngine{p: p, field: map[string]dimKind{}, busy: map[string]bool{}, seen: map[string]bool{}}
	e.inferFields(consensusFuncs(p))
	for _, fn := range funcs {
		e.walk(fn, map[*ssa.Parameter]dimKind{}, nil, 0)
	}
	var fk []string
	for k, d := range e.field {
		if d == dPoint {
			fk = append(fk, short(k))
		}
	}
	sort.Strings(fk)
	reported := map[string]bool{}
	for _, f := range e.out {
		c := core.FnName(f.fn) + ":height-dimensions"
		if reported[c+p.InstrPos(f.at)] {
			continue
		}
		reported[c+p.InstrPos(f.at)] = true
		r.Violation(rule, c, p.InstrPos(f.at), "block-height arithmetic "+f.what+": one side is an absolute height (Ctx.BlockHeight or a field assigned from it), the other an interval/offset — a window boundary computed relative to the file's start is compared with an absolute height, so the test is (almost) always true or always false once heights are large", f.path...)
	}
	if len(e.out) == 0 {
		r.Ok(rule, "height-dimensions", "", fmt.Sprintf("%d comparisons/additions with both dimensions known are point-vs-point or span-vs-span; point fields: %s", e.checks, strings.Join(fk, ", ")))
	}
	r.Floor(rule, e.checks, floor, "height comparisons with known dimensions")
}

// moduleFuncs: consensus-scope functions of one custom module (types, keeper, ...).
func moduleFuncs(p *core.Program, module string) []*ssa.Function {
	var out []*ssa.Function
	for _, fn := range consensusFuncs(p) {
		if core.ModuleOf(fn) == module && !strings.Contains(core.FnPkgPath(fn), "/client/") {
			out = append(out, fn)
		}
	}
	return out
}
