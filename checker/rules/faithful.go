package rules

import (
	"fmt"
	"regexp"
	"sort"
	"strings"

	"golang.org/x/tools/go/ssa"

	"jklcheck/core"
)

// keyBuildersFaithful: every store-key builder of the module — a function of the module whose result is used as the key
// of a store operation — is an injective formatter of its parameters: its result is a concatenation of literals and of
// each parameter exactly once, as it is or hex / decimal formatted. A parameter that does not reach the key, or reaches
// it only through a lossy transformation (parsed, trimmed, cut), makes two different records share one slot.
func keyBuildersFaithful(r *core.Run, rule, module string) int {
	p := r.Prog
	builders := map[*ssa.Function]bool{}
	for _, o := range p.AllStoreOps() {
		if o.Module != module || o.Key == nil {
			continue
		}
		v := o.Key
		for i := 0; i < 4; i++ {
			switch x := v.(type) {
			case *ssa.Convert:
				v = x.X
				continue
			case *ssa.ChangeType:
				v = x.X
				continue
			}
			break
		}
		call, ok := v.(*ssa.Call)
		if !ok {
			continue
		}
		// the builder called here, or — when the call goes to a method of the record (rec.StoreKey()) that only
		// forwards — the builder that method calls
		var visit func(call *ssa.Call, depth int)
		visit = func(call *ssa.Call, depth int) {
			for _, cal := range p.Callees(call) {
				if core.ModuleOf(cal) != module || cal.Blocks == nil {
					continue
				}
				if len(cal.Params) > 0 && cal.Signature.Recv() == nil {
					builders[cal] = true
					continue
				}
				if depth > 2 {
					continue
				}
				for _, b := range cal.Blocks {
					ret, isRet := b.Instrs[len(b.Instrs)-1].(*ssa.Return)
					if !isRet || len(ret.Results) != 1 {
						continue
					}
					w := ret.Results[0]
					for i := 0; i < 4; i++ {
						switch x := w.(type) {
						case *ssa.Convert:
							w = x.X
							continue
						case *ssa.ChangeType:
							w = x.X
							continue
						}
						break
					}
					if inner, isCall := w.(*ssa.Call); isCall {
						visit(inner, depth+1)
					}
				}
			}
		}
		visit(call, 0)
	}
	partRe := regexp.MustCompile(`^(?:nil|""|"(?:[^"\\]|\\.)*"|P(\d+)|hex\(P(\d+)\)|dec\(P(\d+)\))$`)
	var fns []*ssa.Function
	for fn := range builders {
		fns = append(fns, fn)
	}
	sort.Slice(fns, func(i, j int) bool { return fns[i].String() < fns[j].String() })
	for _, fn := range fns {
		r.Analysed(core.FnName(fn))
		bad := ""
		terms := []string{}
		for _, b := range fn.Blocks {
			ret, ok := b.Instrs[len(b.Instrs)-1].(*ssa.Return)
			if !ok || len(ret.Results) != 1 {
				continue
			}
			tb := core.NewTermBuilder(p)
			tb.Bounds = true // joins of alternatives are kept as alt(...): a key that is one thing or another is no formatter
			term := tb.Term(ret.Results[0])
			terms = append(terms, term)
			parts := []string{term}
			if strings.HasPrefix(term, "concat(") && strings.HasSuffix(term, ")") {
				parts = splitTopLevel(term[7 : len(term)-1])
			}
			seen := map[string]int{}
			opaque := false
			for _, part := range parts {
				if strings.Contains(part, "φ") || strings.Contains(part, "⊤") || strings.Contains(part, "alloc") {
					opaque = true
				}
			}
			if opaque {
				// built imperatively (a buffer filled in a loop or by index): the term is not available; what can still
				// be decided is that every parameter reaches the key
				for i, prm := range fn.Params {
					reaches := p.ProvAt(ret.Results[0], "", ret).Any(func(a core.Atom) bool { return a.Kind == "param" && a.Fn == fn && a.Idx == i })
					if !reaches {
						bad = fmt.Sprintf("parameter %s does not reach the key", prm.Name())
					}
				}
				continue
			}
			for _, part := range parts {
				m := partRe.FindStringSubmatch(part)
				if m == nil {
					bad = "the key contains " + part + ", which is not a parameter written out as it is (or in hex / decimal)"
					break
				}
				for _, g := range m[1:] {
					if g != "" {
						seen[g]++
					}
				}
			}
			if bad != "" {
				break
			}
			for i := range fn.Params {
				n := seen[fmt.Sprint(i)]
				if n == 0 {
					bad = fmt.Sprintf("parameter %s does not reach the key", fn.Params[i].Name())
				} else if n > 1 {
					bad = fmt.Sprintf("parameter %s is written into the key %d times", fn.Params[i].Name(), n)
				}
			}
		}
		r.Check(bad == "" && len(terms) > 0, rule, core.FnName(fn)+":key-builder-injective", p.Pos(fn.Pos()), "key = "+strings.Join(terms, " | "),
			"the store key "+strings.Join(terms, " | ")+" is not an injective formatting of the builder's parameters ("+bad+"): records that differ only there share one store slot, so one is read, overwritten or deleted in place of the other")
	}
	return len(fns)
}

func splitTopLevel(s string) []string {
	var out []string
	depth, start := 0, 0
	inStr := false
	for i := 0; i < len(s); i++ {
		c := s[i]
		switch {
		case inStr:
			if c == '\\' {
				i++
			} else if c == '"' {
				inStr = false
			}
		case c == '"':
			inStr = true
		case c == '(':
			depth++
		case c == ')':
			depth--
		case c == ',' && depth == 0:
			out = append(out, s[start:i])
			start = i + 1
		}
	}
	return append(out, s[start:])
}

// settersFaithful: every record setter of the module — a function that marshals a parameter and stores it — stores
// exactly what it was handed, always: the parameter is not assigned to before it is marshalled, and every path from
// the entry performs the write (no "already there, skip").
func settersFaithful(r *core.Run, rule, module string) int {
	p := r.Prog
	n := 0
	for _, fn := range moduleFuncs(p, module) {
		if fn.Blocks == nil {
			continue
		}
		var setOps []*core.StoreOp
		other := false
		for _, o := range p.StoreOps(fn) {
			switch o.Kind {
			case "Set":
				setOps = append(setOps, o)
			case "Delete":
				other = true
			}
		}
		if len(setOps) != 1 || other {
			continue
		}
		op := setOps[0]
		// the value stored: cdc.MustMarshal(&param) (possibly through a local)
		val := op.Val
		var mcall *ssa.Call
		for i := 0; i < 3 && val != nil; i++ {
			if c, ok := val.(*ssa.Call); ok && strings.Contains(core.CalleeFullName(c), "Marshal") {
				mcall = c
				break
			}
			if cv, ok := val.(*ssa.Convert); ok {
				val = cv.X
				continue
			}
			break
		}
		if mcall == nil {
			continue
		}
		args := mcall.Call.Args
		obj := args[len(args)-1]
		if mi, ok := obj.(*ssa.MakeInterface); ok {
			obj = mi.X
		}
		al, ok := obj.(*ssa.Alloc)
		if !ok {
			continue
		}
		// the alloc is the spill of a parameter
		var prm *ssa.Parameter
		for _, ref := range *al.Referrers() {
			if st, ok := ref.(*ssa.Store); ok && st.Addr == al {
				if q, isP := st.Val.(*ssa.Parameter); isP {
					prm = q
				}
			}
		}
		if prm == nil {
			continue
		}
		n++
		r.Analysed(core.FnName(fn))
		bad := ""
		for _, ref := range *al.Referrers() {
			switch x := ref.(type) {
			case *ssa.Store:
				if x.Addr == al && x.Val != ssa.Value(prm) {
					bad = "the record is replaced before it is stored @" + p.InstrPos(x)
				}
			case *ssa.FieldAddr:
				for _, rr := range *x.Referrers() {
					if st, ok := rr.(*ssa.Store); ok && st.Addr == x {
						bad = "field " + core.FieldName(x.X.Type(), x.Field) + " of the record is rewritten before it is stored @" + p.InstrPos(st)
					}
				}
			}
		}
		if bad == "" {
			// every path from the entry reaches the write
			if ret := p.BypassExists(fn, fn.Blocks[0].Instrs[0], op.Instr, true); ret != nil {
				bad = "a path returns without writing (return @" + p.InstrPos(ret) + ")"
			}
		}
		r.Check(bad == "", rule, core.FnName(fn)+":setter-faithful", p.InstrPos(op.Instr), "stores the marshalled parameter, unmodified, on every path",
			"the setter does not store what it is handed: "+bad+" — what callers (handlers, genesis import) wrote is not what queries read back")
	}
	return n
}

// blockEdgesInto: the CFG edges entering the block of instruction in (used to ask for paths avoiding it).
func blockEdgesInto(fn *ssa.Function, in ssa.Instruction) map[core.Edge]bool {
	out := map[core.Edge]bool{}
	for _, b := range fn.Blocks {
		for i, s := range b.Succs {
			if s == in.Block() {
				out[core.Edge{From: b, Succ: i}] = true
			}
		}
	}
	return out
}

// frozenKeyLayouts: the on-disk layout of every store key as confirmed on the pinned tree (canonical terms of the key
// builders: P<i> = i-th parameter). State written under one layout is not found under another: a changed layout needs
// a store migration, and this table changed with it.
var frozenKeyLayouts = map[string]string{
	"x/filetree/types.FilesKey":              `concat(nil,P0,"/",P1,"/")`,
	"x/filetree/types.PubkeyKey":             `concat(nil,P0,"/")`,
	"x/jklmint/types.MintedBlockKey":         `concat("minted_at_",dec(P0))`,
	"x/notifications/types.BlockKey":         `concat(P0,"/",P1)`,
	"x/notifications/types.NotificationsKey": `concat(P0,"/",P1,"/",dec(P2))`,
	"x/oracle/types.FeedKey":                 `concat(nil,P0,"/")`,
	"x/rns/types.BidsKey":                    `concat(nil,P0,"/")`,
	"x/rns/types.ForsaleKey":                 `concat(nil,P0,"/")`,
	"x/rns/types.InitKey":                    `concat(nil,P0,"/")`,
	"x/rns/types.NamesKey":                   `concat(nil,P0,".",P1,"/")`,
	"x/rns/types.PrimaryNameKey":             `concat(nil,P0,"/")`,
	"x/rns/types.WhoisKey":                   `concat(nil,P0,"/")`,
	"x/storage/types.ActiveProvidersKey":     `concat(nil,P0,"/")`,
	"x/storage/types.AttestationKey":         `concat(P0,"/",hex(P1),"/",P2,"/",dec(P3))`,
	"x/storage/types.ClientUsageKey":         `concat(nil,P0,"/")`,
	"x/storage/types.CollateralKey":          `concat(nil,P0,"/")`,
	"x/storage/types.FilesPrimaryKey":        `concat(hex(P0),"/",P1,"/",dec(P2),"/")`,
	"x/storage/types.FilesSecondaryKey":      `concat(P1,"/",hex(P0),"/",dec(P2),"/")`,
	"x/storage/types.LegacyActiveDealsKey":   `concat(nil,P0,"/")`,
	"x/storage/types.PayBlocksKey":           `concat(nil,P0,"/")`,
	"x/storage/types.PaymentGaugeKey":        `concat(nil,P0,"/")`,
	"x/storage/types.ProofKey":               `concat(P0,"/",P2,"/",hex(P1),"/",dec(P3),"/")`,
	"x/storage/types.ProvidersKey":           `concat(nil,P0,"/")`,
	"x/storage/types.ReportKey":              `concat(P0,"/",hex(P1),"/",P2,"/",dec(P3))`,
	"x/storage/types.StoragePaymentInfoKey":  `concat(nil,P0,"/")`,
}

// keyLayoutFrozen: the key builders of the module still produce the recorded layout. Builders whose term is not
// available (built imperatively) are not compared.
func keyLayoutFrozen(r *core.Run, rule, module string) int {
	p := r.Prog
	n := 0
	for _, fn := range moduleFuncs(p, module) {
		want, ok := frozenKeyLayouts[core.FnName(fn)]
		if !ok || fn.Blocks == nil {
			continue
		}
		for _, b := range fn.Blocks {
			ret, isRet := b.Instrs[len(b.Instrs)-1].(*ssa.Return)
			if !isRet || len(ret.Results) != 1 {
				continue
			}
			term := core.NewTermBuilder(p).Term(ret.Results[0])
			if strings.Contains(term, "φ") || strings.Contains(term, "⊤") || strings.Contains(term, "alloc") {
				continue
			}
			n++
			norm := func(t string) string {
				return strings.ReplaceAll(strings.ReplaceAll(t, "concat(nil,", "concat("), `"",`, "")
			}
			r.Check(norm(term) == norm(want), rule, core.FnName(fn)+":key-layout", p.Pos(fn.Pos()), "key = "+term,
				"the store key layout changed from "+want+" to "+term+": records written under the old layout are no longer found (a provider registered before the change is removed without its collateral, a file is not found under its owner, ...) unless a store migration rewrites them — none is recognised here; if the change is intended, migrate and update the recorded layout")
		}
	}
	return n
}
