package rules

import (
	"strings"

	"golang.org/x/tools/go/ssa"

	"jklcheck/core"
)

// marshalIsFresh: wherever a function of the module stores the marshalled form of a local record, the record is not
// assigned to between the marshalling and the write: the bytes stored are the record as it stands (and as it is
// returned to the caller), not an earlier snapshot of it.
func marshalIsFresh(r *core.Run, rule, module string) int {
	p := r.Prog
	n := 0
	for _, fn := range moduleFuncs(p, module) {
		if fn.Blocks == nil {
			continue
		}
		for _, op := range p.StoreOps(fn) {
			if op.Kind != "Set" || op.Val == nil {
				continue
			}
			val := op.Val
			for i := 0; i < 3; i++ {
				if cv, ok := val.(*ssa.Convert); ok {
					val = cv.X
					continue
				}
				break
			}
			mcall, ok := val.(*ssa.Call)
			if !ok || !strings.Contains(core.CalleeFullName(mcall), "Marshal") || len(mcall.Call.Args) == 0 {
				continue
			}
			obj := mcall.Call.Args[len(mcall.Call.Args)-1]
			if mi, isMI := obj.(*ssa.MakeInterface); isMI {
				obj = mi.X
			}
			al, ok := obj.(*ssa.Alloc)
			if !ok || al.Referrers() == nil {
				continue
			}
			n++
			bad := ""
			between := func(st ssa.Instruction) bool {
				return core.PathExists(fn, nil, mcall, st) && core.PathExists(fn, nil, st, op.Instr)
			}
			for _, ref := range *al.Referrers() {
				switch x := ref.(type) {
				case *ssa.Store:
					if x.Addr == al && between(x) {
						bad = p.InstrPos(x)
					}
				case *ssa.FieldAddr:
					if x.Referrers() == nil {
						continue
					}
					for _, rr := range *x.Referrers() {
						if st, isSt := rr.(*ssa.Store); isSt && st.Addr == x && between(st) {
							bad = "field " + core.FieldName(x.X.Type(), x.Field) + " @" + p.InstrPos(st)
						}
					}
				}
			}
			r.Check(bad == "", rule, core.FnName(fn)+":marshal-is-fresh", p.InstrPos(op.Instr), "the record is not assigned to between marshalling and the write",
				"the record is assigned to ("+bad+") after it was marshalled and before the marshalled bytes are written: the store keeps the earlier snapshot while the caller goes on with the updated record")
		}
	}
	return n
}

// coinSubtractionsGuarded: sdk.Coins.Sub / sdk.Coin.Sub / SubAmount / DecCoins.Sub panic when the result would be
// negative; in the given functions (block processing) every such call lies behind an IsAllGTE / IsGTE test of the same
// operands on all paths.
func coinSubtractionsGuarded(r *core.Run, rule string, funcs []*ssa.Function) int {
	p := r.Prog
	n := 0
	for _, fn := range funcs {
		allInstrs(fn, func(in ssa.Instruction) {
			c, ok := in.(*ssa.Call)
			if !ok || c.Call.IsInvoke() || len(c.Call.Args) < 2 {
				return
			}
			name := core.CalleeFullName(c)
			hit := false
			for _, sfx := range []string{"cosmos-sdk/types.Coins).Sub", "cosmos-sdk/types.Coin).Sub", "cosmos-sdk/types.Coin).SubAmount", "cosmos-sdk/types.DecCoins).Sub", "cosmos-sdk/types.DecCoin).Sub"} {
				if strings.HasSuffix(name, sfx) {
					hit = true
				}
			}
			if !hit {
				return
			}
			n++
			recv, arg := c.Call.Args[0], c.Call.Args[1]
			g := func(ca *core.CondAtom, truth bool) bool {
				if ca.Kind != "callbool" || !truth || ca.Call == nil || len(ca.Call.Call.Args) < 2 {
					return false
				}
				cn := core.CalleeFullName(ca.Call)
				if !(strings.HasSuffix(cn, ").IsAllGTE") || strings.HasSuffix(cn, ").IsGTE") || strings.HasSuffix(cn, ").IsAllGT")) {
					return false
				}
				return core.SameValue(ca.Call.Call.Args[0], recv) && sameVariadic(ca.Call.Call.Args[1], arg)
			}
			short := name[strings.LastIndex(name, "/")+1:]
			r.Check(!p.ReachesUnguarded(fn, c, g), rule, core.FnName(fn)+":coin-subtraction:"+short, p.InstrPos(c), "behind IsAllGTE / IsGTE of the same operands",
				"block processing subtracts coins with "+short+", which panics when the subtrahend exceeds the minuend (or names a denomination the minuend lacks), and nothing on the way establishes that it does not: an account that holds more than a record says halts the chain")
		})
	}
	return n
}

// sameVariadic: the same value, possibly wrapped as the variadic argument list (coins...).
func sameVariadic(a, b ssa.Value) bool {
	return core.SameValue(a, b)
}

// fieldOnlyFromParam: on transaction / block paths, field `field` of records of type typeName is assigned only the
// value of the module parameter `param` (the proof interval of a file is the governance-set proof window, never a
// number the uploader chose): the window arithmetic of the reward sweep reads that field.
func fieldOnlyFromParam(r *core.Run, rule, typeName, field, module, param string, reach map[*ssa.Function]bool) int {
	p := r.Prog
	n := 0
	for _, fn := range core.SortedFuncs(reach) {
		if p.IsGenerated(fn) {
			continue
		}
		allInstrs(fn, func(in ssa.Instruction) {
			st, isSt := in.(*ssa.Store)
			if !isSt {
				return
			}
			fa, isFa := st.Addr.(*ssa.FieldAddr)
			if !isFa || core.TypeName(fa.X.Type()) != typeName || core.FieldName(fa.X.Type(), fa.Field) != field {
				return
			}
			n++
			pr := p.ProvAt(st.Val, "", st)
			at := pr.DataAtoms()
			ok := len(at) == 1 && at[0].Kind == "params" && at[0].Name == module && at[0].Path == "."+param
			r.Check(ok, rule, core.FnName(fn)+":"+field+"-from-"+param, p.InstrPos(st), field+" ⊵ Param("+param+") only",
				"the record's "+field+" is assigned "+pr.String()+" instead of the governance parameter "+param+" alone: whoever controls that value decides how long the record counts as inside its window (a prover is never asked for a proof again, or is dropped although it proved)")
		})
	}
	return n
}

// failsOnlyOnErrors: in the given functions (the distribution helpers of the mint path) a branch that leads only to
// failing returns is decided by the error (or nil-ness) of something called — a bank transfer, an address parse —
// never by the amount or another computed value: a share that happens to be zero must not abort the distribution of
// the shares that follow it.
func failsOnlyOnErrors(r *core.Run, rule string, funcs []*ssa.Function) int {
	p := r.Prog
	n := 0
	for _, fn := range funcs {
		if fn.Blocks == nil || errResultIdx(fn) < 0 {
			continue
		}
		failing := map[*ssa.Return]bool{}
		for _, ri := range p.Returns(fn) {
			if ri.Class == core.RetFail {
				failing[ri.Ret] = true
			}
		}
		onlyFails := func(from *ssa.BasicBlock) bool {
			any := false
			for _, b := range fn.Blocks {
				ret, ok := b.Instrs[len(b.Instrs)-1].(*ssa.Return)
				if !ok {
					continue
				}
				if b == from || blockReaches(from, b) {
					any = true
					if !failing[ret] {
						return false
					}
				}
			}
			return any
		}
		for _, b := range fn.Blocks {
			ifi, ok := b.Instrs[len(b.Instrs)-1].(*ssa.If)
			if !ok || onlyFails(b) {
				continue
			}
			refuses := false
			for _, sc := range b.Succs {
				if onlyFails(sc) {
					refuses = true
				}
			}
			if !refuses {
				continue
			}
			n++
			ca := p.NormCond(ifi)
			okKind := ca.Kind == "errnil" || ca.Kind == "isnil"
			r.Check(okKind, rule, core.FnName(fn)+":fails-only-on-errors:"+p.Describe(ca, true), p.InstrPos(ifi), "the failing branch is decided by the error of a call",
				"a distribution step fails on a computed condition ("+p.Describe(ca, true)+") rather than on the error of a transfer or an address parse: when it does (a share of zero, for instance) the block's distribution stops there and the shares that follow stay in the mint module account")
		}
	}
	return n
}
