package rules

import (
	"strings"

	"golang.org/x/tools/go/ssa"

	"jklcheck/core"
)

// narrowingOfAccumulators: on block-processing paths no panicking narrowing conversion (Int.Int64, Int.Uint64,
// Dec.TruncateInt64, Dec.RoundInt64 — each panics when the value does not fit) is applied to an *accumulator*: a value
// that depends on its own previous value through a loop or through a variable updated by a callback, i.e. a sum over
// however many records the state holds. Such a sum is not bounded by anything a message validates, and the first
// block in which it passes 2^63 halts the chain.
func narrowingOfAccumulators(r *core.Run, rule string, funcs []*ssa.Function) int {
	p := r.Prog
	narrowing := []string{"types.Int).Int64", "types.Int).Uint64", "types.Dec).TruncateInt64", "types.Dec).RoundInt64", "types.Uint).Uint64", "big.Int).Int64", "big.Int).Uint64"}
	n := 0
	for _, fn := range funcs {
		allInstrs(fn, func(in ssa.Instruction) {
			c, ok := in.(*ssa.Call)
			if !ok || c.Call.IsInvoke() || len(c.Call.Args) == 0 {
				return
			}
			name := core.CalleeFullName(c)
			hit := false
			for _, s := range narrowing {
				if strings.HasSuffix(name, s) {
					hit = true
				}
			}
			if !hit {
				return
			}
			n++
			acc := selfDependent(p, c.Call.Args[0])
			short := name[strings.LastIndex(name, "/")+1:]
			r.Check(acc == "", rule, core.FnName(fn)+":narrowing:"+short, p.InstrPos(c), "the narrowed value is not an accumulator",
				"block processing narrows an accumulated value with "+short+", which panics when the value does not fit ("+acc+"): the sum grows with the state and no message bound limits it, so one block halts the chain")
		})
	}
	return n
}

// cellOf: the memory cell behind an address value: an Alloc, or the Alloc a closure's free variable is bound to.
func cellOf(addr ssa.Value) ssa.Value {
	if fv, ok := addr.(*ssa.FreeVar); ok {
		fn := fv.Parent()
		idx := -1
		for i, f := range fn.FreeVars {
			if f == fv {
				idx = i
			}
		}
		if par := fn.Parent(); par != nil && idx >= 0 {
			for _, b := range par.Blocks {
				for _, in := range b.Instrs {
					if mc, ok := in.(*ssa.MakeClosure); ok && mc.Fn == ssa.Value(fn) && idx < len(mc.Bindings) {
						return cellOf(mc.Bindings[idx])
					}
				}
			}
		}
	}
	return addr
}

// storesTo: the values stored into the cell, in its function and in every closure that captures it.
func storesTo(cell ssa.Value) []ssa.Value {
	var out []ssa.Value
	var scan func(addr ssa.Value)
	scan = func(addr ssa.Value) {
		if addr.Referrers() == nil {
			return
		}
		for _, ref := range *addr.Referrers() {
			switch x := ref.(type) {
			case *ssa.Store:
				if x.Addr == addr {
					out = append(out, x.Val)
				}
			case *ssa.MakeClosure:
				cl, ok := x.Fn.(*ssa.Function)
				if !ok {
					continue
				}
				for i, b := range x.Bindings {
					if b == addr && i < len(cl.FreeVars) {
						scan(cl.FreeVars[i])
					}
				}
			}
		}
	}
	scan(cell)
	return out
}

// selfDependent: does v depend on its own earlier value (loop-carried phi, or a variable assigned from an expression
// that reads the same variable)? Returns a description, or "".
func selfDependent(p *core.Program, v ssa.Value) string {
	onStack := map[ssa.Value]bool{}
	done := map[ssa.Value]bool{}
	var walk func(x ssa.Value, depth int) string
	walk = func(x ssa.Value, depth int) string {
		if x == nil || depth > 60 {
			return ""
		}
		switch y := x.(type) {
		case *ssa.UnOp:
			if y.Op.String() == "*" {
				cell := cellOf(y.X)
				switch cell.(type) {
				case *ssa.Alloc:
					if onStack[cell] {
						return "variable " + cell.Name() + " is updated from its own value @" + p.Pos(cell.Pos())
					}
					if done[cell] {
						return ""
					}
					onStack[cell] = true
					for _, sv := range storesTo(cell) {
						if s := walk(sv, depth+1); s != "" {
							return s
						}
					}
					onStack[cell] = false
					done[cell] = true
					return ""
				}
			}
			return walk(y.X, depth+1)
		case *ssa.Phi:
			if onStack[y] {
				return "loop-carried value " + y.Comment + " @" + p.Pos(y.Pos())
			}
			if done[y] {
				return ""
			}
			onStack[y] = true
			for _, e := range y.Edges {
				if s := walk(e, depth+1); s != "" {
					return s
				}
			}
			onStack[y] = false
			done[y] = true
		case *ssa.Call:
			if y.Call.IsInvoke() {
				if s := walk(y.Call.Value, depth+1); s != "" {
					return s
				}
			}
			for _, a := range y.Call.Args {
				if s := walk(a, depth+1); s != "" {
					return s
				}
			}
		case *ssa.Extract:
			return walk(y.Tuple, depth+1)
		case *ssa.Convert:
			return walk(y.X, depth+1)
		case *ssa.ChangeType:
			return walk(y.X, depth+1)
		case *ssa.MakeInterface:
			return walk(y.X, depth+1)
		case *ssa.BinOp:
			if s := walk(y.X, depth+1); s != "" {
				return s
			}
			return walk(y.Y, depth+1)
		case *ssa.Field:
			return walk(y.X, depth+1)
		case *ssa.FieldAddr:
			return walk(y.X, depth+1)
		}
		return ""
	}
	return walk(v, 0)
}
