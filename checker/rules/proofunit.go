package rules

import (
	"sort"
	"strings"

	"golang.org/x/tools/go/ssa"

	"jklcheck/core"
)

// proofUnit is the code that decides the fate of one (file, prover) pair in the reward sweep: the function that
// tests whether the proof was renewed, together with — when it only reports its verdict — the loop body of its
// caller that acts on it. Its executions are enumerated abstractly (engine E12): flags, verdict values and result
// structs carry the predicates to the effects, helpers are executed in line.
type proofUnit struct {
	Core     *ssa.Function  // tests the proven-in-window predicate
	CreditFn *ssa.Function  // holds the size-tracker update
	Credit   *ssa.MapUpdate // the credit
	Execs    []core.AbsExec
	Complete bool
	Whole    bool          // the unit is a whole function (Routine)
	Routine  *ssa.Function // the function called once per (file, prover key)
	Why      string
}

func perProofUnit(p *core.Program, funcs []*ssa.Function) *proofUnit {
	u := &proofUnit{}
	for _, fn := range funcs {
		allInstrs(fn, func(in ssa.Instruction) {
			if mu, ok := in.(*ssa.MapUpdate); ok && mu.Value.Type().String() == "int64" {
				u.CreditFn, u.Credit = fn, mu
			}
			if call, ok := in.(*ssa.Call); ok && u.Core == nil {
				if cs := p.Callees(call); len(cs) == 1 && provenPredicate(p, cs[0]) {
					u.Core = fn
				}
			}
		})
	}
	if u.CreditFn == nil {
		u.Why = "no crediting of provers on the reward path"
		return u
	}
	if u.Core == nil {
		u.Core = u.CreditFn
	}
	u.Routine = u.Core
	if u.Core != u.CreditFn && !inCycleCallTo(p, u.CreditFn, u.Core) && callsDirectly(p, u.CreditFn, u.Core) {
		// the predicates are tested by a side-effect-free helper of the crediting function: the unit is the crediting
		// function, the helper executed in line
		u.Whole, u.Routine = true, u.CreditFn
		u.Execs, u.Complete = p.AbstractExecutions(u.CreditFn)
		if !u.Complete {
			u.Why = "the executions of the per-proof routine cannot be enumerated (loop or too many paths)"
		}
		return u
	}
	if u.Core != u.CreditFn && callsDirectly(p, u.Core, u.CreditFn) && len(u.CreditFn.Blocks) == 1 {
		// the credit is made by a tiny helper of the routine that tests the proof (tally.credit(prover, size)): the unit
		// is that routine, the helper executed in line
		u.Whole = true
		u.Execs, u.Complete = p.AbstractExecutions(u.Core)
		if !u.Complete {
			u.Why = "the executions of the per-proof routine cannot be enumerated (loop or too many paths)"
		}
		return u
	}
	if u.Core == u.CreditFn {
		u.Whole = true
		u.Execs, u.Complete = p.AbstractExecutions(u.Core)
		if !u.Complete {
			u.Why = "the executions of the per-proof routine cannot be enumerated (loop or too many paths)"
		}
		return u
	}
	// the credit is in a caller of Core: the unit is the loop body that calls Core and credits
	var call ssa.Instruction
	allInstrs(u.CreditFn, func(in ssa.Instruction) {
		if c, ok := in.(ssa.CallInstruction); ok {
			for _, cal := range p.Callees(c) {
				if cal == u.Core {
					call = in
				}
			}
		}
	})
	if call == nil || !core.InCycle(call.Block()) || !(u.Credit.Block() == call.Block() || core.SameLoop(u.Credit.Block(), call.Block())) {
		u.Why = "the credit is not in the loop that calls the function testing the proof"
		return u
	}
	// innermost loop around the call: the header is the block of that loop dominating the call with a predecessor outside
	var header *ssa.BasicBlock
	for _, b := range u.CreditFn.Blocks {
		if !(b == call.Block() || core.SameLoop(b, call.Block())) || !b.Dominates(call.Block()) {
			continue
		}
		outside := false
		for _, pb := range b.Preds {
			if !(pb == call.Block() || core.SameLoop(pb, call.Block())) {
				outside = true
			}
		}
		if outside && (header == nil || header.Dominates(b)) {
			header = b
		}
	}
	if header == nil {
		u.Why = "loop header not found"
		return u
	}
	all, complete := p.LoopBodyExecutions(u.CreditFn, header)
	u.Complete = complete
	for _, e := range all {
		if _, performed := e.Calls[call]; performed {
			u.Execs = append(u.Execs, e) // iterations that reach the per-proof call (not the loop's exit test)
		}
	}
	if !u.Complete {
		u.Why = "the executions of the per-proof loop body cannot be enumerated"
	}
	return u
}

// classes of the instructions an execution performed (calls executed in line are represented by their bodies)
func (u *proofUnit) classesOf(e *core.AbsExec, class func(ssa.Instruction) string) string {
	var out []string
	for in := range e.Calls {
		if !u.counts(e, in) {
			continue
		}
		if c := class(in); c != "" {
			out = append(out, strings.Split(c, "+")...)
		}
	}
	sort.Strings(out)
	return strings.Join(out, ",")
}

// sites: the instructions of the unit (over all executions) with a non-empty class.
func (u *proofUnit) sites(class func(ssa.Instruction) string) []ssa.Instruction {
	seen := map[ssa.Instruction]bool{}
	var out []ssa.Instruction
	for i := range u.Execs {
		e := &u.Execs[i]
		for in := range e.Calls {
			if !u.counts(e, in) || seen[in] {
				continue
			}
			if class(in) != "" {
				seen[in] = true
				out = append(out, in)
			}
		}
	}
	sort.Slice(out, func(i, j int) bool { return out[i].Pos() < out[j].Pos() })
	return out
}

// guarded: every execution of the unit performing `at` evaluated a condition matched by g (anywhere on the execution).
func (u *proofUnit) guarded(p *core.Program, at ssa.Instruction, g core.GuardMatch) bool {
	return p.ExecsGuarded(u.Execs, at, g, false)
}

// counts: the instruction belongs to the unit itself (not to a helper executed in line); the call of Core from its
// caller is represented by Core's own instructions.
func (u *proofUnit) counts(e *core.AbsExec, in ssa.Instruction) bool {
	if in.Parent() != u.Core && in.Parent() != u.CreditFn {
		return false
	}
	if e.Inlined[in] && in.Parent() == u.CreditFn && u.CreditFn != u.Core {
		if c, ok := in.(ssa.CallInstruction); ok {
			if sc := c.Common().StaticCallee(); sc == u.Core {
				return false
			}
		}
	}
	return true
}

func callsDirectly(p *core.Program, caller, callee *ssa.Function) bool {
	found := false
	allInstrs(caller, func(in ssa.Instruction) {
		if c, ok := in.(ssa.CallInstruction); ok {
			for _, cal := range p.Callees(c) {
				if cal == callee {
					found = true
				}
			}
		}
	})
	return found
}

func inCycleCallTo(p *core.Program, caller, callee *ssa.Function) bool {
	found := false
	allInstrs(caller, func(in ssa.Instruction) {
		if c, ok := in.(ssa.CallInstruction); ok {
			for _, cal := range p.Callees(c) {
				if cal == callee && core.InCycle(in.Block()) {
					found = true
				}
			}
		}
	})
	return found
}

// loopHeaderOf: the header of the outermost loop of fn that contains block b (nil if b is in no loop): the block of b's
// strongly connected component that dominates b and has a predecessor outside the component.
func loopHeaderOf(fn *ssa.Function, b *ssa.BasicBlock) *ssa.BasicBlock {
	if !core.InCycle(b) {
		return nil
	}
	var header *ssa.BasicBlock
	for _, c := range fn.Blocks {
		if !(c == b || core.SameLoop(c, b)) || !c.Dominates(b) {
			continue
		}
		outside := false
		for _, pb := range c.Preds {
			if !(pb == b || core.SameLoop(pb, b)) {
				outside = true
			}
		}
		if outside && (header == nil || c.Dominates(header)) {
			header = c
		}
	}
	return header
}
