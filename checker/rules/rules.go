// Package rules holds the per-property rule sets.
package rules

import (
	"fmt"

	"jklcheck/core"
)

// PropFunc runs the rules of one property.
type PropFunc func(r *core.Run)

var registry = map[string]PropFunc{}

// SelfTestHook is set by the driver: it runs the mutant corpus of a property (thorough tier).
var SelfTestHook func(r *core.Run)

// RunProperty runs a property's rules and returns the process exit code.
func RunProperty(p *core.Program, prop, tier string, seed int, verif string, dry bool) (code int) {
	f, ok := registry[prop]
	if !ok {
		fmt.Printf("error: no rules registered for %s\n", prop)
		return 2
	}
	r := core.NewRun(prop, tier, seed, verif, p)
	r.Dry = dry
	defer func() {
		if e := recover(); e != nil {
			r.Undecided("checker-panic", fmt.Sprint(e), "", "the checker panicked; verdict undecided")
			code = r.Finish()
		}
	}()
	f(r)
	if tier == "thorough" && !dry && SelfTestHook != nil {
		SelfTestHook(r)
	}
	return r.Finish()
}
