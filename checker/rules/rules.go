// Package rules holds the per-property rule sets.
package rules

import (
	"fmt"

	"jklcheck/core"
)

// PropFunc runs the rules of one property.
type PropFunc func(r *core.Run)

var registry = map[string]PropFunc{}

// RunProperty runs a property's rules and returns the process exit code.
func RunProperty(p *core.Program, prop, tier string, seed int, verif string) (code int) {
	f, ok := registry[prop]
	if !ok {
		fmt.Printf("error: no rules registered for %s\n", prop)
		return 2
	}
	r := core.NewRun(prop, tier, seed, verif, p)
	defer func() {
		if e := recover(); e != nil {
			r.Undecided("checker-panic", fmt.Sprint(e), "", "the checker panicked; verdict undecided")
			code = r.Finish()
		}
	}()
	f(r)
	return r.Finish()
}
