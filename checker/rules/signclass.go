package rules

import (
	"go/constant"
	"go/token"

	"golang.org/x/tools/go/ssa"

	"jklcheck/core"
)

// Sign classes of one integer field that the code only ever compares with constants: the finite set of orderings
// {negative, zero, positive} decides every such branch. signInfeasible returns the branch edges of fn that cannot be
// taken when the field (recognised by isField on the operand) has the given sign; comparisons it cannot decide keep
// both edges.
type signClass int

const (
	signNeg signClass = iota
	signZero
	signPos
)

func (s signClass) String() string { return [...]string{"negative", "zero", "positive"}[s] }

// cmpSignConst: truth of (field op c) when the field has sign s; ok=false when the sign does not decide it.
func cmpSignConst(s signClass, op token.Token, c int64) (truth bool, ok bool) {
	// the field's range as an interval
	var lo, hi int64
	const inf = int64(1) << 62
	switch s {
	case signNeg:
		lo, hi = -inf, -1
	case signZero:
		lo, hi = 0, 0
	case signPos:
		lo, hi = 1, inf
	}
	switch op {
	case token.LSS:
		if hi < c {
			return true, true
		}
		if lo >= c {
			return false, true
		}
	case token.LEQ:
		if hi <= c {
			return true, true
		}
		if lo > c {
			return false, true
		}
	case token.GTR:
		if lo > c {
			return true, true
		}
		if hi <= c {
			return false, true
		}
	case token.GEQ:
		if lo >= c {
			return true, true
		}
		if hi < c {
			return false, true
		}
	case token.EQL:
		if lo == c && hi == c {
			return true, true
		}
		if c < lo || c > hi {
			return false, true
		}
	case token.NEQ:
		if lo == c && hi == c {
			return false, true
		}
		if c < lo || c > hi {
			return true, true
		}
	}
	return false, false
}

func constInt(v ssa.Value) (int64, bool) {
	for {
		if cv, ok := v.(*ssa.Convert); ok {
			v = cv.X
			continue
		}
		break
	}
	c, ok := v.(*ssa.Const)
	if !ok || c.Value == nil || c.Value.Kind() != constant.Int {
		return 0, false
	}
	return constant.Int64Val(c.Value)
}

// signInfeasible also reports how many comparisons of the field with a constant it found.
func signInfeasible(p *core.Program, fn *ssa.Function, isField func(v ssa.Value, at ssa.Instruction) bool, s signClass) (map[core.Edge]bool, int) {
	out := map[core.Edge]bool{}
	n := 0
	for _, b := range fn.Blocks {
		ifi, ok := b.Instrs[len(b.Instrs)-1].(*ssa.If)
		if !ok {
			continue
		}
		ca := p.NormCond(ifi)
		if ca.Kind != "cmp" && ca.Kind != "eq" {
			continue
		}
		op := ca.Op
		var c int64
		switch {
		case isField(ca.X, ifi):
			k, isC := constInt(ca.Y)
			if !isC {
				continue
			}
			c = k
		case isField(ca.Y, ifi):
			k, isC := constInt(ca.X)
			if !isC {
				continue
			}
			c = k
			op = flip(op)
		default:
			continue
		}
		n++
		truth, decided := cmpSignConst(s, op, c)
		if !decided {
			continue
		}
		// the atom holds on the true branch iff !Neg
		condTrue := truth != ca.Neg
		if condTrue {
			out[core.Edge{From: b, Succ: 1}] = true
		} else {
			out[core.Edge{From: b, Succ: 0}] = true
		}
	}
	return out, n
}

// signExcludes: a guard matching the branch edges that cannot be taken when the field has sign s (edges of comparisons
// of the field with a constant that the sign decides the other way).
func signExcludes(p *core.Program, isField func(v ssa.Value, at ssa.Instruction) bool, s signClass) core.GuardMatch {
	return func(ca *core.CondAtom, truth bool) bool {
		if ca.Kind != "cmp" && ca.Kind != "eq" {
			return false
		}
		op := ca.Op
		var c int64
		switch {
		case isField(ca.X, ca.If):
			k, isC := constInt(ca.Y)
			if !isC {
				return false
			}
			c = k
		case isField(ca.Y, ca.If):
			k, isC := constInt(ca.X)
			if !isC {
				return false
			}
			c = k
			op = flip(op)
		default:
			return false
		}
		t, decided := cmpSignConst(s, op, c)
		return decided && t != truth
	}
}
