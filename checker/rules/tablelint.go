package rules

import (
	"fmt"
	"go/token"
	"go/types"
	"sort"

	"golang.org/x/tools/go/ssa"

	"jklcheck/core"
)

// tableEntriesReachable: every written entry of a package-level lookup table indexed in the given functions can be
// selected: the interval the guards that dominate the lookup leave for the index covers it. A written entry that no
// admitted index selects is a tier that is never applied (the classic `i < len(t)` where `i <= len(t)` was meant, with
// `t[i-1]`).
func tableEntriesReachable(r *core.Run, rule string, funcs []*ssa.Function) int {
	p := r.Prog
	n := 0
	for _, fn := range funcs {
		allInstrs(fn, func(in ssa.Instruction) {
			var base, idx ssa.Value
			switch x := in.(type) {
			case *ssa.IndexAddr:
				base, idx = x.X, x.Index
			case *ssa.Index:
				base, idx = x.X, x.Index
			default:
				return
			}
			g := globalTable(base)
			if g == nil {
				return
			}
			written, length := tableInit(g)
			if len(written) == 0 {
				return
			}
			// index = v + k
			v, k := idx, int64(0)
			for {
				if cv, ok := v.(*ssa.Convert); ok {
					v = cv.X
					continue
				}
				break
			}
			if bo, ok := v.(*ssa.BinOp); ok && (bo.Op == token.SUB || bo.Op == token.ADD) {
				if c, isC := constInt(bo.Y); isC {
					v = bo.X
					k = c
					if bo.Op == token.SUB {
						k = -c
					}
				}
			}
			for {
				if cv, ok := v.(*ssa.Convert); ok {
					v = cv.X
					continue
				}
				break
			}
			const inf = int64(1) << 60
			lo, hi := -inf, inf
			if c, ok := v.(*ssa.Call); ok {
				if b, isB := c.Call.Value.(*ssa.Builtin); isB && (b.Name() == "len" || b.Name() == "cap") {
					lo = 0
				}
			}
			// the value of the other operand of a comparison with v: a constant, or the length of this table
			other := func(o ssa.Value) (int64, bool) {
				if c, ok := constInt(o); ok {
					return c, true
				}
				for {
					if cv, ok := o.(*ssa.Convert); ok {
						o = cv.X
						continue
					}
					break
				}
				if c, ok := o.(*ssa.Call); ok {
					if b, isB := c.Call.Value.(*ssa.Builtin); isB && b.Name() == "len" && len(c.Call.Args) == 1 && globalTable(c.Call.Args[0]) == g {
						return length, true
					}
				}
				return 0, false
			}
			same := func(a ssa.Value) bool {
				for {
					if cv, ok := a.(*ssa.Convert); ok {
						a = cv.X
						continue
					}
					break
				}
				return a == v
			}
			type neq struct{ c int64 }
			var neqs []neq
			b := in.Block()
			for d := b.Idom(); d != nil; d = d.Idom() {
				ifi, ok := d.Instrs[len(d.Instrs)-1].(*ssa.If)
				if !ok {
					continue
				}
				condTrue, decided := false, false
				for si, sc := range d.Succs {
					if len(sc.Preds) == 1 && (sc == b || sc.Dominates(b)) {
						condTrue, decided = si == 0, true
					}
				}
				if !decided {
					continue
				}
				ca := p.NormCond(ifi)
				if ca.Kind != "cmp" && ca.Kind != "eq" {
					continue
				}
				op := ca.Op
				var c int64
				switch {
				case same(ca.X):
					cc, okc := other(ca.Y)
					if !okc {
						continue
					}
					c = cc
				case same(ca.Y):
					cc, okc := other(ca.X)
					if !okc {
						continue
					}
					c = cc
					op = flip(op)
				default:
					continue
				}
				truth := condTrue != ca.Neg // the atom (v op c) holds on this way in
				if !truth {
					if op == token.EQL {
						neqs = append(neqs, neq{c})
						continue
					}
					op = negate(op)
				}
				switch op {
				case token.LSS:
					if c-1 < hi {
						hi = c - 1
					}
				case token.LEQ:
					if c < hi {
						hi = c
					}
				case token.GTR:
					if c+1 > lo {
						lo = c + 1
					}
				case token.GEQ:
					if c > lo {
						lo = c
					}
				case token.EQL:
					lo, hi = c, c
				}
			}
			for i := 0; i < 2; i++ {
				for _, q := range neqs {
					if q.c == lo {
						lo++
					}
					if q.c == hi {
						hi--
					}
				}
			}
			if hi >= inf || lo <= -inf {
				return // the index is not bounded by guards this rule understands
			}
			n++
			r.Analysed(core.FnName(fn))
			var dead []string
			var ws []int64
			for w := range written {
				ws = append(ws, w)
			}
			sort.Slice(ws, func(i, j int) bool { return ws[i] < ws[j] })
			for _, w := range ws {
				if w < lo+k || w > hi+k {
					dead = append(dead, fmt.Sprintf("%s[%d]", g.Name(), w))
				}
			}
			r.Check(len(dead) == 0, rule, core.FnName(fn)+":table-entries-reachable:"+g.Name(), p.InstrPos(in),
				fmt.Sprintf("index in [%d, %d] covers the %d written entries of %s", lo+k, hi+k, len(written), g.Name()),
				fmt.Sprintf("the guards before this lookup admit only the indices %d..%d, so the written entries %v of the table are never selected: that tier is never applied (an off-by-one between the guard and the index)", lo+k, hi+k, dead))
		})
	}
	return n
}

// globalTable: base is (a load of / a slice of) a package-level array or slice variable.
func globalTable(base ssa.Value) *ssa.Global {
	for i := 0; i < 4; i++ {
		switch x := base.(type) {
		case *ssa.Global:
			return x
		case *ssa.UnOp:
			if x.Op == token.MUL {
				base = x.X
				continue
			}
		case *ssa.Slice:
			base = x.X
			continue
		}
		break
	}
	return nil
}

// tableInit: the indices the package initialiser writes into the table, and the table's length.
func tableInit(g *ssa.Global) (map[int64]bool, int64) {
	written := map[int64]bool{}
	var length int64
	init := g.Pkg.Func("init")
	if init == nil {
		return nil, 0
	}
	collect := func(base ssa.Value) {
		if base.Referrers() == nil {
			return
		}
		for _, ref := range *base.Referrers() {
			ia, ok := ref.(*ssa.IndexAddr)
			if !ok || ia.Referrers() == nil {
				continue
			}
			c, isC := constInt(ia.Index)
			if !isC {
				continue
			}
			for _, rr := range *ia.Referrers() {
				if st, isSt := rr.(*ssa.Store); isSt && st.Addr == ia {
					written[c] = true
				}
			}
		}
	}
	if arr, ok := typeArrayLen(g); ok {
		length = arr
		// elements stored straight into the variable (a global has no referrer list: scan the initialiser)
		allInstrs(init, func(in ssa.Instruction) {
			ia, ok := in.(*ssa.IndexAddr)
			if !ok || ia.X != ssa.Value(g) || ia.Referrers() == nil {
				return
			}
			c, isC := constInt(ia.Index)
			if !isC {
				return
			}
			for _, rr := range *ia.Referrers() {
				if st, isSt := rr.(*ssa.Store); isSt && st.Addr == ia {
					written[c] = true
				}
			}
		})
	}
	// a slice literal: an array allocated in init, sliced and stored into the variable
	allInstrs(init, func(in ssa.Instruction) {
		st, ok := in.(*ssa.Store)
		if !ok || st.Addr != ssa.Value(g) {
			return
		}
		// an array literal: built in a local of init and copied into the variable as a whole
		if ld, isLd := st.Val.(*ssa.UnOp); isLd && ld.Op == token.MUL {
			if al, isAl := ld.X.(*ssa.Alloc); isAl {
				collect(al)
			}
		}
		if sl, isSl := st.Val.(*ssa.Slice); isSl {
			if al, isAl := sl.X.(*ssa.Alloc); isAl {
				if n, okN := typeArrayLenOf(al); okN {
					length = n
				}
				collect(al)
			}
		}
	})
	return written, length
}

func typeArrayLen(g *ssa.Global) (int64, bool) { return arrayLenOfPtr(g.Type()) }

func typeArrayLenOf(al *ssa.Alloc) (int64, bool) { return arrayLenOfPtr(al.Type()) }

func arrayLenOfPtr(t types.Type) (int64, bool) {
	pt, ok := t.Underlying().(*types.Pointer)
	if !ok {
		return 0, false
	}
	arr, ok := pt.Elem().Underlying().(*types.Array)
	if !ok {
		return 0, false
	}
	return arr.Len(), true
}
