package rules

import (
	"fmt"
	"go/constant"
	"go/token"
	"go/types"
	"sort"
	"strings"

	"golang.org/x/tools/go/ssa"

	"jklcheck/core"
)

// Trusted-base texts (DESIGN §2) quoted in evidence.
var (
	T1 = "T1 revert-on-error: baseapp runs a message on a cached store and commits only on a nil error; Begin/EndBlock commit everything"
	T2 = "T2 ante chain: signatures verified are exactly msg.GetSigners() (decorator presence/order is itself checked in C11/R5)"
	T3 = "T3 bank keeper: Send* moves exactly amt or errors; NewCoin/NewInt64Coin panic on negatives; Dec/Int Quo panic on zero"
	T4 = "T4 store: iteration in key byte order; prefix stores confine keys; proto Marshal/Unmarshal round-trip a value of the same type"
	T5 = "T5 stdlib: encoding/json sorts map keys; sort/slices deterministic; Go map iteration order is random"
	T6 = "T6 params: a ParamSetPair validator runs on every parameter change and at genesis"
	T7 = "T7 scope: genesis import and upgrade handlers are outside the transaction histories the properties quantify over"
)

// side is a predicate on the provenance of one operand of a comparison.
type side func(pr core.Prov) bool

func storeField(name, path string) side {
	return func(pr core.Prov) bool { return pr.HasStore(name, path) }
}

// onlyStoreField: the data atoms are exactly fields `path` of records from `name`.
func onlyStoreField(name, path string) side {
	return func(pr core.Prov) bool {
		atoms := pr.DataAtoms()
		if len(atoms) == 0 {
			return false
		}
		for _, a := range atoms {
			if !(a.Kind == "store" && a.Name == name && a.Path == path) {
				return false
			}
		}
		return true
	}
}

// onlyStoreFieldH is onlyStoreField after resolving helper parameters up to the handler.
func onlyStoreFieldH(p *core.Program, h *core.Handler, name, path string) side {
	base := onlyStoreField(name, path)
	return func(pr core.Prov) bool { return base(pr) || base(p.ResolveToEntry(pr, h.Fn)) }
}

func ctxIs(method string) side {
	return func(pr core.Prov) bool { return pr.HasCtx(method) }
}

func signerOf(p *core.Program, h *core.Handler) side {
	return func(pr core.Prov) bool { return p.OnlyMsgField(pr, h, "Creator") }
}

func msgField(p *core.Program, h *core.Handler, field string) side {
	return func(pr core.Prov) bool { return p.HasMsgField(pr, h, field) }
}

// eqGuard matches Eq(x,y)=want in either operand order.
func eqGuard(p *core.Program, x, y side, want bool) core.GuardMatch {
	return func(ca *core.CondAtom, truth bool) bool {
		if ca.Kind != "eq" || truth != want {
			return false
		}
		px, py := p.ProvAt(ca.X, "", ca.If), p.ProvAt(ca.Y, "", ca.If)
		return (x(px) && y(py)) || (x(py) && y(px))
	}
}

// foundGuard matches Found(getter on prefix)=want.
func foundGuard(p *core.Program, name string, want bool) core.GuardMatch {
	return func(ca *core.CondAtom, truth bool) bool {
		if ca.Kind != "found" || truth != want {
			return false
		}
		return p.ProvAt(ca.X, "", ca.If).HasStore(name, "#found")
	}
}

// anyOf: disjunctive guard.
func anyOf(gs ...core.GuardMatch) core.GuardMatch {
	return func(ca *core.CondAtom, truth bool) bool {
		for _, g := range gs {
			if g(ca, truth) {
				return true
			}
		}
		return false
	}
}

// relation between a and b asserted on an edge of a cmp atom, normalised so that `a` is on the left.
// returns "" when the atom does not compare a with b.
func relOnEdge(p *core.Program, ca *core.CondAtom, truth bool, a, b side) string {
	if ca.Kind != "cmp" {
		return ""
	}
	x, y := ca.X, ca.Y
	// difference form: (u - v) REL 0  ≡  u REL v ;  0 REL (u - v)  ≡  v REL u
	if bo, ok := x.(*ssa.BinOp); ok && bo.Op == token.SUB && isZero(y) {
		x, y = bo.X, bo.Y
	} else if bo, ok := y.(*ssa.BinOp); ok && bo.Op == token.SUB && isZero(x) {
		x, y = bo.Y, bo.X
	}
	px, py := p.ProvAt(x, "", ca.If), p.ProvAt(y, "", ca.If)
	op := ca.Op
	switch {
	case a(px) && b(py):
	case a(py) && b(px):
		op = flip(op)
	default:
		return ""
	}
	if !truth {
		op = negate(op)
	}
	return op.String()
}

func flip(op token.Token) token.Token {
	switch op {
	case token.LSS:
		return token.GTR
	case token.LEQ:
		return token.GEQ
	case token.GTR:
		return token.LSS
	case token.GEQ:
		return token.LEQ
	}
	return op
}

func negate(op token.Token) token.Token {
	switch op {
	case token.LSS:
		return token.GEQ
	case token.LEQ:
		return token.GTR
	case token.GTR:
		return token.LEQ
	case token.GEQ:
		return token.LSS
	}
	return op
}

// cmpGuard: edge asserting `a rel b` with rel in rels.
func cmpGuard(p *core.Program, a, b side, rels ...string) core.GuardMatch {
	return func(ca *core.CondAtom, truth bool) bool {
		r := relOnEdge(p, ca, truth, a, b)
		for _, x := range rels {
			if r == x {
				return true
			}
		}
		return false
	}
}

// callBoolGuard matches CallBool(callee satisfying pred)=want.
func callBoolGuard(p *core.Program, pred func(call *ssa.Call, callees []*ssa.Function) bool, want bool) core.GuardMatch {
	return func(ca *core.CondAtom, truth bool) bool {
		if ca.Kind != "callbool" || truth != want || ca.Call == nil {
			return false
		}
		return pred(ca.Call, p.Callees(ca.Call))
	}
}

// errNilGuard matches ErrNil(call satisfying pred)=true.
func errNilGuard(p *core.Program, pred func(call *ssa.Call) bool) core.GuardMatch {
	return func(ca *core.CondAtom, truth bool) bool {
		if ca.Kind != "errnil" || !truth || ca.Call == nil {
			return false
		}
		return pred(ca.Call)
	}
}

func storeWrites(module string, prefixes ...string) core.OpFilter {
	return core.OpFilter{Store: func(o *core.StoreOp) bool {
		if !o.IsWrite() || o.Module != module {
			return false
		}
		for _, pf := range prefixes {
			if o.Prefix == pf {
				return true
			}
		}
		return len(prefixes) == 0
	}}
}

func allEffects() core.OpFilter {
	return core.OpFilter{Store: func(o *core.StoreOp) bool { return o.IsWrite() }, Bank: func(*core.BankOp) bool { return true }}
}

// guardRow checks one handler-level row with CheckGuarded and records the obligation.
func guardRow(r *core.Run, rule string, h *core.Handler, what string, filter core.OpFilter, mk func(unit *ssa.Function) core.GuardMatch, guardText string) bool {
	p := r.Prog
	st := &core.ChainStats{}
	fails := p.CheckGuarded(h.Fn, filter, p.LiftGuard(mk, 2), true, st)
	construct := h.Key() + ":" + what
	r.Analysed(core.FnName(h.Fn))
	r.CallSites(st.Effects)
	if st.Effects == 0 {
		r.Undecided(rule, construct, p.Pos(h.Fn.Pos()), "row matches no effect in this handler (anchor missing)")
		return false
	}
	if len(fails) == 0 {
		r.Ok(rule, construct, p.Pos(h.Fn.Pos()), fmt.Sprintf("%d effect sites in %d units, every committing path passes %s", st.Effects, st.Units, guardText))
		return true
	}
	f := fails[0]
	r.Violation(rule, construct, p.InstrPos(f.Final.Instr), fmt.Sprintf("a committing path performs %s without passing %s (%d unguarded routes)", p.DescribeEffect(f.Final), guardText, len(fails)), f.Chain...)
	return false
}

func hasStoreWrite(p *core.Program, fn *ssa.Function, module string, prefixes ...string) bool {
	for _, o := range p.Summary(fn).Store {
		if !o.IsWrite() || o.Module != module {
			continue
		}
		for _, pf := range prefixes {
			if o.Prefix == pf {
				return true
			}
		}
	}
	return false
}

func sortedKeys(m map[string]bool) []string {
	var out []string
	for k := range m {
		out = append(out, k)
	}
	sort.Strings(out)
	return out
}

func short(s string) string { return strings.ReplaceAll(s, core.ModPath+"/", "") }

// allInstrs iterates the instructions of fn.
func allInstrs(fn *ssa.Function, f func(ssa.Instruction)) {
	for _, b := range fn.Blocks {
		for _, in := range b.Instrs {
			f(in)
		}
	}
}

// directOpCallee returns the callee of call that directly performs an op of the given kind on module/prefix.
func directOpCallee(p *core.Program, call ssa.CallInstruction, kind, name string) (*ssa.Function, *core.StoreOp) {
	for _, cal := range p.Callees(call) {
		for _, o := range p.StoreOps(cal) {
			if o.Kind == kind && o.Module+"/"+o.Prefix == name {
				return cal, o
			}
		}
	}
	return nil, nil
}

// keyTermsAtCall resolves the components of the store key used by op (performed directly in callee) into
// canonical terms of the caller at the given call site. A component that is not a plain function of one
// callee parameter (or a field of a record parameter) yields a "?"-term.
func keyTermsAtCall(p *core.Program, call ssa.CallInstruction, callee *ssa.Function, op *core.StoreOp) []string {
	return keyTermsAtCallTB(p, core.NewTermBuilder(p), call, callee, op)
}

// keyTermsThrough is keyTermsAtCall for an op that `call` performs either directly (accessor call) or one helper
// level down; in the latter case the helper's parameters are bound to the terms of the actual arguments.
func keyTermsThrough(p *core.Program, call ssa.CallInstruction, kind, name string) []string {
	if cal, op := directOpCallee(p, call, kind, name); cal != nil {
		return keyTermsAtCall(p, call, cal, op)
	}
	cs := p.Callees(call)
	if len(cs) != 1 {
		return nil
	}
	outer := core.NewTermBuilder(p)
	c := call.Common()
	var actuals []ssa.Value
	if c.IsInvoke() {
		actuals = append(actuals, c.Value)
	}
	actuals = append(actuals, c.Args...)
	sub := core.NewTermBuilder(p)
	for i, prm := range cs[0].Params {
		if i < len(actuals) {
			sub.Names[prm] = outer.Term(actuals[i])
		}
	}
	var out []string
	allInstrs(cs[0], func(in ssa.Instruction) {
		ic, ok := in.(ssa.CallInstruction)
		if !ok || out != nil {
			return
		}
		if cal, op := directOpCallee(p, ic, kind, name); cal != nil && cal != cs[0] {
			out = keyTermsAtCallTB(p, sub, ic, cal, op)
		}
	})
	return out
}

// keyTermsKeepRewrite: keep, in key terms read through an accessor, what the accessor does to its parameter before
// building the key. Off by default: the name accessors lower-case what every caller has already lower-cased, and the
// terms do not know that lower-casing is idempotent; switched on where an accessor pair must address the same slot for
// the same argument (the bid that is paid out and the bid that is deleted).
var keyTermsKeepRewrite = false

func keyTermsAtCallTB(p *core.Program, tb *core.TermBuilder, call ssa.CallInstruction, callee *ssa.Function, op *core.StoreOp) []string {
	c := call.Common()
	var actuals []ssa.Value
	if c.IsInvoke() {
		actuals = append(actuals, c.Value)
	}
	actuals = append(actuals, c.Args...)
	var out []string
	comps := p.KeyComponents(op.Key, op.Instr)
	if len(comps) == 1 {
		// an opaque key builder (append-style helper): use the helper call's arguments as the components
		v := op.Key
		for i := 0; i < 4; i++ {
			if cv, ok := v.(*ssa.Convert); ok {
				v = cv.X
				continue
			}
			break
		}
		if kc, ok := v.(*ssa.Call); ok && len(p.Callees(kc)) == 1 && len(kc.Call.Args) > 0 {
			comps = nil
			for _, a := range kc.Call.Args {
				comps = append(comps, core.KeyComponent{Verb: "arg", Val: a, At: kc})
			}
		}
	}
	for _, comp := range comps {
		atoms := p.ResolveToEntry(p.ProvAt(comp.Val, "", comp.At), callee).DataAtoms()
		if len(atoms) != 1 || atoms[0].Kind != "param" || atoms[0].Fn != callee || atoms[0].Idx >= len(actuals) {
			out = append(out, "?"+p.ProvAt(comp.Val, "", comp.At).String())
			continue
		}
		arg := actuals[atoms[0].Idx]
		path := atoms[0].Path
		if path == "" {
			at := tb.Term(arg)
			// an accessor that rewrites its parameter before building the key (lower-cases it, trims it) addresses
			// another slot than the one its caller names: keep the rewriting in the term
			pn := fmt.Sprintf("P%d", atoms[0].Idx)
			if ct := core.NewTermBuilder(p).Term(comp.Val); keyTermsKeepRewrite && ct != pn && strings.Contains(ct, pn) && !strings.Contains(ct, "⊤") && strings.Count(ct, "P") == 1 {
				at = strings.Replace(ct, pn, at, 1)
			}
			out = append(out, at)
			continue
		}
		field := strings.TrimPrefix(path, ".")
		if al := recordAlloc(arg); al != nil {
			if sts := fieldStores(al, field); len(sts) > 0 {
				out = append(out, tb.Term(sts[len(sts)-1].Val))
				continue
			}
			// an unmodified key field of a record loaded from the same prefix equals the key it was loaded by
			// (store invariant: records are keyed by their own key fields, position by position)
			resolved := false
			for _, ref := range *al.Referrers() {
				st, ok := ref.(*ssa.Store)
				if !ok || st.Addr != al {
					continue
				}
				ex, ok := st.Val.(*ssa.Extract)
				if !ok || ex.Index != 0 {
					continue
				}
				gc, ok := ex.Tuple.(*ssa.Call)
				if !ok {
					continue
				}
				if gcal, gop := directOpCallee(p, gc, "Get", op.Module+"/"+op.Prefix); gcal != nil && gcal != callee {
					gt := keyTermsAtCall(p, gc, gcal, gop)
					if len(out) < len(gt) {
						out = append(out, gt[len(out)])
						resolved = true
					}
				}
			}
			if resolved {
				continue
			}
		}
		if !strings.Contains(field, ".") && !strings.Contains(field, "[") {
			out = append(out, tb.FieldTerm(arg, field))
			continue
		}
		out = append(out, tb.Term(arg)+path)
	}
	return out
}

// successImplies: on every committing return of the handler the effects selected by filter have been performed
// (checked in the function that contains the effect site and along the calls from the handler down to it).
func successImplies(r *core.Run, rule string, h *core.Handler, what string, filter core.OpFilter) {
	p := r.Prog
	var walk func(fn *ssa.Function, depth int) (found bool, bad string)
	walk = func(fn *ssa.Function, depth int) (bool, string) {
		if depth > 4 {
			return false, ""
		}
		found := false
		for _, e := range p.Effects(fn) {
			match := false
			if filter.Store != nil {
				for _, o := range e.Store {
					if filter.Store(o) {
						match = true
					}
				}
			}
			if filter.Bank != nil {
				for _, b := range e.Bank {
					if filter.Bank(b) {
						match = true
					}
				}
			}
			if !match {
				continue
			}
			found = true
			if ret := p.BypassExists(fn, fn.Blocks[0].Instrs[0], e.Instr, fn != h.Fn && errResultIdx(fn) < 0); ret != nil {
				// maybe another matching effect covers the other paths: require each committing return to pass SOME matching effect
				continue
			}
			if !e.Direct {
				for _, c := range e.Callees {
					if f2, bad := walk(c, depth+1); f2 && bad != "" {
						return true, bad
					}
				}
			}
			return true, ""
		}
		if found {
			return true, core.FnName(fn)
		}
		return false, ""
	}
	found, bad := walk(h.Fn, 0)
	construct := h.Key() + ":success-implies:" + what
	switch {
	case !found:
		r.Violation(rule, construct, r.Prog.Pos(h.Fn.Pos()), "the handler never performs "+what)
	case bad != "":
		r.Violation(rule, construct, r.Prog.Pos(h.Fn.Pos()), "a successful return of "+bad+" can be reached without having performed "+what+" (early return / skipped branch): the message reports success but its effect did not happen")
	default:
		r.Ok(rule, construct, r.Prog.Pos(h.Fn.Pos()), "every committing return has performed "+what)
	}
}

func errResultIdx(fn *ssa.Function) int {
	res := fn.Signature.Results()
	for i := res.Len() - 1; i >= 0; i-- {
		if res.At(i).Type().String() == "error" {
			return i
		}
	}
	return -1
}

// findOpSite finds, below handler h, the call site whose callee directly performs an op of the given kind on
// module/prefix (the keeper accessor call), together with the function that contains it.
func findOpSite(p *core.Program, h *core.Handler, kind, name string) (*ssa.Function, ssa.CallInstruction) {
	var unit *ssa.Function
	var site ssa.CallInstruction
	for _, fn := range p.Summary(h.Fn).Funcs {
		allInstrs(fn, func(in ssa.Instruction) {
			call, ok := in.(ssa.CallInstruction)
			if !ok {
				return
			}
			if cal, _ := directOpCallee(p, call, kind, name); cal != nil && cal != fn {
				if unit == nil || fn == h.Fn {
					unit, site = fn, call
				}
			}
		})
	}
	return unit, site
}

func isZero(v ssa.Value) bool {
	c, ok := v.(*ssa.Const)
	return ok && c.Value != nil && c.Value.ExactString() == "0"
}

// loopNotLeftEarly: the effect selected by filter sits in a loop of the handler (one write per listed element);
// the loop is left only through its header (the list is exhausted) or into a panic / failing return. An early
// success exit (break, return nil) silently drops the remaining elements while the message reports success.
func loopNotLeftEarly(r *core.Run, rule string, h *core.Handler, what string, filter core.OpFilter) {
	p := r.Prog
	n := 0
	for _, fn := range p.Summary(h.Fn).Funcs {
		for _, e := range p.Effects(fn) {
			match := false
			for _, o := range e.Store {
				if filter.Store != nil && filter.Store(o) {
					match = true
				}
			}
			if !match {
				continue
			}
			eb := e.Instr.Block()
			if !core.InCycle(eb) {
				continue
			}
			n++
			// header: the block of the cycle entered from outside
			var header *ssa.BasicBlock
			for _, b := range fn.Blocks {
				if !core.SameLoop(b, eb) {
					continue
				}
				for _, pr := range b.Preds {
					if !core.SameLoop(pr, eb) {
						header = b
					}
				}
			}
			bad := ""
			for _, b := range fn.Blocks {
				if !core.SameLoop(b, eb) || b == header {
					continue
				}
				for si, sc := range b.Succs {
					if core.SameLoop(sc, eb) || endsInPanicOrFailure(p, fn, sc) {
						continue
					}
					// left on a condition that every execution taking this way out turns into a failing return
					// (a sticky error tested in the loop condition)
					if exists, ok := p.AbsEdgeCommits(fn, core.Edge{From: b, Succ: si}); ok && !exists {
						continue
					}
					bad = p.InstrPos(b.Instrs[len(b.Instrs)-1])
				}
			}
			r.Check(bad == "", rule, h.Key()+":"+what+":loop-not-left-early", p.InstrPos(e.Instr), "the per-element loop ends only when the list is exhausted or by failing", "the loop that performs "+what+" for every listed element can be left early on a successful path (at "+bad+"): the remaining elements are silently skipped while the message reports success")
		}
	}
	if n == 0 {
		r.Undecided(rule, h.Key()+":"+what+":loop-not-left-early", p.Pos(h.Fn.Pos()), "expected "+what+" inside a per-element loop")
	}
}

// loadWriteKeyAgreement: a unit that loads a record of a prefix (getter with found flag) and writes a record of the
// same prefix uses the same key terms for both (skip: handlers that re-key by design). Returns the number of pairs.
func loadWriteKeyAgreement(r *core.Run, rule string, hs []*core.Handler, rekey map[string]string) int {
	p := r.Prog
	nLW := 0
	for _, h := range hs {
		if _, ok := rekey[h.Key()]; ok {
			continue
		}
		for _, fn := range p.Summary(h.Fn).Funcs {
			type site struct {
				call   ssa.CallInstruction
				callee *ssa.Function
				op     *core.StoreOp
			}
			var getters, setters []site
			allInstrs(fn, func(in ssa.Instruction) {
				call, ok := in.(ssa.CallInstruction)
				if !ok {
					return
				}
				for _, cal := range p.Callees(call) {
					if gi := p.StoreGetter(cal); gi != nil && gi.Found {
						for _, o := range p.StoreOps(cal) {
							if o.Kind == "Get" {
								getters = append(getters, site{call, cal, o})
							}
						}
					}
					for _, o := range p.StoreOps(cal) {
						if o.Kind == "Set" {
							setters = append(setters, site{call, cal, o})
						}
					}
				}
			})
			for _, st := range setters {
				name := st.op.Module + "/" + st.op.Prefix
				var gts [][]string
				for _, g := range getters {
					if g.op.Module+"/"+g.op.Prefix == name {
						gts = append(gts, keyTermsAtCall(p, g.call, g.callee, g.op))
					}
				}
				if len(gts) == 0 {
					continue
				}
				nLW++
				wt := keyTermsAtCall(p, st.call, st.callee, st.op)
				match := false
				for _, gt := range gts {
					if strings.Join(gt, "\x00") == strings.Join(wt, "\x00") && !strings.Contains(strings.Join(wt, ""), "?") {
						match = true
					}
				}
				r.Check(match, rule, fmt.Sprintf("%s:%s:loaded-key=written-key:%s", h.Key(), fn.Name(), name), p.InstrPos(st.call),
					"the record written is keyed as the record loaded: "+strings.Join(wt, " / "),
					fmt.Sprintf("the unit loads %s by %v but writes it under %v: the check and the write concern different records", name, gts, wt))
			}
		}
	}
	return nLW
}

// wasmDoorValidated: every wasm-binding call site of handler `key` lies behind ErrNil(msg.ValidateBasic()) — the
// contract entry is the only door that does not pass the ante handler's stateless validation.
func wasmDoorValidated(r *core.Run, rule string, hs []*core.Handler, key string) {
	p := r.Prog
	h := core.HandlerByKey(hs, key)
	if h == nil {
		r.Undecided(rule, "wasm:"+key+":anchor-missing", "", "handler missing")
		return
	}
	for _, fn := range p.Funcs {
		if !strings.HasPrefix(core.RelPkg(core.FnPkgPath(fn)), "wasmbinding") {
			continue
		}
		allInstrs(fn, func(in ssa.Instruction) {
			call, ok := in.(ssa.CallInstruction)
			if !ok {
				return
			}
			hit := false
			for _, cal := range p.Callees(call) {
				if cal == h.Fn {
					hit = true
				}
			}
			if !hit {
				return
			}
			r.Analysed(core.FnName(fn))
			g := errNilGuard(p, func(c *ssa.Call) bool { return strings.HasSuffix(core.CalleeFullName(c), ".ValidateBasic") })
			u := p.FindUnguarded(fn, []*core.Effect{{Instr: call}}, g, true)
			r.Check(len(u) == 0, rule, "wasm:"+key+":validate-basic", p.InstrPos(call), "the contract entry calls the handler only behind ErrNil(ValidateBasic)", "the wasm binding reaches the handler without stateless validation: the size checks of ValidateBasic (positive, non-overflowing) do not apply to messages sent by contracts")
		})
	}
}

// productOverflowGuarded: validator fn rejects f1*f2 overflowing int64 by the division form
// (f1 > C/f2 or f2 > C/f1 leads only to failing returns). A sign test of the wrapped product is not a guard.
func productOverflowGuarded(p *core.Program, fn *ssa.Function, f1, f2 string) bool {
	rets := p.Returns(fn)
	isField := func(v ssa.Value, at ssa.Instruction, f string) bool {
		as := p.ProvAt(v, "", at).DataAtoms()
		return len(as) == 1 && as[0].Kind == "param" && as[0].Idx == 0 && as[0].Path == "."+f
	}
	for _, b := range fn.Blocks {
		ifi, ok := b.Instrs[len(b.Instrs)-1].(*ssa.If)
		if !ok {
			continue
		}
		ca := p.NormCond(ifi)
		if ca.Kind != "cmp" {
			continue
		}
		for succ := 0; succ < 2; succ++ {
			truth := !ca.Neg
			if succ == 1 {
				truth = ca.Neg
			}
			op := ca.Op
			if !truth {
				op = negate(op)
			}
			x, y := ca.X, ca.Y
			if _, isQ := x.(*ssa.BinOp); isQ {
				x, y, op = y, x, flip(op)
			}
			q, ok := y.(*ssa.BinOp)
			if !ok || q.Op != token.QUO || (op != token.GTR && op != token.GEQ) {
				continue
			}
			c, isC := q.X.(*ssa.Const)
			if !isC || c.Value == nil || c.Int64() < 1<<62 {
				continue
			}
			if !((isField(x, ifi, f1) && isField(q.Y, ifi, f2)) || (isField(x, ifi, f2) && isField(q.Y, ifi, f1))) {
				continue
			}
			// that successor leads only to failing returns
			s := b.Succs[succ]
			onlyFail, any := true, false
			for _, ri := range rets {
				if ri.Ret.Block() == s || core.PathExists(fn, nil, s.Instrs[0], ri.Ret) {
					any = true
					if ri.Class != core.RetFail {
						onlyFail = false
					}
				}
			}
			if any && onlyFail {
				return true
			}
		}
	}
	return false
}

// absentCheckKeyAgreement: where a record is written only behind Found(getter)=false, the key whose absence was
// tested is the key written (term equality). Returns the number of create-if-absent pairs.
func absentCheckKeyAgreement(r *core.Run, rule string, hs []*core.Handler) int {
	p := r.Prog
	nAbs := 0
	type site struct {
		fn     *ssa.Function
		call   ssa.CallInstruction
		callee *ssa.Function
		op     *core.StoreOp
	}
	for _, h := range hs {
		var getters, setters []site
		for _, fn := range p.Summary(h.Fn).Funcs {
			fn := fn
			allInstrs(fn, func(in ssa.Instruction) {
				call, ok := in.(ssa.CallInstruction)
				if !ok {
					return
				}
				for _, cal := range p.Callees(call) {
					if gi := p.StoreGetter(cal); gi != nil && gi.Found {
						for _, o := range p.StoreOps(cal) {
							if o.Kind == "Get" {
								getters = append(getters, site{fn, call, cal, o})
							}
						}
					}
					for _, o := range p.StoreOps(cal) {
						if o.Kind == "Set" {
							setters = append(setters, site{fn, call, cal, o})
						}
					}
				}
			})
		}
		for _, g := range getters {
			name := g.op.Module + "/" + g.op.Prefix
			for _, st := range setters {
				if st.op.Module+"/"+st.op.Prefix != name {
					continue
				}
				// is the write behind Found(this getter)=false ?
				gcall := g.call
				notFound := func(ca *core.CondAtom, truth bool) bool {
					return ca.Kind == "found" && !truth && ca.Call != nil && ssa.CallInstruction(ca.Call) == gcall
				}
				construct := fmt.Sprintf("%s:absent-check-key=written-key:%s", h.Key(), name)
				if g.fn != st.fn {
					// validate / apply split: the absence test and the write sit in sibling helpers of the handler; judge
					// the handler's executions with the helpers executed in line
					if g.fn == h.Fn || st.fn == h.Fn {
						continue
					}
					execs, complete := p.AbstractExecutions(h.Fn)
					performed := false
					for i := range execs {
						if _, ok := execs[i].Calls[st.call]; ok {
							performed = true
						}
					}
					if !complete || !performed || !p.ExecsGuarded(execs, st.call, notFound, true) {
						continue
					}
					nAbs++
					r.Ok(rule, construct, p.InstrPos(st.call), "the write is performed only on executions that found the key absent (test in "+g.fn.Name()+", write in "+st.fn.Name()+"); the key terms live in different helpers and are not compared")
					continue
				}
				if p.ReachesUnguarded(g.fn, st.call, notFound) {
					continue // not a create-if-absent pair
				}
				nAbs++
				gt := keyTermsAtCall(p, g.call, g.callee, g.op)
				wt := keyTermsAtCall(p, st.call, st.callee, st.op)
				same := len(gt) == len(wt)
				for i := 0; same && i < len(gt); i++ {
					if gt[i] != wt[i] || strings.HasPrefix(gt[i], "?") {
						same = false
					}
				}
				r.Check(same, rule, construct, p.InstrPos(st.call),
					"the key tested for absence is the key written: "+strings.Join(wt, " / "),
					fmt.Sprintf("a record is created behind 'not found' for key %v but written under key %v: an existing record of another account can be overwritten", gt, wt))
			}
		}
	}
	return nAbs
}

// iteratorHygiene: ranged store iterators in funcs. Keys in this code base are text: a bound built from a
// variable-width decimal does not delimit a numeric range (byte order: "1000" < "900"), and an open-ended range whose
// iterator is only asked Valid() is not a test for "some key with this prefix exists" (any later key satisfies it).
func iteratorHygiene(r *core.Run, rule string, funcs []*ssa.Function) {
	p := r.Prog
	n := 0
	for _, fn := range funcs {
		allInstrs(fn, func(in ssa.Instruction) {
			c, ok := in.(*ssa.Call)
			if !ok {
				return
			}
			name := core.CalleeFullName(c)
			if !(strings.HasSuffix(name, ").Iterator") || strings.HasSuffix(name, ").ReverseIterator")) {
				return
			}
			args := c.Call.Args
			if !c.Call.IsInvoke() && len(args) == 3 {
				args = args[1:] // receiver first
			}
			if len(args) != 2 {
				return
			}
			n++
			r.Analysed(core.FnName(fn))
			isNil := func(v ssa.Value) bool {
				k, ok := v.(*ssa.Const)
				return ok && k.Value == nil
			}
			s, e := args[0], args[1]
			construct := core.FnName(fn) + ":ranged-iterator"
			if isNil(s) && isNil(e) {
				r.Trivial(rule, construct, p.InstrPos(c), "full iteration of the (prefix) store")
				return
			}
			tb := core.NewTermBuilder(p)
			for _, b := range []ssa.Value{s, e} {
				if !isNil(b) && strings.Contains(tb.Term(b), "dec(") {
					r.Violation(rule, construct, p.InstrPos(c), "a range bound is built from a variable-width decimal ("+tb.Term(b)+"): keys sort as text, so the range is not the numeric range it looks like (\"…1000\" sorts before \"…900\") — records outside the intended range are visited/deleted and records inside it are skipped")
					return
				}
			}
			if isNil(s) != isNil(e) {
				onlyValid := true
				if c.Referrers() != nil {
					for _, ref := range *c.Referrers() {
						rc, isCall := ref.(ssa.CallInstruction)
						if isCall {
							rn := core.CalleeFullName(rc)
							if strings.HasSuffix(rn, ").Valid") || strings.HasSuffix(rn, ").Close") {
								continue
							}
						}
						if _, isDbg := ref.(*ssa.DebugRef); isDbg {
							continue
						}
						if _, isDefer := ref.(*ssa.Defer); isDefer {
							continue
						}
						onlyValid = false
					}
				}
				if onlyValid {
					r.Violation(rule, construct, p.InstrPos(c), "an open-ended range is used as an existence test (the iterator is only asked Valid()): it is true whenever ANY later key exists, not only keys with the intended prefix")
					return
				}
			}
			r.Ok(rule, construct, p.InstrPos(c), "ranged iteration with text-safe bounds")
		})
	}
	r.Ok(rule, "iterator-census", "", fmt.Sprintf("%d raw Iterator/ReverseIterator call sites examined in %d functions", n, len(funcs)))
}

// decToIntConversions walks the computation of v backwards (through helpers) and returns the names of the
// sdk.Dec -> integer conversions it passes (TruncateInt, RoundInt, Ceil, ...).
func decToIntConversions(p *core.Program, v ssa.Value) []string {
	set := map[string]bool{}
	seen := map[ssa.Value]bool{}
	var walk func(x ssa.Value, depth int)
	walk = func(x ssa.Value, depth int) {
		if x == nil || seen[x] || depth > 40 {
			return
		}
		seen[x] = true
		switch y := x.(type) {
		case *ssa.Parameter:
			// the value is handed in: follow it to the arguments at the call sites of this function
			fn := y.Parent()
			idx := -1
			for i, prm := range fn.Params {
				if prm == y {
					idx = i
				}
			}
			for _, caller := range p.CG().In[fn] {
				allInstrs(caller, func(in ssa.Instruction) {
					cs, ok := in.(ssa.CallInstruction)
					if !ok {
						return
					}
					for _, cal := range p.Callees(cs) {
						if cal != fn {
							continue
						}
						c := cs.Common()
						var actuals []ssa.Value
						if c.IsInvoke() {
							actuals = append(actuals, c.Value)
						}
						actuals = append(actuals, c.Args...)
						if idx >= 0 && idx < len(actuals) {
							walk(actuals[idx], depth+4)
						}
					}
				})
			}
		case *ssa.Call:
			name := core.CalleeFullName(y)
			for _, m := range []string{"TruncateInt", "TruncateInt64", "RoundInt", "RoundInt64", "Ceil", "TruncateDec"} {
				if strings.HasSuffix(name, "types.Dec)."+m) {
					set[m] = true
				}
			}
			if y.Call.IsInvoke() {
				walk(y.Call.Value, depth+1)
			}
			for _, a := range y.Call.Args {
				walk(a, depth+1)
			}
			for _, cal := range p.Callees(y) {
				for _, b := range cal.Blocks {
					if ret, ok := b.Instrs[len(b.Instrs)-1].(*ssa.Return); ok {
						for _, rv := range ret.Results {
							walk(rv, depth+1)
						}
					}
				}
			}
		case *ssa.Phi:
			for _, e := range y.Edges {
				walk(e, depth+1)
			}
		case *ssa.Extract:
			walk(y.Tuple, depth+1)
		case *ssa.UnOp:
			if al, ok := y.X.(*ssa.Alloc); ok {
				for _, ref := range *al.Referrers() {
					if st, ok := ref.(*ssa.Store); ok && st.Addr == al {
						walk(st.Val, depth+1)
					}
				}
				// array literal elements (varargs)
				for _, ref := range *al.Referrers() {
					if ia, ok := ref.(*ssa.IndexAddr); ok {
						for _, r2 := range *ia.Referrers() {
							if st, ok := r2.(*ssa.Store); ok {
								walk(st.Val, depth+1)
							}
						}
					}
				}
			}
			walk(y.X, depth+1)
		case *ssa.Slice:
			walk(y.X, depth+1)
		case *ssa.Alloc:
			for _, ref := range *y.Referrers() {
				switch r2 := ref.(type) {
				case *ssa.Store:
					if r2.Addr == y {
						walk(r2.Val, depth+1)
					}
				case *ssa.IndexAddr:
					for _, r3 := range *r2.Referrers() {
						if st, ok := r3.(*ssa.Store); ok {
							walk(st.Val, depth+1)
						}
					}
				case *ssa.FieldAddr:
					for _, r3 := range *r2.Referrers() {
						if st, ok := r3.(*ssa.Store); ok {
							walk(st.Val, depth+1)
						}
					}
				}
			}
		case *ssa.Field:
			walk(y.X, depth+1)
		case *ssa.FieldAddr:
			walk(y.X, depth+1)
		case *ssa.IndexAddr:
			walk(y.X, depth+1) // an element of a slice built elsewhere (a list of computed payouts)
		case *ssa.Index:
			walk(y.X, depth+1)
		case *ssa.Lookup:
			walk(y.X, depth+1)
		case *ssa.BinOp:
			walk(y.X, depth+1)
			walk(y.Y, depth+1)
		case *ssa.Convert:
			walk(y.X, depth+1)
		case *ssa.ChangeType:
			walk(y.X, depth+1)
		case *ssa.MakeInterface:
			walk(y.X, depth+1)
		}
	}
	walk(v, 0)
	return sortedKeys(set)
}

// roundsDown: the amount is a share computed in decimals and converted by truncation only (never to nearest or up):
// the sum of such shares cannot exceed the whole.
func roundsDown(r *core.Run, rule, construct string, amount ssa.Value, pos string) {
	conv := decToIntConversions(r.Prog, amount)
	bad := ""
	trunc := false
	for _, c := range conv {
		if strings.HasPrefix(c, "Truncate") {
			trunc = true
		} else {
			bad = c
		}
	}
	r.Check(bad == "" && trunc, rule, construct, pos, "the share is converted to whole units by truncation only ("+strings.Join(conv, ", ")+")", "the share is converted to whole units by "+strings.Join(conv, ", ")+": shares rounded to nearest or up can add up to more than the amount they divide")
}

// paramsGetterFaithful: the module's GetParams returns exactly what the parameter store holds: one GetParamSet(IfExists)
// into a local, that local returned on every path, nothing else written into it and nothing else returned (no default
// standing in for a stored zero, no process-local cache).
func paramsGetterFaithful(r *core.Run, rule, module string) {
	p := r.Prog
	fn := p.FuncByName("x/"+module+"/keeper", "Keeper", "GetParams")
	construct := module + ":params-getter-faithful"
	if fn == nil {
		r.Undecided(rule, construct, "", "Keeper.GetParams not found")
		return
	}
	r.Analysed(core.FnName(fn))
	var target *ssa.Alloc
	nGet := 0
	allInstrs(fn, func(in ssa.Instruction) {
		c, ok := in.(ssa.CallInstruction)
		if !ok {
			return
		}
		name := core.CalleeFullName(c)
		if strings.HasSuffix(name, "Subspace).GetParamSet") || strings.HasSuffix(name, "Subspace).GetParamSetIfExists") {
			nGet++
			args := c.Common().Args
			last := args[len(args)-1]
			if mi, ok := last.(*ssa.MakeInterface); ok {
				last = mi.X
			}
			if al, ok := last.(*ssa.Alloc); ok {
				target = al
			}
		}
	})
	if nGet != 1 || target == nil {
		r.Violation(rule, construct, p.Pos(fn.Pos()), fmt.Sprintf("GetParams does not read the parameter set into a local exactly once (%d reads)", nGet))
		return
	}
	bad := ""
	// nothing else writes the local
	var scan func(addr ssa.Value)
	scan = func(addr ssa.Value) {
		refs := addr.Referrers()
		if refs == nil {
			return
		}
		for _, ref := range *refs {
			switch x := ref.(type) {
			case *ssa.Store:
				if x.Addr == addr {
					if u, isLoad := x.Val.(*ssa.UnOp); isLoad && u.X == addr {
						continue // `return params`: the named result assigned to itself
					}
					if c, isC := x.Val.(*ssa.Const); !(isC && c.Value == nil) && !isZeroInit(x.Val) {
						bad = "a value is written into the result besides the parameter store read at " + p.InstrPos(x)
					}
				}
			case *ssa.FieldAddr:
				scan(x)
			}
		}
	}
	scan(target)
	// every return returns that local
	for _, b := range fn.Blocks {
		ret, ok := b.Instrs[len(b.Instrs)-1].(*ssa.Return)
		if !ok {
			continue
		}
		for _, rv := range ret.Results {
			u, ok := rv.(*ssa.UnOp)
			if !ok || u.X != ssa.Value(target) {
				bad = "a return yields something other than the parameter set just read (" + p.InstrPos(ret) + ")"
			}
		}
	}
	r.Check(bad == "", rule, construct, p.Pos(fn.Pos()), "GetParams returns the parameter set read from the parameter store, unmodified", "GetParams is not a faithful read of the parameter store: "+bad+" — a default replacing a stored 0, or a process-local copy, makes the values used differ from the governance-set ones (and between nodes)")
}

func isZeroInit(v ssa.Value) bool {
	c, ok := v.(*ssa.Const)
	return ok && c.Value == nil
}

// processLocalState: consensus code must not keep state outside the stores: no write to a package-level variable
// and no write through a pointer or map held in a Keeper field.
func processLocalState(r *core.Run, rule string, funcs []*ssa.Function) {
	p := r.Prog
	fromKeeperField := func(v ssa.Value) bool {
		for i := 0; i < 8 && v != nil; i++ {
			switch x := v.(type) {
			case *ssa.FieldAddr:
				if strings.HasSuffix(core.TypeName(x.X.Type()), "keeper.Keeper") {
					return true
				}
				v = x.X
			case *ssa.Field:
				if strings.HasSuffix(core.TypeName(x.X.Type()), "keeper.Keeper") {
					return true
				}
				v = x.X
			case *ssa.UnOp:
				v = x.X
			case *ssa.IndexAddr:
				v = x.X
			default:
				return false
			}
		}
		return false
	}
	n := 0
	for _, fn := range funcs {
		if fn.Name() == "init" || strings.HasPrefix(fn.Name(), "New") || fn.Synthetic != "" {
			continue // construction time, not block processing
		}
		allInstrs(fn, func(in ssa.Instruction) {
			switch x := in.(type) {
			case *ssa.Store:
				n++
				root := x.Addr
				for i := 0; i < 8; i++ {
					if fa, ok := root.(*ssa.FieldAddr); ok {
						root = fa.X
					} else if ia, ok := root.(*ssa.IndexAddr); ok {
						root = ia.X
					} else {
						break
					}
				}
				if g, ok := root.(*ssa.Global); ok && g.Pkg != nil && strings.HasPrefix(g.Pkg.Pkg.Path(), core.ModPath) {
					r.Violation(rule, core.FnName(fn)+":writes-global:"+g.Name(), p.InstrPos(x), "a package-level variable is written on a consensus path: process-local state that differs between nodes with different histories (restart, state sync)")
					return
				}
				if x.Addr != root && fromKeeperField(x.Addr) {
					if _, isLoad := root.(*ssa.UnOp); isLoad {
						r.Violation(rule, core.FnName(fn)+":writes-through-keeper-field", p.InstrPos(x), "memory reachable from a Keeper field is written on a consensus path: process-local state (a cache) that is not part of the committed store")
					}
				}
			case ssa.CallInstruction:
				// a pointer held in a Keeper field handed to a custom function that writes through it
				c := x.Common()
				var actuals []ssa.Value
				if c.IsInvoke() {
					actuals = append(actuals, c.Value)
				}
				actuals = append(actuals, c.Args...)
				for _, cal := range p.Callees(x) {
					for i, prm := range cal.Params {
						if i >= len(actuals) {
							continue
						}
						if _, isPtr := prm.Type().Underlying().(*types.Pointer); !isPtr || !fromKeeperField(actuals[i]) {
							continue
						}
						if strings.Contains(prm.Type().String(), "codec") || strings.Contains(prm.Type().String(), "cosmos-sdk") {
							continue
						}
						writes := false
						allInstrs(cal, func(in2 ssa.Instruction) {
							if st, ok := in2.(*ssa.Store); ok {
								root := st.Addr
								for j := 0; j < 8; j++ {
									if fa, ok := root.(*ssa.FieldAddr); ok {
										root = fa.X
									} else {
										break
									}
								}
								if root == ssa.Value(prm) && st.Addr != ssa.Value(prm) {
									writes = true
								}
							}
						})
						if writes {
							r.Violation(rule, core.FnName(fn)+":writes-through-keeper-field", p.InstrPos(x), "an object held in a Keeper field is modified ("+core.FnName(cal)+") on a consensus path: process-local state (a cache) that is not part of the committed store")
						}
					}
				}
			case *ssa.MapUpdate:
				n++
				if fromKeeperField(x.Map) {
					r.Violation(rule, core.FnName(fn)+":writes-keeper-map", p.InstrPos(x), "a map held in a Keeper field is updated on a consensus path: process-local state that is not part of the committed store")
				}
			}
		})
	}
	// read side: a package-level variable that any function other than a package initialiser can write (a setter
	// called from app wiring, a flag parsed from the node's configuration) is node-local configuration; a consensus
	// path whose behaviour — store reads billed to the transaction's gas meter, events, results — depends on it differs
	// between nodes that are configured differently. Variables written only by package initialisers are constants in
	// all but name (codecs, key tables, compiled regular expressions).
	globalRoot := func(v ssa.Value) *ssa.Global {
		for i := 0; i < 8 && v != nil; i++ {
			switch x := v.(type) {
			case *ssa.Global:
				return x
			case *ssa.FieldAddr:
				v = x.X
			case *ssa.IndexAddr:
				v = x.X
			default:
				return nil
			}
		}
		return nil
	}
	mutable := map[*ssa.Global]string{}
	for _, fn := range p.Funcs {
		if fn.Name() == "init" || strings.HasPrefix(fn.Name(), "init#") || (fn.Parent() != nil && (fn.Parent().Name() == "init" || strings.HasPrefix(fn.Parent().Name(), "init#"))) {
			continue
		}
		allInstrs(fn, func(in ssa.Instruction) {
			if st, ok := in.(*ssa.Store); ok {
				if g := globalRoot(st.Addr); g != nil && g.Pkg != nil && strings.HasPrefix(g.Pkg.Pkg.Path(), core.ModPath) {
					if _, seen := mutable[g]; !seen {
						mutable[g] = core.FnName(fn) + " at " + p.InstrPos(st)
					}
				}
			}
		})
	}
	nReads := 0
	for _, fn := range funcs {
		if fn.Name() == "init" || strings.HasPrefix(fn.Name(), "New") || fn.Synthetic != "" {
			continue
		}
		allInstrs(fn, func(in ssa.Instruction) {
			ld, ok := in.(*ssa.UnOp)
			if !ok || ld.Op != token.MUL {
				return
			}
			g := globalRoot(ld.X)
			if g == nil || g.Pkg == nil || !strings.HasPrefix(g.Pkg.Pkg.Path(), core.ModPath) {
				return
			}
			nReads++
			if w, isMut := mutable[g]; isMut {
				r.Violation(rule, core.FnName(fn)+":reads-mutable-global:"+g.Name(), p.InstrPos(ld), "a consensus path reads the package-level variable "+g.Name()+", which is written outside package initialisation ("+w+"): node-local configuration decides what the path does (store reads billed to the gas meter, results, events), so nodes configured differently diverge")
			}
		})
	}
	r.Ok(rule, "scope:no-process-local-state", "", fmt.Sprintf("%d stores/map updates examined in %d functions: none targets a package-level variable or memory held in a Keeper field; %d reads of package-level variables, none of a variable written outside package initialisation (%d such variables exist in the module)", n, len(funcs), nReads, len(mutable)))
}

// gettersFaithful: every store getter of the module (a function recognised as "reads the record under the key built
// from its parameters") returns, on every path, the variable that the single store read was decoded into — or that
// variable still at its zero value — and nothing else is written into that variable. The authorisation rules compare
// "the loaded record" with the signer and then write it back under its own key: a getter that can hand out a record
// which is not the one stored under the requested key turns those checks against the wrong record.
func gettersFaithful(r *core.Run, rule, module string) int {
	p := r.Prog
	n := 0
	for _, fn := range moduleFuncs(p, module) {
		gi := p.StoreGetter(fn)
		if gi == nil || gi.Module != module {
			continue
		}
		if _, isStruct := derefStruct(fn.Signature.Results().At(0).Type()); !isStruct {
			continue
		}
		decodes := false
		allInstrs(fn, func(in ssa.Instruction) {
			if c, ok := in.(ssa.CallInstruction); ok {
				name := core.CalleeFullName(c)
				if strings.Contains(name, "codec") && (strings.HasSuffix(name, ".MustUnmarshal") || strings.HasSuffix(name, ".Unmarshal")) {
					decodes = true
				}
			}
		})
		if !decodes {
			continue // an indirection (reads a key, delegates to another getter)
		}
		n++
		r.Analysed(core.FnName(fn))
		construct := core.FnName(fn) + ":getter-faithful"
		nGet := 0
		for _, o := range p.StoreOps(fn) {
			if o.Kind == "Get" || o.Kind == "Iterate" {
				nGet++
			}
		}
		bad := ""
		if nGet != 1 {
			bad = fmt.Sprintf("%d store reads instead of one", nGet)
		}
		var target *ssa.Alloc
		for _, b := range fn.Blocks {
			ret, ok := b.Instrs[len(b.Instrs)-1].(*ssa.Return)
			if !ok {
				continue
			}
			u, ok := ret.Results[0].(*ssa.UnOp)
			if !ok {
				bad = "a return yields a value that is not the decoded record variable (" + p.InstrPos(ret) + ")"
				continue
			}
			al, ok := u.X.(*ssa.Alloc)
			if !ok || (target != nil && al != target) {
				bad = "returns yield different variables (" + p.InstrPos(ret) + ")"
				continue
			}
			target = al
		}
		if target != nil && bad == "" {
			var scan func(addr ssa.Value)
			scan = func(addr ssa.Value) {
				if addr.Referrers() == nil {
					return
				}
				for _, ref := range *addr.Referrers() {
					switch x := ref.(type) {
					case *ssa.Store:
						if x.Addr == addr {
							if u, isLoad := x.Val.(*ssa.UnOp); isLoad && u.X == addr {
								continue
							}
							if !isZeroInit(x.Val) {
								bad = "the returned variable is assigned besides the decode (" + p.InstrPos(x) + ")"
							}
						}
					case *ssa.FieldAddr:
						scan(x)
					}
				}
			}
			scan(target)
		}
		r.Check(bad == "", rule, construct, p.Pos(fn.Pos()), "returns the record decoded from the single read under the requested key (or the zero value)", "the getter does not simply return the record stored under the requested key: "+bad)
	}
	return n
}

// genesisImportsAll: every loop of the module's InitGenesis that writes records performs the write for every
// element: the loop is left only when the list is exhausted (or by panic/failure) and no path through the loop body
// skips the write. A record in the genesis file that import silently drops is state lost by the round trip.
func genesisImportsAll(r *core.Run, rule, module string) int {
	p := r.Prog
	initFn, _ := p.GenesisEntries(module)
	if initFn == nil {
		r.Undecided(rule, module+":InitGenesis:anchor-missing", "", "InitGenesis not found")
		return 0
	}
	n := 0
	for _, fn := range p.Summary(initFn).Funcs {
		if core.ModuleOf(fn) != module && fn != initFn {
			continue
		}
		for _, e := range p.Effects(fn) {
			isSet := false
			prefix := ""
			for _, o := range e.Store {
				if o.Kind == "Set" && o.Module == module {
					isSet, prefix = true, o.Prefix
				}
			}
			eb := e.Instr.Block()
			if !isSet || !core.InCycle(eb) {
				continue
			}
			n++
			r.Analysed(core.FnName(fn))
			var header *ssa.BasicBlock
			for _, b := range fn.Blocks {
				if !core.SameLoop(b, eb) {
					continue
				}
				for _, pr := range b.Preds {
					if !core.SameLoop(pr, eb) {
						header = b
					}
				}
			}
			bad := ""
			for _, b := range fn.Blocks {
				if !core.SameLoop(b, eb) || b == header {
					continue
				}
				for _, sc := range b.Succs {
					if !core.SameLoop(sc, eb) && !endsInPanicOrFailure(p, fn, sc) {
						bad = "the loop can be left early at " + p.InstrPos(b.Instrs[len(b.Instrs)-1])
					}
				}
			}
			// a way round the loop that avoids the write
			if header != nil && bad == "" {
				seen := map[*ssa.BasicBlock]bool{}
				stack := []*ssa.BasicBlock{}
				for _, sc := range header.Succs {
					if core.SameLoop(sc, eb) && sc != eb {
						stack = append(stack, sc)
					}
				}
				if header == eb {
					stack = nil
				}
				for len(stack) > 0 {
					b := stack[len(stack)-1]
					stack = stack[:len(stack)-1]
					if seen[b] || b == eb {
						continue
					}
					seen[b] = true
					if b == header {
						bad = "an element can be skipped (a path through the loop body avoids the write)"
						break
					}
					for _, sc := range b.Succs {
						if core.SameLoop(sc, eb) {
							stack = append(stack, sc)
						}
					}
				}
			}
			r.Check(bad == "", rule, module+":import-every-element:"+prefix, p.InstrPos(e.Instr), "every element of the genesis list is written", "InitGenesis does not write every element of the list under "+module+"/"+prefix+": "+bad+" — records present in the genesis file are silently dropped on import")
		}
	}
	return n
}

// paramPairTable: parameter key text -> Params field it addresses, confirmed by reading the pinned tree. Governance
// proposals and the param subspace address a parameter by its key; keeper code reads the field. The two agree only
// through the pair table of ParamSetPairs.
var paramPairTable = map[string]map[string]string{
	"storage": {"ProofWindow": "ProofWindow", "ChunkSize": "ChunkSize", "AttestFormSize": "AttestFormSize", "AttestMinToPass": "AttestMinToPass",
		"CollateralPrice": "CollateralPrice", "CheckWindow": "CheckWindow", "Referrals": "ReferralCommission", "POLRatio": "PolRatio",
		"PricePerTbPerMonth": "PricePerTbPerMonth", "DepositAccount": "DepositAccount", "MissesToBurn": "MissesToBurn", "PriceFeed": "PriceFeed",
		"MaxContractAgeInBlocks": "MaxContractAgeInBlocks"},
	"jklmint": {"MintDenom": "MintDenom", "TokensPerBlock": "TokensPerBlock", "DevGrants": "DevGrantsRatio", "StakerRatio": "StakerRatio",
		"MintIncrease": "MintDecrease", "StorageStipend": "StorageStipendAddress", "ProviderRatio": "StorageProviderRatio"},
}

// paramPairsConsistent: every pair of the module's ParamSetPairs binds its key to the field of that name in the
// table above (a key bound to another field makes a by-key parameter change land in the wrong parameter while
// genesis, SetParams and all keeper code still round-trip).
func paramPairsConsistent(r *core.Run, rule, module string) {
	p := r.Prog
	fn := p.FuncByName("x/"+module+"/types", "Params", "ParamSetPairs")
	if fn == nil {
		r.Undecided(rule, module+":ParamSetPairs:anchor-missing", "", "Params.ParamSetPairs not found")
		return
	}
	r.Analysed(core.FnName(fn))
	// key variables: package-level []byte initialised from a string constant
	keyText := map[*ssa.Global]string{}
	if initFn := fn.Pkg.Func("init"); initFn != nil {
		allInstrs(initFn, func(in ssa.Instruction) {
			st, ok := in.(*ssa.Store)
			if !ok {
				return
			}
			g, ok := st.Addr.(*ssa.Global)
			if !ok {
				return
			}
			v := st.Val
			for i := 0; i < 3; i++ {
				if cv, ok := v.(*ssa.Convert); ok {
					v = cv.X
				}
			}
			if c, ok := v.(*ssa.Const); ok && c.Value != nil && c.Value.Kind() == constant.String {
				keyText[g] = constant.StringVal(c.Value)
			}
		})
	}
	table := paramPairTable[module]
	seen := map[string]bool{}
	allInstrs(fn, func(in ssa.Instruction) {
		c, ok := in.(*ssa.Call)
		if !ok || !strings.HasSuffix(core.CalleeFullName(c), "params/types.NewParamSetPair") || len(c.Call.Args) < 2 {
			return
		}
		var key string
		if u, ok := c.Call.Args[0].(*ssa.UnOp); ok {
			if g, ok := u.X.(*ssa.Global); ok {
				key = keyText[g]
			}
		}
		field := ""
		v := c.Call.Args[1]
		if mi, ok := v.(*ssa.MakeInterface); ok {
			v = mi.X
		}
		if fa, ok := v.(*ssa.FieldAddr); ok {
			field = core.FieldName(fa.X.Type(), fa.Field)
		}
		want, known := table[key]
		if !known {
			return
		}
		seen[key] = true
		r.Check(field == want, rule, module+":param-key:"+key, p.InstrPos(c), "key "+key+" addresses Params."+want, "parameter key "+key+" is bound to Params."+field+" instead of Params."+want+": a governance change of "+key+" alters another parameter, while genesis and keeper code keep round-tripping")
	})
	for k := range table {
		if !seen[k] {
			r.Undecided(rule, module+":param-key:"+k+":anchor-missing", p.Pos(fn.Pos()), "no pair with this key in ParamSetPairs")
		}
	}
}

// exhaustiveEnumeration: the functions enumerate store records exhaustively: no SDK pagination helper (a nil page
// request means the default page size of 100) and every iterator loop is left only when the iterator is exhausted
// (or by a panic / failing return). Returns the number of iterator loops examined.
func exhaustiveEnumeration(r *core.Run, rule, m string, funcs []*ssa.Function) int {
	p := r.Prog
	nIter := 0
	for _, fn := range funcs {
		allInstrs(fn, func(in ssa.Instruction) {
			call, ok := in.(ssa.CallInstruction)
			if !ok {
				return
			}
			if ext := core.ExtCallee(call); ext != nil && ext.Pkg != nil && strings.HasSuffix(ext.Pkg.Pkg.Path(), "cosmos-sdk/types/query") {
				r.Violation(rule, m+":export-paginated:"+fn.Name(), p.InstrPos(call), "ExportGenesis reaches "+ext.Name()+" of the SDK query package: a nil page request means the default page size (100 records), so the export silently stops after the first page")
			}
		})
		// iterator loops leave only through Valid()=false (or a panic)
		for _, b := range fn.Blocks {
			ifi, ok := b.Instrs[len(b.Instrs)-1].(*ssa.If)
			if !ok {
				continue
			}
			vc, ok := ifi.Cond.(*ssa.Call)
			if !ok || !vc.Call.IsInvoke() || vc.Call.Method.Name() != "Valid" {
				continue
			}
			nIter++
			for _, lb := range fn.Blocks {
				if !core.SameLoop(lb, b) {
					continue
				}
				for _, sc := range lb.Succs {
					if core.SameLoop(sc, b) || lb == b {
						continue
					}
					if endsInPanicOrFailure(p, fn, sc) {
						continue
					}
					if callbackNeverStops(p, fn, lb, sc, funcs) {
						continue // a visitor-style iterator: every visitor handed in on this path asks to go on
					}
					r.Violation(rule, m+":export-loop-exits-early:"+fn.Name(), p.InstrPos(lb.Instrs[len(lb.Instrs)-1]), "an iteration on the export path can end before the iterator is exhausted: records after that point are not exported")
				}
			}
			r.Ok(rule, m+":export-loop:"+fn.Name(), p.InstrPos(ifi), "iteration ends only when the iterator is exhausted")
		}
	}
	return nIter
}

// isAccessorFn: a thin store accessor — its only effect is one direct store operation (SetX / RemoveX / the
// index-level helpers). Rules judge the callers of accessors; a function that performs a store operation directly
// next to other effects is a unit of its own.
func isAccessorFn(p *core.Program, fn *ssa.Function) bool {
	effs := p.Effects(fn)
	n := 0
	for _, e := range effs {
		if !e.Direct {
			return false
		}
		n += len(e.Store)
	}
	return n == 1
}

// performsDirectly: effect e is the store operation itself (kind on name) in a function that is not a thin accessor,
// or a call of a thin accessor performing it.
func performsDirectly(p *core.Program, fn *ssa.Function, e *core.Effect, kind, name string) bool {
	if !effHas(e, kind, name) {
		return false
	}
	if e.Direct {
		return !isAccessorFn(p, fn)
	}
	for _, c := range e.Callees {
		if !isAccessorFn(p, c) {
			continue // a unit of its own, judged there
		}
		for _, o := range p.StoreOps(c) {
			if o.Kind == kind && o.Module+"/"+o.Prefix == name {
				return true
			}
		}
	}
	return false
}

// guardedHereOrAtCallSites: every path to instruction at in fn passes the guard, or — when the guarded computation
// was moved into a helper — every call site of fn (in custom code) is itself reached only behind the guard.
func guardedHereOrAtCallSites(p *core.Program, fn *ssa.Function, at ssa.Instruction, g core.GuardMatch) bool {
	if len(p.FindUnguarded(fn, []*core.Effect{{Instr: at}}, g, true)) == 0 {
		return true
	}
	n := 0
	for _, caller := range p.CG().In[fn] {
		ok := true
		allInstrs(caller, func(in ssa.Instruction) {
			cs, isCall := in.(ssa.CallInstruction)
			if !isCall {
				return
			}
			for _, cal := range p.Callees(cs) {
				if cal == fn {
					n++
					if len(p.FindUnguarded(caller, []*core.Effect{{Instr: cs}}, g, true)) != 0 {
						ok = false
					}
				}
			}
		})
		if !ok {
			return false
		}
	}
	return n > 0
}

// callbackNeverStops: block lb leaves the loop towards sc on the verdict of a callback parameter of fn (a visitor that
// may ask to stop), and every function handed in for that parameter at the call sites in `funcs` returns, on all its
// paths, the constant that means "go on".
func callbackNeverStops(p *core.Program, fn *ssa.Function, lb, sc *ssa.BasicBlock, funcs []*ssa.Function) bool {
	ifi, ok := lb.Instrs[len(lb.Instrs)-1].(*ssa.If)
	if !ok {
		return false
	}
	cond := ifi.Cond
	neg := false
	for {
		if u, isNot := cond.(*ssa.UnOp); isNot && u.Op == token.NOT {
			cond, neg = u.X, !neg
			continue
		}
		break
	}
	call, ok := cond.(*ssa.Call)
	if !ok {
		return false
	}
	prm, ok := call.Call.Value.(*ssa.Parameter)
	if !ok || prm.Parent() != fn {
		return false
	}
	idx := -1
	for i, q := range fn.Params {
		if q == prm {
			idx = i
		}
	}
	// the callback verdict that leaves the loop
	exitOn := lb.Succs[0] == sc
	if neg {
		exitOn = !exitOn
	}
	n := 0
	for _, caller := range funcs {
		okAll := true
		allInstrs(caller, func(in ssa.Instruction) {
			c, isCall := in.(ssa.CallInstruction)
			if !isCall {
				return
			}
			for _, cal := range p.Callees(c) {
				if cal != fn {
					continue
				}
				cc := c.Common()
				var actuals []ssa.Value
				if cc.IsInvoke() {
					actuals = append(actuals, cc.Value)
				}
				actuals = append(actuals, cc.Args...)
				if idx < 0 || idx >= len(actuals) {
					okAll = false
					continue
				}
				var vf *ssa.Function
				switch a := actuals[idx].(type) {
				case *ssa.MakeClosure:
					vf, _ = a.Fn.(*ssa.Function)
				case *ssa.Function:
					vf = a
				}
				if vf == nil || vf.Blocks == nil {
					okAll = false
					continue
				}
				n++
				for _, b := range vf.Blocks {
					ret, isRet := b.Instrs[len(b.Instrs)-1].(*ssa.Return)
					if !isRet {
						continue
					}
					k, isConst := ret.Results[0].(*ssa.Const)
					if len(ret.Results) != 1 || !isConst || k.Value == nil || (k.Value.ExactString() == "true") == exitOn {
						okAll = false
					}
				}
			}
		})
		if !okAll {
			return false
		}
	}
	return n > 0
}

// equalityHelper recognises a call of a repository helper that only compares two of its parameters — every return hands
// back bytes.Equal / Equals / == of two parameters (possibly converted) — and gives the two arguments compared at this call.
func equalityHelper(p *core.Program, call *ssa.Call) (a, b ssa.Value, ok bool) {
	cals := p.Callees(call)
	if len(cals) != 1 || cals[0].Blocks == nil || cals[0].Signature.Results().Len() != 1 {
		return nil, nil, false
	}
	f := cals[0]
	actual := func(v ssa.Value) ssa.Value {
		for i := 0; i < 4; i++ {
			switch x := v.(type) {
			case *ssa.Convert:
				v = x.X
				continue
			case *ssa.ChangeType:
				v = x.X
				continue
			case *ssa.MakeInterface:
				v = x.X
				continue
			case *ssa.Call:
				// a view of the same value: addr.Bytes(), addr.String()
				if n := x.Call.StaticCallee(); n != nil && len(p.Callees(x)) == 0 && len(x.Call.Args) == 1 && (n.Name() == "Bytes" || n.Name() == "String") {
					v = x.Call.Args[0]
					continue
				}
			}
			break
		}
		pa, isP := v.(*ssa.Parameter)
		if !isP {
			return nil
		}
		var actuals []ssa.Value
		if call.Call.IsInvoke() {
			actuals = append(actuals, call.Call.Value)
		}
		actuals = append(actuals, call.Call.Args...)
		for i, q := range f.Params {
			if q == pa && i < len(actuals) {
				return actuals[i]
			}
		}
		return nil
	}
	n := 0
	for _, blk := range f.Blocks {
		ret, isRet := blk.Instrs[len(blk.Instrs)-1].(*ssa.Return)
		if !isRet {
			continue
		}
		var x, y ssa.Value
		switch v := ret.Results[0].(type) {
		case *ssa.Call:
			name := core.CalleeFullName(v)
			if len(p.Callees(v)) != 0 || len(v.Call.Args) != 2 || !(name == "bytes.Equal" || strings.HasSuffix(name, ".Equals") || strings.HasSuffix(name, ".Equal")) {
				return nil, nil, false
			}
			x, y = actual(v.Call.Args[0]), actual(v.Call.Args[1])
		case *ssa.BinOp:
			if v.Op != token.EQL {
				return nil, nil, false
			}
			x, y = actual(v.X), actual(v.Y)
		default:
			return nil, nil, false
		}
		if x == nil || y == nil || (n > 0 && (x != a || y != b)) {
			return nil, nil, false
		}
		a, b = x, y
		n++
	}
	return a, b, n > 0
}

// methodFieldAssign is an assignment to a field of a local record made by a function of the repository that was handed
// the record's address (rec.SetCount(n)): the stored value lives in that function, Call is the call that handed it in.
type methodFieldAssign struct {
	Val    ssa.Value
	Call   ssa.CallInstruction
	Callee *ssa.Function
}

func fieldAssignsThroughMethods(p *core.Program, al *ssa.Alloc, field string) []methodFieldAssign {
	var out []methodFieldAssign
	if al == nil || al.Referrers() == nil {
		return nil
	}
	for _, ref := range *al.Referrers() {
		cs, isCall := ref.(ssa.CallInstruction)
		if !isCall || cs.Common().IsInvoke() {
			continue
		}
		for _, cal := range p.Callees(cs) {
			for i, a := range cs.Common().Args {
				if a != ssa.Value(al) || i >= len(cal.Params) || !p.MayWriteField(cal, i, field) {
					continue
				}
				prm := cal.Params[i]
				allInstrs(cal, func(in ssa.Instruction) {
					if st, ok := in.(*ssa.Store); ok {
						if fa, ok := st.Addr.(*ssa.FieldAddr); ok && fa.X == ssa.Value(prm) && core.FieldName(fa.X.Type(), fa.Field) == field {
							out = append(out, methodFieldAssign{st.Val, cs, cal})
						}
					}
				})
			}
		}
	}
	return out
}

// termInCall: the term of a value of callee `cal` with the callee's parameters bound to the arguments of `call`.
func termInCall(p *core.Program, v ssa.Value, cal *ssa.Function, call ssa.CallInstruction) string {
	outer := core.NewTermBuilder(p)
	sub := core.NewTermBuilder(p)
	sub.Bind = map[*ssa.Parameter]core.BoundVal{}
	for i, prm := range cal.Params {
		if i < len(call.Common().Args) {
			sub.Bind[prm] = core.BoundVal{Val: call.Common().Args[i], TB: outer}
		}
	}
	return sub.Term(v)
}
