package rules

import (
	"fmt"
	"go/token"
	"sort"
	"strings"

	"golang.org/x/tools/go/ssa"

	"jklcheck/core"
)

// Trusted-base texts (DESIGN §2) quoted in evidence.
var (
	T1 = "T1 revert-on-error: baseapp runs a message on a cached store and commits only on a nil error; Begin/EndBlock commit everything"
	T2 = "T2 ante chain: signatures verified are exactly msg.GetSigners() (decorator presence/order is itself checked in C11/R5)"
	T3 = "T3 bank keeper: Send* moves exactly amt or errors; NewCoin/NewInt64Coin panic on negatives; Dec/Int Quo panic on zero"
	T4 = "T4 store: iteration in key byte order; prefix stores confine keys; proto Marshal/Unmarshal round-trip a value of the same type"
	T5 = "T5 stdlib: encoding/json sorts map keys; sort/slices deterministic; Go map iteration order is random"
	T6 = "T6 params: a ParamSetPair validator runs on every parameter change and at genesis"
	T7 = "T7 scope: genesis import and upgrade handlers are outside the transaction histories the properties quantify over"
)

// side is a predicate on the provenance of one operand of a comparison.
type side func(pr core.Prov) bool

func storeField(name, path string) side {
	return func(pr core.Prov) bool { return pr.HasStore(name, path) }
}

// onlyStoreField: the data atoms are exactly fields `path` of records from `name`.
func onlyStoreField(name, path string) side {
	return func(pr core.Prov) bool {
		atoms := pr.DataAtoms()
		if len(atoms) == 0 {
			return false
		}
		for _, a := range atoms {
			if !(a.Kind == "store" && a.Name == name && a.Path == path) {
				return false
			}
		}
		return true
	}
}

func ctxIs(method string) side {
	return func(pr core.Prov) bool { return pr.HasCtx(method) }
}

func signerOf(p *core.Program, h *core.Handler) side {
	return func(pr core.Prov) bool { return p.OnlyMsgField(pr, h, "Creator") }
}

func msgField(p *core.Program, h *core.Handler, field string) side {
	return func(pr core.Prov) bool { return p.HasMsgField(pr, h, field) }
}

// eqGuard matches Eq(x,y)=want in either operand order.
func eqGuard(p *core.Program, x, y side, want bool) core.GuardMatch {
	return func(ca *core.CondAtom, truth bool) bool {
		if ca.Kind != "eq" || truth != want {
			return false
		}
		px, py := p.ProvAt(ca.X, "", ca.If), p.ProvAt(ca.Y, "", ca.If)
		return (x(px) && y(py)) || (x(py) && y(px))
	}
}

// foundGuard matches Found(getter on prefix)=want.
func foundGuard(p *core.Program, name string, want bool) core.GuardMatch {
	return func(ca *core.CondAtom, truth bool) bool {
		if ca.Kind != "found" || truth != want {
			return false
		}
		return p.ProvAt(ca.X, "", ca.If).HasStore(name, "#found")
	}
}

// anyOf: disjunctive guard.
func anyOf(gs ...core.GuardMatch) core.GuardMatch {
	return func(ca *core.CondAtom, truth bool) bool {
		for _, g := range gs {
			if g(ca, truth) {
				return true
			}
		}
		return false
	}
}

// relation between a and b asserted on an edge of a cmp atom, normalised so that `a` is on the left.
// returns "" when the atom does not compare a with b.
func relOnEdge(p *core.Program, ca *core.CondAtom, truth bool, a, b side) string {
	if ca.Kind != "cmp" {
		return ""
	}
	px, py := p.ProvAt(ca.X, "", ca.If), p.ProvAt(ca.Y, "", ca.If)
	op := ca.Op
	switch {
	case a(px) && b(py):
	case a(py) && b(px):
		op = flip(op)
	default:
		return ""
	}
	if !truth {
		op = negate(op)
	}
	return op.String()
}

func flip(op token.Token) token.Token {
	switch op {
	case token.LSS:
		return token.GTR
	case token.LEQ:
		return token.GEQ
	case token.GTR:
		return token.LSS
	case token.GEQ:
		return token.LEQ
	}
	return op
}

func negate(op token.Token) token.Token {
	switch op {
	case token.LSS:
		return token.GEQ
	case token.LEQ:
		return token.GTR
	case token.GTR:
		return token.LEQ
	case token.GEQ:
		return token.LSS
	}
	return op
}

// cmpGuard: edge asserting `a rel b` with rel in rels.
func cmpGuard(p *core.Program, a, b side, rels ...string) core.GuardMatch {
	return func(ca *core.CondAtom, truth bool) bool {
		r := relOnEdge(p, ca, truth, a, b)
		for _, x := range rels {
			if r == x {
				return true
			}
		}
		return false
	}
}

// callBoolGuard matches CallBool(callee satisfying pred)=want.
func callBoolGuard(p *core.Program, pred func(call *ssa.Call, callees []*ssa.Function) bool, want bool) core.GuardMatch {
	return func(ca *core.CondAtom, truth bool) bool {
		if ca.Kind != "callbool" || truth != want || ca.Call == nil {
			return false
		}
		return pred(ca.Call, p.Callees(ca.Call))
	}
}

// errNilGuard matches ErrNil(call satisfying pred)=true.
func errNilGuard(p *core.Program, pred func(call *ssa.Call) bool) core.GuardMatch {
	return func(ca *core.CondAtom, truth bool) bool {
		if ca.Kind != "errnil" || !truth || ca.Call == nil {
			return false
		}
		return pred(ca.Call)
	}
}

func storeWrites(module string, prefixes ...string) core.OpFilter {
	return core.OpFilter{Store: func(o *core.StoreOp) bool {
		if !o.IsWrite() || o.Module != module {
			return false
		}
		for _, pf := range prefixes {
			if o.Prefix == pf {
				return true
			}
		}
		return len(prefixes) == 0
	}}
}

func allEffects() core.OpFilter {
	return core.OpFilter{Store: func(o *core.StoreOp) bool { return o.IsWrite() }, Bank: func(*core.BankOp) bool { return true }}
}

// guardRow checks one handler-level row with CheckGuarded and records the obligation.
func guardRow(r *core.Run, rule string, h *core.Handler, what string, filter core.OpFilter, mk func(unit *ssa.Function) core.GuardMatch, guardText string) bool {
	p := r.Prog
	st := &core.ChainStats{}
	fails := p.CheckGuarded(h.Fn, filter, mk, true, st)
	construct := h.Key() + ":" + what
	r.Analysed(core.FnName(h.Fn))
	r.CallSites(st.Effects)
	if st.Effects == 0 {
		r.Undecided(rule, construct, p.Pos(h.Fn.Pos()), "row matches no effect in this handler (anchor missing)")
		return false
	}
	if len(fails) == 0 {
		r.Ok(rule, construct, p.Pos(h.Fn.Pos()), fmt.Sprintf("%d effect sites in %d units, every committing path passes %s", st.Effects, st.Units, guardText))
		return true
	}
	f := fails[0]
	r.Violation(rule, construct, p.InstrPos(f.Final.Instr), fmt.Sprintf("a committing path performs %s without passing %s (%d unguarded routes)", p.DescribeEffect(f.Final), guardText, len(fails)), f.Chain...)
	return false
}

func hasStoreWrite(p *core.Program, fn *ssa.Function, module string, prefixes ...string) bool {
	for _, o := range p.Summary(fn).Store {
		if !o.IsWrite() || o.Module != module {
			continue
		}
		for _, pf := range prefixes {
			if o.Prefix == pf {
				return true
			}
		}
	}
	return false
}

func sortedKeys(m map[string]bool) []string {
	var out []string
	for k := range m {
		out = append(out, k)
	}
	sort.Strings(out)
	return out
}

func short(s string) string { return strings.ReplaceAll(s, core.ModPath+"/", "") }

// allInstrs iterates the instructions of fn.
func allInstrs(fn *ssa.Function, f func(ssa.Instruction)) {
	for _, b := range fn.Blocks {
		for _, in := range b.Instrs {
			f(in)
		}
	}
}
