package rules

import (
	"sort"
	"strings"

	"golang.org/x/tools/go/ssa"

	"jklcheck/core"
)

// fieldValidators: the stateless checks a message's ValidateBasic applies to one of its fields: the custom (same
// module) functions it calls with a value derived from the field — directly or from the result of another such call —
// as canonical terms over the receiver ("IsValidName(GetNameAndTLD(P0.Name)#0)").
func fieldValidators(p *core.Program, vb *ssa.Function, field string) []string {
	set := map[string]bool{}
	if vb == nil {
		return nil
	}
	tb := core.NewTermBuilder(p)
	allInstrs(vb, func(in ssa.Instruction) {
		c, ok := in.(*ssa.Call)
		if !ok || c.Call.IsInvoke() {
			return
		}
		sc := c.Call.StaticCallee()
		if sc == nil || core.ModuleOf(sc) == "" {
			return // library functions (address parsing, ...) are not name validators
		}
		fromField := false
		for _, a := range c.Call.Args {
			for _, at := range p.ProvAt(a, "", c).DataAtoms() {
				if at.Kind == "param" && at.Fn == vb && at.Idx == 0 && strings.HasPrefix(at.Path, "."+field) {
					fromField = true
				}
			}
		}
		if !fromField {
			return
		}
		var as []string
		for _, a := range c.Call.Args {
			as = append(as, tb.Term(a))
		}
		set[sc.Name()+"("+strings.Join(as, ",")+")"] = true
	})
	var out []string
	for k := range set {
		out = append(out, k)
	}
	sort.Strings(out)
	return out
}

// validatorsIncluded: whatever the opening message of a resource accepts, the closing messages accept too: the
// validators the closers apply to the shared field are among those the opener applies.
func validatorsIncluded(r *core.Run, rule, relPkg, field, opener string, closers []string) {
	p := r.Prog
	ov := p.FuncByName(relPkg, opener, "ValidateBasic")
	if ov == nil {
		r.Undecided(rule, opener+":ValidateBasic", "", "not found")
		return
	}
	open := map[string]bool{}
	for _, t := range fieldValidators(p, ov, field) {
		open[t] = true
	}
	for _, cl := range closers {
		cv := p.FuncByName(relPkg, cl, "ValidateBasic")
		if cv == nil {
			r.Undecided(rule, cl+":ValidateBasic", "", "not found")
			continue
		}
		r.Analysed(core.FnName(cv))
		var extra []string
		for _, t := range fieldValidators(p, cv, field) {
			if !open[t] {
				extra = append(extra, t)
			}
		}
		r.Check(len(extra) == 0, rule, cl+":accepts-what-"+opener+"-accepted:"+field, p.Pos(cv.Pos()),
			"every stateless check of "+field+" in "+cl+" is also applied by "+opener,
			cl+" rejects a "+field+" that "+opener+" accepts ("+strings.Join(extra, "; ")+" is not checked by "+opener+"): what was opened under such a "+field+" can never be closed — the escrowed coins stay in the module account")
	}
}
