package rules

import (
	"strings"

	"golang.org/x/tools/go/ssa"

	"jklcheck/core"
)

// keeperFieldWiring: the constant string bound, where the application constructs the module's keeper, to the keeper field
// of the given name: constructor parameter stored into the field, argument at the constructor's call sites in package
// app. ok=false if the chain cannot be followed to one constant.
func keeperFieldWiring(p *core.Program, module, field string) (value string, where string, ok bool) {
	ctor := p.FuncByName("x/"+module+"/keeper", "", "NewKeeper")
	if ctor == nil {
		return "", "", false
	}
	idx := -1
	allInstrs(ctor, func(in ssa.Instruction) {
		st, isSt := in.(*ssa.Store)
		if !isSt {
			return
		}
		fa, isFA := st.Addr.(*ssa.FieldAddr)
		if !isFA || core.FieldName(fa.X.Type(), fa.Field) != field {
			return
		}
		for i, prm := range ctor.Params {
			if st.Val == ssa.Value(prm) {
				idx = i
			}
		}
	})
	if idx < 0 {
		return "", "", false
	}
	n := 0
	for _, caller := range p.CG().In[ctor] {
		if !strings.HasSuffix(core.FnPkgPath(caller), "/app") {
			continue
		}
		allInstrs(caller, func(in ssa.Instruction) {
			c, isCall := in.(ssa.CallInstruction)
			if !isCall {
				return
			}
			for _, cal := range p.Callees(c) {
				if cal != ctor || idx >= len(c.Common().Args) {
					continue
				}
				if s, complete, okc := p.ConstPrefix(c.Common().Args[idx]); okc && complete {
					value, where = s, p.InstrPos(in)
					n++
				}
			}
		})
	}
	return value, where, n == 1
}
