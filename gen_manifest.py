#!/usr/bin/env python3
"""Regenerates MANIFEST.json from the table below (kept in one place so the manifest stays valid)."""
import json
CLAIMED = {
 "C08": ("commit-path guard analysis over CFG+SSA (owner-consent rows), provenance slices of payouts, liveness-boundary contradiction rule",
         "every write of a name/listing and every coin move in the 14 rns handlers lies behind the owner-consent comparison of that handler's policy row on all committing paths; sale/bid payouts go to the verified owner with the recorded price; one liveness boundary. Structural necessary conditions of the property, exhaustive over handlers discovered from the service descriptor; the history-level statement is not decided.",
         "DESIGN.md §5 C08"),
 "C16": ("provenance slices (price, payer, recipient), same-value check of debit/credit, reaching-definition analysis of the stored expiry, commit-path guard analysis, error-propagation check; load/write key-term agreement",
         "registration debits the signer a value depending on msg.Years and the TLD cost table, credits that same value to the constant POL account, propagates bank errors; every reaching definition of Names.Expires has a base (height, or old expiry only under a live comparison); a live name of another owner is never overwritten. Numeric '>= Y years' is not decided. The name record tested and the name record written are keyed by the same terms.",
         "DESIGN.md §5 C16"),
 "C10": ("commit-path guard analysis with shape-recognised owner/edit-access predicates, field-write census, key provenance",
         "every Files write/delete in the eight owner-only handlers lies behind ownerPredicate(loaded record, signer) on all committing paths; PostFile behind editAccessPredicate(parent loaded by (HashParent,Account), signer); only the named field is assigned between load and store; deletes use the loaded key; root provisioning is signer-only. Hash collision resistance and crafted separators are not decided.",
         "DESIGN.md §5 C10"),
 "C11": ("exhaustive census over sdk.Msg types and service descriptors, key-component provenance, commit-path guard analysis (oracle, wasm), ante-chain order check",
         "all 45 message types return exactly [Creator] as signers and are routable; provider/collateral/inbox/block-list/primary-name/pubkey/file-deletion writes are keyed by the signer; feed updates behind Eq(Feed.Owner,signer); the wasm binding reaches the storage handler only behind creator==contract and ValidateBasic; ante order ValidateBasic<SetPubKey<SigVerification. Signature cryptography is trusted.",
         "DESIGN.md §5 C11"),
 "C01": ("commit-path guard analysis with shape-recognised verifier/prover functions, provenance of verifier inputs, who-may-write census over entry points",
         "every write of storage.MsgPostProof lies, on every nil-error return, behind the nil result of the call whose callee returns nil only after the Merkle-library verification, and behind msg.ToProve == stored challenge; the verifier is fed the stored challenge and the stored root; only PostProof and the attestation quorum path can write proof records; reward credit is keyed by the prover of a listed proof record. Cryptographic soundness is trusted.",
         "DESIGN.md §5 C01"),
 "C14": ("commit-path guard analysis (quorum comparison, matched flag, form found), phi-web analysis of the counter and flag, must-pass-through of the form deletion, provenance of form entries; term agreement and guard inclusion of the candidate filter (reflexivity)",
         "proof refresh / prover removal / form deletion happen on all paths only behind count >= Param(AttestMinToPass) with direct operands and the signer-matched flag; the counter counts only complete entries; flag and Complete are set only under Eq(entry.Provider, signer); acting paths delete the loaded form; forms are built from the stored active-provider list behind the size check. Distinctness of providers / never-the-prover is not decided. The candidate filter is reflexive (same key extraction for candidate and requesting prover, candidate shape tests include the prover's), so a form never names the prover it concerns.",
         "DESIGN.md §5 C14"),
 "C17": ("store-effect pairing with must-pass-through path search, field-write census of the prover list, commit-path guard analysis with flag lifting; membership-key vs appended-key term equality; decode-target freshness",
         "single-index file writes/deletes are always paired on all paths with the other index and identical arguments; every prover-list assignment is followed by the matching proof-record update and file save; appends happen only if absent and below the replication limit; proof records copy the file's key fields; file removal deletes listed proofs. History-level equality is not decided. The key tested for membership equals the key appended; records are decoded into variables local to the invocation.",
         "DESIGN.md §5 C17"),
 "C18": ("store-effect model (prefix typing over all modules), commit-path guard analysis with shape-recognised block predicate, record-field provenance, key-component analysis; loop-exit check of the per-element block-list write",
         "one proto type per store prefix and no overlapping prefixes; the notification write is behind blockPredicate(recipient, signer)=false with To/From/Time/Contents of the stated provenance; deletion keyed by the signer's inbox; only CreateNotification writes notifications; the inbox listing iterates the key's leading component. One known finding (blocks share the notification prefix). The loop writing one block entry per listed sender is left only when the list is exhausted or by a failing return.",
         "DESIGN.md §5 C18"),
 "C19": ("store-effect model over the call graph: written/exported/imported prefix sets per module, prefix typing, GenesisState field census; pagination-helper reachability and iterator-loop exit check on export paths",
         "every record kind written by transactions or block processing is exported and imported (or is a derived index), exported prefixes are singly typed, every GenesisState field is assigned by Export and consumed by Init. Five known findings (proof records, primary names, emission history, block lists). Value-level round-trip equality is not decided. Nothing reachable from ExportGenesis uses the SDK pagination helpers and every iterator loop there ends only when the iterator is exhausted (or by panic/failing return).",
         "DESIGN.md §5 C19"),
 "C09": ("bank-effect model of the rns module account, same-value and provenance checks of amounts/recipients, must-pass-through path search (credit follows debit, delete follows payout), overwrite-or-refund guard analysis, error-propagation check; must-precede check of payouts before bid deletion",
         "pass-through handlers debit and credit one value; a bid's escrow and recorded price are msg.Bid, keyed/paid by the signer; a bid is overwritten only after refunding the old one; cancel/accept pay the recorded price to the signer and always delete the bid; bank errors propagate. The numeric balance invariant itself is not decided. Every delete of a bid record is preceded on all paths by a module->account send of that record's price.",
         "DESIGN.md §5 C09"),
 "C15": ("bank/store effect census (closed world), provenance of locked/recorded/refunded amounts, commit-path guard analysis, must-pass-through of record deletion, maccPerms AST check",
         "lock = record = Param(CollateralPrice) from the signer when no provider exists; refund = loaded record's amount to the signer, always followed by deleting collateral and provider; nobody else writes collateral records or touches the escrow account; the account is registered; errors propagate. The numeric escrow invariant is not decided.",
         "DESIGN.md §5 C15"),
 "C04": ("bank-effect classification by counterparty provenance (closed set), dependence signatures of each amount on the ratio parameters, same-base check, same-value check of gauge funding, error-propagation check; reaching-definition check of the payment between a cut's computation and its transfer",
         "in BuyStorage and the pay-once PostFile branch: the debit depends on the priced message fields, the price parameter and the price feed; every cut is computed from the debit's sources; the gauge is funded with the value it records; POL/referrer/fee-collector amounts depend on their own ratio parameter only; no other recipient; bank errors propagate. Exact prices and rounding are not decided. No cut is computed from an outdated payment value.",
         "DESIGN.md §5 C04"),
 "C13": ("same-value analysis of minted/recorded/split base, SSA shape check of the recurrence, sign-guard analysis of the emission, bank instances along call paths with ratio dependence signatures, must-pass-through of the record write, key provenance",
         "minted = recorded = split base (one SSA value from the recurrence trunc(prev − decrease/blocksPerYear)); emission sign-guarded before the coin constructor; three transfers each depending on their own ratio to {fee collector, dev grants, stipend address}, no other bank call; every path after a successful mint records the emission; previous record read at height−1, written at height. Rounding remainder < 3 is not decided.",
         "DESIGN.md §5 C13"),
 "C03": ("field-write summaries + loop analysis (range-while-mutated), exhaustive CFG path enumeration of the per-proof routine with effect classes, commit-path guard analysis with shape-recognised window predicates, bank instances along call paths; provenance of the burn counter write-back",
         "no loop over a file's prover list passes the file to a callee that may rewrite the list; every path of the per-proof routine does exactly one of credit / remove / remove+burn, credit only behind proven or young, burn only behind not-proven and not-young, predicates fed height and the loaded LastProven; the single payout goes to size-tracker keys with an amount depending on tracker entry, total and the pulled coins. Shares within one base unit and Σ paid ≤ released are not decided. The provider record whose burn counter is written back is freshly read from the store in the same unit and incremented by one.",
         "DESIGN.md §5 C03"),
 "C12": ("dependence signature of the released amount, same-value check pooled=sent, commit-path guard analysis of pulls and deletes with role-typed time/balance predicates, constructor key provenance; control-dependence check of the release call chain",
         "the gauge->module amount depends on Start, End, Coins, block time and the gauge balance and is what is added to the pool; pulls only behind End>=now, End>Start, non-empty balance; deletes only behind an empty balance or a sweep (one known finding: ended gauges are deleted undrained); gauge id provenance (one known finding: id collision within a block). The linear formula, monotonicity and rounding are not decided. Every call between the block entry and the gauge iteration is control-dependent only on block height, parameters and constants (the release runs on every reward block).",
         "DESIGN.md §5 C12"),
 "C07": ("store-effect model of plan-record writers and file removers, must-pass-through path search, commit-path guard analysis of the charge, record-field provenance and subtraction-shape check, ValidateBasic lower-bound analysis",
         "file removal returns size×replication to the owner's plan on every plan-paid removal path; the charge is behind plan found / not expired / within purchased space, never on the pay-once branch, and happens on every committing plan-paid path with the right operands; size and replication are validated positive at the door; a purchase carries usage over and refuses plans below it. The history-level equality usage = Σ footprints is not decided.",
         "DESIGN.md §5 C07"),
 "C20": ("expression-DAG equivalence: canonical terms of pure string/hash builders (Sprintf split by constant format, hash typestate folded), loop-carried update term vs one-step combiner; same-value checks in the post handler; term check of the client-side path splitters (slice bounds kept)",
         "the path hasher's fold step equals the combiner applied to the accumulator and hex(SHA256(segment)), starts from the empty string and iterates Split(TrimSuffix(path,'/'),'/'); the post handler stores/returns/owner-hashes one value = combiner(HashParent, HashChild); the root uses the path hasher of a constant. Injectivity (collision resistance) is not decided. Client-side splitters (string -> parent address, child hash) use only segment-preserving primitives and cut the hasher's own segmentation into segments[:n-1] / segments[n-1], or delegate to a checked splitter.",
         "DESIGN.md §5 C20"),
 "C02": ("expression-DAG equivalence of the two leaf encoders and tree-hash/salt arguments; guard analysis of the challenge draw; parameter-validator lower-bound analysis; commit-path guard analysis of removal/burn",
         "builder and verifier hash the same leaf term with the same tree hash and salting; every challenge draw is behind n>0 with n derived from FileSize and a validated-positive chunk-size parameter; removal and burn happen only on the miss branch. The proof-window clause over all schedules is NOT decided (schedule arithmetic).",
         "DESIGN.md §5 C02"),
 "C06": ("determinism lint over the consensus call graph: forbidden-API census, map-range body classification, RNG typestate (create→Seed→draw on all paths) with seed provenance, forward float-taint, proto map-field census",
         "no nondeterministic source, order-sensitive map range, unseeded or non-consensus-seeded generator, float-to-state flow or proto map in stored types anywhere in the custom code reachable from Msg handlers, BeginBlock, InitGenesis, the wasm dispatcher and upgrade code. Third-party library determinism and gas equality are trusted, not decided.",
         "DESIGN.md §5 C06"),
 "C05": ("panic-guard analysis over the BeginBlock call graph: zero-guard path search for divisors, parameter-validator lower bounds, field-write census, a small interprocedural sign domain for coin amounts, explicit-panic/Must* census, constant-index guard check",
         "in every custom function reachable from the two BeginBlockers: each non-constant divisor is zero-guarded or comes from a validated-positive parameter / positive call sites; each coin amount is non-negative in the sign domain (two reviewed exceptions for the gauge interval/release arithmetic); user-sized message fields are validated at the door; no explicit panic or Must* on variable input; constant indices guarded. Variable-index range errors, nil dereference, type assertions, SDK-internal panics and resource exhaustion are NOT decided.",
         "DESIGN.md §5 C05"),
}
NA = {}
props = [json.loads(l) for l in open('properties.jsonl')]
checks = []
for p in props:
    pid = p['id']
    if pid in CLAIMED:
        tech, text, ref = CLAIMED[pid]
        checks.append({
            "property_id": pid,
            "quick_cmd": f"./check.sh {pid} quick",
            "thorough_cmd": f"./check.sh {pid} thorough",
            "evidence_file": f"/verif/evidence/{pid}.json",
            "replay_cmd_template": f"./check.sh {pid} quick  # replay file {{path}} names rule, construct and path",
            "engine": "jklcheck",
            "level_claimed": {"category": "other", "text": text, "design_ref": ref},
            "level_note": "static analysis of /repo's current source (go/packages + go/ssa, x/tools v0.29.0); trusted base = framework facts T1-T7 of DESIGN.md §2 (SDK revert-on-error, ante chain, bank keeper, store, stdlib, params); decides structural necessary conditions only",
            "technique": "static analysis: " + tech,
        })
na = [{"property_id": p['id'], "reason": NA.get(p['id'], "rules for this property are not built yet in this revision of the checker; nothing is claimed ahead of the code that decides it")} for p in props if p['id'] not in CLAIMED]
m = {
 "version": 1,
 "setup_cmd": "cd /verif/checker && GOFLAGS=-mod=mod GOPROXY=off GOSUMDB=off GOTOOLCHAIN=local GOWORK=off go build -o bin/jklcheck ./cmd/jklcheck && cd /repo && GOFLAGS=-mod=mod GOPROXY=off GOSUMDB=off go build ./x/... ./app/... ./wasmbinding/... ./types/... ./cmd/...",
 "hooks": {"guard": "verif", "enable": "no hooks: the checker only reads source", "baseline_off_cmd": "cd /repo && GOFLAGS=-mod=mod GOPROXY=off go test -vet=off -count=1 -timeout 25m ./...", "source_commits": [], "add_only": True},
 "engines": [{"name": "jklcheck", "path": "/verif/checker", "serves_properties": sorted(CLAIMED), "kind_free_text": "repository-specific static analyser (Go, go/packages + go/ssa): store/bank effect model, commit-path guard analysis, value provenance, error propagation"}],
 "checks": checks,
 "not_applicable": na,
 "notes": "All checks are static: they load and type-check /repo's working tree on every run and execute nothing from it. known_findings.json lists genuine defects recorded or fixed.",
}
json.dump(m, open('MANIFEST.json', 'w'), indent=1)
print(len(checks), "checks,", len(na), "not applicable")
