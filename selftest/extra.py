# executed by mk.py (shares M, m, from_patch): seed-derived entries and behaviour-preserving refactors
def benign(prop, name, edits, note=""):
    """behaviour-preserving refactor: NO rule of the property may fire (false-alarm guard)"""
    M.append(dict(property=prop, name="benign-"+name, file="", find="", replace="",
                  edits=[dict(file=f, find=a, replace=b) for (f, a, b) in edits],
                  expect_none=True, expect_rule="", expect_construct="", note=note))

# equivalent mutant (was listed as a violation until the abstract executions showed it is none: an old file whose proof
# is missing never reaches the second test): must stay silent
benign("C03","redundant-found-in-burn-test",[("x/storage/keeper/rewards.go",
  'if !proven && !file.IsYoung(currentHeight) { // if file wasn\'t proven, and is old, we burn it.','if !proven && !file.IsYoung(currentHeight) && found { // if file wasn\'t proven, and is old, we burn it.')])

# ---- C07 R6 / R7 (plan-paid classes, no overwrite): inverses of fixes c0f805a3 / 629bf6d9 and neighbours
m("C07","validatebasic-accepts-negative-expires","x/storage/types/message_post_file.go",
  'if msg.Expires < 0 {','if msg.Expires < 0 && msg.FileSize < 0 {',"C07/R6","(x/storage/keeper.Keeper).RemoveFile:plan-paid-class:Expires-negative","inverse of fix c0f805a3")
m("C07","removal-refunds-only-payonce","x/storage/keeper/files.go",
  'if file.Expires == 0 { // a plan-paid file','if file.Expires > 0 { // a plan-paid file',"C07/R6","(x/storage/keeper.Keeper).RemoveFile:plan-paid-class:Expires-zero")
m("C07","postfile-no-existence-check","x/storage/keeper/msg_server_post_file.go",
  'if _, found := k.GetFile(ctx, msg.Merkle, msg.Creator, ctx.BlockHeight()); found {','if _, found := k.GetFile(ctx, msg.Merkle, msg.Creator, ctx.BlockHeight()); found && msg.Expires > 0 {',"C07/R7","storage.MsgPostFile:create-only-if-absent","inverse of fix 629bf6d9")
m("C07","postfile-existence-check-other-height","x/storage/keeper/msg_server_post_file.go",
  'if _, found := k.GetFile(ctx, msg.Merkle, msg.Creator, ctx.BlockHeight()); found {','if _, found := k.GetFile(ctx, msg.Merkle, msg.Creator, ctx.BlockHeight()-1); found {',"C07/R7","storage.MsgPostFile:absent-check-key=written-key")
benign("C07","removal-refunds-nonpositive",[("x/storage/keeper/files.go",'if file.Expires == 0 { // a plan-paid file','if file.Expires <= 0 { // a plan-paid file')])
benign("C07","post-branches-on-nonzero",[("x/storage/keeper/msg_server_post_file.go",'if msg.Expires > 0 { // if the file is posted as a one-time payment','if msg.Expires != 0 { // if the file is posted as a one-time payment')])

# ---- C04 self-referral compared as text (inverse of fix a999e8ce)
m("C04","self-referral-compared-as-text","x/storage/keeper/msg_server_buy_storage.go",
  'if !refAcc.Equals(creatorAcc) {','if refAcc.String() != msg.Creator {',"C04/R6","storage.MsgBuyStorage:referrer-distinctness-on-addresses","inverse of fix a999e8ce")

# ---- independent seeded changes as corpus entries
from_patch("C10","seed-reset-early-return","seeded/C10-reset-early-return/patch.diff","C10/R5","success-implies-change","seed")
from_patch("C11","seed-feed-created-under-trimmed-name","seeded/C11-feed-created-under-trimmed-name/patch.diff","C11/R6","oracle.MsgCreateFeed:absent-check-key=written-key","seed")
from_patch("C12","seed-expiry-compared-in-seconds","seeded/C12-expiry-compared-in-seconds/patch.diff","C12/R4","end-not-before-now","seed")
from_patch("C13","seed-zero-emission-restarts","seeded/C13-zero-emission-restarts/patch.diff","C13/R2","fallback-only-when-no-record","seed")
from_patch("C15","seed-collateral-keyed-by-normalised-address","seeded/C15-collateral-keyed-by-normalised-address/patch.diff","C15/R5","provider-and-collateral-keys-agree","seed")
from_patch("C07","seed-plan-loaded-by-payer","seeded/C07-plan-loaded-by-payer/patch.diff","C07/R4","loaded-plan=written-plan","seed")
from_patch("C04","seed-self-referral-via-foraddress","seeded/C04-self-referral-via-foraddress/patch.diff","C04/R6","referrer-distinct-from-signer","seed")
from_patch("C14","seed-attest-refreshes-attester","seeded/C01-attest-refreshes-attester/patch.diff","C14/R5","acts-on-form-prover","seed (written against C01)")
m("C10","reset-keeps-other-entry","x/filetree/keeper/msg_server_reset_viewers.go",
  'resetViewers[ownerViewerAddress] = ownerKey','resetViewers[ownerViewerAddress] = ownerKey\n\tresetViewers[msg.FileOwner] = ownerKey',"C10/R5","reset-leaves-owner-entry-only")
m("C10","changeowner-skips-delete","x/filetree/keeper/msg_server_change_owner.go",
  'k.RemoveFiles(ctx, msg.Address, currentOwner)','if msg.NewOwner != msg.FileOwner {\n\t\tk.RemoveFiles(ctx, msg.Address, currentOwner)\n\t}',"C10/R5","filetree.MsgChangeOwner:success-implies-change")

# ---- behaviour-preserving refactors that must stay silent
benign("C08","owner-check-in-error-helper",[
 ("x/rns/keeper/msg_server_transfer.go","""	if admin != sender.String() {
		return sdkerrors.Wrap(sdkerrors.ErrUnauthorized, "You are not the owner of that name.")
	}
""","""	if err := requireNameOwner(admin, sender.String()); err != nil {
		return err
	}
"""),
 ("x/rns/keeper/msg_server_transfer.go","func (k msgServer) Transfer(","""func requireNameOwner(owner string, who string) error {
	if owner != who {
		return sdkerrors.Wrap(sdkerrors.ErrUnauthorized, "You are not the owner of that name.")
	}
	return nil
}

func (k msgServer) Transfer("""),
])
benign("C10","isowner-behind-forwarding-helper",[
 ("x/filetree/keeper/msg_server_add_viewers.go","isOwner := IsOwner(file, msg.Creator)","isOwner := ownsEntry(file, msg.Creator)"),
 ("x/filetree/keeper/msg_server_add_viewers.go","func (k msgServer) AddViewers(","func ownsEntry(file types.Files, user string) bool {\n\treturn IsOwner(file, user)\n}\n\nfunc (k msgServer) AddViewers("),
])
benign("C07","footprint-helper",[
 ("x/storage/keeper/files.go","payInfo.SpaceUsed -= file.FileSize * file.MaxProofs","payInfo.SpaceUsed -= fileFootprint(file)"),
 ("x/storage/keeper/files.go","// RemoveFile removes a File from the store","func fileFootprint(file types.UnifiedFile) int64 {\n\treturn file.FileSize * file.MaxProofs\n}\n\n// RemoveFile removes a File from the store"),
])
benign("C03","copy-via-append",[
 ("x/storage/keeper/rewards.go","\t\tproofs := make([]string, len(file.Proofs))\n\t\tcopy(proofs, file.Proofs)","\t\tproofs := append([]string{}, file.Proofs...)"),
])
benign("C13","clamp-in-blockmint",[
 ("x/jklmint/utils/mint.go","""	mint := lastBlockTokens.Sub(decrease.Quo(blockPerYearDec)).TruncateInt64()
	if mint < 0 { // the emission never goes below zero
		return 0
	}
	return mint""","""	return lastBlockTokens.Sub(decrease.Quo(blockPerYearDec)).TruncateInt64()"""),
 ("x/jklmint/keeper/mint.go","""	newMintForBlock := utils.GetMintForBlock(mintedNum, bpy, params.MintDecrease)
""","""	newMintForBlock := utils.GetMintForBlock(mintedNum, bpy, params.MintDecrease)
	if newMintForBlock < 0 {
		newMintForBlock = 0
	}
"""),
])
benign("C13","previous-emission-helper",[
 ("x/jklmint/keeper/mint.go","""	mintedNum := params.TokensPerBlock
	minted, found := k.GetMintedBlock(ctx, ctx.BlockHeight()-1)
	if found {
		mintedNum = minted.Minted
	}
""","""	mintedNum := k.previousEmission(ctx, params)
"""),
 ("x/jklmint/keeper/mint.go","func (k Keeper) BlockMint(ctx sdk.Context) {","""func (k Keeper) previousEmission(ctx sdk.Context, params types.Params) int64 {
	minted, found := k.GetMintedBlock(ctx, ctx.BlockHeight()-1)
	if !found {
		return params.TokensPerBlock
	}
	return minted.Minted
}

func (k Keeper) BlockMint(ctx sdk.Context) {"""),
])
benign("C14","quorum-branch-inverted",[
 ("x/storage/keeper/msg_server_attest.go","""	if count < k.GetParams(ctx).AttestMinToPass {
		form.Attestations = attestations
		k.SetAttestationForm(ctx, form)
		return nil
	}
""","""	if !(count >= k.GetParams(ctx).AttestMinToPass) {
		form.Attestations = attestations
		k.SetAttestationForm(ctx, form)
		return nil
	}
"""),
])
benign("C09","cancel-key-computed-once",[
 ("x/rns/keeper/msg_server_cancel_bid.go",'bid, bidFound := k.GetBids(ctx, fmt.Sprintf("%s%s", sender, name))','bidKey := fmt.Sprintf("%s%s", sender, name)\n\tbid, bidFound := k.GetBids(ctx, bidKey)'),
 ("x/rns/keeper/msg_server_cancel_bid.go",'k.RemoveBids(ctx, fmt.Sprintf("%s%s", sender, name))','k.RemoveBids(ctx, bidKey)'),
])
_time_helpers = ("x/storage/keeper/gauges.go","// IterateGauges iterates and runs","func gaugeExpired(pg types.PaymentGauge, blockTime time.Time) bool {\n\treturn pg.End.Before(blockTime)\n}\n\nfunc gaugeValid(pg types.PaymentGauge) bool {\n\treturn pg.End.After(pg.Start)\n}\n\n// IterateGauges iterates and runs")
_time_edits = [
 ("x/storage/keeper/rewards.go","if pg.End.Before(currentTime) { // if the end date is before the current block time, we remove the gauge","if gaugeExpired(pg, currentTime) { // if the end date is before the current block time, we remove the gauge"),
 ("x/storage/keeper/rewards.go","if pg.End.Before(pg.Start) || pg.End.Equal(pg.Start) {","if !gaugeValid(pg) {"),
 _time_helpers,
]
benign("C12","time-guards-in-helpers",_time_edits)
benign("C05","time-guards-in-helpers",_time_edits)
benign("C01","postproof-statements-reordered",[
 ("x/storage/keeper/msg_server_postproof.go","""	chunkSize := k.GetParams(ctx).ChunkSize

	if file.ProvenThisBlock(ctx.BlockHeight(), proof.LastProven) {
		ctx.Logger().Info("file was already proven")
	}
""","""	if file.ProvenThisBlock(ctx.BlockHeight(), proof.LastProven) {
		ctx.Logger().Info("file was already proven")
	}

	chunkSize := k.GetParams(ctx).ChunkSize
"""),
])
benign("C16","register-live-flag",[
 ("x/rns/keeper/msg_server_register.go","""	if isFound && blockHeight <= whois.Expires {
		if whois.Value != owner.String() {
			return sdkerrors.Wrap(sdkerrors.ErrUnauthorized, "name already registered")
		}
		time += whois.Expires
	} else {
		time += blockHeight
	}""","""	if isFound && whois.Expires >= blockHeight {
		if owner.String() != whois.Value {
			return sdkerrors.Wrap(sdkerrors.ErrUnauthorized, "name already registered")
		}
		time = time + whois.Expires
	} else {
		time = blockHeight + time
	}"""),
])
benign("C11","getsigners-ignores-parse-error",[
 ("x/oracle/types/message_create_feed.go","""	creator, err := sdk.AccAddressFromBech32(msg.Creator)
	if err != nil {
		panic(err)
	}
	return []sdk.AccAddress{creator}
}

func (msg *MsgCreateFeed) GetSignBytes""","""	creator, _ := sdk.AccAddressFromBech32(msg.Creator)
	return []sdk.AccAddress{creator}
}

func (msg *MsgCreateFeed) GetSignBytes"""),
])
benign("C17","setfile-order-swapped",[
 ("x/storage/keeper/files.go","\tk.setFilePrimary(ctx, file)\n\tk.setFileSecondary(ctx, file)","\tk.setFileSecondary(ctx, file)\n\tk.setFilePrimary(ctx, file)"),
])
benign("C15","shutdown-coins-inline",[
 ("x/storage/keeper/msg_server_init_provider.go","""		coin := sdk.NewInt64Coin("ujkl", collateral.Amount)
		coins := sdk.NewCoins(coin)""","""		coins := sdk.NewCoins(sdk.NewInt64Coin("ujkl", collateral.Amount))"""),
])
benign("C04","cuts-computed-in-other-order",[
 ("x/storage/keeper/msg_server_buy_storage.go","""	refCut := toPay.Amount.ToDec().Mul(refDec) // 25% to referrals
	refToken := sdk.NewCoin(toPay.Denom, refCut.TruncateInt())
	refTokens := sdk.NewCoins(refToken)
""","""	refTokens := sdk.NewCoins(sdk.NewCoin(toPay.Denom, refDec.Mul(toPay.Amount.ToDec()).TruncateInt()))
"""),
])
benign("C18","create-sender-inlined",[
 ("x/notifications/keeper/msg_server_create_notifications.go","	if k.IsBlocked(ctx, address.String(), sender) {","	recipient := address.String()\n\tif k.IsBlocked(ctx, recipient, msg.Creator) {"),
 ("x/notifications/keeper/msg_server_create_notifications.go","		To:              address.String(),","		To:              recipient,"),
])

# ---- seeds batch 3 as corpus entries
from_patch("C06","seed-payout-order-by-size-with-ties","seeded/C06-payout-order-by-size-with-ties/patch.diff","C06/R2","providerList:map-range","seed")
from_patch("C02","seed-decode-target-hoisted","seeded/C02-decode-target-hoisted-out-of-callback/patch.diff","C02/R4","decode-target-reused","seed")
from_patch("C03","seed-decode-target-hoisted","seeded/C02-decode-target-hoisted-out-of-callback/patch.diff","C03/R6","decode-target-reused","seed (written against C02)")
from_patch("C05","seed-shares-weighed-in-kilobytes","seeded/C05-shares-weighed-in-kilobytes/patch.diff","C05/R1","rewardAllProviders:quo","seed")
from_patch("C19","seed-validate-shares-index-map","seeded/C19-validate-shares-index-map/patch.diff","C19/R4","index-map-per-kind","seed")
from_patch("C17","seed-repost-inherits-prover-list","seeded/C17-repost-inherits-prover-list/patch.diff","C17/R2","PostFile:proofs-list-update","seed")
from_patch("C18","seed-block-checked-on-unresolved-target","seeded/C18-block-checked-on-unresolved-target/patch.diff","C18/R2","to-is-tested-recipient","seed")
from_patch("C16","seed-lapsed-name-extends-from-old-expiry","seeded/C16-lapsed-name-extends-from-old-expiry/patch.diff","C16/R2","expiry-extends-stale","seed")
from_patch("C20","seed-merklepath-trims-whitespace","seeded/C20-merklepath-trims-whitespace/patch.diff","C20/R1","fold-step","seed")
benign("C06","sortfunc-with-key-tiebreak",[
 ("x/storage/keeper/rewards.go","\tslices.Sort(provers)\n\treturn provers","\tslices.SortFunc(provers, func(a, b string) int { return strings.Compare(a, b) })\n\treturn provers"),
])
benign("C19","validate-duplicate-helper",[
 ("x/oracle/types/genesis.go","func (gs GenesisState) Validate() error {","func (gs GenesisState) Validate() error {\n\t_ = gs.Params"),
])

# ---- success-implies-effect rules
m("C16","register-free-when-zero-years","x/rns/keeper/msg_server_register.go",
  '	price := sdk.Coins{sdk.NewInt64Coin("ujkl", cost*years)}','	price := sdk.Coins{sdk.NewInt64Coin("ujkl", cost*years)}\n\tif years == 0 {\n\t\treturn nil\n\t}',"C16/R4","success-implies")
m("C18","create-silently-drops-empty","x/notifications/keeper/msg_server_create_notifications.go",
  '	sender := msg.Creator','	if len(msg.Contents) == 2 {\n\t\treturn &types.MsgCreateNotificationResponse{}, nil\n\t}\n\tsender := msg.Creator',"C18/R6","success-implies")
m("C04","buy-same-plan-is-free-noop","x/storage/keeper/msg_server_buy_storage.go",
  '		spaceUsed = payInfo.SpaceUsed\n','		spaceUsed = payInfo.SpaceUsed\n\t\tif payInfo.SpaceAvailable == bytes && duration == 0 {\n\t\t\treturn &types.MsgBuyStorageResponse{}, nil\n\t\t}\n',"C04/R7","success-implies")
m("C11","register-name-stored-unnormalised","x/rns/keeper/msg_server_register.go",
  '		Name:       name,\n		Expires:    time,','		Name:       strings.TrimSpace(name),\n		Expires:    time,',"C11/R7","loaded-key=written-key:rns/Names/value/")
m("C11","update-feed-writes-other-name","x/oracle/keeper/msg_server_feeds.go",
  '	feed.Data = msg.Data\n','	feed.Data = msg.Data\n\tfeed.Name = msg.Name + msg.Data\n',"C11/R7","loaded-key=written-key:oracle/Feed/value/")

# ---- more behaviour-preserving refactors (helpers extracted)
benign("C09","refund-open-bid-in-helper",[
 ("x/rns/keeper/msg_server_bid.go","""	oldBid, found := k.GetBids(ctx, fmt.Sprintf("%s%s", bidder.String(), name))
	if found {
		oldPrice, err := sdk.ParseCoinsNormalized(oldBid.Price)
		if err != nil {
			return err
		}
		err = k.bankKeeper.SendCoinsFromModuleToAccount(ctx, types.ModuleName, bidder, oldPrice)
		if err != nil {
			return err
		}
	}
""","""	if err := k.refundOpenBid(ctx, bidder, name); err != nil {
		return err
	}
"""),
 ("x/rns/keeper/msg_server_bid.go","func (k msgServer) Bid(","""func (k Keeper) refundOpenBid(ctx sdk.Context, bidder sdk.AccAddress, name string) error {
	oldBid, found := k.GetBids(ctx, fmt.Sprintf("%s%s", bidder.String(), name))
	if !found {
		return nil
	}
	oldPrice, err := sdk.ParseCoinsNormalized(oldBid.Price)
	if err != nil {
		return err
	}
	return k.bankKeeper.SendCoinsFromModuleToAccount(ctx, types.ModuleName, bidder, oldPrice)
}

func (k msgServer) Bid("""),
])
benign("C07","plan-charge-in-helper",[
 ("x/storage/keeper/msg_server_post_file.go","""	paymentInfo, found := k.GetStoragePaymentInfo(ctx, msg.Creator)
	if !found {
		return nil, sdkerrors.Wrapf(sdkerrors.ErrKeyNotFound, "storage account does not exist")
	}
	if paymentInfo.End.Before(ctx.BlockTime()) {
		return nil, sdkerrors.Wrapf(sdkerrors.ErrUnauthorized, "storage account is expired")
	}

	// compared this way round the sum cannot wrap around for a huge file size
	if totalSize > paymentInfo.SpaceAvailable-paymentInfo.SpaceUsed {
		return nil, sdkerrors.Wrapf(sdkerrors.ErrUnauthorized, "storage account does not have enough space available %d + %d > %d", paymentInfo.SpaceUsed, totalSize, paymentInfo.SpaceAvailable)
	}
	paymentInfo.SpaceUsed += totalSize

	k.SetStoragePaymentInfo(ctx, paymentInfo)

	return res, nil
}""","""	if err := k.chargePlan(ctx, msg.Creator, totalSize); err != nil {
		return nil, err
	}

	return res, nil
}

func (k Keeper) chargePlan(ctx sdk.Context, owner string, totalSize int64) error {
	paymentInfo, found := k.GetStoragePaymentInfo(ctx, owner)
	if !found {
		return sdkerrors.Wrapf(sdkerrors.ErrKeyNotFound, "storage account does not exist")
	}
	if paymentInfo.End.Before(ctx.BlockTime()) {
		return sdkerrors.Wrapf(sdkerrors.ErrUnauthorized, "storage account is expired")
	}

	if totalSize > paymentInfo.SpaceAvailable-paymentInfo.SpaceUsed {
		return sdkerrors.Wrapf(sdkerrors.ErrUnauthorized, "storage account does not have enough space available %d + %d > %d", paymentInfo.SpaceUsed, totalSize, paymentInfo.SpaceAvailable)
	}
	paymentInfo.SpaceUsed += totalSize

	k.SetStoragePaymentInfo(ctx, paymentInfo)
	return nil
}"""),
])
benign("C15","lock-collateral-in-helper",[
 ("x/storage/keeper/msg_server_init_provider.go","""	err = k.bankKeeper.SendCoinsFromAccountToModule(ctx, account, types.CollateralCollectorName, coins) // TODO: change naming convention
	if err != nil {""","""	err = k.lockCollateral(ctx, account, coins)
	if err != nil {"""),
 ("x/storage/keeper/msg_server_init_provider.go","func (k msgServer) ShutdownProvider(","""func (k Keeper) lockCollateral(ctx sdk.Context, account sdk.AccAddress, coins sdk.Coins) error {
	return k.bankKeeper.SendCoinsFromAccountToModule(ctx, account, types.CollateralCollectorName, coins)
}

func (k msgServer) ShutdownProvider("""),
])
benign("C01","candidate-proof-in-helper",[
 ("x/storage/keeper/msg_server_postproof.go","""			proof = &types.FileProof{
				Prover:       prover,
				Merkle:       file.Merkle,
				Owner:        file.Owner,
				Start:        file.Start,
				LastProven:   ctx.BlockHeight(),
				ChunkToProve: 0,
			}""","""			proof = candidateProof(file, prover, ctx.BlockHeight())"""),
 ("x/storage/keeper/msg_server_postproof.go","func (k msgServer) PostProof(","""func candidateProof(file *types.UnifiedFile, prover string, height int64) *types.FileProof {
	return &types.FileProof{
		Prover:       prover,
		Merkle:       file.Merkle,
		Owner:        file.Owner,
		Start:        file.Start,
		LastProven:   height,
		ChunkToProve: 0,
	}
}

func (k msgServer) PostProof("""),
])
benign("C17","candidate-proof-in-helper",[
 ("x/storage/keeper/msg_server_postproof.go","""			proof = &types.FileProof{
				Prover:       prover,
				Merkle:       file.Merkle,
				Owner:        file.Owner,
				Start:        file.Start,
				LastProven:   ctx.BlockHeight(),
				ChunkToProve: 0,
			}""","""			proof = candidateProof(file, prover, ctx.BlockHeight())"""),
 ("x/storage/keeper/msg_server_postproof.go","func (k msgServer) PostProof(","""func candidateProof(file *types.UnifiedFile, prover string, height int64) *types.FileProof {
	return &types.FileProof{
		Prover:       prover,
		Merkle:       file.Merkle,
		Owner:        file.Owner,
		Start:        file.Start,
		LastProven:   height,
		ChunkToProve: 0,
	}
}

func (k msgServer) PostProof("""),
])
benign("C04","price-in-helper",[
 ("x/storage/keeper/msg_server_buy_storage.go","""	storageCost := k.GetStorageCost(ctx, gbs, hours.TruncateInt().Int64())
	toPay := sdk.NewCoin(msg.PaymentDenom, storageCost)
""","""	storageCost := k.GetStorageCost(ctx, gbs, hours.TruncateInt().Int64())
	toPay := coinOf(msg.PaymentDenom, storageCost)
"""),
 ("x/storage/keeper/msg_server_buy_storage.go","func (k Keeper) UpgradeStorage(","""func coinOf(denom string, amount sdk.Int) sdk.Coin {
	return sdk.NewCoin(denom, amount)
}

func (k Keeper) UpgradeStorage("""),
])
benign("C10","reset-map-built-in-helper",[
 ("x/filetree/keeper/msg_server_reset_viewers.go","""	resetViewers := make(map[string]string)
	resetViewers[ownerViewerAddress] = ownerKey
""","""	resetViewers := singleEntry(ownerViewerAddress, ownerKey)
"""),
 ("x/filetree/keeper/msg_server_reset_viewers.go","func (k msgServer) ResetViewers(","""func singleEntry(key string, value string) map[string]string {
	m := make(map[string]string)
	m[key] = value
	return m
}

func (k msgServer) ResetViewers("""),
])
benign("C08","buy-checks-reordered",[
 ("x/rns/keeper/msg_server_buy.go","""	if name.Value == sender {
		return sdkerrors.Wrap(sdkerrors.ErrUnauthorized, "You cannot buy your own name.")
	}

	if sale.Owner != name.Value {
		return sdkerrors.Wrap(sdkerrors.ErrUnauthorized, "This listing has expired.")
	}
""","""	if sale.Owner != name.Value {
		return sdkerrors.Wrap(sdkerrors.ErrUnauthorized, "This listing has expired.")
	}

	if name.Value == sender {
		return sdkerrors.Wrap(sdkerrors.ErrUnauthorized, "You cannot buy your own name.")
	}
"""),
])

# ---- round 2 of independent seeded changes
from_patch("C01","seed2-sweep-shares-scratch-prover-slice","seeded/C01-sweep-shares-scratch-prover-slice/patch.diff","C01/R5","iterated-list=file-list","seed round 2")
from_patch("C03","seed2-sweep-shares-scratch-prover-slice","seeded/C01-sweep-shares-scratch-prover-slice/patch.diff","C03/R5","iterated-list=file-list","seed round 2 (written against C01)")
from_patch("C03","seed2-burn-counter-from-cached-provider-record","seeded/C03-burn-counter-from-cached-provider-record/patch.diff","C03/R7","burn-from-fresh-read","seed round 2")
from_patch("C04","seed2-commission-from-pre-upgrade-price","seeded/C04-commission-from-pre-upgrade-price/patch.diff","C04/R8","cut-from-current-payment:referrer","seed round 2")
from_patch("C17","seed2-prover-key-canonicalised-only-on-append","seeded/C05-prover-key-canonicalised-only-on-append/patch.diff","C17/R3","contains-key=appended-key","seed round 2 (written against C05)")
from_patch("C07","seed2-footprint-returned-only-to-live-plan","seeded/C07-footprint-returned-only-to-live-plan/patch.diff","C07/R1","footprint-on-every-removal","seed round 2")
from_patch("C08","seed2-liveness-as-remaining-blocks","seeded/C08-liveness-as-remaining-blocks/patch.diff","C08/R1","rns.MsgRegister:new-own-or-expired","seed round 2")
from_patch("C16","seed2-liveness-as-remaining-blocks","seeded/C08-liveness-as-remaining-blocks/patch.diff","C16/R3","rns.MsgRegister:live-name-protected","seed round 2 (written against C08)")
from_patch("C09","seed2-owner-change-drops-new-owners-bid","seeded/C09-owner-change-drops-new-owners-bid/patch.diff","C09/R6","rns.MsgBuy:changeOwner:bid-deleted-only-after-payout","seed round 2")
from_patch("C10","seed2-post-owner-from-signer-hash","seeded/C10-post-owner-from-signer-hash/patch.diff","C10/R2","filetree.MsgPostFile:new-owner","seed round 2")

# ---- behaviour-preserving refactors around the rules added after round 2
benign("C04","cut-helper-after-debit",[
 ("x/storage/keeper/msg_server_buy_storage.go","""	storageProviderCut := toPay.Amount.ToDec().Mul(spr)
	spcToken := sdk.NewCoin(toPay.Denom, storageProviderCut.TruncateInt())
	spcTokens := sdk.NewCoins(spcToken)
""","""	spcTokens := shareOf(toPay, spr)
"""),
 ("x/storage/keeper/msg_server_buy_storage.go","""	polCut := toPay.Amount.ToDec().Mul(pol) // 40,35,30% to pol
	polToken := sdk.NewCoin(toPay.Denom, polCut.TruncateInt())
	polTokens := sdk.NewCoins(polToken)
""","""	polTokens := shareOf(toPay, pol) // 40,35,30% to pol
"""),
 ("x/storage/keeper/msg_server_buy_storage.go","""	refCut := toPay.Amount.ToDec().Mul(refDec) // 25% to referrals
	refToken := sdk.NewCoin(toPay.Denom, refCut.TruncateInt())
	refTokens := sdk.NewCoins(refToken)
""","""	refTokens := shareOf(toPay, refDec) // 25% to referrals
"""),
 ("x/storage/keeper/msg_server_buy_storage.go","func (k msgServer) BuyStorage(","""func shareOf(payment sdk.Coin, ratio sdk.Dec) sdk.Coins {
	return sdk.NewCoins(sdk.NewCoin(payment.Denom, payment.Amount.ToDec().Mul(ratio).TruncateInt()))
}

func (k msgServer) BuyStorage("""),
])
benign("C04","ratio-computed-before-debit",[
 ("x/storage/keeper/msg_server_buy_storage.go","""	refDec := sdk.NewDec(params.ReferralCommission).QuoInt64(100)
	fmt.Printf("RATIOS!""","""	fmt.Printf("RATIOS!"""),
 ("x/storage/keeper/msg_server_buy_storage.go","""	pol := sdk.NewDec(params.PolRatio).QuoInt64(100)
""","""	pol := sdk.NewDec(params.PolRatio).QuoInt64(100)
	refDec := sdk.NewDec(params.ReferralCommission).QuoInt64(100)
"""),
])
benign("C17","contains-hoists-key",[
 ("x/storage/types/file.go","""	for _, proof := range f.Proofs {
		if proof == string(ProofKey(prover, f.Merkle, f.Owner, f.Start)) {
			return true
		}
	}
	return false""","""	wanted := f.MakeProofKey(prover)
	for _, proof := range f.Proofs {
		if proof == wanted {
			return true
		}
	}
	return false"""),
])
benign("C17","addprover-called-with-msg-creator",[
 ("x/storage/keeper/msg_server_postproof.go","if file.AddProver(ctx, k, prover) == nil {","if file.AddProver(ctx, k, msg.Creator) == nil {"),
])
benign("C09","consume-bid-helper",[
 ("x/rns/keeper/msg_server_accept_bid.go","""	k.RemoveBids(ctx, fmt.Sprintf("%s%s", bidder, name))

	whois.Value = bid.Bidder""","""	k.consumeBid(ctx, bidder, name)

	whois.Value = bid.Bidder"""),
 ("x/rns/keeper/msg_server_accept_bid.go","func (k Keeper) AcceptOneBid(","""func (k Keeper) consumeBid(ctx sdk.Context, bidder string, name string) {
	k.RemoveBids(ctx, fmt.Sprintf("%s%s", bidder, name))
}

func (k Keeper) AcceptOneBid("""),
])
benign("C03","burn-loads-through-helper",[
 ("x/storage/keeper/rewards.go","""	prov, found := k.GetProviders(ctx, providerAddress)
	if !found {
		return
	}

	burned, err""","""	prov, found := k.providerRecord(ctx, providerAddress)
	if !found {
		return
	}

	burned, err"""),
 ("x/storage/keeper/rewards.go","func (k Keeper) burnContract(","""func (k Keeper) providerRecord(ctx sdk.Context, address string) (types.Providers, bool) {
	return k.GetProviders(ctx, address)
}

func (k Keeper) burnContract("""),
])
benign("C08","liveness-as-difference",[
 ("x/rns/keeper/msg_server_init.go","if bh <= whois.Expires {","if whois.Expires-bh >= 0 {"),
])

benign("C14","tally-in-helper",[
 ("x/storage/keeper/msg_server_attest.go","""	done := false

	var count int64

	attestations := form.Attestations
	for _, attestation := range attestations {
		if attestation.Provider == creator {
			attestation.Complete = true
			done = true
		}

		if attestation.Complete {
			count++
		}
	}
""","""	attestations := form.Attestations
	count, done := signAndTally(attestations, creator)
"""),
 ("x/storage/keeper/msg_server_attest.go","func (k Keeper) Attest(","""// signAndTally marks the signer's entry and returns the number of signed entries (the new one included)
func signAndTally(attestations []*types.Attestation, signer string) (int64, bool) {
	done := false
	var count int64
	for _, attestation := range attestations {
		if attestation.Provider == signer {
			attestation.Complete = true
			done = true
		}

		if attestation.Complete {
			count++
		}
	}
	return count, done
}

func (k Keeper) Attest("""),
])
benign("C12","reward-guard-as-else",[
 ("x/storage/keeper/rewards.go","""	coins := k.pullTokensFromGauges(ctx)
	if totalSize <= 0 { // no stored bytes to weigh rewards against, and nothing to divide by
		return
	}
	networkValue := sdk.NewDec(totalSize)
""","""	coins := k.pullTokensFromGauges(ctx)
	if totalSize < 1 { // no stored bytes to weigh rewards against, and nothing to divide by
		ctx.Logger().Debug("nothing stored")
		return
	}
	networkValue := sdk.NewDec(totalSize)
"""),
])
from_patch("C12","seed2-guard-before-gauge-pull","seeded/C12-zero-bytes-guard-before-gauge-pull/patch.diff","C12/R5","release-every-reward-block","seed round 2")
from_patch("C13","seed2-capped-mint-records-uncapped-emission","seeded/C13-capped-mint-records-uncapped-emission/patch.diff","C13/R1","recorded=minted","seed round 2")
from_patch("C14","seed2-repeated-signature-counted-twice","seeded/C14-repeated-signature-counted-twice/patch.diff","C14/R1","quorum-operands-direct","seed round 2")
from_patch("C02","seed2-challenge-one-past-last-chunk","seeded/C02-challenge-one-past-last-chunk/patch.diff","C02/R2","draw-bounded","seed round 2")
from_patch("C06","seed2-shuffle-from-global-generator","seeded/C06-shuffle-from-global-generator/patch.diff","C06/R1","global-rand","seed round 2")
from_patch("C11","seed2-makeprimary-writes-record-owners-slot","seeded/C11-makeprimary-writes-record-owners-slot/patch.diff","C11/R3","rns.MsgMakePrimary:own-key","seed round 2")
from_patch("C15","seed2-collateral-transfer-error-shadowed","seeded/C15-collateral-transfer-error-shadowed/patch.diff","C15/R4","error-propagates","seed round 2")
from_patch("C16","seed2-space-stripping-after-lookup","seeded/C16-space-stripping-after-lookup/patch.diff","C16/R5","loaded-key=written-key","seed round 2")
from_patch("C11","seed2-space-stripping-after-lookup","seeded/C16-space-stripping-after-lookup/patch.diff","C11/R7","loaded-key=written-key","seed round 2 (written against C16)")
from_patch("C17","seed2-sweep-decodes-into-shared-file","seeded/C17-sweep-decodes-into-shared-file/patch.diff","C17/R4","decode-target-reused","seed round 2")
from_patch("C18","seed2-blocksenders-break-on-already-blocked","seeded/C18-blocksenders-break-on-already-blocked/patch.diff","C18/R7","loop-not-left-early","seed round 2")
from_patch("C19","seed2-export-through-default-pagination","seeded/C19-export-through-default-pagination/patch.diff","C19/R5","export-paginated","seed round 2")
from_patch("C20","seed2-client-splitter-cleans-path","seeded/C20-client-splitter-cleans-path/patch_rebased.diff","C20/R3","splitter","seed round 2")

m("C20","splitter-off-by-one","x/filetree/types/test_helpers.go",
  'for _, chunk := range chunks[0 : len(chunks)-1] {','for _, chunk := range chunks[0 : len(chunks)-2] {',"C20/R3","splitter:x/filetree/types.MerkleHelper")
m("C20","splitter-reparses-joined-parent","x/filetree/types/test_helpers.go",
  """	parentHash := ""
	for _, chunk := range chunks[0 : len(chunks)-1] {
		parentHash = AddToMerkle(parentHash, HashThenHex(chunk))
	}
""","""	parentHash := MerklePath(strings.Join(chunks[0:len(chunks)-1], "/"))
""","C20/R3","splitter:x/filetree/types.MerkleHelper","inverse of the splitter fix")
m("C20","splitter-fold-starts-from-root","x/filetree/client/cli/utils.go",
  'parentHash := ""\n\tfor _, chunk := range chunks','parentHash := filetypes.MerklePath("s")\n\tfor _, chunk := range chunks',"C20/R3","splitter:x/filetree/client/cli.merkleHelper")
m("C20","cli-splitter-trims-space","x/filetree/client/cli/utils.go",
  'trimPath := strings.TrimSuffix(argHashpath, "/")','trimPath := strings.TrimSuffix(strings.TrimSpace(argHashpath), "/")',"C20/R3","splitter:x/filetree/client/cli.merkleHelper")
benign("C20","cli-splitter-delegates",[
 ("x/filetree/client/cli/utils.go","""	// Cut out the / at the end for compatibility with types/merkle-paths.go
	trimPath := strings.TrimSuffix(argHashpath, "/")
	chunks := strings.Split(trimPath, "/")

	childString := (chunks[len(chunks)-1])

	// fold the parent segments the way MerklePath folds them; re-parsing the joined parent would drop an
	// empty last parent segment ("a//c") and turn "no parent" ("s") into one empty segment
	parentHash := ""
	for _, chunk := range chunks[0 : len(chunks)-1] {
		parentHash = filetypes.AddToMerkle(parentHash, filetypes.HashThenHex(chunk))
	}

	h := sha256.New()
	h.Write([]byte(childString))
	childHash := fmt.Sprintf("%x", h.Sum(nil))

	return parentHash, childHash""","""	_ = strings.TrimSuffix
	return filetypes.MerkleHelper(argHashpath)"""),
])
benign("C20","splitter-child-via-hashthenhex",[
 ("x/filetree/types/test_helpers.go","""	h := sha256.New()
	h.Write([]byte(childString))
	childHash := fmt.Sprintf("%x", h.Sum(nil))

	return parentHash, childHash""","""	return parentHash, HashThenHex(childString)"""),
])
benign("C20","splitter-parent-slice-without-lower-bound",[
 ("x/filetree/types/test_helpers.go","for _, chunk := range chunks[0 : len(chunks)-1] {","for _, chunk := range chunks[:len(chunks)-1] {"),
])
m("C19","export-loop-stops-early","x/rns/keeper/bids.go",
  'list = append(list, val)\n\t}\n\n\treturn\n}','list = append(list, val)\n\t\tif len(list) >= 1000 {\n\t\t\tbreak\n\t\t}\n\t}\n\n\treturn\n}',"C19/R5","rns:export-loop-exits-early:GetAllBids")
benign("C18","blocksenders-skip-known-with-continue",[
 ("x/notifications/keeper/msg_server_block_senders.go","""		b := types.Block{""","""		if k.IsBlocked(ctx, msg.Creator, address.String()) {
			continue
		}

		b := types.Block{"""),
])
m("C18","blocksenders-return-on-known","x/notifications/keeper/msg_server_block_senders.go",
  '		b := types.Block{','		if k.IsBlocked(ctx, msg.Creator, address.String()) {\n\t\t\treturn &types.MsgBlockSendersResponse{}, nil\n\t\t}\n\n\t\tb := types.Block{',"C18/R7","loop-not-left-early")
m("C12","reward-skipped-when-no-provers","x/storage/keeper/rewards.go",
  '	k.rewardAllProviders(ctx, totalSize, sizeTracker)\n}','	if len(*sizeTracker) == 0 {\n\t\treturn\n\t}\n\tk.rewardAllProviders(ctx, totalSize, sizeTracker)\n}',"C12/R5","release-every-reward-block:ManageRewards->rewardAllProviders")

# ---- C14/R6 (prover never named on its own form)
from_patch("C14","seed-single-label-host-names-prover","seeded/C14-single-label-host-names-prover/patch.diff","C14/R6","form-candidates:prover-excluded","seed round 1 (a documented miss until C14/R6)")
m("C14","candidate-tld-from-wrong-label","x/storage/keeper/providers.go",
  '		domain := parts[partCount-2]\n\t\ttld := parts[partCount-1]\n','		domain := parts[partCount-2]\n\t\ttld := parts[0]\n',"C14/R6","form-candidates:prover-excluded")
m("C14","candidate-shape-test-weaker-than-filter","x/storage/keeper/providers.go",
  '		if partCount < 2 {\n\t\t\tcontinue\n\t\t}\n\n\t\tdomain := parts[partCount-2]','		if partCount < 1 {\n\t\t\tcontinue\n\t\t}\n\n\t\tdomain := parts[(partCount+partCount-2)%partCount]',"C14/R6","form-candidates:prover-excluded")
benign("C14","domain-extraction-in-helper",[
 ("x/storage/keeper/providers.go","""		parts := strings.Split(url.Hostname(), ".")
		partCount := len(parts)
		if partCount >= 2 {
			filterDomain = parts[partCount-2]
			filterTLD = parts[partCount-1]
		}
""","""		if d, t, ok := domainOf(url.Hostname()); ok {
			filterDomain = d
			filterTLD = t
		}
"""),
 ("x/storage/keeper/providers.go","""		parts := strings.Split(url.Hostname(), ".")
		partCount := len(parts)
		if partCount < 2 {
			continue
		}

		domain := parts[partCount-2]
		tld := parts[partCount-1]
""","""		domain, tld, ok := domainOf(url.Hostname())
		if !ok {
			continue
		}
"""),
 ("x/storage/keeper/providers.go","// GetActiveProviders returns a list of recently active providers in a random order","""func domainOf(host string) (string, string, bool) {
	parts := strings.Split(host, ".")
	partCount := len(parts)
	if partCount < 2 {
		return "", "", false
	}
	return parts[partCount-2], parts[partCount-1], true
}

// GetActiveProviders returns a list of recently active providers in a random order"""),
])

# ---- round 3 of independent seeded changes (batch 1)
from_patch("C01","seed3-window-helper-returns-offset","seeded/C01-window-helper-returns-offset/patch.diff","C01/R6","height-dimensions","seed round 3")
from_patch("C02","seed3-window-helper-returns-offset","seeded/C01-window-helper-returns-offset/patch.diff","C02/R5","height-dimensions","seed round 3 (written against C01)")
from_patch("C03","seed3-window-helper-returns-offset","seeded/C01-window-helper-returns-offset/patch.diff","C03/R8","height-dimensions","seed round 3 (written against C01)")
from_patch("C02","seed3-proven-window-as-strict-age","seeded/C02-proven-window-as-strict-age/patch.diff","C02/R3","removal-only-on-miss","seed round 3")
from_patch("C03","seed3-proven-window-strict-boundary","seeded/C03-proven-window-strict-boundary/patch.diff","C03/R2","proven-predicate","seed round 3")
from_patch("C04","seed3-payonce-debit-error-overwritten","seeded/C04-payonce-debit-error-overwritten/patch.diff","C04/R5","error-propagates","seed round 3")
from_patch("C05","seed3-wasm-postfile-skips-validatebasic","seeded/C05-wasm-postfile-skips-validatebasic/patch.diff","C05/R3","wasm:storage.MsgPostFile:validate-basic","seed round 3")
from_patch("C07","seed3-wasm-postfile-skips-validatebasic","seeded/C05-wasm-postfile-skips-validatebasic/patch.diff","C07/R3","wasm:storage.MsgPostFile:validate-basic","seed round 3 (written against C05)")
from_patch("C06","seed3-gauge-end-in-host-time-zone","seeded/C06-gauge-end-in-host-time-zone/patch.diff","C06/R1","host-time-zone","seed round 3")
from_patch("C07","seed3-overflow-check-on-wrapped-product","seeded/C07-overflow-check-on-wrapped-product/patch.diff","C07/R3","product-overflow-checked","seed round 3")
from_patch("C05","seed3-overflow-check-on-wrapped-product","seeded/C07-overflow-check-on-wrapped-product/patch.diff","C05/R3","product-overflow-checked","seed round 3 (written against C07)")
from_patch("C08","seed3-init-guard-on-locked-field","seeded/C08-init-guard-on-locked-field/patch.diff","C08/R1","rns.MsgInit:new-or-expired","seed round 3")
from_patch("C09","seed3-cancel-deletes-reparsed-key","seeded/C09-cancel-deletes-reparsed-key/patch.diff","C09/R4","rns.MsgCancelBid:delete-key","seed round 3")
from_patch("C10","seed3-changeowner-guard-and-write-keys-differ","seeded/C10-changeowner-guard-and-write-keys-differ/patch.diff","C10/R6","absent-check-key=written-key","seed round 3")

# ---- mutants / benign refactors for the rules added in round 3
m("C07","space-check-adds-before-comparing","x/storage/keeper/msg_server_post_file.go",
  """	if totalSize > paymentInfo.SpaceAvailable-paymentInfo.SpaceUsed {
		return nil, sdkerrors.Wrapf(sdkerrors.ErrUnauthorized, "storage account does not have enough space available %d + %d > %d", paymentInfo.SpaceUsed, totalSize, paymentInfo.SpaceAvailable)
	}
	paymentInfo.SpaceUsed += totalSize
""","""	paymentInfo.SpaceUsed += totalSize
	if paymentInfo.SpaceUsed > paymentInfo.SpaceAvailable {
		return nil, sdkerrors.Wrapf(sdkerrors.ErrUnauthorized, "storage account does not have enough space available %d > %d", paymentInfo.SpaceUsed, paymentInfo.SpaceAvailable)
	}
""","C07/R2","space-comparison-cannot-wrap","inverse of the space-check fix")
benign("C07","remaining-space-in-variable",[
 ("x/storage/keeper/msg_server_post_file.go","	if totalSize > paymentInfo.SpaceAvailable-paymentInfo.SpaceUsed {","	remaining := paymentInfo.SpaceAvailable - paymentInfo.SpaceUsed\n\tif remaining < totalSize {"),
])
m("C02","isyoung-compares-interval-with-height","x/storage/types/file.go",
  'return f.Start+f.ProofInterval >= height','return f.ProofInterval >= height-f.ProofInterval',"C02/R5","height-dimensions")
m("C16","expiry-compared-with-years","x/rns/keeper/msg_server_init.go",
  'if bh <= whois.Expires {','if bh <= whois.Expires-bh {',"C16/R6","height-dimensions")
benign("C01","window-helper-restated",[
 ("x/storage/types/file.go","""	k := currentHeight - start
	we := k - (k % window) + start

	return we""","""	elapsed := currentHeight - start
	return start + (elapsed/window)*window"""),
])
benign("C03","proven-window-via-local",[
 ("x/storage/types/file.go","""	lastWindowStart := window - f.ProofInterval

	return lastProven >= lastWindowStart // if last proven has been since the window start we can ski it""","""	return lastProven >= window-f.ProofInterval"""),
])
m("C06","plan-start-from-unix","x/storage/keeper/msg_server_buy_storage.go",
  'Start:          ctx.BlockTime(),','Start:          time.Unix(ctx.BlockTime().Unix(), 0),',"C06/R1","host-time-zone")
benign("C06","unix-time-normalised-to-utc",[
 ("x/storage/keeper/msg_server_buy_storage.go",'Start:          ctx.BlockTime(),','Start:          time.Unix(ctx.BlockTime().Unix(), int64(ctx.BlockTime().Nanosecond())).UTC(),'),
])

benign("C07","remove-owner-side-in-helper",[
 ("x/storage/keeper/files.go","""	if file.Expires == 0 { // a plan-paid file gives its footprint back to its owner's storage plan
		payInfo, found := k.GetStoragePaymentInfo(ctx, file.Owner)
		if found {
			payInfo.SpaceUsed -= file.FileSize * file.MaxProofs
			if payInfo.SpaceUsed < 0 {
				payInfo.SpaceUsed = 0
			}
			k.SetStoragePaymentInfo(ctx, payInfo)
		}
	}

	k.removeFilePrimary(ctx, merkle, owner, start)
	k.removeFileSecondary(ctx, merkle, owner, start)
}
""","""	k.removeFilePrimary(ctx, merkle, owner, start)
	k.releaseFromOwner(ctx, file)
}

// releaseFromOwner drops the owner's listing of the file and gives a plan-paid file's footprint back
func (k Keeper) releaseFromOwner(ctx sdk.Context, file types.UnifiedFile) {
	k.removeFileSecondary(ctx, file.Merkle, file.Owner, file.Start)
	if file.Expires != 0 { // paid for up front, no storage plan to give space back to
		return
	}
	payInfo, found := k.GetStoragePaymentInfo(ctx, file.Owner)
	if found {
		payInfo.SpaceUsed -= file.FileSize * file.MaxProofs
		if payInfo.SpaceUsed < 0 {
			payInfo.SpaceUsed = 0
		}
		k.SetStoragePaymentInfo(ctx, payInfo)
	}
}
"""),
])

benign("C17","remove-owner-side-in-helper",[
 ("x/storage/keeper/files.go","""	if file.Expires == 0 { // a plan-paid file gives its footprint back to its owner's storage plan
		payInfo, found := k.GetStoragePaymentInfo(ctx, file.Owner)
		if found {
			payInfo.SpaceUsed -= file.FileSize * file.MaxProofs
			if payInfo.SpaceUsed < 0 {
				payInfo.SpaceUsed = 0
			}
			k.SetStoragePaymentInfo(ctx, payInfo)
		}
	}

	k.removeFilePrimary(ctx, merkle, owner, start)
	k.removeFileSecondary(ctx, merkle, owner, start)
}
""","""	k.removeFilePrimary(ctx, merkle, owner, start)
	k.releaseFromOwner(ctx, file)
}

// releaseFromOwner drops the owner's listing of the file and gives a plan-paid file's footprint back
func (k Keeper) releaseFromOwner(ctx sdk.Context, file types.UnifiedFile) {
	k.removeFileSecondary(ctx, file.Merkle, file.Owner, file.Start)
	if file.Expires != 0 { // paid for up front, no storage plan to give space back to
		return
	}
	payInfo, found := k.GetStoragePaymentInfo(ctx, file.Owner)
	if found {
		payInfo.SpaceUsed -= file.FileSize * file.MaxProofs
		if payInfo.SpaceUsed < 0 {
			payInfo.SpaceUsed = 0
		}
		k.SetStoragePaymentInfo(ctx, payInfo)
	}
}
"""),
])

# ---- round 3 of independent seeded changes (batch 2)
from_patch("C11","seed3-notification-keys-through-path-join","seeded/C11-notification-keys-through-path-join/patch.diff","C11/R3","notifications.MsgDeleteNotification:own-key","seed round 3")
from_patch("C12","seed3-gauges-decoded-into-shared-variable","seeded/C12-gauges-decoded-into-shared-variable/patch.diff","C12/R6","decode-target-reused","seed round 3")
from_patch("C13","seed3-prune-range-over-decimal-keys","seeded/C13-prune-range-over-decimal-keys/patch.diff","C13/R7","ranged-iterator","seed round 3")
from_patch("C14","seed3-proof-holding-test-open-ended-range","seeded/C14-proof-holding-test-open-ended-range/patch.diff","C14/R7","ranged-iterator","seed round 3")
from_patch("C15","seed3-shutdown-defaults-to-current-price","seeded/C15-shutdown-defaults-to-current-price/patch.diff","C15/R2","refund-amount","seed round 3")
from_patch("C16","seed3-tld-recognised-by-substring","seeded/C16-tld-recognised-by-substring/patch.diff","C16/R7","tld-recognised-by-suffix","seed round 3")
from_patch("C17","seed3-payonce-removal-keeps-owner-listing","seeded/C17-payonce-removal-keeps-owner-listing/patch.diff","C17/R1","Delete-pairs","seed round 3")
from_patch("C18","seed3-inbox-prefix-without-separator","seeded/C18-inbox-prefix-without-separator/patch.diff","C18/R5","inbox-prefix","seed round 3")
from_patch("C19","seed3-export-decodes-providers-into-shared-variable","seeded/C19-export-decodes-providers-into-shared-variable/patch.diff","C19/R6","decode-target-reused","seed round 3")
from_patch("C20","seed3-hash-helper-short-circuits-empty","seeded/C20-hash-helper-short-circuits-empty/patch.diff","C20/R3","splitter","seed round 3")
benign("C16","tld-suffix-via-hassuffix",[
 ("x/rns/keeper/utils.go","""		checkingName := name[len(name)-tldSize:]

		if checkingName == tld {
			return tld, nil
		}""","""		if strings.HasSuffix(name, tld) {
			return tld, nil
		}"""),
])
m("C16","validation-copy-recognises-by-prefix","x/rns/types/utils.go",
  'checkingName := name[len(name)-tldSize:]','checkingName := name[:tldSize]',"C16/R7","tld-recognised-by-suffix")
benign("C12","gauge-decoded-in-helper",[
 ("x/storage/keeper/gauges.go","""		var val types.PaymentGauge
		k.cdc.MustUnmarshal(iterator.Value(), &val)

		fn(val)""","""		fn(k.decodeGauge(iterator.Value()))"""),
 ("x/storage/keeper/gauges.go","func (k Keeper) IterateGauges(","""func (k Keeper) decodeGauge(bz []byte) types.PaymentGauge {
	var val types.PaymentGauge
	k.cdc.MustUnmarshal(bz, &val)
	return val
}

func (k Keeper) IterateGauges("""),
])

# ---- C16/R8 year arithmetic (genuine defect fixed in /repo)
m("C16","year-overflow-guard-removed","x/rns/keeper/msg_server_register.go",
  """	if years > 0 && (cost > math.MaxInt64/years || years > (math.MaxInt64-latest)/5484530) {
		return sdkerrors.Wrapf(sdkerrors.ErrInvalidRequest, "cannot register a name for %d years", years)
	}
""","""	_ = math.MaxInt64
""","C16/R8","year-arithmetic-cannot-wrap:price","inverse of the year-count fix")
m("C16","year-overflow-guard-by-sign-of-product","x/rns/keeper/msg_server_register.go",
  """	if years > 0 && (cost > math.MaxInt64/years || years > (math.MaxInt64-latest)/5484530) {""",
  """	if years > 0 && (cost*years < 0 || years > (math.MaxInt64-latest)/5484530) {""","C16/R8","year-arithmetic-cannot-wrap:price")
m("C16","year-overflow-guard-ignores-base","x/rns/keeper/msg_server_register.go",
  """years > (math.MaxInt64-latest)/5484530) {""","""years > math.MaxInt64/5484530) {""","C16/R8","year-arithmetic-cannot-wrap:expiry-from-height")
benign("C16","year-guard-split-in-two",[
 ("x/rns/keeper/msg_server_register.go","""	if years > 0 && (cost > math.MaxInt64/years || years > (math.MaxInt64-latest)/5484530) {
		return sdkerrors.Wrapf(sdkerrors.ErrInvalidRequest, "cannot register a name for %d years", years)
	}
""","""	if years > 0 && cost > math.MaxInt64/years {
		return sdkerrors.Wrapf(sdkerrors.ErrInvalidRequest, "cannot register a name for %d years", years)
	}
	if years > (math.MaxInt64-latest)/5484530 {
		return sdkerrors.Wrapf(sdkerrors.ErrInvalidRequest, "cannot register a name for %d years", years)
	}
"""),
])

# ---- gauge id collision (fixed in /repo by merging)
m("C12","newgauge-overwrites-existing","x/storage/keeper/gauges.go",
  """	if old := store.Get(types.PaymentGaugeKey(id)); old != nil {
		var existing types.PaymentGauge
		k.cdc.MustUnmarshal(old, &existing)
		pg.Coins = existing.Coins.Add(coins...)
	}
""","","C12/R2","gauge:id-collision","inverse of the gauge-merge fix")
m("C04","newgauge-merge-records-double","x/storage/keeper/gauges.go",
  "pg.Coins = existing.Coins.Add(coins...)","pg.Coins = existing.Coins.Add(coins...).Add(coins...)","C04/R2","gauge-constructor:records-argument")

# ---- round 4 of independent seeded changes (batch 1)
from_patch("C01","seed4-verification-only-for-proof-type-zero","seeded/C01-verification-only-for-proof-type-zero/patch.diff","C01/R2","storage.MsgPostProof:prover","seed round 4")
from_patch("C02","seed4-proof-refused-after-paid-term","seeded/C02-proof-refused-after-paid-term/patch.diff","C02/R6","refusal-reason","seed round 4")
from_patch("C03","seed4-shares-rounded-to-nearest","seeded/C03-shares-rounded-to-nearest/patch.diff","C03/R9","payout-rounds-down","seed round 4")
from_patch("C04","seed4-zero-ratio-replaced-by-default","seeded/C04-zero-ratio-replaced-by-default/patch.diff","C04/R10","params-getter-faithful","seed round 4")
from_patch("C06","seed4-zero-ratio-replaced-by-default","seeded/C04-zero-ratio-replaced-by-default/patch.diff","C06/R6","storage:params-getter-faithful","seed round 4 (written against C04)")
from_patch("C05","seed4-prover-list-presized-by-maxproofs","seeded/C05-prover-list-presized-by-maxproofs/patch.diff","C05/R4","make-size","seed round 4")
from_patch("C06","seed4-params-cached-in-process","seeded/C06-params-cached-in-process/patch.diff","C06/R6","writes-through-keeper-field","seed round 4")
from_patch("C07","seed4-plan-charged-under-canonical-address","seeded/C07-plan-charged-under-canonical-address/patch_rebased.diff","C07/R5","charge-key=stored-owner","seed round 4")
from_patch("C08","seed4-name-getter-returns-subdomain-record","seeded/C08-name-getter-returns-subdomain-record/patch.diff","C08/R4","GetNames:getter-faithful","seed round 4")
from_patch("C11","seed4-name-getter-returns-subdomain-record","seeded/C08-name-getter-returns-subdomain-record/patch.diff","C11/R8","GetNames:getter-faithful","seed round 4 (written against C08)")
from_patch("C09","seed4-import-drops-bids-on-unregistered-names","seeded/C09-import-drops-bids-on-unregistered-names/patch.diff","C09/R7","import-every-element:Bids","seed round 4")
from_patch("C19","seed4-import-drops-bids-on-unregistered-names","seeded/C09-import-drops-bids-on-unregistered-names/patch.diff","C19/R7","import-every-element:Bids","seed round 4 (written against C09)")
from_patch("C10","seed4-owner-implies-edit-access","seeded/C10-owner-implies-edit-access/patch.diff","C10/R2","filetree.MsgPostFile:editor-gate","seed round 4")

# mutants / benign refactors for the round-4 rules
m("C13","staker-share-rounded-up","x/jklmint/keeper/mint.go",
  'stakerCoinValue := stakerRatio.MulInt64(mintTokens).TruncateInt64()','stakerCoinValue := stakerRatio.MulInt64(mintTokens).Ceil().TruncateInt64()',"C13/R8","split:fee-collector:rounds-down")
m("C04","pol-cut-rounded","x/storage/keeper/msg_server_buy_storage.go",
  'polToken := sdk.NewCoin(toPay.Denom, polCut.TruncateInt())','polToken := sdk.NewCoin(toPay.Denom, polCut.RoundInt())',"C04/R9","cut-rounds-down")
benign("C03","share-truncated-via-int64",[
 ("x/storage/keeper/rewards.go","tokensValueOwed := networkPercentage.Mul(coin.Amount.ToDec()).TruncateInt()","tokensValueOwed := sdk.NewInt(networkPercentage.Mul(coin.Amount.ToDec()).TruncateInt64())"),
])
m("C19","storage-import-skips-empty-files","x/storage/genesis.go",
  'for _, elem := range genState.FileList {','for _, elem := range genState.FileList {\n\t\tif len(elem.Proofs) == 0 {\n\t\t\tcontinue\n\t\t}',"C19/R7","storage:import-every-element")
benign("C05","copy-buffer-sized-by-len-plus-one",[
 ("x/storage/keeper/rewards.go","proofs := make([]string, len(file.Proofs))","proofs := make([]string, len(file.Proofs), len(file.Proofs)+1)"),
])
benign("C07","owner-and-charge-both-canonical",[
 ("x/storage/keeper/msg_server_post_file.go","""	file := types.UnifiedFile{
		Merkle:        msg.Merkle,
		Owner:         msg.Creator,""","""	owner := msg.Creator
	file := types.UnifiedFile{
		Merkle:        msg.Merkle,
		Owner:         owner,"""),
 ("x/storage/keeper/msg_server_post_file.go","paymentInfo, found := k.GetStoragePaymentInfo(ctx, msg.Creator)","paymentInfo, found := k.GetStoragePaymentInfo(ctx, owner)"),
])
benign("C02","refusal-message-in-helper",[
 ("x/storage/keeper/msg_server_postproof.go","""	if msg.ToProve != proof.ChunkToProve {""","""	if wrongChunk(msg.ToProve, proof.ChunkToProve) {"""),
 ("x/storage/keeper/msg_server_postproof.go","func (k msgServer) PostProof(","""func wrongChunk(answered int64, challenged int64) bool {
	return answered != challenged
}

func (k msgServer) PostProof("""),
])

# ---- round 4 of independent seeded changes (batch 2)
from_patch("C11","seed4-buystorage-signer-from-foraddress","seeded/C11-buystorage-signer-from-foraddress/patch.diff","C11/R1","storage.MsgBuyStorage:signer","seed round 4")
from_patch("C12","seed4-gauge-funded-with-merged-record","seeded/C12-gauge-funded-with-merged-record/patch.diff","C12/R8","deposit=constructor-argument","seed round 4")
from_patch("C04","seed4-gauge-funded-with-merged-record","seeded/C12-gauge-funded-with-merged-record/patch.diff","C04/R2","gauge-funded=recorded","seed round 4 (written against C12)")
from_patch("C13","seed4-clamp-moved-from-result-to-input","seeded/C13-clamp-moved-from-result-to-input/patch.diff","C13/R3","negative-emission","seed round 4")
from_patch("C14","seed4-quorum-and-formsize-keys-swapped","seeded/C14-quorum-and-formsize-keys-swapped/patch.diff","C14/R8","param-key:AttestMinToPass","seed round 4")
from_patch("C15","seed4-collateral-export-through-pagination","seeded/C15-collateral-export-through-pagination/patch.diff","C15/R6","export-paginated:GetAllCollateral","seed round 4")
from_patch("C16","seed4-init-overwrites-paid-name","seeded/C16-init-overwrites-paid-name/patch.diff","C16/R3","rns.MsgInit:live-name-protected","seed round 4")
from_patch("C17","seed4-last-prover-removal-skips-save","seeded/C17-last-prover-removal-skips-save/patch.diff","C17/R2","RemoveProverWithKey:proofs-list-update","seed round 4")
from_patch("C18","seed4-notification-keys-through-path-join","seeded/C18-notification-keys-through-path-join/patch.diff","C18/R3","inbox-component-is-signer","seed round 4")
from_patch("C19","seed4-mint-import-completes-zero-params","seeded/C19-mint-import-completes-zero-params/patch.diff","C19/R8","jklmint:import-params-verbatim","seed round 4")
from_patch("C20","seed4-empty-parent-defaults-to-root","seeded/C20-empty-parent-defaults-to-root/patch.diff","C20/R2","combiner-arguments","seed round 4")
benign("C12","fund-gauge-helper-with-own-coins",[
 ("x/storage/keeper/msg_server_buy_storage.go","""	acc, err := types.GetGaugeAccount(gauge)
	if err != nil {
		return nil, sdkerrors.Wrapf(err, "cannot get gauge holder account")
	}

	err = k.bankKeeper.SendCoinsFromModuleToAccount(ctx, types.ModuleName, acc, spcTokens)
	if err != nil {
		return nil, sdkerrors.Wrapf(err, "cannot send tokens to token holder account")
	}
""","""	err = k.fundGauge(ctx, gauge, spcTokens)
	if err != nil {
		return nil, err
	}
"""),
 ("x/storage/keeper/msg_server_buy_storage.go","func (k msgServer) BuyStorage(","""func (k Keeper) fundGauge(ctx sdk.Context, gauge types.PaymentGauge, deposit sdk.Coins) error {
	acc, err := types.GetGaugeAccount(gauge)
	if err != nil {
		return sdkerrors.Wrapf(err, "cannot get gauge holder account")
	}

	err = k.bankKeeper.SendCoinsFromModuleToAccount(ctx, types.ModuleName, acc, deposit)
	if err != nil {
		return sdkerrors.Wrapf(err, "cannot send tokens to token holder account")
	}
	return nil
}

func (k msgServer) BuyStorage("""),
])

benign("C04","fund-gauge-helper-with-own-coins",[
 ("x/storage/keeper/msg_server_buy_storage.go","""	acc, err := types.GetGaugeAccount(gauge)
	if err != nil {
		return nil, sdkerrors.Wrapf(err, "cannot get gauge holder account")
	}

	err = k.bankKeeper.SendCoinsFromModuleToAccount(ctx, types.ModuleName, acc, spcTokens)
	if err != nil {
		return nil, sdkerrors.Wrapf(err, "cannot send tokens to token holder account")
	}
""","""	err = k.fundGauge(ctx, gauge, spcTokens)
	if err != nil {
		return nil, err
	}
"""),
 ("x/storage/keeper/msg_server_buy_storage.go","func (k msgServer) BuyStorage(","""func (k Keeper) fundGauge(ctx sdk.Context, gauge types.PaymentGauge, deposit sdk.Coins) error {
	acc, err := types.GetGaugeAccount(gauge)
	if err != nil {
		return sdkerrors.Wrapf(err, "cannot get gauge holder account")
	}

	err = k.bankKeeper.SendCoinsFromModuleToAccount(ctx, types.ModuleName, acc, deposit)
	if err != nil {
		return sdkerrors.Wrapf(err, "cannot send tokens to token holder account")
	}
	return nil
}

func (k msgServer) BuyStorage("""),
])


# ---- behaviour-preserving refactors written by independent sub-agents (benign/<prop>/*.diff): each is run against
# every property whose check reads the module(s) the diff touches
import glob
# ---- independent seeded changes, round 5
from_patch("C03","seed5-burn-error-keeps-prover","seeded/C01-burn-error-keeps-prover/patch.diff","C03/R2","rewards:path-classes","seed round 5")
from_patch("C02","seed5-verifier-hex-chunk-index","seeded/C02-verifier-hex-chunk-index/patch.diff","C02/R1","leaf-encoding:builder≡verifier","seed round 5")
from_patch("C03","seed5-young-by-current-proof-window","seeded/C03-young-by-current-proof-window/patch.diff","C03/R2","rewards:burn-guard","seed round 5")
from_patch("C02","seed5-young-by-current-proof-window","seeded/C03-young-by-current-proof-window/patch.diff","C02/R3","rewards:burn-only-on-miss","seed round 5")
from_patch("C04","seed5-param-pairs-crossed","seeded/C04-param-pairs-crossed/patch.diff","C04/R10","storage:param-key:POLRatio","seed round 5")
from_patch("C05","seed5-total-size-narrowed-from-bigint","seeded/C05-total-size-narrowed-from-bigint/patch.diff","C05/R6","ManageRewards:narrowing","seed round 5")
from_patch("C06","seed5-upgrade-prorated-by-wall-clock","seeded/C06-upgrade-prorated-by-wall-clock/patch.diff","C06/R1","UpgradeStorage:time.Until","seed round 5")
from_patch("C07","seed5-wasm-post-skips-validate","seeded/C07-wasm-post-skips-validate/patch.diff","C07/R3","wasm:storage.MsgPostFile:validate-basic","seed round 5")
from_patch("C08","seed5-forsale-key-drops-tld","seeded/C08-forsale-key-drops-tld/patch.diff","C08/R5","ForsaleKey:key-builder-injective","seed round 5")
from_patch("C09","seed5-cancel-accept-stricter-name-check","seeded/C09-cancel-accept-stricter-name-check/patch.diff","C09/R8","MsgCancelBid:accepts-what-MsgBid-accepted:Name","seed round 5")
from_patch("C10","seed5-reset-viewers-unescaped-json","seeded/C10-reset-viewers-unescaped-json/patch.diff","C10/R5","filetree.MsgResetViewers:reset-leaves-owner-entry-only","seed round 5")
from_patch("C11","seed5-wasm-post-validates-copy-executes-original","seeded/C11-wasm-post-validates-copy-executes-original/patch.diff","C11/R4","wasm:storage.MsgPostFile:creator-is-contract","seed round 5")
from_patch("C04","seed5-gauge-lookup-wrong-prefix","seeded/C12-gauge-lookup-wrong-prefix/patch.diff","C04/R2","gauge-constructor:records-argument","seed round 5")
from_patch("C06","seed5-shares-in-float","seeded/C13-shares-in-float/patch.diff","C06/R4","shareOf:float-flow","seed round 5")
from_patch("C14","seed5-form-key-ignores-owner","seeded/C14-form-key-ignores-owner/patch.diff","C14/R9","AttestationKey:key-builder-injective","seed round 5")
from_patch("C15","seed5-app-wires-collateral-account-as-fee-collector","seeded/C15-app-wires-collateral-account-as-fee-collector/patch.diff","C15/R7","app:storage-keeper:fee-collector-name","seed round 5")
from_patch("C17","seed5-postproof-any-lookup-error-means-new-prover","seeded/C17-postproof-any-lookup-error-means-new-prover/patch.diff","C17/R3","append-only-if-absent","seed round 5")
from_patch("C18","seed5-setter-compacts-contents","seeded/C18-setter-compacts-contents/patch.diff","C18/R8","SetNotification:setter-faithful","seed round 5")
from_patch("C19","seed5-owner-index-written-once","seeded/C19-owner-index-written-once/patch.diff","C19/R9","setFileSecondary:setter-faithful","seed round 5")
from_patch("C16","seed5-price-table-off-by-one","seeded/C16-price-table-off-by-one/patch.diff","C16/R9","table-entries-reachable","seed round 5")
from_patch("C20","seed5-cli-path-through-runes","seeded/C20-cli-path-through-runes/patch.diff","C20/R4","hashes-the-given-path","seed round 5")
# ---- seed round 6
from_patch("C01","seed6-owner-chosen-proof-interval","seeded/C01-owner-chosen-proof-interval/patch.diff","C01/R7","PostFile:ProofInterval-from-ProofWindow","seed round 6")
from_patch("C03","seed6-owner-chosen-proof-interval","seeded/C01-owner-chosen-proof-interval/patch.diff","C03/R10","PostFile:ProofInterval-from-ProofWindow","seed round 6")
from_patch("C05","seed6-owner-chosen-proof-interval","seeded/C01-owner-chosen-proof-interval/patch.diff","C05/R1","getRoundedWindow:div:arg2","seed round 6")
from_patch("C17","seed6-swap-remove-deletes-last-provers-record","seeded/C02-swap-remove-deletes-last-provers-record/patch.diff","C17/R2","RemoveProverWithKey:proofs-list-update","seed round 6")
from_patch("C01","seed6-per-file-interval-from-message","seeded/C03-per-file-interval-from-message/patch.diff","C01/R7","PostFile:ProofInterval-from-ProofWindow","seed round 6")
from_patch("C03","seed6-per-file-interval-from-message","seeded/C03-per-file-interval-from-message/patch.diff","C03/R10","PostFile:ProofInterval-from-ProofWindow","seed round 6")
from_patch("C05","seed6-per-file-interval-from-message","seeded/C03-per-file-interval-from-message/patch.diff","C05/R1","getRoundedWindow:div:arg2","seed round 6")
from_patch("C04","seed6-gauge-saved-from-stale-marshal","seeded/C04-gauge-saved-from-stale-marshal/patch.diff","C04/R11","NewGauge:marshal-is-fresh","seed round 6")
from_patch("C12","seed6-gauge-saved-from-stale-marshal","seeded/C04-gauge-saved-from-stale-marshal/patch.diff","C12/R9","NewGauge:marshal-is-fresh","seed round 6")
from_patch("C05","seed6-coins-sub-panics-in-gauge-pull","seeded/C05-coins-sub-panics-in-gauge-pull/patch.diff","C05/R7","pullTokensFromGauges$1:coin-subtraction:types.Coins).Sub","seed round 6")
from_patch("C06","seed6-empty-tracking-number-gets-uuid","seeded/C06-empty-tracking-number-gets-uuid/patch.diff","C06/R1","CleanTrackingNumber:uuid.New","seed round 6")
from_patch("C07","seed6-double-refund-on-removal","seeded/C07-double-refund-on-removal/patch.diff","C07/R8","removeFileIfDeserved:footprint-returned-once","seed round 6")
from_patch("C11","seed6-add-record-signer-is-value","seeded/C08-add-record-signer-is-value/patch.diff","C11/R1","rns.MsgAddRecord:signer","seed round 6")
from_patch("C09","seed6-own-bid-paid-but-kept-open","seeded/C09-own-bid-paid-but-kept-open/patch.diff","C09/R4","rns.MsgAcceptBid:bid-consumed","seed round 6")
from_patch("C20","seed6-child-path-collapses-to-parent","seeded/C10-child-path-collapses-to-parent/patch.diff","C20/R1","filetree:combiner","seed round 6")
from_patch("C11","seed6-delete-file-first-match-fallback","seeded/C11-delete-file-first-match-fallback/patch.diff","C11/R3","storage.MsgDeleteFile:own-key:storage/FilesByMerkle/value/","seed round 6")
from_patch("C12","seed6-upgrade-deposits-both-into-gauge-one","seeded/C12-upgrade-deposits-both-into-gauge-one/patch.diff","C12/R8","ProvisionGauges:deposit=constructor-argument","seed round 6")
from_patch("C13","seed6-zero-share-aborts-mint","seeded/C13-zero-share-aborts-mint/patch.diff","C13/R10","send:fails-only-on-errors","seed round 6")
from_patch("C06","seed6-candidates-drawn-with-replacement","seeded/C14-candidates-drawn-with-replacement/patch.diff","C06/R1","RequestAttestation:global-rand.Intn","seed round 6")
from_patch("C14","seed6-candidates-drawn-with-replacement","seeded/C14-candidates-drawn-with-replacement/patch.diff","C14/R4","storage.MsgRequestAttestationForm:candidate-picked-at-loop-position:RequestAttestation","seed round 6")
from_patch("C15","seed6-collateral-key-layout-changed","seeded/C15-collateral-key-layout-changed/patch.diff","C15/R8","CollateralKey:key-layout","seed round 6")
from_patch("C19","seed6-collateral-key-layout-changed","seeded/C15-collateral-key-layout-changed/patch.diff","C19/R10","CollateralKey:key-layout","seed round 6")
from_patch("C08","seed6-resolve-expires-one-block-early","seeded/C16-resolve-expires-one-block-early/patch.diff","C08/R2","rns:liveness-boundary","seed round 6")
from_patch("C14","seed6-owner-index-key-lowercased","seeded/C17-owner-index-key-lowercased/patch.diff","C14/R9","FilesSecondaryKey:key-builder-injective","seed round 6")
from_patch("C15","seed6-owner-index-key-lowercased","seeded/C17-owner-index-key-lowercased/patch.diff","C15/R8","FilesSecondaryKey:key-layout","seed round 6")
from_patch("C17","seed6-owner-index-key-lowercased","seeded/C17-owner-index-key-lowercased/patch.diff","C17/R5","FilesSecondaryKey:key-builder-injective","seed round 6")
from_patch("C19","seed6-owner-index-key-lowercased","seeded/C17-owner-index-key-lowercased/patch.diff","C19/R10","FilesSecondaryKey:key-layout","seed round 6")
from_patch("C18","seed6-block-list-filters-queries","seeded/C18-block-list-filters-queries/patch.diff","C18/R9","visibleNotifications:block-list-consulted-only-when-sending","seed round 6")
from_patch("C19","seed6-params-validate-cross-field","seeded/C19-params-validate-cross-field/patch.diff","C19/R11","Validate:fails-only-on-errors","seed round 6")
from_patch("C20","seed6-combiner-drops-leading-zero-nibbles","seeded/C20-combiner-drops-leading-zero-nibbles/patch.diff","C20/R1","filetree:combiner","seed round 6")
# ---- seed round 7
from_patch("C14","seed7-attestation-filter-handed-address","seeded/C01-attestation-filter-handed-address/patch.diff","C14/R6","form-candidates:filter-argument:RequestAttestation","seed round 7")
from_patch("C02","seed7-burn-goes-to-file-owner","seeded/C02-burn-goes-to-file-owner/patch.diff","C02/R3","burnContract:burn-target-is-the-prover","seed round 7")
from_patch("C03","seed7-burn-goes-to-file-owner","seeded/C02-burn-goes-to-file-owner/patch.diff","C03/R7","burnContract:burn-target-is-the-prover","seed round 7")
from_patch("C11","seed7-set-ip-drops-burn-count","seeded/C03-set-ip-drops-burn-count/patch.diff","C11/R7","storage.MsgSetProviderIP:SetProviderIP:loaded-key=written-key:storage/Providers/value/","seed round 7")
from_patch("C11","seed7-wasm-creator-guard-and-for-or","seeded/C04-wasm-creator-guard-and-for-or/patch.diff","C11/R4","wasm:storage.MsgPostFile:creator-is-contract","seed round 7")
from_patch("C05","seed7-check-window-validator-swapped","seeded/C05-check-window-validator-swapped/patch.diff","C05/R1","RunRewardBlock:div:Param(storage).CheckWindow","seed round 7")
from_patch("C06","seed7-block-senders-resolved-concurrently","seeded/C06-block-senders-resolved-concurrently/patch.diff","C06/R1","resolveSenders:go-statement","seed round 7")
from_patch("C02","seed7-reward-sweep-reuses-decode-target","seeded/C07-reward-sweep-reuses-decode-target/patch.diff","C02/R4","ManageRewards$1:decode-target-reused:x/storage/types.UnifiedFile","seed round 7")
from_patch("C03","seed7-reward-sweep-reuses-decode-target","seeded/C07-reward-sweep-reuses-decode-target/patch.diff","C03/R6","ManageRewards$1:decode-target-reused:x/storage/types.UnifiedFile","seed round 7")
from_patch("C12","seed7-reward-sweep-reuses-decode-target","seeded/C07-reward-sweep-reuses-decode-target/patch.diff","C12/R6","ManageRewards$1:decode-target-reused:x/storage/types.UnifiedFile","seed round 7")
from_patch("C17","seed7-reward-sweep-reuses-decode-target","seeded/C07-reward-sweep-reuses-decode-target/patch.diff","C17/R4","ManageRewards$1:decode-target-reused:x/storage/types.UnifiedFile","seed round 7")
from_patch("C08","seed7-list-reprices-foreign-listing","seeded/C08-list-reprices-foreign-listing/patch.diff","C08/R1","rns.MsgList:owner-consent","seed round 7")
from_patch("C09","seed7-getbids-lowercases-index","seeded/C09-getbids-lowercases-index/patch.diff","C09/R4","rns.MsgAcceptBid:delete-key","seed round 7")
from_patch("C10","seed7-remove-editors-reinserts-owner","seeded/C10-remove-editors-reinserts-owner/patch.diff","C10/R7","filetree.MsgRemoveEditors:no-entry-added:RemoveEditors","seed round 7")
from_patch("C11","seed7-feed-heartbeat-before-owner-check","seeded/C11-feed-heartbeat-before-owner-check/patch.diff","C11/R3","oracle.MsgUpdateFeed:feed-owner","seed round 7")
from_patch("C19","seed7-genesis-import-drops-gauges","seeded/C12-genesis-import-drops-gauges/patch.diff","C19/R1","genesis-omits:storage/PaymentGauge/value/","seed round 7")
from_patch("C06","seed7-mint-params-cached-in-keeper","seeded/C13-mint-params-cached-in-keeper/patch.diff","C06/R6","GetParams:writes-through-keeper-field","seed round 7")
from_patch("C13","seed7-mint-params-cached-in-keeper","seeded/C13-mint-params-cached-in-keeper/patch.diff","C13/R2","recurrence:decrease-argument","seed round 7")
from_patch("C14","seed7-report-filter-handed-address","seeded/C14-report-filter-handed-address/patch.diff","C14/R6","form-candidates:filter-argument:RequestReport","seed round 7")
from_patch("C04","seed7-param-pairs-pointers-crossed","seeded/C15-param-pairs-pointers-crossed/patch.diff","C04/R10","storage:param-key:CheckWindow","seed round 7")
from_patch("C14","seed7-param-pairs-pointers-crossed","seeded/C15-param-pairs-pointers-crossed/patch.diff","C14/R8","storage:param-key:CheckWindow","seed round 7")
from_patch("C11","seed7-buy-rewrites-name-without-expiry","seeded/C16-buy-rewrites-name-without-expiry/patch.diff","C11/R7","rns.MsgBuy:BuyName:loaded-key=written-key:rns/Names/value/","seed round 7")
from_patch("C17","seed7-shutdown-deletes-proofs-keeps-lists","seeded/C17-shutdown-deletes-proofs-keeps-lists/patch.diff","C17/R2","ShutdownProvider:proof-record-deleted-with-its-list-entry","seed round 7")
from_patch("C18","seed7-self-send-skips-block-list","seeded/C18-self-send-skips-block-list/patch.diff","C18/R2","notifications.MsgCreateNotification:not-blocked","seed round 7")
from_patch("C19","seed7-setforsale-drops-stale-listing","seeded/C19-setforsale-drops-stale-listing/patch.diff","C19/R9","SetForsale:setter-faithful","seed round 7")
from_patch("C20","seed7-cli-post-file-normalises-path","seeded/C20-cli-post-file-normalises-path/patch.diff","C20/R4","CmdPostFile$1:hashes-the-given-path","seed round 7")

_MODPROPS = {
 "x/storage": ["C01","C02","C03","C04","C05","C06","C07","C12","C14","C15","C17","C19"],
 "x/rns": ["C08","C09","C16","C11","C19"],
 "x/filetree": ["C10","C20","C11"],
 "x/jklmint": ["C13","C05","C06","C19"],
 "x/notifications": ["C18","C11","C19"],
 "x/oracle": ["C11","C19"],
 "wasmbinding": ["C11","C05","C07"],
}
for _d in sorted(glob.glob(os.path.join(os.path.dirname(os.path.abspath(__file__)), "..", "benign", "*"))):
    _own = os.path.basename(_d)
    for _f in sorted(glob.glob(os.path.join(_d, "*.diff"))):
        _base = os.path.basename(_f)[:-5]
        _props = {_own[:3]}
        for _ln in open(_f):
            if _ln.startswith("+++ b/"):
                for _m, _ps in _MODPROPS.items():
                    if _ln[6:].startswith(_m + "/"):
                        _props.update(_ps)
        for _p in sorted(_props):
            benign_patch(_p, "agent-%s-%s" % (_own, _base), os.path.join("benign", _own, os.path.basename(_f)), "independent benign refactor")

# ---- seed round 8 (DESIGN §19): the three first-contact misses and their neighbours
from_patch("C05","seed-bounded-meter-on-reward-sweep","seeded/C05-bounded-meter-on-reward-sweep/patch.diff","C05/R8","bounded-gas-meter","seed")
from_patch("C06","seed-telemetry-flag-bills-store-reads","seeded/C06-telemetry-flag-bills-store-reads/patch.diff","C06/R6","reads-mutable-global:metricsEnabled","seed")
from_patch("C16","seed-unicode-names-priced-by-bytes","seeded/C16-unicode-names-priced-by-bytes/patch.diff","C16/R10","rns:name-pattern-single-byte","seed")
m("C16","name-pattern-any-character","x/rns/types/utils.go",
  'regexp.MustCompile(`^[\\w-]+$`)','regexp.MustCompile(`^[^.]+$`)',"C16/R10","rns:name-pattern-single-byte")
benign("C16","name-pattern-spelled-out",[("x/rns/types/utils.go",'regexp.MustCompile(`^[\\w-]+$`)','regexp.MustCompile(`^[0-9A-Za-z_-]+$`)')])
benign("C05","begin-block-explicit-infinite-meter",[("x/storage/abci.go",'k.RunRewardBlock(ctx)','k.RunRewardBlock(ctx.WithGasMeter(sdk.NewInfiniteGasMeter()))')])
