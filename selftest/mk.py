#!/usr/bin/env python3
"""Writes the self-test mutant corpus (one JSON per mutant) from the table below.
Each mutant is a one-edit variant of a repository file that still compiles; the named rule instance must fire."""
import json, os, sys
M = []
def m(prop, name, file, find, replace, rule, construct, note=""):
    M.append(dict(property=prop, name=name, file=file, find=find, replace=replace, expect_rule=rule, expect_construct=construct, note=note))

def from_patch(prop, name, patch, rule, construct, note=""):
    """one edit per hunk: find = old side (context + removed lines), replace = new side (context + added lines)"""
    edits=[]; cur=None; old=[]; new=[]; line=[0]
    def flush():
        if cur and (old or new):
            edits.append(dict(file=cur, find="".join(old), replace="".join(new), line=line[0]))
    for ln in open(os.path.join(os.path.dirname(os.path.abspath(__file__)), "..", patch)):
        if ln.startswith("diff --git"):
            flush(); old=[]; new=[]; cur=None
        elif ln.startswith("+++ b/"):
            cur=ln[6:].strip()
        elif ln.startswith("--- ") or ln.startswith("index "):
            pass
        elif ln.startswith("@@"):
            flush(); old=[]; new=[]
            line[0]=int(ln.split()[1].lstrip("-").split(",")[0])
        elif cur is not None:
            if ln.startswith("+"): new.append(ln[1:])
            elif ln.startswith("-"): old.append(ln[1:])
            elif ln.startswith(" "): old.append(ln[1:]); new.append(ln[1:])
    flush()
    if rule is None:
        M.append(dict(property=prop, name=name, file="", find="", replace="", edits=edits, expect_none=True, expect_rule="", expect_construct="", note=note))
    else:
        M.append(dict(property=prop, name=name, file="", find="", replace="", edits=edits, expect_rule=rule, expect_construct=construct, note=note))

def benign_patch(prop, name, patch, note=""):
    """a behaviour-preserving refactor given as a patch: no rule of the property may fire"""
    from_patch(prop, "benign-"+name, patch, None, None, note)

# ---- C08
m("C08","buy-drop-listing-owner-check","x/rns/keeper/msg_server_buy.go",
  'if sale.Owner != name.Value {','if sale.Owner != sale.Owner {',"C08/R1","rns.MsgBuy:listing-by-current-owner","inverse of fix F8")
m("C08","transfer-negate-owner-check","x/rns/keeper/msg_server_transfer.go",
  'if admin != sender.String() {','if admin == sender.String() {',"C08/R1","rns.MsgTransfer:owner-consent")
m("C08","update-compare-with-wrong-field","x/rns/keeper/msg_server_list.go",
  'if name.Value != msg.Creator {','if name.Name != msg.Creator {',"C08/R1","rns.MsgList:owner-consent")
m("C08","accept-pay-bidder","x/rns/keeper/msg_server_accept_bid.go",
  'err = k.bankKeeper.SendCoinsFromModuleToAccount(ctx, types.ModuleName, owner, price)',
  'bidAcc, _ := sdk.AccAddressFromBech32(bid.Bidder)\n\terr = k.bankKeeper.SendCoinsFromModuleToAccount(ctx, types.ModuleName, bidAcc, price)',"C08/R3","rns.MsgAcceptBid:payout")
m("C08","init-boundary","x/rns/keeper/msg_server_init.go",
  'if bh <= whois.Expires {','if bh < whois.Expires {',"C08/R2","rns:liveness-boundary","inverse of fix F14")
m("C08","delist-drop-current-owner","x/rns/keeper/msg_server_delist.go",
  'if name.Value != sale.Owner {','if name.Name != sale.Name {',"C08/R1","rns.MsgDelist:listing-by-current-owner")
m("C08","addrecord-write-before-check","x/rns/keeper/msg_server_add_record.go",
  'if msg.Creator != whois.Value {','if msg.Creator != whois.Value && len(msg.Record) > 64 {',"C08/R1","rns.MsgAddRecord:owner-consent")

# ---- C16
m("C16","register-no-base-for-expired","x/rns/keeper/msg_server_register.go",
  '''	if isFound && blockHeight <= whois.Expires {
		if whois.Value != owner.String() {
			return sdkerrors.Wrap(sdkerrors.ErrUnauthorized, "name already registered")
		}
		time += whois.Expires
	} else {
		time += blockHeight
	}''',
  '''	if isFound {
		if whois.Value == owner.String() {
			time = whois.Expires + time
		} else if blockHeight <= whois.Expires {
			return sdkerrors.Wrap(sdkerrors.ErrUnauthorized, "name already registered")
		}
	} else {
		time += blockHeight
	}''',"C16/R2","expiry-base","inverse of fix F13")
m("C16","register-credit-differs","x/rns/keeper/msg_server_register.go",
  'err = k.bankKeeper.SendCoinsFromModuleToAccount(ctx, types.ModuleName, deposit, price)',
  'err = k.bankKeeper.SendCoinsFromModuleToAccount(ctx, types.ModuleName, deposit, sdk.Coins{sdk.NewInt64Coin("ujkl", cost)})',"C16/R1","debit=credit")
m("C16","register-ignore-years","x/rns/keeper/msg_server_register.go",
  'price := sdk.Coins{sdk.NewInt64Coin("ujkl", cost*years)}','price := sdk.Coins{sdk.NewInt64Coin("ujkl", cost)}',"C16/R1","price-dependence")
m("C16","register-drop-bank-error","x/rns/keeper/msg_server_register.go",
  '''	err = k.bankKeeper.SendCoinsFromAccountToModule(ctx, owner, types.ModuleName, price)
	if err != nil {
		return err
	}''','''	err = k.bankKeeper.SendCoinsFromAccountToModule(ctx, owner, types.ModuleName, price)
	if err != nil {
		ctx.Logger().Error(err.Error())
	}''',"C16/R1","error-propagates")
m("C16","register-overwrite-live-name","x/rns/keeper/msg_server_register.go",
  '''		if whois.Value != owner.String() {
			return sdkerrors.Wrap(sdkerrors.ErrUnauthorized, "name already registered")
		}''','''		if whois.Value != owner.String() && years < 1 {
			return sdkerrors.Wrap(sdkerrors.ErrUnauthorized, "name already registered")
		}''',"C16/R3","live-name-protected")

# ---- C10
m("C10","addviewers-negate-owner","x/filetree/keeper/msg_server_add_viewers.go",
  'if !isOwner {','if isOwner {',"C10/R1","filetree.MsgAddViewers:owner-gate")
m("C10","delete-owner-of-wrong-user","x/filetree/keeper/msg_server_delete_file.go",
  'isOwner := IsOwner(file, msg.Creator)','isOwner := IsOwner(file, msg.Account)',"C10/R1","filetree.MsgDeleteFile:owner-gate")
m("C10","postfile-gate-on-viewing","x/filetree/keeper/msg_server_post_file.go",
  'hasEdit, err := HasEditAccess(parentFile, msg.Creator)','hasEdit, err := HasViewingAccess(parentFile, msg.Creator)',"C10/R2","filetree.MsgPostFile:editor-gate")
m("C10","addviewers-writes-editaccess","x/filetree/keeper/msg_server_add_viewers.go",
  'file.ViewingAccess = newviewers','file.EditAccess = newviewers',"C10/R3","filetree.MsgAddViewers:field-census")
m("C10","postfile-owner-from-creator","x/filetree/keeper/msg_server_post_file.go",
  'owner := MakeOwnerAddress(fullMerklePath, msg.Account)','owner := MakeOwnerAddress(fullMerklePath, msg.Creator)',"C10/R2","filetree.MsgPostFile:new-owner")
m("C10","isowner-ignores-address","x/filetree/keeper/access.go",
  'h1.Write([]byte(fmt.Sprintf("o%s%s", merklePath, accountHash)))','h1.Write([]byte(fmt.Sprintf("o%s%s", "", accountHash)))\n\t_ = merklePath',"C10/R1","owner-gate")
m("C10","changeowner-delete-other-key","x/filetree/keeper/msg_server_change_owner.go",
  'k.RemoveFiles(ctx, msg.Address, currentOwner)','k.RemoveFiles(ctx, msg.Address, msg.NewOwner)',"C10/R3","filetree.MsgChangeOwner:delete-key")
m("C10","root-owner-from-viewers","x/filetree/keeper/msg_server_make_root.go",
  'h1.Write([]byte(creator))','h1.Write([]byte(viewers))',"C10/R4","root-owner")

# ---- C11
m("C11","getsigners-from-foraddress","x/storage/types/message_buy_storage.go",
  'creator, err := sdk.AccAddressFromBech32(msg.Creator)\n\tif err != nil {\n\t\tpanic(err)\n\t}\n\treturn []sdk.AccAddress{creator}',
  'creator, err := sdk.AccAddressFromBech32(msg.ForAddress)\n\tif err != nil {\n\t\tpanic(err)\n\t}\n\treturn []sdk.AccAddress{creator}',"C11/R1","storage.MsgBuyStorage:signer")
m("C11","getsigners-two-signers","x/rns/types/message_transfer.go",
  'return []sdk.AccAddress{creator}','return []sdk.AccAddress{creator, creator}',"C11/R1","rns.MsgTransfer:signer")
m("C11","provider-ip-keyed-by-ip","x/storage/keeper/msg_server_set_provider_ip.go",
  'provider, found := k.GetProviders(ctx, msg.Creator)','provider, found := k.GetProviders(ctx, msg.Ip)',"C11/R3","storage.MsgSetProviderIP:own-key")
m("C11","wasm-drop-creator-check","wasmbinding/message_plugin.go",
  'if postFile.Creator != contractAddr.String() {','if postFile.Creator == "" {',"C11/R4","creator-is-contract")
m("C11","wasm-drop-validatebasic","wasmbinding/message_plugin.go",
  'if err := postFile.ValidateBasic(); err != nil {\n\t\treturn err\n\t}','_ = postFile.ValidateBasic()',"C11/R4","validate-basic")
m("C11","feed-update-no-owner-check","x/oracle/keeper/msg_server_feeds.go",
  'if feed.Owner != msg.Creator {','if feed.Name != msg.Name {',"C11/R3","oracle.MsgUpdateFeed:feed-owner")
m("C11","delete-notification-swapped-key","x/notifications/keeper/msg_server_delete_notifications.go",
  'k.RemoveNotification(ctx, msg.Creator, msg.From, msg.Time)','k.RemoveNotification(ctx, msg.From, msg.Creator, msg.Time)',"C11/R3","notifications.MsgDeleteNotification:own-key")
m("C11","block-for-other-address","x/notifications/keeper/msg_server_block_senders.go",
  'Address:        msg.Creator,','Address:        toBlock,',"C11/R3","notifications.MsgBlockSenders:own-key")
m("C11","ante-sigverify-before-setpubkey","app/ante.go",
  '\t\tante.NewSetPubKeyDecorator(options.AccountKeeper),\n','',"C11/R5","ante:order")
m("C11","storage-delete-file-of-other","x/storage/keeper/msg_server_file_delete.go",
  'k.Keeper.RemoveFile(ctx, msg.Merkle, msg.Creator, msg.Start)','k.Keeper.RemoveFile(ctx, msg.Merkle, string(msg.Merkle), msg.Start)',"C11/R3","storage.MsgDeleteFile:own-key")
m("C11","makeprimary-for-name","x/rns/keeper/msg_server_register.go",
  'k.SetPrimaryName(ctx, msg.Creator, name, tld)','k.SetPrimaryName(ctx, msg.Name, name, tld)',"C11/R3","rns.MsgMakePrimary:own-key")

# ---- C01
m("C01","postproof-register-before-verify","x/storage/keeper/msg_server_postproof.go",
  """			newProver = true
			proof = &types.FileProof{
				Prover:       prover,
				Merkle:       file.Merkle,
				Owner:        file.Owner,
				Start:        file.Start,
				LastProven:   ctx.BlockHeight(),
				ChunkToProve: 0,
			}""","""			proof = file.AddProver(ctx, k, prover)""","C01/R1","verify-before-write","inverse of fix F1")
m("C01","postproof-drop-chunk-comparison","x/storage/keeper/msg_server_postproof.go",
  'if msg.ToProve != proof.ChunkToProve {','if msg.ToProve < 0 {',"C01/R3","challenge-match")
m("C01","prove-ignores-valid","x/storage/types/file_deal.go",
  """	if !valid {
		return ErrCannotVerifyProof
	}""","""	if !valid && chunkSize < 0 {
		return ErrCannotVerifyProof
	}""","C01/R2","storage.MsgPostProof:prover")
m("C01","verify-submitted-index","x/storage/keeper/msg_server_postproof.go",
  'err := file.Prove(ctx, proof, msg.HashList, msg.Item, chunkSize)','proof.ChunkToProve = msg.ToProve\n\terr := file.Prove(ctx, proof, msg.HashList, msg.Item, chunkSize)',"C01/R2","verifier-index")
m("C01","verifyproof-returns-true-on-error","x/storage/types/file_deal.go",
  """	verified, err := merkletree.VerifyProofUsing(hashName, false, &proof, [][]byte{f.Merkle}, sha3.New512())
	if err != nil {
		return false
	}""","""	verified, err := merkletree.VerifyProofUsing(hashName, false, &proof, [][]byte{f.Merkle}, sha3.New512())
	if err != nil {
		return true
	}""","C01/R2","storage.MsgPostProof:prover")
m("C01","setproof-after-failed-verify","x/storage/keeper/msg_server_postproof.go",
  """		ctx.Logger().Info(e.Error())
		return &types.MsgPostProofResponse{Success: false, ErrorMessage: e.Error()}, nil
	}

	if newProver {""","""		ctx.Logger().Info(e.Error())
		k.SetProof(ctx, *proof)
		return &types.MsgPostProofResponse{Success: false, ErrorMessage: e.Error()}, nil
	}

	if newProver {""","C01/R1","verify-before-write")
m("C01","report-handler-refreshes-proof","x/storage/keeper/msg_server_report.go",
  'k.RemoveReport(ctx, prover, merkle, owner, start)','k.RemoveReport(ctx, prover, merkle, owner, start)\n\tk.SetProof(ctx, types.FileProof{Prover: prover, Merkle: merkle, Owner: owner, Start: start, LastProven: ctx.BlockHeight()})',"C01/R4","sets-proof-record")
m("C01","credit-by-key-prefix","x/storage/keeper/rewards.go",
  '(*sizeTracker)[proof.Prover] += file.FileSize','(*sizeTracker)[providerAddress] += file.FileSize',"C01/R5","rewards:credited-key")

# ---- C14
m("C14","attest-quorum-off-by-one","x/storage/keeper/msg_server_attest.go",
  'if count < k.GetParams(ctx).AttestMinToPass {','if count+1 < k.GetParams(ctx).AttestMinToPass {',"C14/R1","storage.MsgAttest:quorum-operands-direct")
m("C14","attest-count-every-entry","x/storage/keeper/msg_server_attest.go",
  """		if attestation.Complete {
			count++
		}""","""		count++""","C14/R2","storage.MsgAttest:count-only-complete")
m("C14","attest-complete-without-match","x/storage/keeper/msg_server_attest.go",
  """		if attestation.Provider == creator {
			attestation.Complete = true
			done = true
		}""","""		if attestation.Provider == creator {
			done = true
		}
		attestation.Complete = true""","C14/R2","storage.MsgAttest:complete-set-only-on-match")
m("C14","attest-form-not-deleted","x/storage/keeper/msg_server_attest.go",
  'k.RemoveAttestation(ctx, form.Prover, form.Merkle, form.Owner, form.Start)','_ = form.Start',"C14/R3","storage.MsgAttest:form-consumed")
m("C14","report-no-quorum-check","x/storage/keeper/msg_server_report.go",
  'if count < k.GetParams(ctx).AttestMinToPass {','if count < k.GetParams(ctx).AttestMinToPass && count < 1 {',"C14/R1","storage.MsgReport:quorum-gate")
m("C14","report-done-always","x/storage/keeper/msg_server_report.go",
  'done := false','done := true',"C14/R2","storage.MsgReport:flag-set-only-on-match")
m("C14","report-flag-match-prover","x/storage/keeper/msg_server_report.go",
  'if attestation.Provider == creator {','if attestation.Provider == prover {',"C14/R2","storage.MsgReport")
m("C14","request-form-skip-size-check","x/storage/keeper/msg_server_attest.go",
  'if len(providers) < int(params.AttestFormSize) {','if len(providers) < 1 {',"C14/R4","storage.MsgRequestAttestationForm:enough-candidates")
m("C14","request-form-overwrite-existing","x/storage/keeper/msg_server_report.go",
  """	_, found = k.GetReportForm(ctx, prover, merkle, owner, start)
	if found {""","""	_, found = k.GetReportForm(ctx, prover, merkle, owner, start)
	if found && start < 0 {""","C14/R4","storage.MsgRequestReportForm:form-new")
m("C14","attest-act-before-flag","x/storage/keeper/msg_server_attest.go",
  """	if !done {
		return sdkerrors.Wrapf(types.ErrAttestInvalid, "you cannot attest to this deal")
	}

	if count""","""	if !done && count < 1 {
		return sdkerrors.Wrapf(types.ErrAttestInvalid, "you cannot attest to this deal")
	}

	if count""","C14/R1","storage.MsgAttest:signer-matched-flag")

# ---- C17
m("C17","setfile-primary-only","x/storage/keeper/files.go",
  """	k.setFilePrimary(ctx, file)
	k.setFileSecondary(ctx, file)""","""	k.setFilePrimary(ctx, file)
	if len(file.Proofs) > 0 {
		k.setFileSecondary(ctx, file)
	}""","C17/R1","Set-pairs-by-owner")
m("C17","removefile-one-index","x/storage/keeper/files.go",
  """	k.removeFilePrimary(ctx, merkle, owner, start)
	k.removeFileSecondary(ctx, merkle, owner, start)""","""	k.removeFilePrimary(ctx, merkle, owner, start)""","C17/R1","Delete-pairs-by-owner")
m("C17","removefile-secondary-other-key","x/storage/keeper/files.go",
  'k.removeFileSecondary(ctx, merkle, owner, start)','k.removeFileSecondary(ctx, merkle, file.Note, start)',"C17/R1","Delete-pairs")
m("C17","append-without-contains","x/storage/keeper/msg_server_postproof.go",
  'if file.ContainsProver(prover) {','if file.ContainsProver(prover) && msg.ToProve > 0 {',"C17/R3","append-only-if-absent")
m("C17","append-beyond-limit","x/storage/types/file_deal.go",
  """	if len(f.Proofs) >= int(f.MaxProofs) {
		return nil
	}

	pk""","""	if len(f.Proofs) >= int(f.MaxProofs) && prover == "" {
		return nil
	}

	pk""","C17/R3","append-below-limit")
m("C17","addprover-no-file-save","x/storage/types/file_deal.go",
  """	k.SetProof(ctx, p)
	k.SetFile(ctx, *f)

	return &p""","""	k.SetProof(ctx, p)

	return &p""","C17/R2","AddProver:proofs-list-update")
m("C17","removeprover-keeps-proof-record","x/storage/types/file_deal.go",
  'k.RemoveProofWithBuiltKey(ctx, []byte(proofKey))\n\t\t\tf.Save(ctx, k)','f.Save(ctx, k)',"C17/R2","RemoveProverWithKey:proofs-list-update")
m("C17","removefile-keeps-proofs","x/storage/keeper/files.go",
  """		k.RemoveProofWithBuiltKey(ctx, []byte(proof))
	}

	if file.Expires == 0 {""","""		_ = proof
	}

	if file.Expires == 0 {""","C17/R2","removal-deletes-listed-proofs")
m("C17","proof-record-wrong-owner","x/storage/types/file_deal.go",
  """		Owner:        f.Owner,
		Start:        f.Start,
		LastProven:   ctx.BlockHeight(),""","""		Owner:        prover,
		Start:        f.Start,
		LastProven:   ctx.BlockHeight(),""","C17/R3","proof-record-refers-to-file:Owner")

# ---- C18
m("C18","create-drop-block-check","x/notifications/keeper/msg_server_create_notifications.go",
  'if k.IsBlocked(ctx, address.String(), sender) {','if k.IsBlocked(ctx, address.String(), sender) && len(msg.Contents) > 1024 {',"C18/R2","not-blocked")
m("C18","create-check-blocked-swapped","x/notifications/keeper/msg_server_create_notifications.go",
  'if k.IsBlocked(ctx, address.String(), sender) {','if k.IsBlocked(ctx, sender, address.String()) {',"C18/R2","not-blocked")
m("C18","create-from-is-to","x/notifications/keeper/msg_server_create_notifications.go",
  'From:            sender,','From:            owner,',"C18/R2","from-is-signer")
m("C18","create-to-unresolved-other","x/notifications/keeper/msg_server_create_notifications.go",
  'To:              address.String(),','To:              msg.To,',"C18/R2","to-is-tested-recipient")
m("C18","delete-keyed-by-from","x/notifications/keeper/msg_server_delete_notifications.go",
  'k.RemoveNotification(ctx, msg.Creator, msg.From, msg.Time)','k.RemoveNotification(ctx, msg.From, msg.Creator, msg.Time)',"C18/R3","inbox-component-is-signer")
m("C18","third-type-under-feed-prefix","x/oracle/keeper/feeds.go",
  'store.Set(types.FeedKey(feed.Name), f)','store.Set(types.FeedKey(feed.Name), f)\n\tprm := k.GetParams(ctx)\n\tstore.Set(types.FeedKey("params"), k.cdc.MustMarshal(&prm))',"C18/R1","prefix-types:oracle/Feed/value/")
m("C18","inbox-prefix-without-separator","x/notifications/keeper/notifications.go",
  'iterator := sdk.KVStorePrefixIterator(store, []byte(fmt.Sprintf("%s/", address)))','iterator := sdk.KVStorePrefixIterator(store, []byte(fmt.Sprintf("%s", address)))',"C18/R5","inbox-prefix")
m("C18","blocksenders-writes-notification","x/notifications/keeper/msg_server_block_senders.go",
  'k.SetBlock(ctx, b)','k.SetBlock(ctx, b)\n\t\tk.SetNotification(ctx, types.Notification{To: msg.Creator, From: address.String()})',"C18/R4","writes-notification")
# ---- C19
m("C19","storage-export-drops-collateral","x/storage/genesis.go",
  '\tgenesis.CollateralList = k.GetAllCollateral(ctx)\n','',"C19/R1","genesis-omits:storage/Collateral/value/")
m("C19","rns-init-drops-bids","x/rns/genesis.go",
  """	for _, elem := range genState.BidsList {
		k.SetBids(ctx, elem)
	}""","""	for range genState.BidsList {
	}""","C19/R1","genesis-omits:rns/Bids/value/")
m("C19","filetree-export-drops-pubkeys","x/filetree/genesis.go",
  'genesis.PubKeyList = k.GetAllPubkey(ctx)','_ = k.GetAllPubkey',"C19/R3","filetree:GenesisState.PubKeyList")
m("C19","oracle-init-skips-feeds","x/oracle/genesis.go",
  'k.SetFeed(ctx, elem)','_ = elem',"C19/R1","genesis-omits:oracle/Feed/value/")

# ---- C09
m("C09","bid-overwrite-without-refund","x/rns/keeper/msg_server_bid.go",
  """	if found {
		oldPrice, err""","""	if found && false {
		oldPrice, err""","C09/R3","overwrite-without-refund","inverse of fix F9")
m("C09","cancel-keeps-bid","x/rns/keeper/msg_server_cancel_bid.go",
  'k.RemoveBids(ctx, fmt.Sprintf("%s%s", sender, name))','_ = fmt.Sprintf("%s%s", sender, name)',"C09/R4","rns.MsgCancelBid:bid-consumed")
m("C09","cancel-refund-message-amount","x/rns/keeper/msg_server_cancel_bid.go",
  'price, err := sdk.ParseCoinsNormalized(bid.Price)','price, err := sdk.ParseCoinsNormalized(bid.Name)',"C09/R4","rns.MsgCancelBid:amount-is-recorded-price")
m("C09","accept-send-to-bidder","x/rns/keeper/msg_server_accept_bid.go",
  'err = k.bankKeeper.SendCoinsFromModuleToAccount(ctx, types.ModuleName, owner, price)',
  'bidAcc, _ := sdk.AccAddressFromBech32(bid.Bidder)\n\terr = k.bankKeeper.SendCoinsFromModuleToAccount(ctx, types.ModuleName, bidAcc, price)',"C09/R4","rns.MsgAcceptBid:recipient-is-signer")
m("C09","bid-record-differs-from-escrow","x/rns/keeper/msg_server_bid.go",
  'Price:  bid,','Price:  name,',"C09/R2","rns.MsgBid:recorded-price")
m("C09","buy-credit-less-than-debit","x/rns/keeper/msg_server_buy.go",
  'err = k.bankKeeper.SendCoinsFromModuleToAccount(ctx, types.ModuleName, seller, coins)','err = k.bankKeeper.SendCoinsFromModuleToAccount(ctx, types.ModuleName, seller, sdk.NewCoins(sdk.NewCoin(price.Denom, price.Amount.QuoRaw(2))))',"C09/R1","rns.MsgBuy:same-value")
m("C09","bid-swallow-send-error","x/rns/keeper/msg_server_bid.go",
  """	err = k.bankKeeper.SendCoinsFromAccountToModule(ctx, bidder, types.ModuleName, price)
	if err != nil {
		return err
	}""","""	err = k.bankKeeper.SendCoinsFromAccountToModule(ctx, bidder, types.ModuleName, price)
	if err != nil {
		ctx.Logger().Error(err.Error())
	}""","C09/R5","error-propagates")
m("C09","accept-delete-other-bid","x/rns/keeper/msg_server_accept_bid.go",
  'k.RemoveBids(ctx, fmt.Sprintf("%s%s", bidder, name))','k.RemoveBids(ctx, fmt.Sprintf("%s%s", sender, name))',"C09/R4","rns.MsgAcceptBid:delete-key")
# ---- C15
m("C15","shutdown-refund-current-price","x/storage/keeper/msg_server_init_provider.go",
  'coin := sdk.NewInt64Coin("ujkl", collateral.Amount)','coin := sdk.NewInt64Coin("ujkl", k.GetParams(ctx).CollateralPrice+0*collateral.Amount)',"C15/R2","refund-amount")
m("C15","shutdown-keep-collateral-record","x/storage/keeper/msg_server_init_provider.go",
  'k.RemoveCollateral(ctx, msg.Creator)','_ = collateral.Address',"C15/R2","consumed:storage/Collateral/value/")
m("C15","shutdown-keep-provider","x/storage/keeper/msg_server_init_provider.go",
  'k.RemoveProviders(ctx, msg.Creator)','_ = found',"C15/R2","consumed:storage/Providers/value/")
m("C15","init-record-differs","x/storage/keeper/msg_server_init_provider.go",
  'Amount:  params.CollateralPrice,','Amount:  msg.TotalSpace,',"C15/R1","recorded-amount")
m("C15","init-allow-reinit","x/storage/keeper/msg_server_init_provider.go",
  """	_, found := k.GetProviders(ctx, msg.Creator)
	if found {
		return nil, types.ErrProviderExists""","""	_, found := k.GetProviders(ctx, msg.Creator)
	if found && msg.TotalSpace == 0 {
		return nil, types.ErrProviderExists""","C15/R1","provider-absent")
m("C15","other-handler-drains-escrow","x/storage/keeper/msg_server_set_provider_ip.go",
  'provider.Ip = msg.Ip','provider.Ip = msg.Ip\n\tif acc, err := sdk.AccAddressFromBech32(msg.Creator); err == nil {\n\t\t_ = k.bankKeeper.SendCoinsFromModuleToAccount(ctx, types.CollateralCollectorName, acc, sdk.NewCoins(sdk.NewInt64Coin("ujkl", 1)))\n\t}',"C15/R3","touches-escrow")
m("C15","escrow-not-in-maccperms","app/app.go",
  '\t\tstoragemoduletypes.CollateralCollectorName: nil,\n','',"C15/R3","maccPerms")
m("C15","shutdown-refund-to-ip-derived","x/storage/keeper/msg_server_init_provider.go",
  """		account, err := sdk.AccAddressFromBech32(msg.Creator)
		if err != nil {
			return nil, err
		}

		err = k.bankKeeper.SendCoinsFromModuleToAccount""","""		account, err := sdk.AccAddressFromBech32(collateral.Address)
		if err != nil {
			return nil, err
		}

		err = k.bankKeeper.SendCoinsFromModuleToAccount""","C15/R2","recipient-is-signer")

# ---- C04
m("C04","referrer-gets-pol-share","x/storage/keeper/msg_server_buy_storage.go",
  'SendCoinsFromModuleToAccount(ctx, types.ModuleName, refAcc, refTokens)','SendCoinsFromModuleToAccount(ctx, types.ModuleName, refAcc, polTokens)',"C04/R3","share:referrer","inverse of fix F3")
m("C04","gauge-funded-with-topay","x/storage/keeper/msg_server_buy_storage.go",
  'err = k.bankKeeper.SendCoinsFromModuleToAccount(ctx, types.ModuleName, acc, spcTokens)','err = k.bankKeeper.SendCoinsFromModuleToAccount(ctx, types.ModuleName, acc, sdk.NewCoins(toPay))',"C04/R2","gauge-funded=recorded")
m("C04","pol-and-ref-accounts-swapped","x/storage/keeper/msg_server_buy_storage.go",
  'err = k.bankKeeper.SendCoinsFromModuleToAccount(ctx, types.ModuleName, polAcc, polTokens)','_ = polAcc\n\terr = k.bankKeeper.SendCoinsFromModuleToAccount(ctx, types.ModuleName, refAcc, polTokens)',"C04/R3","share:referrer")
m("C04","swallow-pol-send-error","x/storage/keeper/msg_server_buy_storage.go",
  """	if err != nil {
		return nil, sdkerrors.Wrapf(err, "cannot send tokens to pol account")
	}""","""	if err != nil {
		ctx.Logger().Error(err.Error())
	}""","C04/R5","error-propagates")
m("C04","gauge-records-other-coins","x/storage/keeper/gauges.go",
  'Coins: coins,','Coins: coins.Add(coins...),',"C04/R2","gauge-constructor:records-argument")
m("C04","postfile-debit-ignores-replication","x/storage/keeper/msg_server_post_file.go",
  'totalSize := msg.FileSize * msg.MaxProofs','totalSize := msg.FileSize',"C04/R1","storage.MsgPostFile:debit-is-price")
m("C04","extra-payout-to-foraddress","x/storage/keeper/msg_server_buy_storage.go",
  '	refCut := toPay.Amount.ToDec().Mul(refDec) // 25% to referrals','	_ = k.bankKeeper.SendCoinsFromModuleToAccount(ctx, types.ModuleName, forAddr, polTokens)\n	refCut := toPay.Amount.ToDec().Mul(refDec) // 25% to referrals',"C04/R4","recipient:unknown")
m("C04","pol-cut-from-storage-cost","x/storage/keeper/msg_server_buy_storage.go",
  'polCut := toPay.Amount.ToDec().Mul(pol) // 40,35,30% to pol','polCut := sdk.NewDec(1000000).Mul(pol) // 40,35,30% to pol',"C04/R1","cut-base:pol")
m("C04","postfile-gauge-funded-differs","x/storage/keeper/msg_server_post_file.go",
  'err = k.bankKeeper.SendCoinsFromModuleToAccount(ctx, types.ModuleName, acc, spcTokens)','err = k.bankKeeper.SendCoinsFromModuleToAccount(ctx, types.ModuleName, acc, sdk.NewCoins(toPay))',"C04/R2","storage.MsgPostFile:gauge-funded=recorded")

# ---- C13
m("C13","emission-unclamped","x/jklmint/utils/mint.go",
  """	if mint < 0 { // the emission never goes below zero
		return 0
	}
	return mint""","""	return mint""","C13/R3","negative-emission","inverse of fix F6")
m("C13","record-after-distribution","x/jklmint/keeper/mint.go",
  """	// record the emission as soon as it is minted: the next block's emission is derived from it
	k.SetMintedBlock(ctx, types.MintedBlock{
		Height: ctx.BlockHeight(),
		Minted: newMintForBlock,
		Denom:  "ujkl",
	})

	err = k.mintStaker(ctx, mintTokens, denom, params)
	if err != nil {
		ctx.Logger().Error(err.Error())
		return
	}
""","""	err = k.mintStaker(ctx, mintTokens, denom, params)
	if err != nil {
		ctx.Logger().Error(err.Error())
		return
	}

	k.SetMintedBlock(ctx, types.MintedBlock{
		Height: ctx.BlockHeight(),
		Minted: newMintForBlock,
		Denom:  "ujkl",
	})
""","C13/R5","mint-without-record","inverse of fix F12")
m("C13","record-params-value","x/jklmint/keeper/mint.go",
  'Minted: newMintForBlock,','Minted: params.TokensPerBlock,',"C13/R1","recorded=minted")
m("C13","previous-key-current-height","x/jklmint/keeper/mint.go",
  'minted, found := k.GetMintedBlock(ctx, ctx.BlockHeight()-1)\n\tif found {\n\t\tmintedNum = minted.Minted\n\t}\n\tvar bpy','minted, found := k.GetMintedBlock(ctx, ctx.BlockHeight())\n\tif found {\n\t\tmintedNum = minted.Minted\n\t}\n\tvar bpy',"C13/R6","previous-key=height-1")
m("C13","devgrants-uses-staker-ratio","x/jklmint/keeper/mint.go",
  'devGrantRatio := sdk.NewDec(params.DevGrantsRatio).QuoInt64(100)','devGrantRatio := sdk.NewDec(params.StakerRatio).QuoInt64(100)',"C13/R4","split:dev-grants")
m("C13","recurrence-adds","x/jklmint/utils/mint.go",
  'mint := lastBlockTokens.Sub(decrease.Quo(blockPerYearDec)).TruncateInt64()','mint := lastBlockTokens.Add(decrease.Quo(blockPerYearDec)).TruncateInt64()',"C13/R2","recurrence")
m("C13","split-base-from-params","x/jklmint/keeper/mint.go",
  'err = k.mintDevGrants(ctx, mintTokens, denom, params)','err = k.mintDevGrants(ctx, params.TokensPerBlock, denom, params)',"C13/R1","split-base")
m("C13","stipend-to-dev-account","x/jklmint/keeper/mint.go",
  'err := k.send(ctx, denom, provTokens, params.StorageStipendAddress)','err := k.send(ctx, denom, provTokens, params.MintDenom)',"C13/R4","split:")
m("C13","mint-other-amount","x/jklmint/keeper/mint.go",
  'totalCoin := sdk.NewInt64Coin(denom, mintTokens)','totalCoin := sdk.NewInt64Coin(denom, mintedNum)',"C13/R1","minted=emission")

# ---- C03
m("C03","range-over-live-list","x/storage/keeper/rewards.go",
  'for _, proof := range proofs { // manage all proofs in proof list','for _, proof := range file.Proofs { // manage all proofs in proof list',"C03/R1","range-mutated:UnifiedFile.Proofs","inverse of fix F2")
m("C03","burn-then-credit","x/storage/keeper/rewards.go",
  """		k.burnContract(ctx, providerAddress)
		return
	}""","""		k.burnContract(ctx, providerAddress)
	}""","C03/R2","rewards:path-classes")
m("C03","credit-without-proof","x/storage/keeper/rewards.go",
  'if !proven && !file.IsYoung(currentHeight) { // if file wasn\'t proven, and is old, we burn it.','if !proven && !file.IsYoung(currentHeight) && proof.ChunkToProve > 0 { // if file wasn\'t proven, and is old, we burn it.',"C03/R2","rewards:credit-guard")
m("C03","burn-young-files","x/storage/keeper/rewards.go",
  'if !proven && !file.IsYoung(currentHeight) { // if file wasn\'t proven, and is old, we burn it.','if !proven { // if file wasn\'t proven, and is old, we burn it.',"C03/R2","rewards:burn-guard")
m("C03","proven-uses-start","x/storage/keeper/rewards.go",
  'proven := file.ProvenLastBlock(currentHeight, proof.LastProven)','proven := file.ProvenLastBlock(currentHeight, file.Start)',"C03/R2","rewards:proven-arguments")
m("C03","pay-from-module-balance","x/storage/keeper/rewards.go",
  'coins := k.pullTokensFromGauges(ctx)','_ = k.pullTokensFromGauges(ctx)\n\tcoins := k.bankKeeper.GetAllBalances(ctx, k.accountKeeper.GetModuleAddress(types.ModuleName))',"C03/R4","paid-pool-is-pulled")
m("C03","pay-fixed-share","x/storage/keeper/rewards.go",
  'networkPercentage := providerValue.Quo(networkValue)','_ = networkValue\n\t\tnetworkPercentage := providerValue.Quo(providerValue)',"C03/R3","rewards:payout-amount")
m("C03","double-burn","x/storage/keeper/rewards.go",
  '		k.burnContract(ctx, providerAddress)\n		return','		k.burnContract(ctx, providerAddress)\n		k.burnContract(ctx, providerAddress)\n		return',"C03/R2","rewards:path-classes")

# ---- C12
m("C12","release-ignores-balance","x/storage/keeper/rewards.go",
  'newBalance := wouldBeBalance.Sub(b)','newBalance := wouldBeBalance\n\t\t\t_ = b',"C12/R1","gauge:release-dependence")
m("C12","release-uses-start-as-now","x/storage/keeper/rewards.go",
  'timeLeft := pg.End.Sub(currentTime)','timeLeft := pg.End.Sub(pg.Start)',"C12/R1","gauge:release-dependence")
m("C12","pool-differs-from-sent","x/storage/keeper/rewards.go",
  'coinsToDistribute = coinsToDistribute.Add(c)','coinsToDistribute = coinsToDistribute.Add(coin)',"C12/R1","gauge:released=pooled")
m("C12","delete-nonempty-third-place","x/storage/keeper/rewards.go",
  """			if amt64 == 0 {
				continue
			}""","""			if amt64 == 0 {
				k.RemoveGauge(ctx, pg.Id)
				continue
			}""","C12/R3","gauge:removed-undrained")
m("C12","pull-without-interval-check","x/storage/keeper/rewards.go",
  'if pg.End.Before(pg.Start) || pg.End.Equal(pg.Start) {','if pg.End.Before(pg.Start) {',"C12/R4","gauge:pull-guard:end-not-equal-start")
m("C12","pull-past-end","x/storage/keeper/rewards.go",
  'if pg.End.Before(currentTime) { // if the end date is before the current block time, we remove the gauge','if pg.End.Before(currentTime) && pg.End.Before(pg.Start) { // if the end date is before the current block time, we remove the gauge',"C12/R4","gauge:pull-guard:end-not-before-now")
m("C12","pull-from-empty","x/storage/keeper/rewards.go",
  """		if gaugeBalance.Empty() {
			k.RemoveGauge(ctx, pg.Id)
			return
		}""","""		if gaugeBalance.Empty() && len(pg.Coins) == 0 {
			k.RemoveGauge(ctx, pg.Id)
			return
		}""","C12/R4","gauge:pull-guard:balance-not-empty")
m("C12","gauge-end-from-message","x/storage/keeper/msg_server_post_file.go",
  'end := ctx.BlockTime().AddDate(0, 0, int(days))','end := ctx.BlockTime()',"C12/R3","gauge-end=blocktime+duration")

# ---- C07
m("C07","removefile-keeps-usage","x/storage/keeper/files.go",
  'payInfo.SpaceUsed -= file.FileSize * file.MaxProofs','payInfo.SpaceUsed -= 0',"C07/R1","footprint-returned","inverse of fix F7")
m("C07","removefile-refunds-wrong-plan","x/storage/keeper/files.go",
  'payInfo, found := k.GetStoragePaymentInfo(ctx, file.Owner)','payInfo, found := k.GetStoragePaymentInfo(ctx, file.Note)',"C07/R1","footprint-to-owner")
m("C07","validatebasic-allows-zero-size","x/storage/types/message_post_file.go",
  'if msg.FileSize <= 0 {','if msg.FileSize < 0 {',"C07/R3","postfile:unvalidated:FileSize","weakened fix F5")
m("C07","validatebasic-allows-negative-proofs","x/storage/types/message_post_file.go",
  'if msg.MaxProofs <= 0 {','if msg.MaxProofs == 0 {',"C07/R3","postfile:unvalidated:MaxProofs")
m("C07","postfile-drop-space-check","x/storage/keeper/msg_server_post_file.go",
  'if totalSize > paymentInfo.SpaceAvailable-paymentInfo.SpaceUsed {','if totalSize > paymentInfo.SpaceAvailable-paymentInfo.SpaceUsed && msg.MaxProofs > 3 {',"C07/R2","within-purchased-space")
m("C07","postfile-expired-plan-accepted","x/storage/keeper/msg_server_post_file.go",
  'if paymentInfo.End.Before(ctx.BlockTime()) {','if paymentInfo.End.Before(paymentInfo.Start) {',"C07/R2","plan-not-expired")
m("C07","postfile-charge-only-size","x/storage/keeper/msg_server_post_file.go",
  'paymentInfo.SpaceUsed += totalSize','paymentInfo.SpaceUsed += msg.FileSize',"C07/R5","charged-amount")
m("C07","postfile-skip-charge-small","x/storage/keeper/msg_server_post_file.go",
  '	k.SetStoragePaymentInfo(ctx, paymentInfo)\n\n	return res, nil','	if totalSize > 1024 {\n		k.SetStoragePaymentInfo(ctx, paymentInfo)\n	}\n\n	return res, nil',"C07/R5","charge-on-every-plan-path")
m("C07","buystorage-resets-usage","x/storage/keeper/msg_server_buy_storage.go",
  'SpaceUsed:      spaceUsed,','SpaceUsed:      spaceUsed - spaceUsed,',"C07/R4","usage-carried-over")
m("C07","buystorage-allows-smaller-plan","x/storage/keeper/msg_server_buy_storage.go",
  'if payInfo.SpaceUsed > bytes {','if payInfo.SpaceUsed > bytes && gbs > 1000000 {',"C07/R4","not-below-usage")
m("C07","payonce-charges-plan","x/storage/keeper/msg_server_post_file.go",
  '		return res, nil\n	}\n\n	// traditional storage plan payment info','		if pi, ok := k.GetStoragePaymentInfo(ctx, msg.Creator); ok {\n			pi.SpaceUsed += totalSize\n			k.SetStoragePaymentInfo(ctx, pi)\n		}\n		return res, nil\n	}\n\n	// traditional storage plan payment info',"C07/R2","not-on-pay-once-branch")

# ---- C20
m("C20","addtomerkle-separator","x/filetree/types/merkle-paths.go",
  '	k := fmt.Sprintf("%s%s", total, append)\n\n	h := sha256.New()','	k := fmt.Sprintf("%s/%s", total, append)\n\n	h := sha256.New()',"C20/R1","filetree:combiner")
m("C20","merklepath-swapped-operands","x/filetree/types/merkle-paths.go",
  'k := fmt.Sprintf("%s%s", total, b)','k := fmt.Sprintf("%s%s", b, total)',"C20/R1","fold-step")
m("C20","merklepath-raw-segment","x/filetree/types/merkle-paths.go",
  'k := fmt.Sprintf("%s%s", total, b)','k := fmt.Sprintf("%s%s", total, chunk)\n		_ = b',"C20/R1","fold-step")
m("C20","merklepath-trim-prefix","x/filetree/types/merkle-paths.go",
  'trimPath := strings.TrimSuffix(path, "/")','trimPath := strings.TrimPrefix(path, "/")',"C20/R1","fold-step")
m("C20","merklepath-start-nonempty","x/filetree/types/merkle-paths.go",
  'total := ""\n\n	for _, chunk','total := "s"\n\n	for _, chunk',"C20/R1","fold-start")
m("C20","postfile-returns-other-path","x/filetree/keeper/msg_server_post_file.go",
  'return &types.MsgPostFileResponse{Path: fullMerklePath}, nil','return &types.MsgPostFileResponse{Path: msg.HashChild}, nil',"C20/R2","returned-path")
m("C20","postfile-address-swapped","x/filetree/keeper/msg_server_post_file.go",
  'fullMerklePath := types.AddToMerkle(msg.HashParent, msg.HashChild)','fullMerklePath := types.AddToMerkle(msg.HashChild, msg.HashParent)',"C20/R2","combiner-arguments")
m("C20","postfile-stores-parent-address","x/filetree/keeper/msg_server_post_file.go",
  'Address:        fullMerklePath,','Address:        msg.HashParent,',"C20/R2","stored-address")
m("C20","merklepath-sha512-step","x/filetree/types/merkle-paths.go",
  '		h1 := sha256.New()','		h1 := sha256.New224()',"C20/R1","fold-step")

# ---- C02
m("C02","verifier-leaf-separator","x/storage/types/file_deal.go",
  'fmt.Sprintf("%d%x", chunk, item)','fmt.Sprintf("%d:%x", chunk, item)',"C02/R1","leaf-encoding")
m("C02","builder-leaf-raw-bytes","x/storage/utils/trees.go",
  'hash.Write([]byte(fmt.Sprintf("%d%s", index, hexedData)))','hash.Write([]byte(fmt.Sprintf("%d%s", index, b)))\n\t\t_ = hexedData',"C02/R1","leaf-encoding")
m("C02","verifier-tree-hash-sha256","x/storage/types/file_deal.go",
  'merkletree.VerifyProofUsing(hashName, false, &proof, [][]byte{f.Merkle}, sha3.New512())','merkletree.VerifyProofUsing(hashName, false, &proof, [][]byte{f.Merkle}, sha3.New256())',"C02/R1","tree-hash")
m("C02","verifier-salted","x/storage/types/file_deal.go",
  'merkletree.VerifyProofUsing(hashName, false,','merkletree.VerifyProofUsing(hashName, true,',"C02/R1","salted-flag")
m("C02","draw-without-pieces-guard","x/storage/types/file_deal.go",
  """func (f *UnifiedFile) ResetChunkWithProof(ctx sdk.Context, proof *FileProof, chunkSize int64) error {
	pieces := f.FileSize / chunkSize
	d := f.FileSize % chunkSize
	if d == 0 { // handle edge case where there is exactly full chunks with no extra bits
		pieces--
	}
	var newChunk int64
	if pieces > 0 {""","""func (f *UnifiedFile) ResetChunkWithProof(ctx sdk.Context, proof *FileProof, chunkSize int64) error {
	pieces := f.FileSize / chunkSize
	d := f.FileSize % chunkSize
	if d == 0 { // handle edge case where there is exactly full chunks with no extra bits
		pieces--
	}
	var newChunk int64
	if pieces >= 0 {""","C02/R2","draw-bounded")
m("C02","chunksize-validator-allows-zero","x/storage/types/params.go",
  """func validateChunkSize(i interface{}) error {
	v, ok := i.(int64)
	if !ok {
		return fmt.Errorf("invalid parameter type: %T", i)
	}

	if v < 1 {""","""func validateChunkSize(i interface{}) error {
	v, ok := i.(int64)
	if !ok {
		return fmt.Errorf("invalid parameter type: %T", i)
	}

	if v < 0 {""","C02/R2","chunk-size-positive")
m("C02","chunksize-from-message","x/storage/keeper/msg_server_postproof.go",
  'chunkSize := k.GetParams(ctx).ChunkSize','chunkSize := k.GetParams(ctx).ChunkSize + msg.ToProve',"C02/R2","chunk-size-positive")
m("C02","remove-proven-prover","x/storage/keeper/rewards.go",
  'if !proven && !file.IsYoung(currentHeight) { // if file wasn\'t proven, and is old, we burn it.','if (!proven || found) && !file.IsYoung(currentHeight) { // if file wasn\'t proven, and is old, we burn it.',"C02/R3","rewards:removal-only-on-miss")
m("C02","burn-in-first-window","x/storage/keeper/rewards.go",
  'if !proven && !file.IsYoung(currentHeight) { // if file wasn\'t proven, and is old, we burn it.','if !proven { // if file wasn\'t proven, and is old, we burn it.',"C02/R3","rewards:burn-only-on-miss")

# ---- C06
m("C06","providerlist-unsorted","x/storage/keeper/rewards.go",
  '	slices.Sort(provers)\n	return provers','	_ = slices.Sort[[]string]\n	return provers',"C06/R2","providerList:map-range")
m("C06","pay-inside-map-range","x/storage/keeper/rewards.go",
  """	provers := providerList(sizeTracker)
	for _, prover := range provers { // loop through a sorted list of providers
		worth := (*sizeTracker)[prover]""","""	_ = providerList
	for prover, worth := range *sizeTracker { // loop through a sorted list of providers""","C06/R2","rewardAllProviders:map-range")
m("C06","rng-seed-removed","x/storage/types/file_deal.go",
  """		r := rand.NewRand()
		r.Seed(gs + h)
		newChunk = r.Int63n(pieces)
	}

	proof.ChunkToProve = newChunk

	return nil
}""","""		r := rand.NewRand()
		_ = gs + h
		newChunk = r.Int63n(pieces)
	}

	proof.ChunkToProve = newChunk

	return nil
}""","C06/R3","rng-unseeded")
m("C06","rng-seed-on-one-branch","x/storage/keeper/providers.go",
  """	providers = allowedProviders

	size := len(providers)

	rounds := Rounds * size

	i64Size := int64(size)

	r := rand.NewRand() // creating a new random generator to ensure no interference

	r.Seed(ctx.BlockHeight())
""","""	providers = allowedProviders

	size := len(providers)

	rounds := Rounds * size

	i64Size := int64(size)

	r := rand.NewRand() // creating a new random generator to ensure no interference

	if size > 3 {
		r.Seed(ctx.BlockHeight())
	}
""","C06/R3","GetActiveProviders:rng-unseeded")
m("C06","global-rand-draw","x/storage/keeper/msg_server_attest.go",
  'rand.Seed(ctx.BlockHeight())','rand.Seed(ctx.BlockHeight())\n	_ = rand.Int63n(10)',"C06/R1","global-rand")
m("C06","acl-json-by-ranging-map","x/filetree/keeper/msg_server_add_viewers.go",
  """	vaccbytes, err := json.Marshal(jvacc)
	if err != nil {
		return nil, types.ErrCantMarshall
	}
	newviewers := string(vaccbytes)""","""	newviewers := ""
	for kk, vv := range jvacc {
		newviewers += strings.Join([]string{kk, vv}, "=")
	}""","C06/R2","AddViewers:map-range")
m("C06","float-into-state","x/storage/keeper/msg_server_buy_storage.go",
  'fmt.Printf("POL: %d / %f\\n", params.PolRatio, pol.MustFloat64())','pf := pol.MustFloat64()\n	bytes = int64(float64(bytes) * (1 + pf - pf))',"C06/R4","BuyStorage:float-flow")
m("C06","plan-start-from-wallclock","x/storage/keeper/msg_server_buy_storage.go",
  'Start:          ctx.BlockTime(),','Start:          time.Now(),',"C06/R1","time.Now")
m("C06","goroutine-in-handler","x/oracle/keeper/msg_server_feeds.go",
  '	k.SetFeed(ctx, feed)\n\n	return &types.MsgUpdateFeedResponse{}, nil','	go k.SetFeed(ctx, feed)\n\n	return &types.MsgUpdateFeedResponse{}, nil',"C06/R1","go-statement")

# ---- C05
m("C05","network-share-unguarded","x/storage/keeper/rewards.go",
  """	if totalSize <= 0 { // no stored bytes to weigh rewards against, and nothing to divide by
		return
	}
""","","C05/R1","rewardAllProviders:quo","inverse of fix F4")
m("C05","checkwindow-validator-allows-zero","x/storage/types/params.go",
  """func validateCheckWindow(i interface{}) error {
	v, ok := i.(int64)
	if !ok {
		return fmt.Errorf("invalid parameter type: %T", i)
	}

	if v <= 1 {""","""func validateCheckWindow(i interface{}) error {
	v, ok := i.(int64)
	if !ok {
		return fmt.Errorf("invalid parameter type: %T", i)
	}

	if v < 0 {""","C05/R1","RunRewardBlock:div")
m("C05","proof-interval-from-message","x/storage/keeper/msg_server_post_file.go",
  'ProofInterval: window,','ProofInterval: window + msg.Expires,',"C05/R1","getRoundedWindow:div")
m("C05","emission-unclamped","x/jklmint/utils/mint.go",
  """	if mint < 0 { // the emission never goes below zero
		return 0
	}
	return mint""","""	return mint""","C05/R2","BlockMint:coin")
m("C05","postfile-size-unvalidated","x/storage/types/message_post_file.go",
  'if msg.FileSize <= 0 {','if msg.FileSize < -1 {',"C05/R3","postfile:unvalidated:FileSize")
m("C05","panic-in-reward-helper","x/storage/keeper/rewards.go",
  """	burned, err := strconv.ParseInt(prov.BurnedContracts, 10, 64)
	if err != nil {
		ctx.Logger().Error("cannot parse providers burn count")
		return
	}""","""	burned, err := strconv.ParseInt(prov.BurnedContracts, 10, 64)
	if err != nil {
		panic(err)
	}""","C05/R4","burnContract:explicit-panic")
m("C05","index-second-key-part","x/storage/keeper/rewards.go",
  'providerAddress := pks[0]','providerAddress := pks[1]',"C05/R5","manageProof:const-index:1")
m("C05","staker-share-subtracts","x/jklmint/keeper/mint.go",
  'stakerCoinValue := stakerRatio.MulInt64(mintTokens).TruncateInt64()','stakerCoinValue := stakerRatio.MulInt64(mintTokens).TruncateInt64() - 1',"C05/R2","mintStaker:coin")
m("C05","endblock-does-work","x/oracle/module.go",
  'func (am AppModule) EndBlock(_ sdk.Context, _ abci.RequestEndBlock) []abci.ValidatorUpdate {','func (am AppModule) EndBlock(ctx sdk.Context, _ abci.RequestEndBlock) []abci.ValidatorUpdate {\n	_ = am.keeper.GetAllFeeds(ctx)',"C05/R0","endblock:empty")
m("C05","mustnewdec-on-variable","x/storage/keeper/rewards.go",
  'networkValue := sdk.NewDec(totalSize)','networkValue := sdk.MustNewDecFromStr(fmt.Sprintf("%d", totalSize))',"C05/R4","MustNewDecFromStr")

# ---- mutants distilled from independent seeded changes (see /verif/seeded)
m("C04","referrer-compared-with-beneficiary","x/storage/keeper/msg_server_buy_storage.go",
  'if !(refAcc.String() == msg.Creator) {','if !refAcc.Equals(forAddress) {',"C04/R6","referrer-distinct-from-signer","seed C04-self-referral-via-foraddress")
m("C04","referred-without-resolution","x/storage/keeper/msg_server_buy_storage.go",
  """	if err == nil {
		if !(refAcc.String() == msg.Creator) {
			referred = true
		}
	}""","""	if !(refAcc.String() == msg.Creator) {
		referred = true
	}
	_ = err""","C04/R6","referrer-resolved")
from_patch("C09","seed-rebid-lookup-before-lowercase","seeded/C09-rebid-lookup-before-lowercase/patch.diff","C09/R3","lookup-key=written-key","seed")
from_patch("C03","seed-shared-prover-buffer","seeded/C03-shared-prover-buffer/patch.diff","C03/R5","iterated-list=file-list","seed")
from_patch("C08","seed-stale-listing-after-reregistration","seeded/C08-stale-listing-after-reregistration/patch.diff","C08/R1","rns.MsgBuy:listing-by-current-owner","seed")
m("C14","attest-refreshes-signer-proof","x/storage/keeper/msg_server_attest.go",
  'proof, err := deal.GetProver(ctx, k, form.Prover)','proof, err := deal.GetProver(ctx, k, creator)',"C14/R5","storage.MsgAttest:acts-on-form-prover","seed C01-attest-refreshes-attester")
m("C14","report-removes-signer","x/storage/keeper/msg_server_report.go",
  'deal.RemoveProver(ctx, k, prover)','deal.RemoveProver(ctx, k, creator)',"C14/R5","storage.MsgReport:acts-on-form-prover")
m("C07","plan-loaded-by-payer","x/storage/keeper/msg_server_buy_storage.go",
  'payInfo, found := k.GetStoragePaymentInfo(ctx, forAddress.String())','payInfo, found := k.GetStoragePaymentInfo(ctx, msg.Creator)',"C07/R4","loaded-plan=written-plan","seed C07-plan-loaded-by-payer")

exec(open(os.path.join(os.path.dirname(os.path.abspath(__file__)), 'extra.py')).read())

# the table is the corpus: entries written by an earlier run and no longer in it are removed
import glob as _glob
for _old in _glob.glob(os.path.join(os.path.dirname(os.path.abspath(__file__)), "C[0-9][0-9]", "*.json")):
    os.remove(_old)
for x in M:
    d = os.path.join(os.path.dirname(os.path.abspath(__file__)), x["property"])
    os.makedirs(d, exist_ok=True)
    json.dump(x, open(os.path.join(d, x["name"] + ".json"), "w"), indent=1)
print(len(M), "mutants")
