#!/usr/bin/env python3
"""usage: tools/patch2mutant.py <patch.diff> <prop> <out.json> — turns a patch into an overlay mutant (one edit per hunk) so that
it can be run through `jklcheck -mutant` without touching /repo."""
import json, sys
patch, prop, out = sys.argv[1:4]
edits=[]; cur=None; old=[]; new=[]; line=[0]
def flush():
    if cur and (old or new):
        edits.append(dict(file=cur, find="".join(old), replace="".join(new), line=line[0]))
for ln in open(patch):
    if ln.startswith("diff --git"):
        flush(); old=[]; new=[]; cur=None
    elif ln.startswith("+++ b/"):
        cur=ln[6:].strip()
    elif ln.startswith("--- ") or ln.startswith("index ") or ln.startswith("new file") or ln.startswith("deleted file"):
        pass
    elif ln.startswith("@@"):
        flush(); old=[]; new=[]
        line[0]=int(ln.split()[1].lstrip("-").split(",")[0])
    elif cur is not None:
        if ln.startswith("+"): new.append(ln[1:])
        elif ln.startswith("-"): old.append(ln[1:])
        elif ln.startswith(" "): old.append(ln[1:]); new.append(ln[1:])
flush()
json.dump(dict(property=prop, name="adhoc", file="", find="", replace="", edits=edits, expect_rule="", expect_construct="", note=""), open(out,"w"))
