#!/bin/bash
# usage: tools/run_all.sh [quick|thorough]   — runs every claimed check and prints a one-line verdict per property
cd "$(dirname "$0")/.."
TIER="${1:-quick}"
rc=0
for p in $(python3 -c "import json;print(' '.join(c['property_id'] for c in json.load(open('MANIFEST.json'))['checks']))"); do
  out=$(./check.sh $p $TIER 2>/dev/null); code=$?
  echo "$p exit=$code $(echo "$out" | tail -1)"
  echo "$out" | grep -E "^(VIOLATION|CHECKER-SELFTEST-FAILED)" | sed 's/^/    /'
  echo "$out" | grep -E "^  rule=" | cut -c1-220 | sed 's/^/    /'
  [ $code -ne 0 ] && rc=1
done
exit $rc
