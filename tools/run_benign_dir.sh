#!/bin/bash
# usage: tools/run_benign_dir.sh <dir-glob...>  — runs every refactor_*.diff in the given benign dirs through run_seed.sh
cd "$(dirname "$0")/.."
for d in "$@"; do
  for f in $d/refactor_*.diff; do
    echo "### $f"
    tools/run_seed.sh "$(realpath $f)" 2>&1 | grep -v '^done' | cut -c1-330
  done
done
