#!/bin/bash
# usage: tools/run_seed.sh <patch.diff>  — applies a seeded change to /repo, runs every quick check, reverts. Prints which rules fire.
cd "$(dirname "$0")/.."
PATCH="$1"
if ! git -C /repo diff --quiet; then echo "error: /repo has uncommitted changes"; exit 2; fi
git -C /repo apply "$PATCH" || { echo "error: patch does not apply"; exit 2; }
trap 'git -C /repo checkout -- . ; git -C /repo clean -fdq -- x app wasmbinding types 2>/dev/null' EXIT
for p in $(python3 -c "import json;print(' '.join(c['property_id'] for c in json.load(open('MANIFEST.json'))['checks']))"); do
  out=$(./check.sh $p quick 2>/dev/null); code=$?
  if [ $code -ne 0 ]; then
    echo "== $p exit=$code"
    echo "$out" | grep -E "^  rule=" | cut -c1-260
  fi
done
echo "done"
