#!/bin/bash
# thorough tier with a frozen copy of the checker binary (so that the sources can be edited meanwhile)
mkdir -p /tmp/frz2; cp /verif/checker/bin/jklcheck /tmp/frz2/jklcheck
cd /verif
for p in C01 C02 C03 C04 C05 C06 C07 C08 C09 C10 C11 C12 C13 C14 C15 C16 C17 C18 C19 C20; do
  out=$(/tmp/frz2/jklcheck -prop $p -tier thorough -repo /repo -verif /verif 2>/dev/null); code=$?
  echo "$p exit=$code $(echo "$out" | tail -1)"
  echo "$out" | grep -E "^(VIOLATION|CHECKER-SELFTEST-FAILED)" | sed 's/^/    /'
done
