#!/usr/bin/env python3
"""prints the markdown table of stored seeded changes (usage: seed_table.py [round2])"""
import json, os, sys
rnd = sys.argv[1] if len(sys.argv) > 1 else 'round1'
rows = []
for d in sorted(os.listdir('/verif/seeded')):
    m = json.load(open(os.path.join('/verif/seeded', d, 'meta.json')))
    note = m.get('checks', {}).get('note', '')
    this = 'round'+note[6] if note.startswith('round ') else 'round1'
    if this != rnd:
        continue
    cut = lambda s, n: (s[:n].rsplit(' ', 1)[0] + ' …') if len(s) > n else s
    rows.append('| %s | %s | %s | %s | %s | %s |' % (d, m['property'], cut(m['summary'].replace('|', '/').replace('\n', ' '), 230), cut(m['needs'].replace('|', '/').replace('\n', ' '), 200), m['checks']['caught_by'].replace('|', '/'), note.replace('round 2; ', '').replace('round 3; ', '').replace('round 4; ', '').replace('|', '/')))
print('| seed | written against | change | needs | caught by | first contact |')
print('|---|---|---|---|---|---|')
print('\n'.join(rows))
