#!/usr/bin/env python3
"""lists self-test corpus entries that were skipped or misbehaved in the last thorough runs (from evidence/*.json)"""
import json, glob
n = 0
for f in sorted(glob.glob('/verif/evidence/C*.json')):
    e = json.load(open(f))
    st = e['coverage'].get('selftest', [])
    n += len(st)
    for x in st:
        if x.split(': ',1)[-1].startswith('skipped') or 'FALSE ALARM' in x or 'DID NOT FIRE' in x or 'does not fire' in x.lower() or 'FAILED' in x:
            print(f.split('/')[-1], x[:200])
print(n, 'corpus entries run')
