#!/usr/bin/env python3
"""usage: store_seed.py <SEED dir> <name> <caught-by or 'MISSED'> [note]
Copies an independently produced, re-verified breaking change into /verif/seeded/<name>/."""
import json, os, shutil, sys, subprocess
src, name, caught = sys.argv[1], sys.argv[2], sys.argv[3]
note = sys.argv[4] if len(sys.argv) > 4 else ""
dst = os.path.join('/verif/seeded', name)
os.makedirs(dst, exist_ok=True)
shutil.copy(os.path.join(src, 'patch.diff'), os.path.join(dst, 'patch.diff'))
shutil.copy(os.path.join(src, 'demo_test.go.txt'), os.path.join(dst, 'demo_test.go.txt'))
m = json.load(open(os.path.join(src, 'meta.json')))
m['origin'] = 'written by an independent sub-agent given only the property text and its own scratch worktree (nothing from /verif)'
m['base_commit'] = subprocess.check_output(['git', '-C', '/repo', 'log', '--format=%h', '-1']).decode().strip()
m['reverified'] = {'how': 'tools/verify_seed.sh in a fresh scratch worktree of /repo: demo passes without the change; with the change the tree builds, `go test ./x/...` passes with the demo moved aside, and the demo fails', 'result': 'confirmed'}
m['checks'] = {'how': 'tools/run_seed.sh: git -C /repo apply patch.diff; every quick check; git -C /repo checkout -- .', 'caught_by': caught, 'note': note}
json.dump(m, open(os.path.join(dst, 'meta.json'), 'w'), indent=1)
print('stored', dst)
