#!/bin/bash
# usage: tools/try.sh <patch.diff> <prop>...  — applies the change to /repo, runs the named quick checks, reverts
cd "$(dirname "$0")/.."
PATCH="$(realpath $1)"; shift
if ! git -C /repo diff --quiet; then echo "error: /repo has uncommitted changes"; exit 2; fi
git -C /repo apply "$PATCH" || { echo "error: patch does not apply"; exit 2; }
trap 'git -C /repo checkout -- . ; git -C /repo clean -fdq -- x app wasmbinding types 2>/dev/null' EXIT
for p in "$@"; do
  out=$(./check.sh $p quick 2>&1); code=$?
  echo "== $p exit=$code"
  echo "$out" | grep -E "^  rule=|panic|^goroutine|\.go:[0-9]+ " | cut -c1-${W:-400}
done
