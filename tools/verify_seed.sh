#!/bin/bash
# usage: tools/verify_seed.sh <SEED dir with patch.diff, demo_test.go.txt, meta.json> <name>
# Confirms an independently produced breaking change in a fresh scratch worktree of /repo:
#   demo passes without the change; with the change: builds, existing tests of touched packages pass, demo fails.
set -u
SRC="$1"; NAME="$2"
export GOFLAGS=-mod=mod GOPROXY=off GOSUMDB=off GOTOOLCHAIN=local
WT=/tmp/vs_$NAME
git -C /repo worktree remove --force $WT 2>/dev/null
git -C /repo worktree add -q --detach $WT HEAD || exit 2
trap 'git -C /repo worktree remove --force '$WT' 2>/dev/null; git -C /repo worktree prune' EXIT
DEMO=$(python3 -c "import json;print(json.load(open('$SRC/meta.json'))['demo_test_path'])")
PKGDIR=$(dirname "$DEMO")
RUNPAT=$(grep -oE "func \(suite \*[A-Za-z]+\) (Test[A-Za-z0-9_]+)|^func (Test[A-Za-z0-9_]+)" "$SRC/demo_test.go.txt" | awk '{print $NF}' | sed 's/^func //' | paste -sd'|')
cd $WT
grep -v "^// *belongs in\|^// *file:" "$SRC/demo_test.go.txt" > "$DEMO"
SUITE=$(grep -oE "^func (Test[A-Za-z]+Suite)" $PKGDIR/*_test.go | head -1 | awk '{print $2}')
if grep -q "func (suite \*" "$DEMO"; then RUN="$SUITE/($RUNPAT)"; else RUN="$RUNPAT"; fi
echo "== demo WITHOUT change (expect PASS): go test ./$PKGDIR -run '$RUN'"
go test -count=1 ./$PKGDIR -run "$RUN" 2>&1 | tail -3
echo "== apply patch"
git apply "$SRC/patch.diff" || { echo "PATCH DOES NOT APPLY"; exit 2; }
git diff --stat | tail -3
echo "== build"
go build ./x/... ./app/... ./wasmbinding/... 2>&1 | tail -3
echo "== existing tests with change (demo moved aside)"
mv "$DEMO" /tmp/demo_$NAME.go.aside
PKGS=$(git diff --name-only | xargs -n1 dirname | sort -u | sed 's|^|./|' | tr '\n' ' ')
go test -count=1 $PKGS ./x/... 2>&1 | grep -v "no test files" | tail -16
mv /tmp/demo_$NAME.go.aside "$DEMO"
echo "== demo WITH change (expect FAIL)"
go test -count=1 ./$PKGDIR -run "$RUN" 2>&1 | grep -E "^(--- FAIL|--- PASS|ok|FAIL|panic)|Error:|expected|actual" | head -12
